"""C15 — saved iterations and saved simulations restore exactly what was saved.

E2, unmerged: after a fixed prefix that creates iteration 0 (in memory, or on disk), every sequence of operations over
{solve(level a), solve(level b), save iteration, change folder (""/A/B), restore iteration (0 / last), read stored iteration,
query a result for iteration 0, replace the mesh, Save + Load_Simu} up to depth 2 (quick) / 3 (thorough), for ten simulation
scenarios.  Prefix "back" (time-scheme scenarios) ends with the return to the elliptic algorithm (letter "ell"); "read stored iteration" (get0)
overwrites the arrays of the dict it was handed, the way the harness treats every array a getter hands out.  The harness keeps its own list of deep-copied snapshots taken at every save through public getters; the
invariants are evaluated after EVERY operation."""
from __future__ import annotations

import contextlib
import copy
import io
import itertools
import os
import shutil
import tempfile

import numpy as np

from mc.util import fp, viol
from zoo import meshes as Z

PROPERTY = "C15"

# "save_user": Save_Iter(info) with the documented optional dict, the SAME dict object updated and handed over at every call (load-loop idiom)
# "reset0": Set_Iter(0) with NO query afterwards (the queries of "set0" recompute lazily held fields and can mask a state that was not restored)
# "reslast": Result(name, iter=-1) = the results of the LAST stored iteration, wherever the simulation currently stands
# "get0": Get_results(0), and the reader USES what it was handed (every array of the returned dict, nested ones included, is overwritten in place
#         by the harness, as it does with every other array a getter hands out): a read must not reach the stored iteration, in memory or on disk
# "ell" (prefix "back" only): Solver_Set_Elliptic_Algorithm() after a transient history, the mirror image of "dyn"
OPS = ["solve_a", "solve_b", "save", "save_user", "reset0", "reslast", "folder0", "folderA", "folderB", "set0", "setlast", "get0", "res0", "replacemesh", "saveload"]
PREFIXES = {"init": ["save", "solve_a", "save"],  # iteration 0 = the initial state, saved before any solve; iteration 1 solved
            "mem": ["solve_a", "save"], "disk": ["folderA", "solve_a", "save"], "two": ["solve_a", "save", "solve_b", "save"],
            "twomesh": ["solve_a", "save", "replacemesh", "solve_b", "save"],
            # a static iteration, then the time scheme is switched on and a dynamic iteration is stored (scenarios that define to_dynamic)
            "mixed": ["solve_a", "save", "dyn", "solve_b", "save"],
            # two dynamic iterations, then the steady-state algorithm is selected again (scenarios that run a time scheme from the start)
            "back": ["solve_a", "save", "solve_b", "save", "ell"]}

# results that are rates of the time scheme.  Once the elliptic algorithm is selected the library's convention for a restored iteration is
# "the rates do not apply: zero" (Elastic, Thermal, Beam, HyperElastic): then a rate is accepted if it equals the saved one OR is zero everywhere,
# never the rate of another iteration
RATES = ("v", "a", "speed_norm", "accel_norm", "thermalDot")

MESHES = {
    "Q": lambda: Z.template_2d("QUAD4", [3, 2]),
    "T": lambda: Z.template_2d("TRI3", 2),
    "S1": lambda: Z.template_1d("SEG2", 3, L=1.2),
    "S2": lambda: Z.template_1d("SEG3", 2, L=1.2),
}


def _quiet():
    return contextlib.redirect_stdout(io.StringIO())


def _sides(key):
    zm = MESHES[key]()
    x = zm.coords[:, 0]
    return np.where(np.abs(x - x.min()) < 1e-9)[0], np.where(np.abs(x - x.max()) < 1e-9)[0]


def _use(obj):
    """what a reader may do with a stored iteration it was handed: overwrite, in place, every array of the dict (nested dicts / lists included)"""
    if isinstance(obj, dict):
        for x in list(obj.values()):
            _use(x)
    elif isinstance(obj, (list, tuple)):
        for x in obj:
            _use(x)
    elif isinstance(obj, np.ndarray) and obj.dtype.kind in "fc" and obj.flags.writeable and obj.size:
        obj[...] = -7.77


def _take(x):
    """copy of a queried array for the harness; the array handed out belongs to the caller, who may edit it in place (unit conversion,
    normalisation): the harness overwrites it, which must not reach the simulation or its stored iterations"""
    out = np.array(x, dtype=float)
    if isinstance(x, np.ndarray) and x.flags.writeable and x.size:
        x[...] = -7.77
    return out


class Scn:
    name = ""
    mesh0, mesh1 = "Q", "T"
    dynamic = False
    results: list = []
    levels = {"a": 0.02, "b": 0.045}

    def mesh(self, key):
        return MESHES[key]().build()

    def build(self, mesh):
        raise NotImplementedError

    def setup(self, simu):
        pass

    def load(self, simu, key, level):
        simu.Bc_Init()
        lo, hi = _sides(key)
        unk = simu.Get_unknowns()
        simu.add_dirichlet(lo, [0.0] * len(unk), unk)
        simu.add_dirichlet(hi, [self.levels[level]], [unk[0]])

    def solve(self, simu):
        with _quiet():
            simu.Solve()

    skip_ops: tuple = ("dyn",)

    def fields(self, simu):
        out = {}
        for pt in simu.Get_problemTypes():
            out[f"{pt}.u"] = _take(simu._Get_u_n(pt))
            if self.dynamic or hasattr(self, "to_dynamic"):
                out[f"{pt}.v"] = _take(simu._Get_v_n(pt))
                out[f"{pt}.a"] = _take(simu._Get_a_n(pt))
        return out

    def named(self, simu):
        out = {}
        for nm in self.results:
            r = simu.Result(nm, nodeValues=False)
            out[nm] = np.atleast_1d(_take(r))
        return out


class ElasticStatic(Scn):
    name = "elastic_static"
    results = ["Svm", "Wdef"]
    skip_ops = ()

    def to_dynamic(self, simu):
        simu.rho = 1.4
        simu.Solver_Set_Hyperbolic_Algorithm(0.1)

    def build(self, mesh):
        from EasyFEA import Models, Simulations

        return Simulations.Elastic(mesh, Models.Elastic.Isotropic(2, E=2.0, v=0.3, planeStress=True, thickness=0.7))


class ElasticNewmark(ElasticStatic):
    name = "elastic_newmark"
    dynamic = True
    results = ["Svm", "speed_norm", "accel_norm"]

    def setup(self, simu):
        simu.rho = 1.4
        simu.Solver_Set_Hyperbolic_Algorithm(0.1)


class ThermalStatic(Scn):
    """steady-state conduction that can be switched to the parabolic scheme (prefix 'mixed')"""
    name = "thermal_static"
    results = ["thermal"]
    skip_ops = ()

    def build(self, mesh):
        from EasyFEA import Models, Simulations

        return Simulations.Thermal(mesh, Models.Thermal(k=1.3, c=0.9, thickness=0.7))

    def to_dynamic(self, simu):
        simu.rho = 1.4
        simu.Solver_Set_Parabolic_Algorithm(0.1, 0.5)

    def load(self, simu, key, level):
        simu.Bc_Init()
        lo, hi = _sides(key)
        simu.add_dirichlet(lo, [0.0], ["t"])
        simu.add_dirichlet(hi, [self.levels[level] * 10], ["t"])

    def fields(self, simu):
        pt = simu.problemType
        return {f"{pt}.u": _take(simu._Get_u_n(pt)), f"{pt}.v": _take(simu._Get_v_n(pt))}

    def named(self, simu):
        return {nm: np.atleast_1d(_take(simu.Result(nm))) for nm in self.results}


class ThermalParabolic(Scn):
    name = "thermal_parabolic"
    results = ["thermal", "thermalDot"]
    dynamic = True

    def build(self, mesh):
        from EasyFEA import Models, Simulations

        return Simulations.Thermal(mesh, Models.Thermal(k=1.5, c=0.8, thickness=0.7))

    def setup(self, simu):
        simu.rho = 1.4
        simu.Solver_Set_Parabolic_Algorithm(0.1, 0.5)

    def fields(self, simu):
        pt = simu.problemType
        return {f"{pt}.u": _take(simu._Get_u_n(pt)), f"{pt}.v": _take(simu._Get_v_n(pt))}

    def named(self, simu):
        return {nm: np.atleast_1d(_take(simu.Result(nm))) for nm in self.results}


class BeamStatic(Scn):
    name = "beam_static"
    mesh0, mesh1 = "S1", "S2"
    # "Mz": an internal force, computed with the shape functions of the BEAM element groups (a plain SEGn group does not have them)
    results = ["displacement_norm", "Mz"]
    skip_ops = ()

    def to_dynamic(self, simu):
        simu.rho = 1.4
        simu.Solver_Set_Hyperbolic_Algorithm(0.1)

    def mesh(self, key):
        return MESHES[key]().build()

    def build(self, mesh):
        from EasyFEA import Models, Simulations
        from EasyFEA.Geoms import Domain, Line, Point

        with _quiet():
            sec = Domain(Point(-0.05, -0.08), Point(0.05, 0.08)).Mesh_2D()
        beam = Models.Beam.Isotropic(2, Line(Point(0, 0), Point(1.2, 0)), sec, 200.0, 0.3)
        self.beam = beam
        for g in mesh.Get_list_groupElem():
            g.Set_Tag(g.nodes, beam.name)
        return Simulations.Beam(mesh, Models.Beam.BeamStructure([beam]))

    def replacement(self, key):
        # a plain line mesh tagged with the beam's name, as the constructor takes it (the public mesh setter converts it to beam elements)
        mesh = MESHES[key]().build()
        for g in mesh.Get_list_groupElem():
            g.Set_Tag(g.nodes, self.beam.name)
        return mesh

    def load(self, simu, key, level):
        simu.Bc_Init()
        lo, hi = _sides(key)
        unk = simu.Get_unknowns()
        simu.add_dirichlet(lo, [0.0] * len(unk), unk)
        simu.add_neumann(hi, [self.levels[level]], ["y"])

    def named(self, simu):
        return {nm: np.atleast_1d(_take(simu.Result(nm, nodeValues=(nm in NODE_RESULTS)))) for nm in self.results}


class BeamNewmark(BeamStatic):
    name = "beam_newmark"
    dynamic = True
    skip_ops = ("dyn",)

    def setup(self, simu):
        simu.rho = 1.4
        simu.Solver_Set_Hyperbolic_Algorithm(0.1)


class PhaseFieldHistory(Scn):
    name = "phasefield_history"
    results = ["psiP", "damage"]
    solver = "History"
    levels = {"a": 0.012, "b": 0.03}  # level b loads further: the history field then exceeds psi+ of iteration 0

    def build(self, mesh):
        from EasyFEA import Models, Simulations

        mat = Models.Elastic.Isotropic(2, E=2.0, v=0.3, planeStress=False, thickness=0.7)
        pfm = Models.PhaseField(mat, Models.PhaseField.SplitType.Amor, Models.PhaseField.ReguType.AT2, Gc=1.0e-3, l0=0.35,
                                solver=getattr(Models.PhaseField.SolverType, self.solver))
        return Simulations.PhaseField(mesh, pfm)

    def load(self, simu, key, level):
        simu.Bc_Init()
        lo, hi = _sides(key)
        simu.add_dirichlet(lo, [0.0, 0.0], ["x", "y"])
        simu.add_dirichlet(hi, [self.levels[level]], ["x"])

    def named(self, simu):
        out = {"psiP": np.atleast_1d(_take(simu.Result("psiP", nodeValues=False))),
               "damage": np.atleast_1d(_take(simu.Result("damage"))),
               # matrix-based scalar results (use the assembled K_u(d) / K_d of the current state)
               "Wdef": np.atleast_1d(_take(simu.Result("Wdef"))),
               "Psi_Crack": np.atleast_1d(_take(simu.Result("Psi_Crack")))}
        return out


class PhaseFieldHistoryDamage(PhaseFieldHistory):
    name = "phasefield_historydamage"
    solver = "HistoryDamage"
    results = ["damage"]

    def named(self, simu):
        return {"damage": np.atleast_1d(_take(simu.Result("damage"))),
                "Wdef": np.atleast_1d(_take(simu.Result("Wdef"))),
                "Psi_Crack": np.atleast_1d(_take(simu.Result("Psi_Crack")))}


class InElasticScn(Scn):
    name = "inelastic"
    results = ["Svm", "p"]
    levels = {"a": 0.06, "b": 0.02}

    def build(self, mesh):
        from EasyFEA import Models, Simulations

        el = Models.Elastic.Isotropic(3, E=2.0, v=0.3)
        beh = Models.InElastic.Behavior(2, el, yieldSurface=Models.InElastic.Yield.VonMises(0.05),
                                        hardening=Models.InElastic.IsotropicHardening.Linear(0.2), planeStress=False, thickness=0.7)
        simu = Simulations.InElastic(mesh, beh)
        self._names = [n for n in simu.Results_Available() if n in ("p", "alpha")]
        return simu

    def named(self, simu):
        out = {"Svm": np.atleast_1d(_take(simu.Result("Svm", nodeValues=False)))}
        for n in self._names:
            out[n] = np.atleast_1d(_take(simu.Result(n, nodeValues=False)))
        return out


class HyperScn(Scn):
    name = "hyperelastic"
    results = []
    levels = {"a": 0.02, "b": 0.045}
    skip_ops = ()

    def to_dynamic(self, simu):
        from EasyFEA import AlgoType

        simu.rho = 1.4
        simu.Solver_Set_Hyperbolic_Algorithm(0.05, algo=AlgoType.midpoint)

    def build(self, mesh):
        from EasyFEA import Models, Simulations

        return Simulations.HyperElastic(mesh, Models.HyperElastic.NeoHookean(2, K=3.0, thickness=0.7))

    def named(self, simu):
        names = [n for n in ("Svm", "W") if n in simu.Results_Available()]
        return {n: np.atleast_1d(_take(simu.Result(n, nodeValues=False))) for n in names}


class WeakFormScn(Scn):
    name = "weakforms"
    results = ["u"]

    def build(self, mesh):
        from EasyFEA import Models, Simulations
        from EasyFEA.FEM import BiLinearForm, Field

        field = Field(mesh.groupElem, 1)
        k = BiLinearForm(_wf_k)
        return Simulations.WeakForms(mesh, Models.WeakForms(field, computeK=k))

    def named(self, simu):
        return {"u": np.atleast_1d(_take(simu.Result("u")))}

    # the weak-form model owns the Field, which is bound to the element group of the mesh it was created on:
    # replacing the mesh of such a simulation requires a new model and is not an operation of this scenario
    skip_ops = ("replacemesh", "dyn")


def _wf_k(u, v):
    return u.grad.dot(v.grad)


def _wf_c(u, v):
    return 0.6 * u.dot(v)


def _wf_m(u, v):
    return 0.9 * u.dot(v)


def _decorated_forms():
    from EasyFEA.FEM import BiLinearForm

    @BiLinearForm
    def k_form(u, v):
        return u.grad.dot(v.grad)

    return k_form


try:  # module-level decorated form, the way the library's examples and tests write them
    from EasyFEA.FEM import BiLinearForm as _BLF

    @_BLF
    def _wf_k_decorated(u, v):
        return u.grad.dot(v.grad)
except Exception:  # pragma: no cover
    _wf_k_decorated = None


class WeakFormDecorated(WeakFormScn):
    """the same static weak form written with the @BiLinearForm decorator at module level (how every example of the library writes it)"""
    name = "weakforms_decorated"

    def build(self, mesh):
        from EasyFEA import Models, Simulations
        from EasyFEA.FEM import Field

        return Simulations.WeakForms(mesh, Models.WeakForms(Field(mesh.groupElem, 1), computeK=_wf_k_decorated))


class WeakFormParabolic(WeakFormScn):
    """the same user forms with a capacity form, run with the parabolic scheme (u and its rate are the state)"""
    name = "weakforms_parabolic"
    dynamic = True
    results = ["u", "v"]

    def build(self, mesh):
        from EasyFEA import Models, Simulations
        from EasyFEA.FEM import BiLinearForm, Field

        field = Field(mesh.groupElem, 1)
        return Simulations.WeakForms(mesh, Models.WeakForms(field, computeK=BiLinearForm(_wf_k), computeC=BiLinearForm(_wf_c), computeM=BiLinearForm(_wf_m)))

    def setup(self, simu):
        simu.Solver_Set_Parabolic_Algorithm(0.1, 0.5)

    def fields(self, simu):
        pt = simu.problemType
        return {f"{pt}.u": _take(simu._Get_u_n(pt)), f"{pt}.v": _take(simu._Get_v_n(pt))}

    def named(self, simu):
        return {nm: np.atleast_1d(_take(simu.Result(nm))) for nm in self.results}


class WeakFormMixed(WeakFormParabolic):
    """steady state first (elliptic), then the parabolic scheme is switched on (prefix mixed): the stored iterations hold different fields"""
    name = "weakforms_mixed"
    dynamic = False
    results = ["u"]
    skip_ops = ("replacemesh",)

    def setup(self, simu):
        pass

    def to_dynamic(self, simu):
        simu.Solver_Set_Parabolic_Algorithm(0.1, 0.5)


class WeakFormHyperbolic(WeakFormParabolic):
    name = "weakforms_hyperbolic"
    results = ["u", "v", "a"]

    def setup(self, simu):
        simu.Solver_Set_Hyperbolic_Algorithm(0.1)

    def fields(self, simu):
        pt = simu.problemType
        return {f"{pt}.u": _take(simu._Get_u_n(pt)), f"{pt}.v": _take(simu._Get_v_n(pt)), f"{pt}.a": _take(simu._Get_a_n(pt))}


SCENARIOS = {s.name: s for s in (ElasticStatic, ElasticNewmark, ThermalStatic, ThermalParabolic, BeamStatic, BeamNewmark, PhaseFieldHistory,
                                 PhaseFieldHistoryDamage, InElasticScn, HyperScn, WeakFormScn, WeakFormParabolic, WeakFormHyperbolic, WeakFormMixed, WeakFormDecorated)}


NODE_RESULTS = ("damage", "thermal", "thermalDot", "u", "v", "a", "displacement_norm", "Wdef", "Psi_Crack")  # queried with nodeValues=True

MESH_OPS = ["save", "translate", "rotate", "symmetry", "settag", "partition"]


def _mesh_cases(tier):
    """Mesh.Save / Load_Mesh round trip: element type x source x every sequence of <= 2 operations before the save."""
    out = []
    ets = Z.TYPES_2D + Z.TYPES_3D if tier == "thorough" else ["TRI3", "TRI6", "QUAD4", "QUAD9", "TETRA4", "TETRA10", "HEXA8", "PRISM6", "PRISM15"]
    for et in ets:
        for src in ("gmsh", "template", "mixed"):
            if src == "mixed" and et not in ("TRI3", "TRI6", "PRISM6"):
                continue
            for seq in [()] + [(a,) for a in MESH_OPS[1:]] + [(a, b) for a in MESH_OPS[1:] for b in MESH_OPS[1:] if a != b]:
                out.append({"kind": "meshio", "elemType": et, "src": src, "ops": list(seq)})
    return out


def _run_meshio(case):
    from EasyFEA.FEM import Mesher
    from EasyFEA.FEM._mesh import Load_Mesh

    et, src = case["elemType"], case["src"]
    d = Z.dim_of(et)
    tmp = tempfile.mkdtemp(prefix="c15m_")
    try:
        if src == "gmsh":
            mesh = Z.gmsh_2d(et, "quad", h=0.6)[0] if d == 2 else Z.gmsh_3d(et, "quad", h=0.7)[0]
        elif src == "template":
            mesh = (Z.template_2d(et, 2, distort=True) if d == 2 else Z.template_3d(et, 1)).build()
        else:
            mix = {"TRI3": ("TRI3", "QUAD4"), "TRI6": ("TRI6", "QUAD9"), "PRISM6": ("PRISM6", "HEXA8")}[et]
            mesh = (Z.template_2d(mix, 2) if d == 2 else Z.template_3d(mix, (2, 1, 1))).build()
        key = dict(elemType=et, src=src, ops="+".join(case["ops"]))
        for op in case["ops"]:
            if op == "translate":
                mesh.Translate(0.3, -0.2, 0.1 if mesh.inDim == 3 else 0.0)
            elif op == "rotate":
                mesh.Rotate(40.0, (0.1, 0.2, 0.0), (0, 0, 1))
            elif op == "symmetry":
                mesh.Symmetry((0.2, 0.0, 0.0), (1.0, 0.3, 0.0))
            elif op == "settag":
                x = mesh.coord[:, 0]
                mesh.Set_Tag(np.where(x <= np.median(x))[0], "userTag")
            elif op == "partition":
                pass  # serial: the partition data of every group is the trivial one; it must survive the round trip
        with _quiet():
            path = mesh.Save(os.path.join(tmp, "m"), "themesh")
        other = Load_Mesh(path)
        v = []
        if other.Nn != mesh.Nn or not _eq(np.array(other.coord), np.array(mesh.coord)):
            v.append(viol("mesh_load_coords", f"{et}/{src} after {case['ops']}: loaded coordinates differ", **key))
        for dd in range(1, 4):
            o0 = [g.elemType.name for g in mesh.Get_list_groupElem(dd)]
            o1 = [g.elemType.name for g in other.Get_list_groupElem(dd)]
            if o0 != o1:
                # the element numbering of a mesh (mesh.Ne, element results) follows this order
                v.append(viol("mesh_load_group_order", f"{et}/{src}: groups of dimension {dd} come back in another order: saved {o0}, loaded {o1}", **key))
        if set(k.name for k in other.dict_groupElem) != set(k.name for k in mesh.dict_groupElem):
            v.append(viol("mesh_load_groups", f"{et}/{src}: groups {sorted(k.name for k in other.dict_groupElem)} vs {sorted(k.name for k in mesh.dict_groupElem)}", **key))
        else:
            for k, g in mesh.dict_groupElem.items():
                g1 = other.dict_groupElem[k]
                if not _eq(np.array(g.connect), np.array(g1.connect)):
                    v.append(viol("mesh_load_connect", f"{et}/{src}: connectivity of group {k.name} differs", group=k.name, **key))
                    continue
                if sorted(g.nodeTags) != sorted(g1.nodeTags) or any(not _eq(np.sort(g.Get_Nodes_Tag(t)), np.sort(g1.Get_Nodes_Tag(t))) for t in g.nodeTags):
                    v.append(viol("mesh_load_node_tags", f"{et}/{src}: node tags of group {k.name} differ: {sorted(g.nodeTags)} vs {sorted(g1.nodeTags)}", group=k.name, **key))
                if sorted(g.elementTags) != sorted(g1.elementTags) or any(
                        not _eq(np.sort(g.Get_Elements_Tag(t)), np.sort(g1.Get_Elements_Tag(t))) for t in g.elementTags if t in g1.elementTags):
                    bad = [t for t in sorted(set(g.elementTags) | set(g1.elementTags))
                           if t not in g.elementTags or t not in g1.elementTags or not _eq(np.sort(g.Get_Elements_Tag(t)), np.sort(g1.Get_Elements_Tag(t)))]
                    v.append(viol("mesh_load_element_tags", f"{et}/{src}: element tags of group {k.name} differ for {bad[:4]} "
                                                            f"(saved {sorted(g.elementTags)[:6]}, loaded {sorted(g1.elementTags)[:6]})", group=k.name, **key))
                for i, (a, b) in enumerate(zip(g._Get_partitioned_data(), g1._Get_partitioned_data())):
                    if not _eq(np.asarray(a), np.asarray(b)):
                        v.append(viol("mesh_load_partition", f"{et}/{src}: partition data item {i} of group {k.name} differs", group=k.name, **key))
                        break
        meas = other.area if d == 2 else other.volume
        meas0 = mesh.area if d == 2 else mesh.volume
        if abs(meas - meas0) > 1e-13 * abs(meas0):
            v.append(viol("mesh_load_measure", f"{et}/{src}: measure {meas!r} vs {meas0!r}", **key))
        return {"violations": v[:6], "fingerprint": fp(et, src, case["ops"], np.array(mesh.coord)), "nontrivial": True, "transitions": len(case["ops"]) + 2}
    finally:
        shutil.rmtree(tmp, ignore_errors=True)


def _skips(name):
    """operations that are not part of a scenario: its own list, and "ell" (back to the steady-state algorithm) unless it runs a time scheme"""
    cls = SCENARIOS[name]
    return tuple(getattr(cls, "skip_ops", ())) + (() if cls.dynamic else ("ell",))


def cases(tier, seed):
    out = _mesh_cases(tier)
    depth = 2 if tier == "quick" else 3
    for name in SCENARIOS:
        for pre in PREFIXES:
            if any(o in _skips(name) for o in PREFIXES[pre]):
                continue
            for d in range(1, depth + 1):
                for seq in itertools.product(OPS, repeat=d):
                    if any(o in _skips(name) for o in seq):
                        continue
                    out.append({"scn": name, "prefix": pre, "ops": list(seq)})
    if tier == "quick":
        # folder / reload / restore interplay one step deeper on the two-mesh history (reduced alphabet)
        sub = ["saveload", "folderA", "folderB", "set0", "setlast"]
        for name in SCENARIOS:
            if any(o in _skips(name) for o in PREFIXES["twomesh"]):
                continue
            for seq in itertools.product(sub, repeat=3):
                out.append({"scn": name, "prefix": "twomesh", "ops": list(seq)})
            # histories that go BACK to an earlier mesh, store there, and move on to a further mesh (reduced alphabet, length 3)
            if "replacemesh" not in _skips(name):
                for seq in itertools.product(["set0", "save", "replacemesh"], repeat=3):
                    out.append({"scn": name, "prefix": "twomesh", "ops": list(seq)})
    return out


def describe(tier, seed):
    depth = 2 if tier == "quick" else 3
    return {
        "rule": f"E2 unmerged: {len(SCENARIOS)} simulation scenarios (elastic static / Newmark, thermal static / parabolic, beam static / Newmark, phase-field History / HistoryDamage, inelastic, hyperelastic, user weak forms static / parabolic / hyperbolic) x {len(PREFIXES)} prefixes (static iteration followed by a dynamic one / two dynamic iterations followed by the return to the elliptic algorithm [letter ell, time-scheme scenarios only] / iteration 0 = initial state saved before any solve / iteration 0 kept in memory / written to disk / two stored iterations / two iterations on two meshes) x every sequence of the {len(OPS)} operations "
                f"of length 1..{depth}; after every operation: every stored iteration still equals the snapshot taken when it was saved, reading a stored iteration "
                "leaves the live state and the count unchanged - also when the reader overwrites, in place, the arrays of the dict it was handed (get0) -, a restore brings back the fields, mesh and internal variables of the snapshot, "
                "Result(name, iter=0) equals the value recorded at save time, Load_Simu(Save()) has the same mesh, tags, count and stored iterations. "
                "non-trivial = at least two stored iterations or one restore; distinct = fingerprint of all observations",
        "exhaustive": True,
        "bound": f"depth {depth} after the prefix" + ("; depth 3 over {saveload, folderA, folderB, set0, setlast} and over {set0, save, replacemesh} after the two-mesh prefix" if tier == "quick" else "") + "; at the end of every history holding two meshes, every stored iteration is restored in turn",
        "alphabet": {"ops": len(OPS), "scenarios": len(SCENARIOS), "prefixes": len(PREFIXES)},
        "assumptions": ["Result(name, iter=i) is documented to restore iteration i: treated as restore-then-query",
                        "velocity/acceleration are demanded only for scenarios whose time scheme uses them",
                        "after the return to the elliptic algorithm (prefix back) a restored rate (v, a, speed, accel, thermalDot) must equal the saved one or be zero "
                        "everywhere (the convention of Elastic / Thermal / Beam / HyperElastic); the rate of another iteration is a violation",
                        "every array handed out by a getter, the arrays of the dict returned by Get_results(0) included, belongs to the caller: the harness overwrites it",
                        "beam scenarios query an internal force (Mz), which needs the beam element groups",
                        "scratch folders under a per-case mkdtemp, removed afterwards",
                        "exact (bitwise) equality for stored entries, 1e-12 relative for restored fields and results"],
    }


def _eq(a, b, tol=0.0):
    if isinstance(a, dict) and isinstance(b, dict):
        if set(a) != set(b):
            return False
        return all(_eq(a[k], b[k], tol) for k in a)
    if isinstance(a, (list, tuple)) and isinstance(b, (list, tuple)):
        return len(a) == len(b) and all(_eq(x, y, tol) for x, y in zip(a, b))
    if isinstance(a, np.ndarray) or isinstance(b, np.ndarray) or hasattr(a, "__array__") or hasattr(b, "__array__"):
        try:
            x, y = np.asarray(a), np.asarray(b)
        except Exception:
            return a is b
        if x.shape != y.shape:
            return False
        if x.dtype.kind in "fc" or y.dtype.kind in "fc":
            if tol == 0.0:
                return bool(np.array_equal(x, y, equal_nan=True))
            sc = max(np.abs(x).max(initial=0.0), np.abs(y).max(initial=0.0), 1e-300)
            return bool(np.abs(x - y).max(initial=0.0) <= tol * sc)
        return bool(np.array_equal(x, y))
    if isinstance(a, float) and isinstance(b, float):
        return a == b or (a != a and b != b) or (tol > 0 and abs(a - b) <= tol * max(abs(a), abs(b), 1e-300))
    return a == b


def _strip(res):
    """stored iteration dict without wall-clock entries"""
    return {k: v for k, v in res.items() if k not in ("timeIter",)}


def run_case(case):
    if case.get("kind") == "meshio":
        return _run_meshio(case)
    scn = SCENARIOS[case["scn"]]()
    tmp = tempfile.mkdtemp(prefix="c15_")
    try:
        return _run(case, scn, tmp)
    finally:
        shutil.rmtree(tmp, ignore_errors=True)


def _run(case, scn, tmp):
    from EasyFEA.Simulations import Load_Simu

    key = scn.mesh0
    simu = scn.build(scn.mesh(key))
    scn.setup(simu)
    meshkeys = {id(simu.mesh): key}
    snaps = []
    v, obsfp, ntr = [], [], 0
    k0 = dict(scn=case["scn"], prefix=case["prefix"])
    done = []
    nrestore = 0

    def check_stored(where, kk):
        """I1 + I2: every stored iteration equals its snapshot; reading is pure."""
        out = []
        if simu.Niter != len(snaps):
            out.append(viol("niter", f"{where}: Niter = {simu.Niter} but {len(snaps)} iterations were saved", **kk))
            return out
        before = scn.fields(simu)
        for i, s in enumerate(snaps):
            try:
                r = simu.Get_results(i)
                rneg = simu.Get_results(i - len(snaps))  # the same entry addressed from the end
            except Exception as err:
                out.append(viol("stored_unreadable", f"{where}: Get_results({i}) raised {type(err).__name__}: {err}", **kk))
                continue
            if not _eq(_strip(rneg), _strip(r)):
                out.append(viol("stored_negative_index", f"{where}: Get_results({i - len(snaps)}) differs from Get_results({i})", **kk))
            if not _eq(_strip(r), _strip(s["stored"])):
                bad = [k for k in s["stored"] if k in r and not _eq(r[k], s["stored"][k])] + [k for k in set(r) ^ set(s["stored"])]
                out.append(viol("stored_changed", f"{where}: stored iteration {i} differs from what was stored when it was saved (keys {bad[:4]})",
                                field=str(sorted(set(map(str, bad)))[:1]), **kk))
        after = scn.fields(simu)
        if not _eq(before, after) or simu.Niter != len(snaps):
            out.append(viol("read_not_pure", f"{where}: reading stored iterations changed the live state", **kk))
        return out

    user_info = {}
    elliptic = [False]  # the steady-state algorithm was selected after a transient history

    def same_rate(name, got, ref, tol):
        """got == ref; for a rate restored while the elliptic algorithm is selected: got == ref or got == 0 (see RATES)"""
        if _eq(got, ref, tol):
            return True
        return bool(elliptic[0] and name.split(".")[-1] in RATES and got is not None and np.shape(got) == np.shape(ref) and not np.any(got))

    pending = [None]  # index of the iteration restored last, as long as nothing changed the state since

    def apply(op):
        nonlocal key, simu, nrestore
        if op in ("solve_a", "solve_b", "replacemesh", "dyn", "saveload"):
            pending[0] = None
        kk = dict(k0, ops="+".join(done))
        out = []
        if op in ("solve_a", "solve_b"):
            scn.load(simu, key, op[-1])
            scn.solve(simu)
        elif op in ("save", "save_user"):
            if op == "save":
                simu.Save_Iter()
            else:
                user_info["step"] = float(len(done))
                simu.Save_Iter(user_info)
            snaps.append({"fields": scn.fields(simu), "named": scn.named(simu), "stored": copy.deepcopy(simu.Get_results(-1)),
                          "coords": np.array(simu.mesh.coord), "Nn": simu.mesh.Nn, "mesh": key})
            if pending[0] is not None:
                # a restored iteration saved again without any solve in between: the new entry stores the state of the restored one
                src, new = snaps[pending[0]], snaps[-1]
                skip = ("timeIter", "indexMesh", "step", "Niter", "convIter", "newtonIter", "list_norm_r")
                a = {k: v for k, v in _strip(new["stored"]).items() if k not in skip}
                b = {k: v for k, v in _strip(src["stored"]).items() if k not in skip}
                def same(x, y):
                    # an empty history field (nothing computed yet) and an all-zero one are the same state
                    if isinstance(x, np.ndarray) and isinstance(y, np.ndarray) and (x.size == 0 or y.size == 0):
                        return not np.any(x) and not np.any(y)
                    return _eq(x, y)

                bad = [k for k in b if k in a and not same(a[k], b[k])]  # (a scheme switched in between may add keys: speed, accel)
                if bad:
                    out.append(viol("resave_differs", f"after {done}: iteration {pending[0]} was restored and saved again without a solve, but the new stored "
                                                      f"iteration differs from it (keys {sorted(map(str, bad))[:4]})", field=str(sorted(map(str, bad))[:1]), **kk))
                for name in src["named"]:
                    if not same_rate(name, new["named"].get(name), src["named"][name], 1e-10):
                        out.append(viol("resave_differs", f"after {done}: result {name} of the re-saved iteration differs from the restored iteration {pending[0]}",
                                        field=name, **kk))
        elif op == "dyn":
            scn.to_dynamic(simu)
        elif op == "ell":
            simu.Solver_Set_Elliptic_Algorithm()
            elliptic[0] = True
        elif op.startswith("folder"):
            simu.folder = {"folder0": "", "folderA": os.path.join(tmp, "A"), "folderB": os.path.join(tmp, "B")}[op]
        elif op in ("set0", "setlast"):
            if not snaps:
                return out
            i = 0 if op == "set0" else len(snaps) - 1
            simu.Set_Iter(0 if op == "set0" else -1)  # the last iteration is addressed the default way (-1)
            nrestore += 1
            pending[0] = i
            s = snaps[i]
            key = s["mesh"]
            if simu.mesh.Nn != s["Nn"] or not _eq(np.array(simu.mesh.coord), s["coords"]):
                out.append(viol("restore_mesh", f"after {done}: Set_Iter({i}) did not bring back the mesh of iteration {i}", **kk))
                return out
            f = scn.fields(simu)
            for name in s["fields"]:
                if not same_rate(name, f.get(name), s["fields"][name], 1e-12):
                    out.append(viol("restore_field", f"after {done}: Set_Iter({i}): live field {name} differs from the one current when iteration {i} was saved",
                                    field=name.split(".")[-1], **kk))
            nm = scn.named(simu)
            for name in s["named"]:
                if not same_rate(name, nm.get(name), s["named"][name], 1e-10):
                    a, b = np.asarray(nm.get(name)), s["named"][name]
                    out.append(viol("restore_internal", f"after {done}: Set_Iter({i}): result {name} = {np.ravel(a)[:3]}... but {np.ravel(b)[:3]}... when iteration {i} was saved",
                                    result=name, **kk))
        elif op == "reset0":
            if snaps:
                simu.Set_Iter(0)
                nrestore += 1
                pending[0] = 0
                key = snaps[0]["mesh"]
        elif op == "get0":
            if snaps:
                _use(simu.Get_results(0))
                again = simu.Get_results(0)
                if not _eq(_strip(again), _strip(snaps[0]["stored"])):
                    bad = sorted(str(k) for k in snaps[0]["stored"] if k in again and not _eq(again[k], snaps[0]["stored"][k]))
                    out.append(viol("stored_aliased", f"after {done}: the arrays of the dict returned by Get_results(0) were overwritten by the reader and the stored "
                                                      f"iteration 0 changed with them (keys {bad[:4]})", field=str(bad[:1]), **kk))
        elif op in ("res0", "reslast"):
            if not snaps:
                return out
            it = 0 if op == "res0" else -1
            s = snaps[it]
            for name in s["named"]:
                try:
                    r = np.atleast_1d(_take(simu.Result(name, nodeValues=(name in NODE_RESULTS), iter=it)))
                except Exception as err:
                    out.append(viol("result_iter_raises", f"after {done}: Result({name!r}, iter={it}) raised {type(err).__name__}: {err}", result=name,
                                    exc=type(err).__name__, saved_to_disk=("saveload" in done[:-1]), two_meshes=("replacemesh" in done), **kk))
                    continue
                if not same_rate(name, r, s["named"][name], 1e-10):
                    out.append(viol("result_iter", f"after {done}: Result({name!r}, iter={it}) differs from the value obtained when that iteration was saved", result=name, **kk))
            nrestore += 1
            pending[0] = (len(snaps) - 1) if it == -1 else 0
            key = s["mesh"]
        elif op == "replacemesh":
            key = scn.mesh1 if key == scn.mesh0 else scn.mesh0
            newmesh = scn.replacement(key) if hasattr(scn, "replacement") else scn.mesh(key)
            nrep = done.count("replacemesh")
            if nrep >= 2:
                # a mesh kind that comes back is not a twin of its earlier instance: the body is 1.3 % (2.6 %, ...) larger each time, so that an
                # iteration restored onto the wrong instance of the list of meshes is seen
                newmesh.coord = np.asarray(newmesh.coord, dtype=float) * (1.0 + 0.013 * (nrep - 1))
            simu.mesh = newmesh
        elif op == "saveload":
            folder = os.path.join(tmp, "S%d" % len(done))
            if "saveload" in done[:-1]:
                # a results folder that already holds the mesh files of ANOTHER run (same file names, other mesh)
                decoy = scn.mesh(scn.mesh1 if key == scn.mesh0 else scn.mesh0)
                decoy.Translate(0.77, 0.33, 0.0)
                with _quiet():
                    for i in range(4):
                        decoy.Save(os.path.join(folder, "Meshes"), f"mesh{i}")
            try:
                with _quiet():
                    simu.Save(folder)
                    other = Load_Simu(folder)
            except Exception as err:
                out.append(viol("save_load_raises", f"after {done}: Save/Load_Simu raised {type(err).__name__}: {str(err)[:200]}", **kk))
                return out
            if other is None:
                out.append(viol("save_load_raises", f"after {done}: Load_Simu returned None", **kk))
                return out
            m0, m1 = simu.mesh, other.mesh
            if m0.Nn != m1.Nn or not _eq(np.array(m0.coord), np.array(m1.coord)):
                out.append(viol("load_mesh", f"after {done}: loaded simulation has a different mesh", **kk))
            else:
                for et, g in m0.dict_groupElem.items():
                    g1 = m1.dict_groupElem.get(et)
                    if g1 is None or not _eq(np.array(g.connect), np.array(g1.connect)):
                        out.append(viol("load_mesh", f"after {done}: loaded mesh group {et} differs", **kk))
                        break
                    if sorted(g.nodeTags) != sorted(g1.nodeTags) or sorted(g.elementTags) != sorted(g1.elementTags):
                        out.append(viol("load_tags", f"after {done}: loaded mesh group {et} lost tags", **kk))
                        break
            if other.Niter != simu.Niter:
                out.append(viol("load_niter", f"after {done}: loaded Niter {other.Niter} != {simu.Niter}", **kk))
            else:
                for i, s in enumerate(snaps):
                    try:
                        r = other.Get_results(i)
                    except Exception as err:
                        out.append(viol("load_results", f"after {done}: loaded simulation cannot read iteration {i}: {type(err).__name__}: {str(err)[:120]}", **kk))
                        break
                    if not _eq(_strip(r), _strip(s["stored"])):
                        out.append(viol("load_results", f"after {done}: loaded simulation's iteration {i} differs from the saved one", **kk))
                        break
            if not _eq(scn.fields(other), scn.fields(simu)):
                out.append(viol("load_state", f"after {done}: loaded simulation's current fields differ", **kk))
            if not out and not (hasattr(scn, "replacement") and "replacemesh" in done):
                for i, s in enumerate(snaps):
                    try:
                        other.Set_Iter(i)
                    except Exception as err:
                        out.append(viol("load_restore_raises", f"after {done}: loaded simulation: Set_Iter({i}) raised {type(err).__name__}: {str(err)[:120]}", **kk))
                        break
                    if other.mesh.Nn != s["Nn"] or not _eq(np.array(other.mesh.coord), s["coords"]):
                        out.append(viol("load_restore_mesh", f"after {done}: loaded simulation: Set_Iter({i}) does not bring back the mesh of iteration {i}", **kk))
                        break
        return out

    for op in PREFIXES[case["prefix"]] + case["ops"]:
        done.append(op)
        try:
            vv = apply(op)
        except Exception as err:  # every operation of the alphabet is legal at every point of a history: a result is promised
            import traceback

            vv = [viol("operation_raises", f"after {done}: {op} raised {type(err).__name__}: {str(err)[:200]}\n{traceback.format_exc(limit=4)}",
                       **dict(k0, op=op, exc=type(err).__name__, saved_to_disk=("saveload" in done[:-1]), two_meshes=("replacemesh" in done),
                              ops="+".join(done)))]
        ntr += 1
        if not vv:
            vv = check_stored(f"after {done}", dict(k0, ops="+".join(done)))
            ntr += len(snaps)
        f = scn.fields(simu)
        obsfp.append(fp(*[f[k] for k in sorted(f)]))
        if vv:
            v += vv
            break
    if not v and len(snaps) >= 2 and "replacemesh" in done:
        # end of a history that holds several meshes: EVERY stored iteration (not only the first and the last, which the letters address)
        # can still be restored onto the mesh that was current when it was saved
        kk = dict(k0, ops="+".join(done))
        for i, s_ in enumerate(snaps):
            try:
                simu.Set_Iter(i)
            except Exception as err:
                v.append(viol("sweep_restore_raises", f"after {done}: Set_Iter({i}) (restoring every stored iteration in turn at the end of the history) raised "
                                                      f"{type(err).__name__}: {str(err)[:160]}", exc=type(err).__name__, saved_to_disk=("saveload" in done), **kk))
                break
            ntr += 1
            if simu.mesh.Nn != s_["Nn"] or not _eq(np.array(simu.mesh.coord), s_["coords"]):
                v.append(viol("sweep_restore_mesh", f"after {done}: Set_Iter({i}) at the end of the history did not bring back the mesh of iteration {i}", **kk))
                break
            f = scn.fields(simu)
            bad = [name for name in s_["fields"] if not same_rate(name, f.get(name), s_["fields"][name], 1e-12)]
            if bad:
                v.append(viol("sweep_restore_field", f"after {done}: Set_Iter({i}) at the end of the history: live field(s) {bad[:3]} differ from those current when "
                                                     f"iteration {i} was saved", field=bad[0].split(".")[-1], **kk))
                break
    return {"violations": v[:4], "fingerprint": fp(case["scn"], case["prefix"], case["ops"], obsfp),
            "nontrivial": len(snaps) >= 2 or nrestore > 0, "transitions": ntr}
