"""C06 — shape functions interpolate, derivative tables are the true derivatives (exact, polynomial ring).

Every lambda of _N/_dN/_ddN/_dddN/_ddddN (19 Lagrange types) and _Hermitian_N/_dN/_ddN/_dddN (beam
families) is evaluated on the generators of Q[r,s,t]; the checks are identities between polynomials,
so they hold at every point of the reference element."""
from __future__ import annotations

from fractions import Fraction

import numpy as np

from mc.util import fp, viol
from zoo.polyring import NotInRing, Poly, monomials, rationalise, to_poly

PROPERTY = "C06"
# identities are decided coefficient-wise in Q; tabulated 15-digit decimal coefficients (Hermite SEG4/SEG5 tables)
# are accepted to round-off: 1e-12 relative to the largest coefficient of the entry.
TOL = 1e-12

LAGRANGE_EXPECTED = [
    "SEG2", "SEG3", "SEG4", "SEG5", "TRI3", "TRI6", "TRI10", "TRI15", "QUAD4", "QUAD8", "QUAD9",
    "TETRA4", "TETRA10", "HEXA8", "HEXA20", "HEXA27", "PRISM6", "PRISM15", "PRISM18",
]
BEAM_FAMILIES = ["EULER_BERNOULLI2", "EULER_BERNOULLI3", "EULER_BERNOULLI4", "EULER_BERNOULLI5",
                 "TIMOSHENKO2", "TIMOSHENKO3", "TIMOSHENKO4", "TIMOSHENKO5"]
TABLES = ["N", "dN", "ddN", "dddN", "ddddN"]
HTABLES = ["N", "dN", "ddN", "dddN"]


def _lagrange_types():
    from EasyFEA.FEM._group_elem import GroupElemFactory

    impl = [e.name for e in GroupElemFactory.DICT_ELEMTYPE if e.name != "POINT"]
    return impl


def cases(tier, seed):
    out = []
    impl = _lagrange_types()
    out.append({"kind": "inventory"})
    for et in impl:
        for tb in TABLES:
            out.append({"kind": "lagrange", "elemType": et, "table": tb})
        out.append({"kind": "lagrange_float", "elemType": et})
    for fam in BEAM_FAMILIES:
        for tb in HTABLES:
            out.append({"kind": "hermite", "family": fam, "table": tb})
        for L in ([1.0, 0.37, 2.5] if tier == "quick" else [1.0, 0.37, 2.5, 0.011, 40.0]):
            out.append({"kind": "hermite_physical", "family": fam, "L": L})
    return out


def describe(tier, seed):
    return {
        "rule": "one case per (element family, table); every entry of the table is converted to an exact "
                "polynomial and compared with the exact derivative / Kronecker / reproduction identity; "
                "non-trivial = table has at least one non-constant entry; distinct = distinct polynomial tables",
        "exhaustive": True,
        "bound": "all Lagrange types of GroupElemFactory.DICT_ELEMTYPE x 5 tables; 8 beam classes x 4 Hermite tables; "
                 "physical Hermite interpolation on 3 (quick) / 5 (thorough) element lengths",
        "alphabet": {"lagrange_types": len(_lagrange_types()), "tables": 5, "beam_classes": 8,
                     "hermite_tables": 4},
        "assumptions": ["float literals inside lambdas are rationalised (denominator <= 1e6) and checked to round-trip",
                        "pure derivatives only (the tables hold d^k/dxi_j^k, as documented)"],
        "explanation": "exact identities in Q[r,s,t]: valid at every point of the reference element",
    }


def _make_group(elemType: str):
    from EasyFEA import ElemType
    from EasyFEA.FEM._group_elem import GroupElemFactory

    et = ElemType[elemType]
    gmshId, nPe, dim = GroupElemFactory.DICT_ELEMTYPE[et][:3]
    connect = np.arange(nPe, dtype=int)[None, :]
    # build a throw-away instance: coordinates = 3 * nPe distinct points (values irrelevant for the tables)
    coords = np.zeros((nPe, 3))
    coords[:, 0] = np.arange(nPe)
    g = GroupElemFactory.Create(et, connect, coords)
    return g, dim, nPe


def _make_beam(family: str, L: float = 1.0, Ne: int = 1):
    from EasyFEA.FEM.Elems import _beam
    from EasyFEA.FEM._group_elem import GroupElemFactory
    from EasyFEA import ElemType

    cls = getattr(_beam, family)
    n = int(family[-1])
    et = ElemType[f"SEG{n}"]
    gmshId = GroupElemFactory.DICT_ELEMTYPE[et][0]
    ref = None
    # gmsh ordering of SEGn: the 2 ends, then interior nodes in order
    xi = [-1.0, 1.0] + [-1.0 + 2.0 * k / (n - 1) for k in range(1, n - 1)]
    coords, connect = [], []
    for e in range(Ne):
        x0 = e * L
        ids = []
        for k in range(n):
            x = x0 + (xi[k] + 1.0) / 2.0 * L
            # merge shared ends
            found = None
            for j, c in enumerate(coords):
                if abs(c[0] - x) < 1e-12 * max(1.0, L):
                    found = j
                    break
            if found is None:
                coords.append([x, 0.0, 0.0])
                found = len(coords) - 1
            ids.append(found)
        connect.append(ids)
    g = cls(gmshId, np.array(connect, dtype=int), np.array(coords, dtype=float))
    return g, n


def _table_polys(functions, nvar):
    """functions: object array (n, nF) of callables -> list[list[Poly]]"""
    gens = [Poly.var(nvar, i) for i in range(nvar)]
    out = []
    functions = np.asarray(functions, dtype=object)
    if functions.ndim == 1:
        functions = functions.reshape(-1, 1)
    for row in functions:
        out.append([to_poly(nvar, f(*gens)) for f in row])
    return out


def _nth_diff(p: Poly, k: int, n: int) -> Poly:
    for _ in range(n):
        p = p.diff(k)
    return p


def run_case(case):
    kind = case["kind"]
    if kind == "inventory":
        impl = _lagrange_types()
        v = []
        missing = sorted(set(LAGRANGE_EXPECTED) - set(impl))
        if missing:
            v.append(viol("inventory", f"element types disappeared: {missing}", missing=",".join(missing)))
        from EasyFEA.FEM.Elems import _beam
        for fam in BEAM_FAMILIES:
            if not hasattr(_beam, fam):
                v.append(viol("inventory", f"beam family {fam} missing", missing=fam))
        return {"violations": v, "fingerprint": fp(sorted(impl)), "nontrivial": True, "transitions": 1}
    if kind == "lagrange":
        return _run_lagrange(case)
    if kind == "lagrange_float":
        return _run_lagrange_float(case)
    if kind == "hermite":
        return _run_hermite(case)
    if kind == "hermite_physical":
        return _run_hermite_physical(case)
    raise ValueError(kind)


def _run_lagrange(case):
    et, tb = case["elemType"], case["table"]
    g, dim, nPe = _make_group(et)
    order = g.order
    v = []
    try:
        N = _table_polys(g._N(), dim)
    except NotInRing as err:
        return {"violations": [], "skipped": f"N outside ring: {err}", "fingerprint": "nir", "nontrivial": False}
    N = [row[0] for row in N]
    nent = 0
    if tb == "N":
        loc = np.asarray(g.Get_Local_Coords(), dtype=float).reshape(nPe, -1)
        pts = [[rationalise(x) for x in row[:dim]] for row in loc]
        if len(N) != nPe:
            v.append(viol("table_shape", f"{et}: {len(N)} functions for nPe={nPe}", elemType=et, table=tb))
        # Kronecker
        for i, Ni in enumerate(N):
            for j, xj in enumerate(pts):
                val = Ni.eval(xj)
                nent += 1
                if abs(val - (1 if i == j else 0)) > TOL:
                    v.append(viol("kronecker", f"{et}: N_{i}(x_{j}) = {val} expected {int(i == j)}",
                                  elemType=et, table=tb, i=i, j=j))
        # partition of unity
        s = Poly.const(dim, 0)
        for Ni in N:
            s = s + Ni
        if not s.close(1, TOL):
            v.append(viol("partition_of_unity", f"{et}: sum N_i = {s!r}", elemType=et, table=tb))
        # polynomial reproduction up to total degree = order
        gens = [Poly.var(dim, i) for i in range(dim)]
        for e in monomials(dim, order):
            m = Poly.const(dim, 1)
            for gk, ek in zip(gens, e):
                m = m * gk ** ek
            interp = Poly.const(dim, 0)
            for Ni, xi in zip(N, pts):
                interp = interp + Ni * m.eval(xi)
            nent += 1
            if not interp.close(m, TOL):
                v.append(viol("reproduction", f"{et}: monomial {e} interpolated as {interp!r}",
                              elemType=et, table=tb, monomial=str(e)))
        tab = [[n] for n in N]
    else:
        nd = TABLES.index(tb)
        getter = getattr(g, "_" + tb)
        T = _table_polys(getter(), dim)
        if len(T) != nPe or any(len(r) != dim for r in T):
            v.append(viol("table_shape", f"{et}.{tb}: shape {(len(T), len(T[0]) if T else 0)} expected {(nPe, dim)}",
                          elemType=et, table=tb))
        for i, row in enumerate(T):
            for k, pk in enumerate(row):
                if i >= len(N) or k >= dim:
                    continue
                exact = _nth_diff(N[i], k, nd)
                nent += 1
                if not pk.close(exact, TOL):
                    v.append(viol("derivative", f"{et}.{tb}[{i}][{k}] = {pk!r} but d^{nd}N_{i}/dxi_{k}^{nd} = {exact!r}",
                                  elemType=et, table=tb, i=i, k=k))
        tab = T
    nontrivial = any(not p.is_const() for row in tab for p in row) or tb == "N"
    return {"violations": v, "fingerprint": fp(et, tb, [[repr(p) for p in r] for r in tab]),
            "nontrivial": bool(nontrivial), "transitions": max(1, nent),
            "outcome": "ok" if not v else "violation"}


def _run_lagrange_float(case):
    """Float cross-check of the evaluation path (Get_N_pg / Get_dN_pg ... at every rule's points)."""
    from EasyFEA.FEM._utils import MatrixType

    et = case["elemType"]
    g, dim, nPe = _make_group(et)
    N = [row[0] for row in _table_polys(g._N(), dim)]
    v = []
    nent = 0
    for mt in MatrixType.Get_types():
        try:
            gauss = g.Get_gauss(mt)
        except Exception:
            continue
        pts = np.asarray(gauss.coord, dtype=float).reshape(-1, dim)
        for name, nd in (("N", 0), ("dN", 1), ("ddN", 2), ("dddN", 3), ("ddddN", 4)):
            arr = getattr(g, f"Get_{name}_pg")(mt)
            arr = np.asarray(arr, dtype=float)
            ncomp = 1 if nd == 0 else dim
            if arr.shape != (pts.shape[0], ncomp, nPe):
                v.append(viol("eval_shape", f"{et} Get_{name}_pg({mt}) shape {arr.shape}", elemType=et, table=name))
                continue
            for p, x in enumerate(pts):
                xq = [Fraction(float(c)) for c in x]
                for i in range(nPe):
                    for k in range(ncomp):
                        exact = float(_nth_diff(N[i], k, nd).eval(xq)) if nd else float(N[i].eval(xq))
                        nent += 1
                        if abs(arr[p, k, i] - exact) > 1e-11 * max(1.0, abs(exact)):
                            v.append(viol("eval_pg", f"{et} Get_{name}_pg({mt})[{p},{k},{i}]={arr[p, k, i]!r} exact {exact!r}",
                                          elemType=et, table=name, matrixType=str(mt)))
    # the evaluator itself (_Eval_Functions) at coordinates of ANY numeric dtype: the element's own node table as returned
    # (integer typed for several elements), and an integer-typed lattice of the reference cell
    from EasyFEA.FEM._group_elem import _GroupElem

    loc_native = np.asarray(g.Get_Local_Coords()).reshape(nPe, -1)[:, :dim]
    lattices = [("nodes_native_dtype", loc_native), ("nodes_float", loc_native.astype(float)),
                ("int_lattice", np.array([[0] * dim, [1] + [0] * (dim - 1), [0] * (dim - 1) + [1]], dtype=np.int64))]
    tables = [("N", 0, g._N()), ("dN", 1, g._dN()), ("ddN", 2, g._ddN()), ("dddN", 3, g._dddN()), ("ddddN", 4, g._ddddN())]
    for lname_, pts in lattices:
        for name, nd, funcs in tables:
            arr = np.asarray(_GroupElem._Eval_Functions(np.asarray(funcs, dtype=object).reshape(nPe, -1), pts), dtype=float)
            ncomp = 1 if nd == 0 else dim
            for p, x in enumerate(pts):
                xq = [Fraction(float(c)) for c in x]
                for i in range(nPe):
                    for k in range(ncomp):
                        exact = float(_nth_diff(N[i], k, nd).eval(xq)) if nd else float(N[i].eval(xq))
                        nent += 1
                        if abs(arr[p, k, i] - exact) > 1e-11 * max(1.0, abs(exact)):
                            v.append(viol("eval_functions", f"{et} _Eval_Functions({name}) at {lname_} point {x.tolist()} [{k},{i}] = {arr[p, k, i]!r} exact {exact!r}",
                                          elemType=et, table=name, points=lname_))
    return {"violations": _first_per_key(v), "fingerprint": fp(et, "float", nent), "nontrivial": True, "transitions": max(1, nent)}


def _first_per_key(v, cap=12):
    seen, out = set(), []
    for x in v:
        k = str(sorted(x["key"].items()))
        if k not in seen:
            seen.add(k)
            out.append(x)
    return out[:cap]


def _run_hermite(case):
    fam, tb = case["family"], case["table"]
    g, n = _make_beam(fam)
    v = []
    H = [row[0] for row in _table_polys(g._Hermitian_N(), 1)]
    nent = 0
    if len(H) != 2 * n:
        v.append(viol("table_shape", f"{fam}: {len(H)} Hermite functions for {n} nodes", family=fam, table=tb))
    loc = np.asarray(g.Get_Local_Coords(), dtype=float).reshape(n, -1)[:, 0]
    pts = [[rationalise(x)] for x in loc]
    if tb == "N":
        for a, Ha in enumerate(H):
            node, isslope = divmod(a, 2)
            dHa = Ha.diff(0)
            for j, xj in enumerate(pts):
                val, slope = Ha.eval(xj), dHa.eval(xj)
                ev = 1 if (not isslope and j == node) else 0
                es = Fraction(1, 2) if (isslope and j == node) else 0
                nent += 2
                if abs(val - ev) > TOL:
                    v.append(viol("hermite_value", f"{fam}: H_{a}(x_{j}) = {val} expected {ev}", family=fam, table=tb, a=a, j=j))
                if abs(slope - es) > TOL:
                    v.append(viol("hermite_slope", f"{fam}: H_{a}'(x_{j}) = {slope} expected {es} (reference slope 1/2 <-> unit physical slope after the L_e scaling)",
                                  family=fam, table=tb, a=a, j=j))
        tab = H
    else:
        nd = HTABLES.index(tb)
        T = _table_polys(getattr(g, "_Hermitian_" + tb)(), 1)
        T = [row[0] for row in T]
        if len(T) != 2 * n:
            v.append(viol("table_shape", f"{fam}.{tb}: {len(T)} entries", family=fam, table=tb))
        for a, (Ta, Ha) in enumerate(zip(T, H)):
            exact = _nth_diff(Ha, 0, nd)
            nent += 1
            if not Ta.close(exact, TOL):
                v.append(viol("derivative", f"{fam}._Hermitian_{tb}[{a}] = {Ta!r} but exact derivative = {exact!r}",
                              family=fam, table=tb, a=a))
        tab = T
    return {"violations": v, "fingerprint": fp(fam[-1], tb, [repr(p) for p in tab]), "nontrivial": True,
            "transitions": max(1, nent)}


def _run_hermite_physical(case):
    """Physical level: on a 2-element beam of element length L, every polynomial of degree <= 2n-1 is
    reproduced (value, 1st, 2nd, 3rd derivative at the beam Gauss points) from nodal values and slopes."""
    from EasyFEA.FEM._utils import MatrixType

    fam, L = case["family"], float(case["L"])
    g, n = _make_beam(fam, L=L, Ne=2)
    v = []
    coordx = g.coord[:, 0] if g.coord.shape[0] == g.Nn else None
    xg = np.asarray(g.Get_GaussCoordinates_e_pg(MatrixType.beam))[..., 0]  # (Ne, nPg)
    tabs = [np.asarray(g.Get_Hermitian_N_e_pg()), np.asarray(g.Get_Hermitian_dN_e_pg()),
            np.asarray(g.Get_Hermitian_ddN_e_pg()), np.asarray(g.Get_Hermitian_dddN_e_pg())]
    connect = g.connect
    allx = np.zeros(g.Ncoords)
    allx[g.nodes] = g.coord[:, 0]
    nent = 0
    deg = 2 * n - 1
    for d in range(deg + 1):
        # polynomial (x/L)^d : scale-free
        f = [lambda x, d=d: (x / L) ** d,
             lambda x, d=d: d * (x / L) ** (d - 1) / L if d >= 1 else 0 * x,
             lambda x, d=d: d * (d - 1) * (x / L) ** (d - 2) / L ** 2 if d >= 2 else 0 * x,
             lambda x, d=d: d * (d - 1) * (d - 2) * (x / L) ** (d - 3) / L ** 3 if d >= 3 else 0 * x]
        for e in range(g.Ne):
            xe = allx[connect[e]]
            dofs = np.empty(2 * n)
            dofs[0::2] = f[0](xe)
            dofs[1::2] = f[1](xe)
            for nd in range(4):
                got = tabs[nd][e, :, 0, :] @ dofs
                want = f[nd](xg[e])
                scale = max(1.0, np.max(np.abs(want))) / L ** 0
                nent += got.size
                # natural scale of the nd-th derivative of degree-<=deg polynomials on [0, 2L]
                tol = 1e-9 * (float(deg) ** nd) * 2.0 ** deg / L ** nd
                if np.max(np.abs(got - want)) > tol:
                    v.append(viol("hermite_physical", f"{fam} L={L}: degree {d}, derivative {nd}: max err {np.max(np.abs(got - want)):.3e} (tol {tol:.1e})",
                                  family=fam, degree=d, deriv=nd))
    return {"violations": v[:20], "fingerprint": fp(fam[-1], L, nent), "nontrivial": True, "transitions": max(1, nent)}
