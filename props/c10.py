"""C10 — frame indifference: a rigidly moved problem has the rigidly moved solution.

E1 enumeration.  A case = (problem, element type, material, rigid motion T).  Inside a case the ORIGINAL problem is
built and solved once, and the TRANSFORMED problem (mesh, material / beam axes, constraints, loads all moved by T)
is built in up to three independent ways on the real implementation:

  copy    mesh0.copy() moved with Mesh.Translate / Rotate / Symmetry, fresh simulation
  coords  mesh built from numpy-transformed coordinates (beams: gmsh mesh of numpy-transformed Line geometry)
  live    the ORIGINAL simulation, after its solve, has its mesh moved with the Mesh API (observer notification),
          boundary conditions re-initialised and is solved again

Reference model (numpy only): the motion x -> Q x + t composed from Rodrigues / Householder formulas, the rotation of
vectors, axial vectors (det(Q) Q r), second-order tensors (Q s Q^T), fourth-order elasticity tensors (Kelvin-Mandel),
and the closed-form Euler-Bernoulli / Timoshenko cantilever (independent oracle for "response in the member's own
axes does not depend on its inclination").
Oracle: u_T = Q u, r_T = det(Q) Q r, scalars / energies equal, stresses Q s Q^T, K_T = R K R^T, M_T = R M R^T; beams: the total mass
(simu.mass) is equal and the centre of mass (simu.center, a position) is moved: c_T = Q c + t.
Motion letter "com_to_origin" (beams): the translation that brings the centre of mass of the structure (one section, homogeneous: the
length-weighted mean of the member mid-points) onto the origin of the axes; quick: x theory x element type x structure with the tip load,
thorough: x every load / start orientation.

Violation keys: kind, problem | theory, dim, elemType, material | structure, load, T, way, check (+ mesh / axes0 when not the
default; beams: member_frames_symmetric = every member frame [i j k] of the original and of the moved structure is a
symmetric matrix, the situation in which using P for P^T cannot be seen).  Per (case, way) only the FIRST failing check is
reported (order: geometry, law tensor, K, M, displacement, stresses / internal forces, energies, closed form, mass / centre of mass).
"""
from __future__ import annotations

import contextlib
import io
import itertools

import numpy as np

from mc.util import fp, relerr, rng, viol
from zoo import meshes as Z

PROPERTY = "C10"
TOL = 1e-8          # relative, DESIGN C10
TOL_ANALYTIC = 1e-7  # closed-form cantilever (round-off floor of the SEG5 Hermite tables, cf. tests/Simulations/beam_test.py)

# ------------------------------------------------------------------------------------------------
# reference rigid motions (numpy only)
# ------------------------------------------------------------------------------------------------
# "rot180_origin" / "mirror_x_origin": motions that map the coordinate axes onto themselves REVERSED (a member lying on the x axis stays on
# the x axis and points towards -x: the mesh keeps its embedding dimension, which the library keys on)
# "flip_inplane_axis" / "turn360": a half turn about an axis lying IN the plane of a 2D problem (an in-plane reflection carried out as a rotation)
# and a full turn about such an axis (the identity): both leave the body in its plane up to round-off (|z| ~ 1e-16)
MOTIONS_2D = ["translation", "rot90", "rot180", "rot_generic", "reflection", "rotrefl", "rot180_origin", "mirror_x_origin", "flip_inplane_axis", "turn360"]
MOTIONS_3D = ["translation", "rot90", "rot90x", "rot_generic", "axis_angle", "reflection", "rotrefl", "rot180_origin", "mirror_x_origin"]
# "com_to_origin": the translation that brings the centre of mass of the body onto the origin of the axes (a quantity measured relative to
# the distance to the origin loses its scale there).  Depends on the body: enumerated separately (see cases), not part of the two lists.
MOTION_COM = "com_to_origin"


def _unit(v):
    v = np.asarray(v, dtype=float)
    return v / np.linalg.norm(v)


def motion_ops(name: str, sdim: int, com=None) -> list[dict]:
    """The motion as a list of elementary operations (arguments of the Mesh / Geom API).  com: centre of mass of the original body."""
    if name == MOTION_COM:
        return [{"op": "translate", "v": -np.asarray(com, dtype=float)}]
    r = rng("c10-motion", name, sdim)

    def cen():
        c = r.uniform(-0.4, 1.3, size=3)
        if sdim == 2:
            c[2] = 0.0
        return c

    def gen_deg():
        return float(r.uniform(17.0, 73.0) + 90.0 * int(r.integers(0, 4)))

    def gen_axis():
        while True:
            a = _unit(r.normal(size=3))
            if np.sort(np.abs(a))[1] > 0.25:  # away from the coordinate axes
                return a

    def gen_normal():
        if sdim == 2:
            th = np.radians(r.uniform(17.0, 73.0) + 90.0 * int(r.integers(0, 4)))
            return np.array([np.cos(th), np.sin(th), 0.0])
        return gen_axis()

    z = np.array([0.0, 0.0, 1.0])
    if name == "translation":
        v = r.uniform(-2.0, 2.0, size=3)
        if sdim == 2:
            v[2] = 0.0
        return [{"op": "translate", "v": v}]
    if name == "rot90":
        return [{"op": "rotate", "deg": 90.0, "center": cen(), "axis": z}]
    if name == "rot180":
        return [{"op": "rotate", "deg": 180.0, "center": cen(), "axis": z}]
    if name == "flip_inplane_axis":
        return [{"op": "rotate", "deg": 180.0, "center": cen(), "axis": np.array([1.0, 0.0, 0.0])}]
    if name == "turn360":
        return [{"op": "rotate", "deg": 360.0, "center": cen(), "axis": _unit([1.0, 1.0, 0.0])}]
    if name == "rot180_origin":
        return [{"op": "rotate", "deg": 180.0, "center": np.zeros(3), "axis": z}]
    if name == "mirror_x_origin":
        return [{"op": "symmetry", "point": np.zeros(3), "n": np.array([1.0, 0.0, 0.0])}]
    if name == "rot90x":
        return [{"op": "rotate", "deg": 90.0, "center": cen(), "axis": np.array([1.0, 0.0, 0.0])}]
    if name == "rot_generic":
        return [{"op": "rotate", "deg": gen_deg(), "center": cen(), "axis": z}]
    if name == "axis_angle":
        return [{"op": "rotate", "deg": gen_deg(), "center": cen(), "axis": gen_axis()}]
    if name == "reflection":
        return [{"op": "symmetry", "point": cen(), "n": gen_normal()}]
    if name == "rotrefl":
        ax = z if sdim == 2 else gen_axis()
        return [{"op": "symmetry", "point": cen(), "n": gen_normal()},
                {"op": "rotate", "deg": gen_deg(), "center": cen(), "axis": ax}]
    raise KeyError(name)


def motion_matrix(ops) -> tuple[np.ndarray, np.ndarray]:
    """x -> Q x + t of the composed operations (independent of the implementation)."""
    Q, t = np.eye(3), np.zeros(3)
    for op in ops:
        if op["op"] == "translate":
            Qi, ti = np.eye(3), np.asarray(op["v"], dtype=float)
        elif op["op"] == "rotate":
            Qi = Z.rot3(op["axis"], np.radians(op["deg"]))
            c = np.asarray(op["center"], dtype=float)
            ti = c - Qi @ c
        else:
            n = _unit(op["n"])
            Qi = np.eye(3) - 2.0 * np.outer(n, n)
            p = np.asarray(op["point"], dtype=float)
            ti = p - Qi @ p
        Q, t = Qi @ Q, Qi @ t + ti
    return Q, t


def apply_ops_api(obj, ops):
    """Moves a Mesh (or a Geom object) through the implementation's own Translate / Rotate / Symmetry."""
    n = 0
    for op in ops:
        if op["op"] == "translate":
            obj.Translate(*[float(x) for x in op["v"]])
        elif op["op"] == "rotate":
            obj.Rotate(float(op["deg"]), tuple(float(x) for x in op["center"]), tuple(float(x) for x in op["axis"]))
        else:
            obj.Symmetry(tuple(float(x) for x in op["point"]), tuple(float(x) for x in op["n"]))
        n += 1
    return n


# ------------------------------------------------------------------------------------------------
# tensor algebra of the reference model (Kelvin-Mandel ordering of the library: 11 22 33 23 13 12)
# ------------------------------------------------------------------------------------------------
_S2 = np.sqrt(2.0)
_IDX3 = [(0, 0), (1, 1), (2, 2), (1, 2), (0, 2), (0, 1)]
_IDX2 = [(0, 0), (1, 1), (0, 1)]


def mandel_to_tensor(vec, d):
    idx = _IDX3 if d == 3 else _IDX2
    T = np.zeros((d, d))
    for I, (i, j) in enumerate(idx):
        if i == j:
            T[i, i] = vec[I]
        else:
            T[i, j] = T[j, i] = vec[I] / _S2
    return T


def tensor_to_mandel(T, d):
    idx = _IDX3 if d == 3 else _IDX2
    return np.array([T[i, j] if i == j else _S2 * T[i, j] for (i, j) in idx])


def mandel_rotation(R, d):
    """Matrix M with mandel(R s R^T) = M mandel(s) (built column by column from the definition)."""
    n = 6 if d == 3 else 3
    M = np.zeros((n, n))
    R = np.asarray(R, dtype=float)[:d, :d]
    for I in range(n):
        e = np.zeros(n)
        e[I] = 1.0
        M[:, I] = tensor_to_mandel(R @ mandel_to_tensor(e, d) @ R.T, d)
    return M


def comps_to_tensor(c: dict, d: int) -> np.ndarray:
    """{'xx': (Ne,), ...} -> (Ne, d, d) symmetric."""
    ax = "xyz"[:d]
    Ne = len(next(iter(c.values())))
    T = np.zeros((Ne, d, d))
    for i, a in enumerate(ax):
        for j, b in enumerate(ax):
            if i <= j:
                T[:, i, j] = T[:, j, i] = c[a + b]
    return T


# ------------------------------------------------------------------------------------------------
# case enumeration
# ------------------------------------------------------------------------------------------------
ELASTIC_MATERIALS = ["iso", "iso_pe", "transiso", "transiso_elem", "ortho", "aniso", "aniso_voigt"]
HYPER_MATERIALS = ["svk", "mooney", "holzapfel"]
AXES_MATERIALS = {"transiso", "transiso_elem", "ortho", "aniso", "aniso_voigt", "holzapfel"}
BEAM_THEORIES = ["EB", "TIMO"]


def _continuum_rows(dim: int, tier: str):
    """(problem, material, load) combinations of a dimension."""
    rows = []
    for m in ELASTIC_MATERIALS:
        if m == "iso_pe" and dim == 3:
            continue
        rows.append(("elastic_static", m, "vector"))
    rows.append(("elastic_static", "iso", "pressure"))
    rows.append(("elastic_newmark", "iso", "vector"))
    rows.append(("elastic_newmark", "aniso", "vector"))
    if tier == "thorough":
        rows.append(("elastic_newmark", "transiso", "vector"))
        rows.append(("elastic_newmark", "ortho", "vector"))
    rows.append(("thermal", "k", "vector"))
    for m in HYPER_MATERIALS:
        rows.append(("hyperelastic", m, "vector"))
    return rows


def cases(tier, seed):
    out = []
    # ---- continuum ---------------------------------------------------------------------------
    for dim, types, motions in ((2, Z.TYPES_2D, MOTIONS_2D), (3, Z.TYPES_3D, MOTIONS_3D)):
        meshes = ["template"] if tier == "quick" else ["template", "gmsh"]
        for et in types:
            for (problem, material, load) in _continuum_rows(dim, tier):
                axes_list = ["generic"]
                if material in AXES_MATERIALS and tier == "thorough":
                    axes_list = ["generic", "canonical"]
                for axes0, msh, T in itertools.product(axes_list, meshes, motions):
                    if msh == "gmsh" and (problem == "hyperelastic" or axes0 == "canonical"):
                        continue
                    out.append({"kind": "continuum", "problem": problem, "dim": dim, "elemType": et, "material": material,
                                "load": load, "axes0": axes0 if material in AXES_MATERIALS else "none", "mesh": msh, "T": T})
        if tier == "thorough":
            mixed = Z.MIXED_2D if dim == 2 else Z.MIXED_3D
            for mix in mixed:
                for (problem, material, load) in (("elastic_static", "aniso", "vector"), ("thermal", "k", "vector")):
                    for T in motions:
                        out.append({"kind": "continuum", "problem": problem, "dim": dim, "elemType": list(mix), "material": material,
                                    "load": load, "axes0": "generic" if material in AXES_MATERIALS else "none", "mesh": "template", "T": T})
    # 1D conduction on a bar placed anywhere in space
    for et in Z.TYPES_1D:
        for T in MOTIONS_3D:
            out.append({"kind": "continuum", "problem": "thermal", "dim": 1, "elemType": et, "material": "k", "load": "vector",
                        "axes0": "none", "mesh": "template", "T": T})
    # ---- beams -------------------------------------------------------------------------------
    for dim, motions in ((2, MOTIONS_2D), (3, MOTIONS_3D)):
        # "linecouple": a line load with force AND distributed couple components (the couple is an axial vector)
        for theory, et, structure, load, T in itertools.product(BEAM_THEORIES, Z.TYPES_1D, ["cantilever", "frame", "cantilever_onaxis"], ["tip", "line", "linecouple"], motions):
            out.append({"kind": "beam", "dim": dim, "theory": theory, "elemType": et, "structure": structure, "load": load, "T": T})
        # the cantilever starting from an orientation that is not the x axis (closed form decides the ORIGINAL run too)
        starts = ["cantilever_gen"] if tier == "quick" else ["cantilever_gen", "cantilever_y"]
        loads = ["tip"] if tier == "quick" else ["tip", "line"]
        for theory, et, structure, load, T in itertools.product(BEAM_THEORIES, Z.TYPES_1D, starts, loads, motions):
            out.append({"kind": "beam", "dim": dim, "theory": theory, "elemType": et, "structure": structure, "load": load, "T": T})
        # the centre of mass brought onto the origin
        structs = ["cantilever", "frame", "cantilever_onaxis"] + ([] if tier == "quick" else starts)
        cloads = ["tip"] if tier == "quick" else ["tip", "line", "linecouple"]
        for theory, et, structure, load in itertools.product(BEAM_THEORIES, Z.TYPES_1D, structs, cloads):
            if structure in starts and load not in loads:
                continue
            out.append({"kind": "beam", "dim": dim, "theory": theory, "elemType": et, "structure": structure, "load": load, "T": MOTION_COM})
    return out


def describe(tier, seed):
    return {
        "rule": "one case per (problem, dimension, element type, material, load kind, initial material axes, mesh source, rigid motion); "
                "inside a case the original problem and the transformed problem built in 2-3 independent ways (moved copy of the mesh, "
                "numpy-transformed coordinates / Line geometry, live simulation whose mesh is moved after a solve) are solved on the real code; "
                "non-trivial = the original solution is non-zero on unconstrained dofs; distinct = fingerprint of (factors, original solution)",
        "exhaustive": True,
        "bound": "full product of the listed alphabets (quick: template meshes, generic initial material axes; thorough: + gmsh unstructured meshes, "
                 "+ canonical initial axes, + mixed meshes, + beams starting along y / a generic direction); meshes of 1-8 elements (beams 2 per member); "
                 "beams: plus the motion com_to_origin (centre of mass of the structure brought onto the origin) x theory x element type x structure, "
                 "tip load (thorough: x every load / start orientation)",
        "alphabet": {"continuum_problems": 4, "element_types": len(Z.TYPES_2D) + len(Z.TYPES_3D) + len(Z.TYPES_1D),
                     "elastic_materials": len(ELASTIC_MATERIALS), "hyperelastic_materials": len(HYPER_MATERIALS),
                     "motions_2d": len(MOTIONS_2D), "motions_3d": len(MOTIONS_3D), "motions_beam_extra": 1, "beam_theories": 2, "beam_elem_types": 4,
                     "beam_structures": 3 if tier == "quick" else 4, "beam_loads": 2, "build_ways": 3},
        "assumptions": [
            "VERIF_SEED only instantiates the generic angle / axis / centre / mirror plane / SPD elasticity matrix / material axes",
            "2D problems and 2D beams are moved in their plane only (the library has no shell / out-of-plane 2D model)",
            "anisotropic materials are moved with the body: axes a1,a2 -> Q a1, Q a2; for improper Q the components of a fully anisotropic C "
            "are re-expressed in the right-handed frame (Qa1, Qa2, Qa1 x Qa2) the library builds (numpy tensor rotation)",
            "tolerance 1e-8 relative to the largest magnitude of the compared quantity; closed-form cantilever 1e-7",
            "hyperelastic: one small load step, Newton tolerances tightened to 1e-13; a non-converged Newton iteration skips the case",
            "live way only where the material has no axes (they cannot be changed on an existing law object)",
            "beams: mass / centre of mass reported by the simulation (homogeneous density, one section for all members) are compared too",
        ],
        "explanation": "metamorphic oracle on the real implementation plus closed-form cantilever; every configuration of the alphabets is run",
    }


# ------------------------------------------------------------------------------------------------
# helpers
# ------------------------------------------------------------------------------------------------
@contextlib.contextmanager
def _quiet():
    with contextlib.redirect_stdout(io.StringIO()):
        yield


class _Cmp:
    """Collects comparisons.  Per way ONE violation is reported: the first failing check in the order of evaluation
    (geometry, material tensor, K, M, then the solution quantities), the other failing checks of that way are listed in its detail."""

    def __init__(self, key: dict):
        self.key = key
        self.fail: dict[str, list] = {}
        self.n = 0
        self.worst = 0.0

    def check(self, way, name, got, want, tol=TOL, scale=None, extra=""):
        self.n += 1
        e = relerr(got, want, scale)
        if np.isfinite(e):
            self.worst = max(self.worst, e)
        if e <= tol:
            return True
        g, w = np.asarray(got, dtype=float), np.asarray(want, dtype=float)
        where = ""
        if g.shape == w.shape and g.size > 1:
            i = int(np.argmax(np.abs(g - w)))
            where = f" worst entry #{i}: got {float(g.ravel()[i])!r} want {float(w.ravel()[i])!r};"
        elif g.size == 1 and w.size == 1:
            where = f" got {float(g.ravel()[0])!r} want {float(w.ravel()[0])!r};"
        self.fail.setdefault(way, []).append((name, f"{name}: relative error {e:.3e} > {tol:.0e};{where} {extra}".strip()))
        return False

    def failed(self, way, name, detail):
        """A check that could not be evaluated (the implementation raised where the property promises a value)."""
        self.n += 1
        self.fail.setdefault(way, []).append((name, f"{name}: {detail}"))

    @property
    def v(self):
        out = []
        for way, lst in self.fail.items():
            name, detail = lst[0]
            others = []
            for nm, _ in lst[1:]:
                if nm != name and nm not in others:
                    others.append(nm)
            if others:
                detail += " | also failing in this way: " + ", ".join(others)
            out.append(viol(name, f"[{way}] {detail}", way=way, **self.key))
        return out


# ------------------------------------------------------------------------------------------------
# continuum problems
# ------------------------------------------------------------------------------------------------
def _template(case):
    """-> (ZooMesh original, dict of node sets from the undistorted twin)."""
    et = case["elemType"]
    ets = tuple(et) if isinstance(et, list) else et
    d = case["dim"]
    if case["mesh"] == "gmsh":
        with _quiet():
            if d == 2:
                mesh, _ = Z.gmsh_2d(ets, "square", h=0.55)
            else:
                mesh, _ = Z.gmsh_3d(ets, "square", h=0.7, height=1.0, layers=2)
        zm = Z.zoo_from_mesh(mesh, name=f"gmsh[{ets}]")
        twin = zm.coords
    elif d == 1:
        zm = Z.template_1d(ets, n=3, graded=True, L=1.0)
        twin = zm.coords
    elif d == 2:
        zm = Z.template_2d(ets, k=2, distort=True, diag=2)
        twin = Z.template_2d(ets, k=2, distort=False, diag=2).coords
    else:
        k = 1 if not isinstance(ets, tuple) else (2, 1, 1)
        zm = Z.template_3d(ets, k=k, distort=True)
        twin = Z.template_3d(ets, k=k, distort=False).coords
    if twin.shape != zm.coords.shape:
        raise RuntimeError("template twin has a different numbering (harness)")
    eps = 1e-9
    sets = {
        "left": np.where(twin[:, 0] < eps)[0],
        "right": np.where(twin[:, 0] > 1.0 - eps)[0],
        "all": np.arange(zm.Nn),
    }
    # one node that is neither left nor right (point load)
    other = np.setdiff1d(sets["all"], np.union1d(sets["left"], sets["right"]))
    sets["point"] = other[:1] if other.size else sets["right"][:1]
    return zm, sets


def _spd6(r, n):
    A = r.normal(size=(n, n))
    w = r.uniform(0.6, 2.5, size=n)
    Qm, _ = np.linalg.qr(A)
    C = (Qm * w) @ Qm.T
    return (C + C.T) / 2


def _axes0(case):
    """Initial material axes as a proper rotation matrix (columns a1,a2,a3)."""
    if case["axes0"] != "generic":
        return np.eye(3)
    r = rng("c10-axes", case["dim"])
    if case["dim"] == 2:
        return Z.rot3([0, 0, 1], np.radians(r.uniform(15, 75)))
    return Z.rot3(_unit(r.normal(size=3)), np.radians(r.uniform(20, 160)))


def _material(case, A, Q, Ne=None):
    """The law of the body moved by Q (Q = identity: the original).  A: initial axes (3x3 proper rotation)."""
    from EasyFEA import Models

    d, name = case["dim"], case["material"]
    A1 = Q @ A
    a1, a2 = A1[:, 0].copy(), A1[:, 1].copy()
    if case["problem"] == "thermal":
        return Models.Thermal(k=1.7, c=0.9, thickness=1.3 if d == 2 else 1.0)
    if case["problem"] == "hyperelastic":
        if name == "svk":
            return Models.HyperElastic.SaintVenantKirchhoff(d, lmbda=1.2, mu=0.8)
        if name == "mooney":
            return Models.HyperElastic.MooneyRivlin(d, K1=0.4, K2=0.15, K=2.0)
        return Models.HyperElastic.HolzapfelOgden(d, C0=0.6, C1=1.2, C2=0.8, C3=1.5, C4=0.5, C5=1.1, C6=0.3, C7=0.9, K=20.0,
                                                  Mu1=0.05, Mu2=0.02, T1=a1, T2=a2, ks=100.0)
    E = Models.Elastic
    if name == "iso":
        return E.Isotropic(d, E=1.0, v=0.3, planeStress=True, thickness=1.3)
    if name == "iso_pe":
        return E.Isotropic(d, E=1.0, v=0.3, planeStress=False, thickness=1.3)
    if name == "transiso_elem":
        # one constant given per element (the moved body keeps its element numbering)
        El = 2.6 * (1.0 + 0.15 * np.linspace(0.0, 1.0, int(Ne)))
        return E.TransverselyIsotropic(d, El=El, Et=1.1, Gl=0.7, vl=0.28, vt=0.34, axis_l=a1, axis_t=a2, planeStress=True, thickness=1.3)
    if name == "transiso":
        return E.TransverselyIsotropic(d, El=2.6, Et=1.1, Gl=0.7, vl=0.28, vt=0.34, axis_l=a1, axis_t=a2, planeStress=True, thickness=1.3)
    if name == "ortho":
        return E.Orthotropic(d, E1=2.4, E2=1.3, E3=0.9, G23=0.45, G13=0.55, G12=0.6, v23=0.31, v13=0.27, v12=0.24,
                             axis_1=a1, axis_2=a2, planeStress=True, thickness=1.3)
    if name in ("aniso", "aniso_voigt"):
        n = 6 if d == 3 else 3
        C = _spd6(rng("c10-C", d), n)
        if d == 3:
            # components of the moved tensor in the right-handed frame (Qa1, Qa2, Qa1 x Qa2) the library will build
            A_lib = np.stack([a1, a2, np.cross(a1, a2)], axis=1)
            R = A_lib.T @ Q @ A  # = diag(1, 1, det Q)
            M = mandel_rotation(R, 3)
            C = M @ C @ M.T
            C = (C + C.T) / 2
        if name == "aniso_voigt":
            # the same stiffness entered in Voigt notation (engineering shear strains): C_voigt[i, j] = C_mandel[i, j] / (s_i s_j)
            sv = np.array([1.0] * d + [_S2] * (n - d))
            return E.Anisotropic(d, C / np.outer(sv, sv), True, axis1=a1, axis2=a2, thickness=1.3)
        return E.Anisotropic(d, C, False, axis1=a1, axis2=a2, thickness=1.3)
    raise KeyError(name)


def _vec_unknowns(problem, d):
    if problem == "thermal":
        return ["t"]
    return ["x", "y", "z"][:d]


def _apply_bc_continuum(simu, case, sets, coords0, Q):
    """Same node sets, full vectors rotated by Q (coords0: ORIGINAL coordinates: prescribed values are functions of them)."""
    d = case["dim"]
    problem = case["problem"]
    unk = _vec_unknowns(problem, d)
    small = 0.5 if problem == "hyperelastic" else 1.0
    nops = 0
    x0 = coords0
    if problem == "thermal":
        left, right = sets["left"], sets["right"]
        simu.add_dirichlet(left, [1.0 + 0.5 * x0[left, 1] - 0.3 * x0[left, 2]], unk)
        if d == 1:
            simu.add_neumann(right, [0.7], unk)
            simu.add_lineLoad(sets["all"], [0.4], unk)
        elif d == 2:
            simu.add_lineLoad(right, [0.7], unk)
            simu.add_surfLoad(sets["all"], [0.4], unk)
        else:
            simu.add_surfLoad(right, [0.7], unk)
            simu.add_volumeLoad(sets["all"], [0.4], unk)
        simu.add_neumann(sets["point"], [-0.2], unk)
        return 4

    def rot(v):  # (n,3) or (3,) original vectors -> components of the rotated vectors, first d
        v = np.atleast_2d(np.asarray(v, dtype=float)) @ Q.T
        return v[:, :d]

    left, right = sets["left"], sets["right"]
    uD0 = np.zeros((left.size, 3))
    uD0[:, 0] = 0.010 + 0.004 * x0[left, 1]
    uD0[:, 1] = -0.006 + 0.003 * x0[left, 2] + 0.002 * x0[left, 1]
    if d == 3:
        uD0[:, 2] = 0.005 * x0[left, 1] - 0.002
    uD = rot(uD0 * small)
    simu.add_dirichlet(left, [uD[:, i].copy() for i in range(d)], unk)
    nops += 1
    if case["load"] == "pressure":
        simu.add_pressureLoad(right, 0.05 * small)
        return nops + 1
    q0 = np.array([0.07, -0.04, 0.02 if d == 3 else 0.0]) * small
    b0 = np.array([-0.03, 0.05, -0.04 if d == 3 else 0.0]) * small
    f0 = np.array([0.02, 0.03, -0.025 if d == 3 else 0.0]) * small
    q, b, f = rot(q0)[0], rot(b0)[0], rot(f0)[0]
    if d == 2:
        simu.add_lineLoad(right, [float(x) for x in q], unk)
        simu.add_surfLoad(sets["all"], [float(x) for x in b], unk)
    else:
        simu.add_surfLoad(right, [float(x) for x in q], unk)
        simu.add_volumeLoad(sets["all"], [float(x) for x in b], unk)
    simu.add_neumann(sets["point"], [float(x) for x in f], unk)
    return nops + 3


def _initial_state(case, coords0, Q):
    """u0, v0 of the Newmark step: smooth fields of the original coordinates, rotated."""
    d = case["dim"]
    x0 = coords0
    u = np.zeros((x0.shape[0], 3))
    v = np.zeros((x0.shape[0], 3))
    u[:, 0] = 0.004 * x0[:, 0] * x0[:, 1]
    u[:, 1] = -0.003 * x0[:, 0] ** 2
    v[:, 0] = 0.05 * x0[:, 0]
    v[:, 1] = 0.03 * x0[:, 0] * (1 + x0[:, 1])
    if d == 3:
        u[:, 2] = 0.002 * x0[:, 0] * x0[:, 2]
        v[:, 2] = -0.04 * x0[:, 0] * x0[:, 1]
    return (u @ Q.T)[:, :d].ravel(), (v @ Q.T)[:, :d].ravel()


def _make_simu(case, mesh, mat):
    from EasyFEA import Simulations

    p = case["problem"]
    if p == "thermal":
        return Simulations.Thermal(mesh, mat)
    if p == "hyperelastic":
        return Simulations.HyperElastic(mesh, mat, absTol=1e-13, relTol=1e-13, incTol=1e-13, maxIter=25)
    simu = Simulations.Elastic(mesh, mat)
    return simu


def _mass_center(simu, obs):
    """simu.mass / simu.center (where the simulation defines them) into obs; an exception is kept as text (the property promises a value)."""
    try:
        m, c = simu.mass, simu.center
    except Exception as err:  # reported by _compare_center as a violation of the way being run
        obs["mc_error"] = f"simu.mass / simu.center raised {type(err).__name__}{': ' + str(err) if str(err) else ''}"
        return 2
    if m is not None and c is not None:
        obs["mass"] = float(m)
        obs["center"] = np.asarray(c, dtype=float).copy()
    return 2


def _compare_center(cmp, way, o0, oT, Q, t, scale):
    """scalar mass equal, centre of mass (a position) moved: c_T = Q c + t."""
    if "mc_error" in oT:
        cmp.failed(way, "center_of_mass", oT["mc_error"])
    elif "center" in o0 and "center" in oT:
        cmp.check(way, "mass", oT["mass"], o0["mass"])
        cmp.check(way, "center_of_mass", oT["center"], Q @ o0["center"] + t, scale=scale, extra="(simu.center vs Q c + t of the original)")


def _solve_continuum(simu, case, sets, coords0, Q, fresh=True):
    """Applies the (rotated) constraints and loads, solves, returns the observables."""
    d, p = case["dim"], case["problem"]
    nops = 0
    simu.Bc_Init()
    if p == "elastic_newmark":
        simu.rho = 1.4
        simu.Set_Rayleigh_Damping_Coefs(0.05, 0.02)
        simu.Solver_Set_Hyperbolic_Algorithm(dt=0.05)
        u0, v0 = _initial_state(case, coords0, Q)
        simu._Set_solutions(simu.problemType, u0, v0, np.zeros_like(u0))
    elif p == "hyperelastic" and not fresh:
        simu._Set_solutions(simu.problemType, np.zeros(simu.mesh.Nn * d))
    nops += _apply_bc_continuum(simu, case, sets, coords0, Q)
    simu.Solve()
    nops += 1
    obs = {}
    Nn = simu.mesh.Nn
    if p == "thermal":
        obs["scalar"] = np.asarray(simu.thermal, dtype=float).copy()
        Ks, Cs, _, _ = simu.Get_K_C_M_F()
        K = Ks.toarray()
        obs["K"] = K
        obs["C"] = Cs.toarray()
        obs["energy"] = float(0.5 * obs["scalar"] @ K @ obs["scalar"])
        return obs, nops + 1
    dd = d
    obs["u"] = np.asarray(simu.displacement, dtype=float).reshape(Nn, dd).copy()
    ax = "xyz"[:dd]
    comp = [a + b for i, a in enumerate(ax) for b in ax[i:]]
    obs["S"] = comps_to_tensor({c: np.asarray(simu.Result("S" + c, nodeValues=False), dtype=float) for c in comp}, dd)
    obs["E"] = comps_to_tensor({c: np.asarray(simu.Result("E" + c, nodeValues=False), dtype=float) for c in comp}, dd)
    obs["Svm"] = np.asarray(simu.Result("Svm", nodeValues=False), dtype=float)
    nops += 2 * len(comp) + 1
    if p == "hyperelastic":
        obs["energy"] = float(simu.Result("W"))
        nops += 1
    else:
        obs["energy"] = float(simu.Result("Wdef"))
        K, C, M, _ = simu.Get_K_C_M_F()
        obs["K"] = K.toarray()
        obs["M"] = M.toarray()
        obs["Cmat"] = np.asarray(simu.material.C, dtype=float).copy()
        nops += 2
        if p == "elastic_newmark":
            obs["v"] = np.asarray(simu.speed, dtype=float).reshape(Nn, dd).copy()
            obs["a"] = np.asarray(simu.accel, dtype=float).reshape(Nn, dd).copy()
            obs["kinetic"] = float(0.5 * obs["v"].ravel() @ obs["M"] @ obs["v"].ravel())
    return obs, nops


def _rotate_blocks(K, B):
    """R K R^T with R = blockdiag(B, ..., B) (one block per node)."""
    m = B.shape[0]
    n = K.shape[0] // m
    K4 = K.reshape(n, m, n, m)
    return np.einsum("ab,ibjc,dc->iajd", B, K4, B, optimize=True).reshape(n * m, n * m)


def _compare_continuum(cmp: _Cmp, way, case, o0, oT, Q):
    d, p = case["dim"], case["problem"]
    if p == "thermal":
        cmp.check(way, "K_covariant", oT["K"], o0["K"], extra="(conduction matrix is invariant)")
        cmp.check(way, "C_covariant", oT["C"], o0["C"], extra="(capacity matrix is invariant)")
        cmp.check(way, "scalar_field", oT["scalar"], o0["scalar"])
        cmp.check(way, "energy", oT["energy"], o0["energy"])
        return
    Qd = Q[:d, :d]
    if "K" in o0:
        Mr = mandel_rotation(Q, d)
        cmp.check(way, "material_C", oT["Cmat"], Mr @ o0["Cmat"] @ Mr.T, extra="(law.C of the moved body vs the rotated 4th-order tensor)")
        cmp.check(way, "K_covariant", oT["K"], _rotate_blocks(o0["K"], Qd))
        cmp.check(way, "M_covariant", oT["M"], _rotate_blocks(o0["M"], Qd))
    cmp.check(way, "displacement", oT["u"], o0["u"] @ Qd.T, extra="(u_T(node) vs Q u(node))")
    cmp.check(way, "stress", oT["S"], np.einsum("ij,ejk,lk->eil", Qd, o0["S"], Qd), extra="(element stress vs Q s Q^T)")
    cmp.check(way, "strain", oT["E"], np.einsum("ij,ejk,lk->eil", Qd, o0["E"], Qd))
    cmp.check(way, "von_mises", oT["Svm"], o0["Svm"])
    cmp.check(way, "energy", oT["energy"], o0["energy"])
    if "v" in o0:
        cmp.check(way, "velocity", oT["v"], o0["v"] @ Qd.T)
        cmp.check(way, "acceleration", oT["a"], o0["a"] @ Qd.T)
        cmp.check(way, "kinetic_energy", oT["kinetic"], o0["kinetic"])


def _run_continuum(case):
    d = case["dim"]
    sdim = 3 if d in (1, 3) else 2
    ops = motion_ops(case["T"], sdim)
    Q, t = motion_matrix(ops)
    key = dict(kind="continuum", problem=case["problem"], dim=d, elemType=str(case["elemType"]) if isinstance(case["elemType"], list) else case["elemType"],
               material=case["material"], load=case["load"], T=case["T"])
    if case["mesh"] != "template":
        key["mesh"] = case["mesh"]
    if case["axes0"] == "canonical":
        key["axes0"] = "canonical"
    cmp = _Cmp(key)
    zm, sets = _template(case)
    A = _axes0(case)
    nops = 0
    skipped = None
    with _quiet():
        # original
        mesh0 = zm.build()
        mesh_copy = mesh0.copy()
        simu0 = _make_simu(case, mesh0, _material(case, A, np.eye(3), mesh0.Ne))
        try:
            o0, n = _solve_continuum(simu0, case, sets, zm.coords, np.eye(3))
        except AssertionError as err:
            if case["problem"] == "hyperelastic" and "did not converged" in str(err):
                return {"violations": [], "fingerprint": "newton", "nontrivial": False, "outcome": "skipped", "transitions": 1,
                        "skipped": "newton_not_converged"}
            raise
        nops += n
        xT = zm.coords @ Q.T + t
        ways = {}
        # (copy) moved copy of the mesh
        nops += apply_ops_api(mesh_copy, ops)
        ways["copy"] = mesh_copy
        # (coords) mesh from transformed coordinates
        ways["coords"] = zm.mapped(Q, t).build()
        for way, mesh in ways.items():
            cmp.check(way, "mesh_coordinates", np.asarray(mesh.coord, dtype=float), xT, tol=1e-12, scale=max(1.0, np.abs(xT).max()))
            simu = _make_simu(case, mesh, _material(case, A, Q, mesh.Ne))
            try:
                oT, n = _solve_continuum(simu, case, sets, zm.coords, Q)
            except AssertionError as err:
                if case["problem"] == "hyperelastic" and "did not converged" in str(err):
                    skipped = "newton_not_converged"
                    continue
                raise
            nops += n
            _compare_continuum(cmp, way, case, o0, oT, Q)
        # (live) the solved simulation follows its mesh
        if case["material"] not in AXES_MATERIALS:
            nops += apply_ops_api(mesh0, ops)
            cmp.check("live", "mesh_coordinates", np.asarray(simu0.mesh.coord, dtype=float), xT, tol=1e-12, scale=max(1.0, np.abs(xT).max()))
            try:
                oT, n = _solve_continuum(simu0, case, sets, zm.coords, Q, fresh=False)
                nops += n
                _compare_continuum(cmp, "live", case, o0, oT, Q)
            except AssertionError as err:
                if case["problem"] == "hyperelastic" and "did not converged" in str(err):
                    skipped = "newton_not_converged"
                else:
                    raise
    main = o0["scalar"] if case["problem"] == "thermal" else o0["u"]
    free = np.setdiff1d(np.arange(main.shape[0]), sets["left"])
    nontrivial = bool(free.size and np.abs(main[free]).max() > 0)
    return {"violations": cmp.v, "fingerprint": fp(case["problem"], d, str(case["elemType"]), case["material"], case["load"], case["axes0"],
                                                        case["mesh"], case["T"], main, o0["energy"]),
            "nontrivial": nontrivial, "transitions": nops, "skipped": skipped if not cmp.v else None, "max_rel_err": cmp.worst,
            "outcome": "violation" if cmp.v else ("skipped" if skipped else "covariant")}


# ------------------------------------------------------------------------------------------------
# beams
# ------------------------------------------------------------------------------------------------
BEAM_E, BEAM_NU = 100.0, 0.3
SEC_B, SEC_H = 0.09, 0.14   # section extent along the member's local z and y
N_ELEM_MEMBER = 2


def _members(structure: str, dim: int):
    """Original configuration: list of (p0, p1, yAxis given by the user)."""
    z = np.array([0.0, 0.0, 1.0])
    if structure == "cantilever":
        p0 = np.array([0.2, 0.1, 0.0 if dim == 2 else -0.15])
        return [(p0, p0 + np.array([1.2, 0.0, 0.0]), np.array([0.0, 1.0, 0.0]))]
    if structure == "cantilever_onaxis":
        # the member lies ON the x axis (the mesh of a single such member is embedded in one dimension)
        p0 = np.array([0.2, 0.0, 0.0])
        return [(p0, p0 + np.array([1.2, 0.0, 0.0]), np.array([0.0, 1.0, 0.0]))]
    if structure == "cantilever_y":
        p0 = np.array([0.2, 0.1, 0.0 if dim == 2 else -0.15])
        return [(p0, p0 + np.array([0.0, 1.2, 0.0]), np.array([-1.0, 0.0, 0.0]))]
    if structure == "cantilever_gen":
        p0 = np.array([0.2, 0.1, 0.0 if dim == 2 else -0.15])
        dr = _unit([0.8, 0.5, 0.0]) if dim == 2 else _unit([0.7, 0.45, 0.55])
        y = np.cross(z, dr) if dim == 2 else np.array([0.2, -0.3, 0.9])
        return [(p0, p0 + 1.2 * dr, y)]
    if structure == "frame":
        a = np.zeros(3)
        b = np.array([1.0, 0.0, 0.0])
        if dim == 2:
            dr = np.array([np.cos(np.radians(60.0)), np.sin(np.radians(60.0)), 0.0])
            y2 = np.cross(z, dr)
        else:
            dr = _unit([0.5, 0.6, 0.62])
            y2 = np.array([0.1, -0.2, 1.0])  # not perpendicular on purpose: the library orthogonalises
        return [(a, b, np.array([0.0, 1.0, 0.0])), (b, b + 0.8 * dr, y2)]
    raise KeyError(structure)


def _section():
    return Z.template_2d("QUAD8", k=2, size=(SEC_B, SEC_H)).build()


def _frame_of(p0, p1, y):
    """Orthonormal member frame (columns i, j, k) from the documented construction (k = i x y, j = k x i)."""
    i = _unit(p1 - p0)
    k = _unit(np.cross(i, y))
    j = np.cross(k, i)
    return np.stack([i, j, k], axis=1)


def _beam_model(case, members, lines=None):
    from EasyFEA import Models
    from EasyFEA.Geoms import Line, Point

    sec = _section()
    beams = []
    if lines is None:
        lines = []
        for (p0, p1, y) in members:
            L = float(np.linalg.norm(p1 - p0))
            lines.append(Line(Point(*[float(x) for x in p0]), Point(*[float(x) for x in p1]), L / N_ELEM_MEMBER))
    for line, (p0, p1, y) in zip(lines, members):
        beams.append(Models.Beam.Isotropic(case["dim"], line, sec, BEAM_E, BEAM_NU, yAxis=tuple(float(x) for x in y)))
    return beams, lines


def _beam_mesh(case, beams):
    from EasyFEA import ElemType, Mesher

    return Mesher().Mesh_Beams(beams, elemType=ElemType[case["elemType"]])


def _member_nodes(mesh, beams):
    """Per member: sorted node ids used by the elements tagged with the beam's name."""
    out = []
    for b in beams:
        el = np.asarray(mesh.Elements_Tags([b.name]), dtype=int)
        out.append(np.unique(mesh.connect[el]))
    return out


def _retag(mesh, beams, member_nodes):
    for b, nodes in zip(beams, member_nodes):
        for g in mesh.Get_list_groupElem():
            g.Set_Tag(np.asarray(nodes, dtype=int), b.name)


def _node_map(coords0, mem0, coordsT, memT, Q, t):
    """original node id -> transformed node id, matching member by member on coordinates."""
    Nn = coords0.shape[0]
    nmap = -np.ones(Nn, dtype=int)
    for n0, nT in zip(mem0, memT):
        if len(n0) != len(nT):
            raise RuntimeError("regenerated beam mesh has a different node count (harness)")
        want = coords0[n0] @ Q.T + t
        for a, w in zip(n0, want):
            dist = np.linalg.norm(coordsT[nT] - w, axis=1)
            j = int(np.argmin(dist))
            if dist[j] > 1e-8:
                raise RuntimeError(f"no node at the image of node {a}: distance {dist[j]:.2e} (harness / mesher)")
            nmap[a] = nT[j]
    if (nmap < 0).any() or np.unique(nmap).size != Nn:
        raise RuntimeError("node map is not a bijection (harness)")
    return nmap


def _beam_sets(coords0, members):
    def at(p):
        return np.where(np.linalg.norm(coords0 - p, axis=1) < 1e-9)[0]

    sets = {"clamp": at(members[0][0]), "tip": at(members[-1][1]), "all": np.arange(coords0.shape[0])}
    if len(members) == 2:
        sets["joint"] = at(members[0][1])
    return sets


def _beam_solve(simu, case, sets, nmap, Q):
    """Constraints and loads on the same (mapped) node sets, vectors rotated, rotations / moments as axial vectors."""
    dim = case["dim"]
    det = float(np.sign(np.linalg.det(Q)))
    Qa = det * Q
    d0, r0, F0, M0, q0 = _beam_data(dim)
    d, r, F, M, q = Q @ d0, Qa @ r0, Q @ F0, Qa @ M0, Q @ q0
    simu.Bc_Init()
    nops = 0
    if dim == 2:
        unk = ["x", "y", "rz"]
        simu.add_dirichlet(nmap[sets["clamp"]], [float(d[0]), float(d[1]), float(r[2])], unk)
    else:
        unk = ["x", "y", "z", "rx", "ry", "rz"]
        simu.add_dirichlet(nmap[sets["clamp"]], [float(x) for x in d] + [float(x) for x in r], unk)
    nops += 1
    if "joint" in sets:
        simu.add_connection_fixed(nmap[sets["joint"]])
        nops += 1
    if case["load"] == "tip":
        if dim == 2:
            simu.add_neumann(nmap[sets["tip"]], [float(F[0]), float(F[1]), float(M[2])], unk)
        else:
            simu.add_neumann(nmap[sets["tip"]], [float(x) for x in F] + [float(x) for x in M], unk)
    elif case["load"] == "line":
        simu.add_lineLoad(nmap[sets["all"]], [float(x) for x in q[:dim]], unk[:dim])
    else:
        m = Qa @ (BEAM_M0 * 0.7 if dim == 3 else np.array([0.0, 0.0, BEAM_M0[2] * 0.7]))
        vals = [float(x) for x in q[:dim]] + ([float(m[2])] if dim == 2 else [float(x) for x in m])
        simu.add_lineLoad(nmap[sets["all"]], vals, unk)
    nops += 1
    simu.Solve()
    return nops + 1


def _beam_observe(simu, case, nmap, elem_of):
    """Observables re-indexed with the ORIGINAL node / element numbering."""
    dim = case["dim"]
    mesh = simu.mesh
    Nn = mesh.Nn
    dof_n = 3 if dim == 2 else 6
    U = np.asarray(simu.displacement, dtype=float).reshape(Nn, dof_n)
    obs = {"U": U[nmap].copy()}
    names = ["N", "Ty", "Mz"] if dim == 2 else ["N", "Ty", "Tz", "Mx", "My", "Mz"]
    for nm in names:
        obs[nm] = np.asarray(simu.Result(nm, nodeValues=False), dtype=float)[elem_of].copy()
    return obs, len(names) + _mass_center(simu, obs)


def _beam_K(simu, nmap, dof_n):
    """Assembled (K, M) restricted to the displacement dofs, re-indexed with the ORIGINAL node numbering."""
    Nn = simu.mesh.Nn
    n = Nn * dof_n
    K, _, M, _ = simu.Get_K_C_M_F()
    dofs = (nmap[:, None] * dof_n + np.arange(dof_n)[None, :]).ravel()
    return K.toarray()[:n, :n][np.ix_(dofs, dofs)], M.toarray()[:n, :n][np.ix_(dofs, dofs)]


def _elem_map(connect0, connectT, nmap):
    look = {tuple(sorted(row.tolist())): e for e, row in enumerate(connectT)}
    out = []
    for row in connect0:
        k = tuple(sorted(nmap[row].tolist()))
        if k not in look:
            raise RuntimeError("element of the original mesh has no image (harness / mesher)")
        out.append(look[k])
    return np.array(out, dtype=int)


def _node_rotation_block(Q, dim):
    det = float(np.sign(np.linalg.det(Q)))
    if dim == 2:
        B = np.zeros((3, 3))
        B[:2, :2] = Q[:2, :2]
        B[2, 2] = det * Q[2, 2]  # (a half turn about an in-plane axis has det +1 and Q_zz = -1)
        return B
    B = np.zeros((6, 6))
    B[:3, :3] = Q
    B[3:, 3:] = det * Q
    return B


BEAM_D0 = np.array([0.002, -0.001, 0.0015])   # settlement of the clamp (displacement)
BEAM_R0 = np.array([0.001, -0.002, 0.003])     # settlement of the clamp (rotation, axial vector)
BEAM_F0 = np.array([0.3, -1.0, 0.6]) * 1e-3    # tip force
BEAM_M0 = np.array([0.2, 0.5, -0.4]) * 1e-3    # tip moment (axial vector)
BEAM_Q0 = np.array([0.4, -0.9, 0.5]) * 1e-3    # uniform line load


def _beam_data(dim):
    """Original-configuration data; 2D: in-plane displacements / forces, rotation and moment about z only."""
    d0, r0, F0, M0, q0 = (a.copy() for a in (BEAM_D0, BEAM_R0, BEAM_F0, BEAM_M0, BEAM_Q0))
    if dim == 2:
        d0[2] = F0[2] = q0[2] = 0.0
        r0[:2] = M0[:2] = 0.0
    return d0, r0, F0, M0, q0


def _cantilever_closed_form(case, member, k_shear):
    """Tip dofs (global components, ORIGINAL configuration) of the clamped member with settlement d0, r0 at the clamp and
    tip force F0 / tip moment M0, or uniform line load q0: Euler-Bernoulli (+ Timoshenko shear term for the tip load)
    superposed with the rigid motion of the clamp.  Conventions of the library: ry = -w', rz = v'."""
    dim = case["dim"]
    p0, p1, y = member
    Fr = _frame_of(p0, p1, y)
    L = float(np.linalg.norm(p1 - p0))
    E, G = BEAM_E, BEAM_E / (2 * (1 + BEAM_NU))
    A = SEC_B * SEC_H
    Iz = SEC_B * SEC_H ** 3 / 12.0   # int y^2
    Iy = SEC_H * SEC_B ** 3 / 12.0   # int z^2
    J = Iy + Iz
    d0, r0, F0, M0, q0 = _beam_data(dim)
    if case["load"] == "tip":
        Fl, Ml = Fr.T @ F0, Fr.T @ M0
        sy = sz = 0.0
        if case["theory"] == "TIMO":
            sy = Fl[1] * L / (k_shear[0] * G * A)
            sz = Fl[2] * L / (k_shear[1] * G * A)
        ul = np.array([Fl[0] * L / (E * A),
                       Fl[1] * L ** 3 / (3 * E * Iz) + Ml[2] * L ** 2 / (2 * E * Iz) + sy,
                       Fl[2] * L ** 3 / (3 * E * Iy) - Ml[1] * L ** 2 / (2 * E * Iy) + sz])
        rl = np.array([Ml[0] * L / (G * J),
                       -Fl[2] * L ** 2 / (2 * E * Iy) + Ml[1] * L / (E * Iy),
                       Fl[1] * L ** 2 / (2 * E * Iz) + Ml[2] * L / (E * Iz)])
    else:
        ql = Fr.T @ q0
        ul = np.array([ql[0] * L ** 2 / (2 * E * A), ql[1] * L ** 4 / (8 * E * Iz), ql[2] * L ** 4 / (8 * E * Iy)])
        rl = np.array([0.0, -ql[2] * L ** 3 / (6 * E * Iy), ql[1] * L ** 3 / (6 * E * Iz)])
    if dim == 2:
        ul[2] = 0.0
        rl[:2] = 0.0
    u = d0 + np.cross(r0, p1 - p0) + Fr @ ul
    r = r0 + Fr @ rl
    return u, r


def _run_beam(case):
    from EasyFEA import Models, Simulations

    dim = case["dim"]
    dof_n = 3 if dim == 2 else 6
    timo = case["theory"] == "TIMO"
    members0 = _members(case["structure"], dim)
    # centre of mass of the homogeneous structure (one section): length-weighted mean of the member mid-points
    lengths = np.array([np.linalg.norm(p1 - p0) for (p0, p1, _) in members0])
    com0 = (lengths[:, None] * np.array([(p0 + p1) / 2 for (p0, p1, _) in members0])).sum(axis=0) / lengths.sum()
    ops = motion_ops(case["T"], dim, com=com0)
    Q, t = motion_matrix(ops)
    det = float(np.sign(np.linalg.det(Q)))
    membersT = [(Q @ p0 + t, Q @ p1 + t, Q @ y) for (p0, p1, y) in members0]
    frames = [_frame_of(*m) for m in members0 + membersT]
    frames_symmetric = bool(all(np.abs(P - P.T).max() < 1e-9 for P in frames))
    key = dict(kind="beam", dim=dim, theory=case["theory"], elemType=case["elemType"], structure=case["structure"], load=case["load"],
               T=case["T"], member_frames_symmetric=frames_symmetric)
    cmp = _Cmp(key)
    nops = 0
    B = _node_rotation_block(Q, dim)
    # sign of each internal force under an improper motion (components along i, j, k' = det Q k)
    sign = {"N": 1.0, "Ty": 1.0, "Mz": 1.0, "Tz": det, "Mx": det, "My": det}
    with _quiet():
        # ---- original ----------------------------------------------------------------------
        beams0, lines0 = _beam_model(case, members0)
        mesh0 = _beam_mesh(case, beams0)
        coords0 = np.asarray(mesh0.coord, dtype=float).copy()
        connect0 = np.asarray(mesh0.connect, dtype=int).copy()
        mem0 = _member_nodes(mesh0, beams0)
        mesh_copy = mesh0.copy()
        sets = _beam_sets(coords0, members0)
        ident = np.arange(coords0.shape[0])
        eident = np.arange(connect0.shape[0])
        simu0 = Simulations.Beam(mesh0, Models.Beam.BeamStructure(beams0), useTimoshenko=timo)
        K0, Mass0 = _beam_K(simu0, ident, dof_n)
        nops += _beam_solve(simu0, case, sets, ident, np.eye(3))
        o0, n = _beam_observe(simu0, case, ident, eident)
        nops += n + 3
        energy0 = float(0.5 * o0["U"].ravel() @ K0 @ o0["U"].ravel())
        k_shear = (float(beams0[0]._ky), float(beams0[0]._kz))

        def closed_form(way, obs, Qw):
            if not case["structure"].startswith("cantilever"):
                return
            if case["load"] == "linecouple":
                return  # (no closed form written for the distributed couple: decided by covariance only)
            if timo and (case["elemType"] == "SEG2" or case["load"] == "line"):
                return  # documented: SEG2 Timoshenko is O(h^2); nodal exactness under a distributed load holds for the Hermite elements only
            u, r = _cantilever_closed_form(case, members0[0], k_shear)
            detw = float(np.sign(np.linalg.det(Qw)))
            uw, rw = Qw @ u, detw * (Qw @ r)
            want = np.concatenate([uw[:2], rw[2:]]) if dim == 2 else np.concatenate([uw, rw])
            got = obs["U"][sets["tip"][0]]
            sc_u, sc_r = np.abs(u).max(), np.abs(r).max()
            scale = np.array([sc_u] * (2 if dim == 2 else 3) + [sc_r] * (1 if dim == 2 else 3))
            cmp.check(way, "cantilever_closed_form", got / scale, want / scale, tol=TOL_ANALYTIC, scale=1.0,
                      extra="(tip dofs vs Euler-Bernoulli/Timoshenko closed form in the member's own axes)")

        closed_form("original", o0, np.eye(3))
        if "mc_error" in o0:
            cmp.failed("original", "center_of_mass", o0["mc_error"])
        xscale = max(1.0, float(np.abs(coords0 @ Q.T + t).max()))

        def compare(way, oT, KMT):
            KT, MT = KMT
            cmp.check(way, "K_covariant", KT, _rotate_blocks(K0, B), extra="(assembled K vs R K0 R^T, R = blockdiag[Q, det(Q) Q] per node)")
            cmp.check(way, "M_covariant", MT, _rotate_blocks(Mass0, B))
            cmp.check(way, "displacement", oT["U"], o0["U"] @ B.T,
                      extra="(node dofs [u, r] vs [Q u, det(Q) Q r] of the original)")
            for nm in o0:
                if nm not in sign:
                    continue
                grp = ("Mx", "My", "Mz") if nm[0] == "M" else ("N", "Ty", "Tz")
                ref = np.abs(np.concatenate([o0[m] for m in grp if m in o0])).max()
                cmp.check(way, "internal_forces", oT[nm], sign[nm] * o0[nm], scale=max(ref, 1e-300), extra=f"({nm} per element)")
            cmp.check(way, "energy", float(0.5 * oT["U"].ravel() @ KT @ oT["U"].ravel()), energy0)
            closed_form(way, oT, Q)
            _compare_center(cmp, way, o0, oT, Q, t, xscale)

        # ---- (copy) moved copy of the mesh + Geom API on copies of the lines ----------------
        nops += apply_ops_api(mesh_copy, ops)
        linesC = []
        for ln in lines0:
            lc = ln.copy()
            nops += apply_ops_api(lc, ops)
            linesC.append(lc)
        beamsC, _ = _beam_model(case, membersT, lines=linesC)
        _retag(mesh_copy, beamsC, mem0)
        simuC = Simulations.Beam(mesh_copy, Models.Beam.BeamStructure(beamsC), useTimoshenko=timo)
        xT = coords0 @ Q.T + t
        cmp.check("copy", "mesh_coordinates", np.asarray(simuC.mesh.coord, dtype=float), xT, tol=1e-12, scale=max(1.0, np.abs(xT).max()))
        for ln, (p0, p1, _) in zip(linesC, membersT):
            cmp.check("copy", "line_geometry", np.array([ln.pt1.coord, ln.pt2.coord], dtype=float), np.array([p0, p1]), tol=1e-12,
                      scale=max(1.0, np.abs(xT).max()))
        KC = _beam_K(simuC, ident, dof_n)
        nops += _beam_solve(simuC, case, sets, ident, Q)
        oC, n = _beam_observe(simuC, case, ident, eident)
        nops += n + 1
        compare("copy", oC, KC)

        # ---- (geom) new Lines from transformed end points, new gmsh mesh ---------------------
        beamsG, _ = _beam_model(case, membersT)
        meshG = _beam_mesh(case, beamsG)
        simuG = Simulations.Beam(meshG, Models.Beam.BeamStructure(beamsG), useTimoshenko=timo)
        coordsG = np.asarray(simuG.mesh.coord, dtype=float)
        nmap = _node_map(coords0, mem0, coordsG, _member_nodes(simuG.mesh, beamsG), Q, t)
        emap = _elem_map(connect0, np.asarray(simuG.mesh.connect, dtype=int), nmap)
        KG = _beam_K(simuG, nmap, dof_n)
        nops += _beam_solve(simuG, case, sets, nmap, Q)
        oG, n = _beam_observe(simuG, case, nmap, emap)
        nops += n + 2
        compare("geom", oG, KG)

        # ---- (live) the solved simulation: mesh, lines and yAxis moved in place ---------------
        nops += apply_ops_api(simu0.mesh, ops)  # Simulations.Beam works on its own beam-element mesh
        for ln in lines0:
            nops += apply_ops_api(ln, ops)
        for b, (_, _, y) in zip(beams0, membersT):
            b.yAxis = tuple(float(x) for x in y)
        cmp.check("live", "mesh_coordinates", np.asarray(simu0.mesh.coord, dtype=float), xT, tol=1e-12, scale=max(1.0, np.abs(xT).max()))
        KL = _beam_K(simu0, ident, dof_n)
        nops += _beam_solve(simu0, case, sets, ident, Q)
        oL, n = _beam_observe(simu0, case, ident, eident)
        nops += n + 1
        compare("live", oL, KL)

    free = np.setdiff1d(sets["all"], sets["clamp"])
    nontrivial = bool(np.abs(o0["U"][free]).max() > 0)
    return {"violations": cmp.v, "fingerprint": fp("beam", dim, case["theory"], case["elemType"], case["structure"], case["load"], case["T"],
                                                         o0["U"], energy0),
            "nontrivial": nontrivial, "transitions": nops, "outcome": "violation" if cmp.v else "covariant", "max_rel_err": cmp.worst}


def run_case(case):
    if case["kind"] == "beam":
        return _run_beam(case)
    return _run_continuum(case)
