"""C04 — constraints hold exactly, the returned solution solves the stated system, backends and resolutions agree.

E1 exploration on the real solve pipeline (`_Simu.Solve` -> `Solvers.Solve_simu` -> `__Solver_1/__Solver_2` ->
`_Solve_Axb`).  A configuration is

    problem  x  BC PROGRAM  x  ground  x  orphan node  x  resolution  x  solve mode  x  solver backend

* problem: Elastic 2D (QUAD4 3x2 grid, 24 dofs), Thermal 2D (TRI6 3x2 grid, 35 dofs), Beam 2D frame (two members, 18/21
  dofs; joined by a shared node, a fixed connection or a hinged connection = Lagrange multipliers), PhaseField damage
  sub-problem (QUAD4 3x2 grid, 12 dofs; `History` = plain linear solve, `BoundConstrain` = bounded least squares with
  the bounds of `Get_lb_ub`), and a user weak form with a NON symmetric operator ("advdiff": Simulations.WeakForms with a
  non-symmetric conductivity tensor, QUAD4 3x2 grid; K_fc != K_cf^T, conjugate gradients excluded).
* BC program: EVERY ordered selection of 1..3 distinct atoms of
      dAc  Dirichlet(A, constants)            dAa  Dirichlet(A listed in decreasing node order, arrays; unknowns reversed)
      dBf  Dirichlet(B, functions of x,y,z)   dAB  Dirichlet(A n B again, one unknown)
      nC   Neumann point load on C            lD   line load on D
  with A n B != {} (so dofs are entered two, three times in every order and value form): 6 + 30 + 120 = 156 programs.
* ground: a small support G (disjoint from A, B) added before ("first") or after ("last") the program so that every
  program is solvable, or not at all ("none": programs whose own constraints leave a singular system are counted as
  undefined, the property promises nothing there).
* resolution: elimination, or Lagrange multipliers (forced by one "trivial" Lagrange condition that the elimination
  solution already satisfies, by "active" Lagrange conditions, or by beam connections).
* mode: linear, or Newton-incremental (the same linear problem assembled through the nonlinear contract K = tangent,
  F = -residual by a harness subclass, started from a generic state that violates the constraints: Dirichlet values
  become increments), or one step of an implicit time scheme from a generic state (newmark, midpoint, hht, hht_newmark,
  euler_implicit on Elastic with mass and Rayleigh damping; parabolic on Thermal): there the stated system is
  A = cK K + cC C + cM M, b = load + history terms as the implementation builds them before constraints.
* thorough adds a second mesh per 2D problem (TRI3 / QUAD8 / TRI3).
* solver: every member of `SolverType` that is installed (scipy, cg, bicg, gmres, lgmres; lsq_linear where bounds exist).

Reference model (dense numpy, written from the documented semantics):
  dof(node, unknown) = node * dof_n + index(unknown)                     (BoundaryCondition.Get_dofs_nodes docstring)
  a constrained dof holds the SUM of the values entered for it           (_Simu._Bc_Add_Dirichlet docstring:
      "If a Dirichlet's dof is entered more than once, the conditions are added together.")
  loads superpose (a line load itself enters a shared node once per adjacent element)
  u_f = K_ff^-1 (F_f - K_fc u_c);  with multipliers: the dense KKT system [[K_ff, L_f^T], [L_f, 0]].
K (and the volume source F of the damage problem) are taken from a twin simulation without boundary conditions
(assembly is C03's subject), the applied nodal loads from the entered Neumann list (load integration is C09's subject).
"""
from __future__ import annotations

import contextlib
import inspect
import io
import itertools
import warnings

import numpy as np

from mc.util import deviations, fp, rng, viol
from zoo import meshes as Z

PROPERTY = "C04"

ATOMS = ["dAc", "dAa", "dBf", "dAB", "nC", "lD"]
PROBLEMS = ["elastic", "thermal", "beam", "damage", "advdiff"]
EXPECTED_SOLVERS = ["scipy", "lsq_linear", "cg", "bicg", "gmres", "lgmres"]  # + pypardiso, petsc (not installed)
KRYLOV = ("cg", "bicg", "gmres", "lgmres")
TOL_DIRECT = 1e-9
TOL_EXACT = 1e-12
# bounded least squares: scipy.optimize.lsq_linear on a sparse A runs lsmr, whose iteration count is capped at its default
# min(m, n); on these systems it returns the unconstrained solution ("status 3") with a relative residual of ~2e-6 whatever
# `tol` is.  It is treated like the Krylov backends: 20 x lsmr's documented default atol = btol = 1e-6.
TOL_LSQ = 20 * 1e-6
COND_MAX = 1e8

RESOLS = {
    "elastic": ["elim", "lagr_trivial", "lagr_active"],
    "thermal": ["elim", "lagr_trivial", "lagr_active"],
    # conn_slider: a partial connection on unknowns that are NOT a leading prefix of (x, y, rz): add_connection(nodes, ["y", "rz"])
    "beam": ["elim", "conn_fixed", "conn_hinged", "conn_slider"],
    "damage": ["elim"],
    "advdiff": ["elim", "lagr_trivial", "lagr_active"],
}
MODES = {
    "elastic": ["linear", "newton"],
    "thermal": ["linear", "newton"],
    "beam": ["linear", "newton"],
    "damage": ["History", "BoundConstrain", "BoundConstrain_active"],
    "advdiff": ["linear"],  # NON symmetric operator (user weak form with a non-symmetric conductivity tensor): K_fc is not K_cf^T
}
# one implicit time step (statement (i) and the reduced solve hold for the schemes whose solve variable is the displacement /
# temperature; euler_explicit solves for the acceleration with zero acceleration on constrained dofs: documented, C05)
DYN_MODES = {"elastic": ["dyn_newmark", "dyn_midpoint", "dyn_hht", "dyn_hht_newmark", "dyn_euler_implicit"],
             "thermal": ["dyn_parabolic"]}
DYN_DT = 0.37
GROUNDS = {"elastic": ["first", "last", "none"], "thermal": ["first", "last", "none"], "beam": ["first", "last", "none"],
           "damage": ["none", "first"], "advdiff": ["first", "last", "none"]}


def programs(maxlen=3):
    return [">".join(p) for L in range(1, maxlen + 1) for p in itertools.permutations(ATOMS, L)]


def installed_solvers():
    from EasyFEA.Simulations import Solvers

    out = []
    for s in Solvers.SolverType:
        if s.name == "pypardiso" and not Solvers.CAN_USE_PYPARDISO:
            continue
        if s.name == "petsc" and not Solvers.CAN_USE_PETSC:
            continue
        out.append(s.name)
    return out


def krylov_rtol(name):
    """the backend's documented default relative tolerance (the implementation passes none)."""
    import scipy.sparse.linalg as sla

    p = inspect.signature(getattr(sla, name)).parameters
    return float((p.get("rtol") or p.get("tol")).default)


# ------------------------------------------------------------------------------------------------
# enumeration
# ------------------------------------------------------------------------------------------------
# atoms that alone make the stated system regular (rule used to leave out the ground="none" programs that are singular by
# construction; run_case re-checks regularity on the dense reference and reports a disagreement as a skipped case)
SUFFICIENT = {"elastic": {"dAc", "dAa", "dBf"}, "thermal": {"dAc", "dAa", "dBf", "dAB"}, "beam": {"dAc", "dAa", "dBf"},
              "damage": set(ATOMS), "advdiff": {"dAc", "dAa", "dBf", "dAB"}}


def supported(problem, resol, prog):
    atoms = set(prog.split(">"))
    if problem == "beam" and resol == "conn_hinged":
        return "dBf" in atoms  # the hinged member needs its tip held
    if problem == "beam" and resol == "conn_slider":
        return "dBf" in atoms  # the sliding member needs its x translation held
    return bool(atoms & SUFFICIENT[problem])


MESHES = {"elastic": {"base": "QUAD4", "alt": "TRI3"}, "thermal": {"base": "TRI6", "alt": "QUAD8"},
          "damage": {"base": "QUAD4", "alt": "TRI3"}, "beam": {"base": "SEG2"}, "advdiff": {"base": "QUAD4", "alt": "TRI3"}}


def _factors(problem, tier):
    f = {"ground": GROUNDS[problem], "orphan": [False, True], "resol": RESOLS[problem], "mode": MODES[problem]}
    if tier == "thorough":
        f["mesh"] = list(MESHES[problem])
    return f


def cases(tier, seed):
    out = []
    progs = programs(3)
    for problem in PROBLEMS:
        fac = _factors(problem, tier)
        full = deviations(fac, None)
        dev2 = deviations(fac, 2)
        small = deviations({k: fac[k] for k in ("orphan", "resol", "mode")}, 1)
        small = [dict(c, ground=fac["ground"][0]) for c in small]
        for prog in progs:
            n = prog.count(">") + 1
            if tier == "thorough":
                cfgs = full
            else:
                # quick: programs of <= 2 atoms with every configuration differing from the default one in <= 2 of the factors
                # (ground, orphan, resolution, mode); 3-atom programs with the default configuration and every single
                # deviation in orphan / resolution / mode
                cfgs = dev2 if n <= 2 else small
            for c in cfgs:
                if c["ground"] == "none" and not supported(problem, c["resol"], prog):
                    continue  # not enough support: the stated system is singular, the property promises nothing
                # Lagrange resolutions always end in the direct solver (documented fallback), the beam assembly is the
                # expensive one: quick runs those with scipy and cg only
                kry = "all" if (tier == "thorough" or (c["resol"] == "elim" and not (problem == "beam" and c["mode"] == "newton"))) else "cg"
                if problem == "advdiff" and kry == "cg":
                    kry = "gmres"
                out.append({"problem": problem, "prog": prog, "mesh": "base", **c, "krylov": kry})
    # implicit time schemes (elimination): thorough = all programs x ground x orphan x scheme; quick = programs of <= 2 atoms x
    # every scheme, 3-atom programs x the first scheme, default ground, without orphan
    for problem, modes in DYN_MODES.items():
        for prog in progs:
            n = prog.count(">") + 1
            for mode in modes if (tier == "thorough" or n <= 2) else modes[:1]:
                for ground in GROUNDS[problem] if tier == "thorough" else GROUNDS[problem][:1]:
                    if ground == "none" and not supported(problem, "elim", prog):
                        continue
                    for orphan in [False, True] if tier == "thorough" else [False]:
                        out.append({"problem": problem, "prog": prog, "mesh": "base", "ground": ground, "orphan": orphan,
                                    "resol": "elim", "mode": mode, "krylov": "all"})
    # homogeneous prescribed values (all zero) from a generic start state: linear and Newton-incremental modes
    for problem in ("elastic", "thermal", "beam"):
        for prog in [p for p in progs if p.count(">") == 1 and any(a.startswith("d") for a in p.split(">")) and any(a in ("nC", "lD") for a in p.split(">"))]:
            for mode in MODES[problem]:
                out.append({"problem": problem, "prog": prog, "mesh": "base", "ground": GROUNDS[problem][0], "orphan": False, "resol": "elim", "mode": mode,
                            "krylov": "cg", "homog": True})
    # the same programs with every entered value (prescribed values AND loads) x 1e-9 - nanometres written in metres: the problems are
    # linear, so constraints, residual and agreement are demanded relative to the scale of the solution as everywhere else
    for problem in ("elastic", "thermal", "beam"):
        for prog in [p for p in progs if p.count(">") == 1 and any(a.startswith("d") for a in p.split(">")) and any(a in ("nC", "lD") for a in p.split(">"))]:
            for mode in MODES[problem]:
                out.append({"problem": problem, "prog": prog, "mesh": "base", "ground": GROUNDS[problem][0], "orphan": False, "resol": "elim", "mode": mode,
                            "krylov": "cg", "tiny": True})
    out.append({"kind": "solver_set"})
    # every installed Krylov backend on a harder (slender) problem
    for solver in installed_solvers():
        if solver in ("cg", "bicg", "gmres", "lgmres"):
            out.append({"kind": "krylov_hard", "solver": solver})
    # hinged connection of two beam members in 2D and in 3D (default = every rotation released, or the named axis released)
    for dim, kw in ((2, {}), (3, {}), (3, {"unknowns": ["rz"]})):
        out.append({"kind": "hinge", "dim": dim, "kwargs": kw})
    # a joint where m members meet: the m coincident nodes `mesh.Nodes_Point` returns, handed to one connection call
    for dim in (2, 3):
        for m in JOINT_MEMBERS:
            for conn in JOINT_CONNS:
                out.append({"kind": "joint", "dim": dim, "members": m, "conn": conn})
    # conditions entered in stages on one live simulation holding Lagrange conditions / connections
    for problem in ("elastic", "thermal", "beam"):
        for resol in [r for r in RESOLS[problem] if r != "elim"]:
            out.append({"kind": "resolve", "problem": problem, "resol": resol})
    # caller-owned value arrays used for two load cases of one simulation and for a twin
    for problem in ("elastic", "thermal", "beam"):
        for form in REUSE_FORMS:
            for readonly in (False, True):
                out.append({"kind": "reuse", "problem": problem, "form": form, "readonly": readonly})
    return out


def describe(tier, seed):
    nprog = len(programs(3))
    return {
        "rule": "E1: problem x BC program (every ordered selection of 1..3 of 6 atoms, A n B != {}) x ground x orphan x resolution x mode (x mesh); "
                "inside a case one freshly built simulation is solved with every installed solver backend, each time from the reset start state. "
                "non-trivial = the reference solution moves free dofs (the program was solvable); distinct = fingerprint of (configuration, reference solution, per-solver outcomes). "
                "kind 'joint': dim (2, 3) x number of members meeting in one point (2, 3, 4: mesh.Nodes_Point gives as many coincident nodes) x connection "
                "(add_connection_fixed / add_connection_hinged on all of them in one call), against the dense KKT solution under pairwise ties",
        "exhaustive": True,
        "bound": ("thorough: all %d programs x the full product of (ground, orphan, resolution, mode, mesh) per problem; implicit time schemes: all programs x ground x orphan x scheme" % nprog)
                 if tier == "thorough" else
                 ("quick: all %d programs; programs of <= 2 atoms with every configuration differing from the default in <= 2 of (ground, orphan, resolution, mode); "
                  "3-atom programs with the default configuration and every single deviation in orphan / resolution / mode; implicit time schemes: programs of <= 2 atoms x every "
                  "scheme, 3-atom programs x the first scheme; every installed solver in every case except Lagrange resolutions and beam-Newton (scipy and cg)" % nprog),
        "alphabet": {"problems": len(PROBLEMS), "programs": nprog, "atoms": len(ATOMS), "ground": 3, "orphan": 2,
                     "resolution": {p: len(RESOLS[p]) for p in PROBLEMS}, "mode": {p: len(MODES[p]) + len(DYN_MODES.get(p, [])) for p in PROBLEMS},
                     "mesh": {p: len(MESHES[p]) if tier == "thorough" else 1 for p in PROBLEMS}, "solvers": EXPECTED_SOLVERS,
                     "joint_members": JOINT_MEMBERS, "joint_connections": JOINT_CONNS},
        "assumptions": [
            "pypardiso, petsc (and mumps/superlu through petsc) are not installed: those SolverType members are not exercised; MPI paths not exercised",
            "meshes of <= 40 dofs with cond of the reduced system <= 1e8 (guard, skip-with-count otherwise)",
            "duplicated Dirichlet dofs hold the SUM of the entered values (docstring of _Simu._Bc_Add_Dirichlet); nodal loads superpose "
            "(the docstring of _Bc_Add_Neumann saying a second load on a dof is ignored is stale: a line load itself enters shared nodes once per element)",
            "K (C, M) and the volume source are read from a twin simulation without boundary conditions, nodal loads from the entered Neumann list, scheme coefficients and "
            "history terms of a time step from the implementation (C03 / C09 / C05 check those)",
            "tolerances: constrained dofs and connection constraints 1e-12 (relative to max|u|); residual and agreement 1e-9 for direct solves, "
            "20 x the backend's default rtol for Krylov backends (residual relative to ||b_reduced||); lsq_linear (lsmr inside, capped iterations) 2e-5, "
            "with active bounds its first-order optimality in the Coleman-Li scaling instead of the residual",
            "the value left on a free dof of an orphan node is not prescribed by the property: only finiteness is demanded there",
            "programs whose own constraints leave the stated system singular (ground = none) are left out by a stated rule, re-checked on the dense reference",
            "with a Lagrange condition the implementation falls back to the direct solver whatever simu.solver says (documented in _Solve_Axb); the case is run anyway",
            "Newton-incremental mode is exercised for Elastic, Thermal, Beam (harness subclass); the damage sub-problem of PhaseField is linear by construction",
            "euler_explicit (solve variable = acceleration, zero acceleration on constrained dofs: documented) is out of scope (C05)",
            "the two beam member models and the twin observations are shared between the cases of one worker process (pure functions of their key)",
        ],
        "explanation": "Each configuration is solved by the real pipeline and compared with a dense numpy elimination / KKT reference; "
                       "the bounded least-squares backend additionally against the optimality conditions of its bound-constrained problem.",
    }


# ------------------------------------------------------------------------------------------------
# problem definitions (meshes, node sets, atoms)
# ------------------------------------------------------------------------------------------------
def _near(a, b):
    return np.abs(a - b) < 1e-9


class Spec:
    """plain description of a problem instance: coords, dof layout, node sets, atom definitions."""


def _grid_spec(problem, orphan, mesh="base"):
    et = MESHES[problem][mesh]
    zm = Z.template_2d(et, k=(3, 2), diag=1 if mesh == "alt" else 0)
    if orphan:
        zm = zm.with_orphan()
    s = Spec()
    s.problem, s.zoo, s.orphan = problem, zm, orphan
    co = zm.coords
    nreal = co.shape[0] - (1 if orphan else 0)
    x, y = co[:nreal, 0], co[:nreal, 1]
    idx = np.arange(nreal)
    s.coords = co
    s.unknowns = {"elastic": ["x", "y"], "thermal": ["t"], "damage": ["d"], "advdiff": ["u"]}[problem]
    s.dof_n = len(s.unknowns)
    s.A = idx[_near(x, 0)]
    s.B = idx[_near(y, 0)]
    s.C = idx[_near(x, 1)]
    s.D = idx[_near(y, 1)]
    s.AB = np.intersect1d(s.A, s.B)
    s.G = idx[_near(y, 0.5) & (_near(x, 1 / 3) | _near(x, 2 / 3))]
    assert s.AB.size == 1 and s.G.size == 2 and s.A.size >= 3 and s.D.size >= 4
    # two dof pairs that no Dirichlet atom touches (top-right corner, top row at x=1/3, right column at y=1/2)
    tr = int(idx[_near(x, 1) & _near(y, 1)][0])
    tm = int(idx[_near(x, 1 / 3) & _near(y, 1)][0])
    rm = int(idx[_near(x, 1) & _near(y, 0.5)][0])
    last = s.dof_n - 1
    s.lag_pairs = [((tr, 0), (tm, last)), ((rm, last), (tm, 0))] if s.dof_n > 1 else [((tr, 0), (tm, 0)), ((rm, 0), (tr, 0))]
    s.orphan_nodes = [nreal] if orphan else []
    r = rng("c04arr", problem)
    nA = s.A.size
    arr1, arr2 = r.uniform(0.01, 0.04, nA), r.uniform(-0.03, -0.01, nA)
    if problem == "elastic":
        s.atoms = {
            "G": ("dir", s.G, [0.004, -0.003], ["x", "y"]),
            "dAc": ("dir", s.A, [0.02, -0.01], ["x", "y"]),
            "dAa": ("dir", s.A[::-1].copy(), [arr1, arr2], ["y", "x"]),
            "dBf": ("dir", s.B, [lambda x, y, z: 0.03 * x - 0.01, lambda x, y, z: 0.02 * x * x + 0.005], ["x", "y"]),
            "dAB": ("dir", s.AB, [0.015], ["y"]),
            "nC": ("neu", s.C, [0.5, lambda x, y, z: -0.3 * y], ["x", "y"]),
            "lD": ("line", s.D, [lambda x, y, z: 0.4 * (1 + x)], ["y"]),
        }
    elif problem in ("thermal", "advdiff"):
        nm = s.unknowns[0]
        s.atoms = {
            "G": ("dir", s.G, [0.4], [nm]),
            "dAc": ("dir", s.A, [1.0], [nm]),
            "dAa": ("dir", s.A[::-1].copy(), [arr1 * 30], [nm]),
            "dBf": ("dir", s.B, [lambda x, y, z: 2.0 + x], [nm]),
            "dAB": ("dir", s.AB, [0.25], [nm]),
            "nC": ("neu", s.C, [0.7], [nm]),
            "lD": ("line", s.D, [lambda x, y, z: -0.4 * (1 + x)], [nm]),
        }
    else:
        s.atoms = {
            "G": ("dir", s.G, [0.1], ["d"]),
            "dAc": ("dir", s.A, [0.3], ["d"]),
            "dAa": ("dir", s.A[::-1].copy(), [arr1 * 6], ["d"]),
            "dBf": ("dir", s.B, [lambda x, y, z: 0.2 + 0.1 * x], ["d"]),
            "dAB": ("dir", s.AB, [0.05], ["d"]),
            "nC": ("neu", s.C, [0.05], ["d"]),
            "lD": ("line", s.D, [lambda x, y, z: 0.05 * (1 + x)], ["d"]),
        }
    return s


def _beam_spec(resol, orphan):
    """Two members: (0,0)-(1,0) with 3 elements and (1,0)-(1,0.8) with 2 elements; the joint is one shared node
    (resol 'elim') or two coincident nodes tied by a connection."""
    merged = resol == "elim"
    p1 = [(0.0, 0.0), (1 / 3, 0.0), (2 / 3, 0.0), (1.0, 0.0)]
    p2 = [(1.0, 0.0), (1.0, 0.4), (1.0, 0.8)]
    if merged:
        pts = p1 + p2[1:]
        n1, n2 = [0, 1, 2, 3], [3, 4, 5]
    else:
        pts = p1 + p2
        n1, n2 = [0, 1, 2, 3], [4, 5, 6]
    if orphan:
        pts = pts + [(7.0, 7.0)]
    s = Spec()
    s.problem, s.orphan = "beam", orphan
    s.coords = np.array([[a, b, 0.0] for a, b in pts])
    s.n1, s.n2 = n1, n2
    s.connect = np.array([[n1[i], n1[i + 1]] for i in range(3)] + [[n2[i], n2[i + 1]] for i in range(2)], dtype=int)
    s.unknowns, s.dof_n = ["x", "y", "rz"], 3
    tip = n2[-1]
    s.G = np.array([0])
    s.A = np.array([1, 2])
    s.B = np.array([2, tip])
    s.AB = np.array([2])
    s.C = np.array([tip])
    s.D = np.array(n2)
    s.joint = None if merged else (n1[-1], n2[0])
    s.orphan_nodes = [len(pts) - 1] if orphan else []
    r = rng("c04arr", "beam")
    arr1, arr2 = r.uniform(0.01, 0.04, 2), r.uniform(-0.03, -0.01, 2)
    s.atoms = {
        # ground: clamp of the first member + a roller on the second one (a hinged joint leaves its rotation free)
        "G": [("dir", s.G, [0.002, -0.001, 0.003], ["x", "y", "rz"]), ("dir", np.array([n2[1]]), [0.001], ["x"])],
        "dAc": ("dir", s.A, [0.01, -0.02, 0.03], ["x", "y", "rz"]),
        "dAa": ("dir", s.A[::-1].copy(), [arr1, arr2, 0.004], ["rz", "y", "x"]),
        "dBf": ("dir", s.B, [lambda x, y, z: 0.01 * x + 0.02 * y, lambda x, y, z: -0.015 * x], ["x", "y"]),
        "dAB": ("dir", s.AB, [0.005], ["rz"]),
        "nC": ("neu", s.C, [0.3, -0.2, 0.1], ["x", "y", "rz"]),
        "lD": ("line", s.D, [0.2, lambda x, y, z: -0.1 * (1 + y)], ["x", "y"]),
    }
    return s


def make_spec(case):
    if case["problem"] == "beam":
        s = _beam_spec(case["resol"], case["orphan"])
    else:
        s = _grid_spec(case["problem"], case["orphan"], case.get("mesh", "base"))
    if case.get("homog"):
        # every PRESCRIBED value is zero (loads keep their values): in the Newton-incremental mode the increment must bring the
        # constrained dofs of the generic start state back to zero
        def zero(v):
            if callable(v):
                return lambda x, y, z: 0.0 * x
            return v * 0.0 if isinstance(v, np.ndarray) else 0.0

        def z(c):
            return (c[0], c[1], [zero(v) for v in c[2]], c[3]) if c[0] == "dir" else c

        s.atoms = {k: ([z(c) for c in a] if isinstance(a, list) else z(a)) for k, a in s.atoms.items()}
    if case.get("tiny"):
        f = 1e-9

        def sc(v):
            if callable(v):
                return lambda x, y, z, v=v: f * v(x, y, z)
            return v * f

        def t(c):
            return (c[0], c[1], [sc(v) for v in c[2]], c[3])

        s.atoms = {k: ([t(c) for c in a] if isinstance(a, list) else t(a)) for k, a in s.atoms.items()}
    return s


# ------------------------------------------------------------------------------------------------
# harness subclass: the same linear problem through the nonlinear (Newton) contract
# ------------------------------------------------------------------------------------------------
_NL = {}


def nl_class(Base):
    if Base in _NL:
        return _NL[Base]

    class NLProbe(Base):
        """K_e = tangent, F_e = -(K_e u - F_e): the residual of the linear problem at the current Newton iterate."""

        def __init__(self, *a, **k):
            super().__init__(*a, **k)
            self._Solver_Set_Newton_Raphson_Algorithm(absTol=1e-12, relTol=1e-13, incTol=1e-14, maxIter=12)

        def Construct_local_matrix_system(self, problemType):
            out = super().Construct_local_matrix_system(problemType)
            dof_n = self.Get_dof_n(problemType)
            u = self._Solver_Get_Newton_Raphson_current_solution()
            new = {}
            for g, (K_e, C_e, M_e, F_e) in out.items():
                u_e = np.asarray(u)[np.asarray(g.Get_assembly_e(dof_n))]
                R = np.einsum("eij,ej->ei", np.asarray(K_e), u_e)
                new[g] = (K_e, None, None, (-R if F_e is None else np.asarray(F_e).reshape(R.shape) - R))
            return new

    _NL[Base] = NLProbe
    return NLProbe


# ------------------------------------------------------------------------------------------------
# building the real simulation
# ------------------------------------------------------------------------------------------------
_BEAMS: list = []


def _pf_state(coords):
    """a smooth displacement state giving the damage problem a non-uniform reaction term and source."""
    n = coords.shape[0]
    u = np.zeros(2 * n)
    inside = coords[:, 0] < 5
    u[0::2] = np.where(inside, 0.15 * coords[:, 0] ** 2 + 0.05 * coords[:, 1], 0.0)
    u[1::2] = np.where(inside, 0.6 * coords[:, 1] - 0.1 * coords[:, 0] * coords[:, 1], 0.0)
    return u


def build_simu(spec, mode):
    """fresh mesh + fresh simulation (no boundary conditions yet). -> (simu, problemType)"""
    from EasyFEA import Models, Simulations

    newton = mode == "newton"
    p = spec.problem
    if p == "elastic":
        cls = nl_class(Simulations.Elastic) if newton else Simulations.Elastic
        simu = cls(spec.zoo.build(), Models.Elastic.Isotropic(2, E=3.0, v=0.25, planeStress=True, thickness=0.8))
        if mode.startswith("dyn_"):
            from EasyFEA.Simulations.Solvers import AlgoType

            simu.rho = 1.7
            simu.Set_Rayleigh_Damping_Coefs(0.11, 0.07)
            algo = mode[4:]
            par = {"hht": {"alpha": 0.1, "beta": 0.3025, "gamma": 0.6}, "hht_newmark": {"alpha": 1 / 6}, "newmark": {"beta": 0.3, "gamma": 0.6}}.get(algo, {})
            simu.Solver_Set_Hyperbolic_Algorithm(DYN_DT, AlgoType[algo], **par)
        return simu, simu.problemType
    if p == "thermal":
        cls = nl_class(Simulations.Thermal) if newton else Simulations.Thermal
        simu = cls(spec.zoo.build(), Models.Thermal(k=1.3, c=0.9, thickness=0.8))
        if mode.startswith("dyn_"):
            simu.rho = 1.7
            simu.Solver_Set_Parabolic_Algorithm(DYN_DT, 0.5)
        return simu, simu.problemType
    if p == "advdiff":
        from EasyFEA.FEM import BiLinearForm, Field, MatrixType

        mesh = spec.zoo.build()
        fld = Field(mesh.groupElem, 1, MatrixType.rigi)
        A = np.array([[0.6, 0.5], [-0.3, 0.9]])  # non-symmetric conductivity tensor with a positive definite symmetric part
        formK = BiLinearForm(lambda u, v: (u.grad @ A).dot(v.grad))
        simu = Simulations.WeakForms(mesh, Models.WeakForms(fld, formK))
        return simu, simu.problemType
    if p == "damage":
        PF = Models.PhaseField
        mat = Models.Elastic.Isotropic(2, E=2.0, v=0.3, planeStress=False)
        pfsolver = "History" if mode == "History" else "BoundConstrain"
        pfm = PF(mat, PF.SplitType.Bourdin, PF.ReguType.AT2, Gc=1.0, l0=0.3, solver=pfsolver)
        simu = Simulations.PhaseField(spec.zoo.build(), pfm)
        simu._Set_solutions(simu.ProblemTypes.elastic, _pf_state(spec.coords))
        simu.Need_Update()
        return simu, simu.ProblemTypes.damage
    if p == "beam":
        from EasyFEA import ElemType
        from EasyFEA.FEM._group_elem import GroupElemFactory
        from EasyFEA.FEM._mesh import Mesh
        from EasyFEA.Geoms import Line, Point

        if not _BEAMS:
            # the two member models are immutable here and shared by the simulations of this process (their constructor
            # solves a cross-section problem for the shear correction factor: 35 ms each)
            sec = Z.template_2d("QUAD4", 1, size=(0.5, 0.4)).build()
            sec2 = Z.template_2d("QUAD4", 1, size=(0.5, 0.4)).build()
            _BEAMS.append(Models.Beam.Isotropic(2, Line(Point(0, 0), Point(1, 0), 1 / 3), sec, 10.0, 0.3, yAxis=(0, 1, 0)))
            _BEAMS.append(Models.Beam.Isotropic(2, Line(Point(1, 0), Point(1, 0.8), 0.4), sec2, 10.0, 0.3, yAxis=(-1, 0, 0)))
        b1, b2 = _BEAMS
        g = GroupElemFactory.Create(ElemType.SEG2, spec.connect.copy(), spec.coords.copy())
        g.Set_Tag(np.array(spec.n1), b1.name)
        g.Set_Tag(np.array(spec.n2), b2.name)
        cls = nl_class(Simulations.Beam) if newton else Simulations.Beam
        simu = cls(Mesh({ElemType.SEG2: g}), Models.Beam.BeamStructure([b1, b2]))
        return simu, simu.problemType
    raise KeyError(p)


def _evalv(v, i, xyz):
    if callable(v):
        return float(v(np.array([xyz[0]]), np.array([xyz[1]]), np.array([xyz[2]]))[0])
    if isinstance(v, np.ndarray):
        return float(v[i])
    return float(v)


def program_order(prog, ground):
    atoms = prog.split(">")
    if ground == "first":
        return ["G"] + atoms
    if ground == "last":
        return atoms + ["G"]
    return atoms


def apply_program(simu, pt, spec, order):
    """enters the conditions on the real simulation; returns the REFERENCE list of Dirichlet entries (dof, value)
    computed from the atom definitions alone, and the number of add_* calls."""
    entries = []
    kw = {"problemType": pt} if spec.problem == "damage" else {}
    conds = []
    for name in order:
        c = spec.atoms[name]
        conds += c if isinstance(c, list) else [c]
    for kind, nodes, values, unknowns in conds:
        vals = [v.copy() if isinstance(v, np.ndarray) else v for v in values]
        if kind == "dir":
            simu.add_dirichlet(np.array(nodes), vals, list(unknowns), **kw)
            for j, un in enumerate(unknowns):
                comp = spec.unknowns.index(un)
                for i, nd in enumerate(nodes):
                    entries.append((int(nd) * spec.dof_n + comp, _evalv(values[j], i, spec.coords[nd])))
        elif kind == "neu":
            simu.add_neumann(np.array(nodes), vals, list(unknowns), **kw)
        else:
            simu.add_lineLoad(np.array(nodes), vals, list(unknowns), **kw)
    return entries, len(conds)


def lagrange_specs(spec, resol, u_elim):
    """reference description of the multiplier constraints: list of (dofs, coefs, value)."""
    d = spec.dof_n
    if resol in ("conn_fixed", "conn_hinged", "conn_slider"):
        a, b = spec.joint
        comps = {"conn_fixed": [0, 1, 2], "conn_hinged": [0, 1], "conn_slider": [1, 2]}[resol]
        return [([a * d + c, b * d + c], [1.0, -1.0], 0.0) for c in comps]
    if resol in ("lagr_trivial", "lagr_active"):
        out = []
        for k, ((n1, c1), (n2, c2)) in enumerate(spec.lag_pairs if resol == "lagr_active" else spec.lag_pairs[:1]):
            dofs, coefs = [n1 * d + c1, n2 * d + c2], [1.0, -0.5]
            val = float(u_elim[dofs[0]] - 0.5 * u_elim[dofs[1]])
            if resol == "lagr_active" and k == 1:
                val += 0.01  # the second condition moves the solution (non-zero multiplier)
            out.append((dofs, coefs, val))
        return out
    return []


def add_lagrange(simu, pt, spec, resol, lspecs):
    from EasyFEA.FEM import LagrangeCondition

    if resol == "conn_fixed":
        simu.add_connection_fixed(np.array(spec.joint))
    elif resol == "conn_hinged":
        simu.add_connection_hinged(np.array(spec.joint))
    elif resol == "conn_slider":
        simu.add_connection(np.array(spec.joint), ["y", "rz"], "slider")
    else:
        d = spec.dof_n
        for dofs, coefs, val in lspecs:
            nodes = np.array([q // d for q in dofs])
            simu._Bc_Add_Lagrange(LagrangeCondition(pt, nodes, np.array(dofs), [spec.unknowns[q % d] for q in dofs],
                                                    np.array([val]), np.array(coefs), "c04"))


# ------------------------------------------------------------------------------------------------
# dense reference
# ------------------------------------------------------------------------------------------------
def reference(K, F, entries, lspecs, orphan_dofs):
    """-> dict(u, cset, free, uc, b, Kff, Lf, cond) ; u is None when the stated system is singular.
    Without multipliers: u_f = K_ff^-1 (F_f - K_fc u_c).  With multiplier constraints L u = g: the dense KKT system
    (K_ff alone may be singular there: a member that only the connection holds)."""
    n = K.shape[0]
    uc = np.zeros(n)
    for dof, val in entries:
        uc[dof] += val
    cset = np.array(sorted({d for d, _ in entries}), dtype=int)
    orph = np.array([d for d in orphan_dofs if d not in set(cset.tolist())], dtype=int)
    free = np.setdiff1d(np.arange(n), np.concatenate([cset, orph]))
    Kff = K[np.ix_(free, free)]
    b = F[free] - K[np.ix_(free, cset)] @ uc[cset]
    out = {"cset": cset, "free": free, "orph": orph, "uc": uc, "b": b, "Kff": Kff, "Lf": None, "u": None, "cond": np.inf}
    if lspecs:
        m = len(lspecs)
        L = np.zeros((m, n))
        g = np.zeros(m)
        for i, (dofs, coefs, val) in enumerate(lspecs):
            L[i, dofs] = coefs
            g[i] = val
        Lf = L[:, free]
        sys_mat = np.block([[Kff, Lf.T], [Lf, np.zeros((m, m))]])
        rhs = np.concatenate([b, g - L[:, cset] @ uc[cset]])
        out["Lf"], out["L"], out["g"] = Lf, L, g
    else:
        sys_mat, rhs = Kff, b
    sv = np.linalg.svd(sys_mat, compute_uv=False) if sys_mat.size else np.array([1.0])
    out["cond"] = float(sv[0] / sv[-1]) if sv[-1] > 0 else np.inf
    if not out["cond"] < 1e12:
        return out
    u = uc.copy()
    u[free] = np.linalg.solve(sys_mat, rhs)[: free.size] if free.size else np.zeros(0)
    out["u"] = u
    return out


def _project_out(Lf, r):
    """component of r orthogonal to the rows of Lf (constraint forces live in the row space)."""
    if Lf is None:
        return r
    Q, _ = np.linalg.qr(Lf.T)
    return r - Q @ (Q.T @ r)


# ------------------------------------------------------------------------------------------------
# running one solve on the real implementation
# ------------------------------------------------------------------------------------------------
def solve_impl(simu, pt, spec):
    """-> (u or None, error string or None, list of warning messages)"""
    msgs = []
    with warnings.catch_warnings(record=True) as w, contextlib.redirect_stdout(io.StringIO()):
        warnings.simplefilter("always")
        try:
            if spec.problem == "damage":
                u = simu._Solver_Solve_problemType(pt)
            else:
                u = simu.Solve()
            err = None
        except Exception as e:  # converted into a keyed violation by the caller (the property promises a result)
            u, err = None, f"{type(e).__name__}: {str(e)[:200]}"
    msgs = [f"{x.category.__name__}: {x.message}" for x in w]
    return (None if u is None else np.array(u, dtype=float)), err, msgs


def _solver_list(case, tier_all=True):
    p, mode, resol = case["problem"], case["mode"], case["resol"]
    inst = installed_solvers()
    if p == "damage" and mode != "History":
        return ["lsq_linear"] if "lsq_linear" in inst else []
    out = [s for s in inst if s != "lsq_linear"]
    if p == "advdiff":
        out = [s for s in out if s != "cg"]  # conjugate gradients are defined for symmetric positive definite systems only
    return out


def _tol_agree(solver):
    if solver in KRYLOV:
        return 20 * krylov_rtol(solver)
    if solver == "lsq_linear":
        return TOL_LSQ
    return TOL_DIRECT


# ------------------------------------------------------------------------------------------------
# running one solve on the real implementation
# ------------------------------------------------------------------------------------------------
def solve_impl(simu, pt, spec):
    """-> (u or None, error string or None, list of warning messages)"""
    msgs = []
    with warnings.catch_warnings(record=True) as w, contextlib.redirect_stdout(io.StringIO()):
        warnings.simplefilter("always")
        try:
            if spec.problem == "damage":
                u = simu._Solver_Solve_problemType(pt)
            else:
                u = simu.Solve()
            err = None
        except Exception as e:  # converted into a keyed violation by the caller (the property promises a result)
            u, err = None, f"{type(e).__name__}: {str(e)[:200]}"
    msgs = [f"{x.category.__name__}: {x.message}" for x in w]
    return (None if u is None else np.array(u, dtype=float)), err, msgs


def _solver_list(case, tier_all=True):
    p, mode, resol = case["problem"], case["mode"], case["resol"]
    inst = installed_solvers()
    if p == "damage" and mode != "History":
        return ["lsq_linear"] if "lsq_linear" in inst else []
    out = [s for s in inst if s != "lsq_linear"]
    if p == "advdiff":
        out = [s for s in out if s != "cg"]  # conjugate gradients are defined for symmetric positive definite systems only
    return out


def _tol_agree(solver):
    if solver in KRYLOV:
        return 20 * krylov_rtol(solver)
    if solver == "lsq_linear":
        return TOL_LSQ
    return TOL_DIRECT


_TWIN_CACHE: dict = {}


def dyn_state(problem, n):
    """generic prior state (u_n, v_n, a_n) of the implicit time step."""
    r = rng("c04dyn", problem, n)
    return r.normal(size=n) * 0.02, r.normal(size=n) * 0.05, r.normal(size=n) * 0.1


def twin_observations(case, spec, order):
    """K, volume source, entered loads and the bookkeeping checks of the entered conditions, from a twin simulation.
    They depend on (problem, program, ground, orphan, joint layout) only and are shared by the cases of this process that
    differ in resolution / mode (pure function of its key: a replayed single case recomputes it)."""
    from mc.util import seed

    problem, prog, orphan = case["problem"], case["prog"], case["orphan"]
    ck = (seed(), problem, case.get("mesh", "base"), prog, case["ground"], orphan, problem == "beam" and case["resol"] == "elim",
          case["mode"] if case["mode"].startswith("dyn_") else "", bool(case.get("homog")), bool(case.get("tiny")))
    if ck in _TWIN_CACHE:
        return _TWIN_CACHE[ck]
    dyn = case["mode"].startswith("dyn_")
    twin, pt = build_simu(spec, "History" if problem == "damage" else (case["mode"] if dyn else "linear"))
    K0, C0, M0, F0 = twin.Get_K_C_M_F(pt)
    K = K0.toarray().astype(float)
    n = spec.coords.shape[0] * spec.dof_n
    if K.shape != (n, n):
        return {"fatal": viol("system_size", f"K has shape {K.shape}, expected {(n, n)}", problem=problem)}
    F = np.asarray(F0.todense()).ravel().astype(float).copy()
    entries, nops = apply_program(twin, pt, spec, order)
    if dyn:
        # the stated system of one implicit step: A = cK K + cC C + cM M, b = load + history terms, both as the implementation
        # builds them before any constraint is applied (scheme coefficients and history terms are C05's subject)
        twin._Set_solutions(pt, *[x.copy() for x in dyn_state(problem, n)])
        cK, cC, cM = twin._Solver_Get_K_C_M_coefs_for_time_scheme()
        K = cK * K + cC * C0.toarray() + cM * M0.toarray()
        F = np.asarray(twin._Solver_Apply_Neumann(pt).todense()).ravel().astype(float).copy()
    else:
        np.add.at(F, np.asarray(twin.Bc_dofs_Neumann(pt), dtype=int), np.asarray(twin.Bc_values_Neumann(pt), dtype=float))
    orphan_dofs = [nd * spec.dof_n + c for nd in spec.orphan_nodes for c in range(spec.dof_n)]
    dup = len({d for d, _ in entries}) < len(entries)
    key = dict(problem=problem, mesh=case.get("mesh", "base"), orphan=bool(orphan), dup=bool(dup))
    v = []
    # dof lookup / bookkeeping of the entered conditions
    got_dofs = np.asarray(twin.Bc_dofs_Dirichlet(pt), dtype=int)
    got_vals = np.asarray(twin.Bc_values_Dirichlet(pt), dtype=float)
    ref_sorted = sorted(entries)
    got_sorted = sorted(zip(got_dofs.tolist(), got_vals.tolist()))
    if len(ref_sorted) != len(got_sorted) or any(a[0] != b[0] or abs(a[1] - b[1]) > 1e-14 * (1 + abs(a[1])) for a, b in zip(ref_sorted, got_sorted)):
        v.append(viol("dirichlet_entries", f"{prog}: entered (dof, value) list differs from node*dof_n+index(unknown) / value-form evaluation: "
                                            f"got {got_sorted[:6]}... expected {ref_sorted[:6]}...", **key))
    ref0 = reference(K, F, entries, [], orphan_dofs)
    vec = np.asarray(twin.Bc_vector_Dirichlet(pt), dtype=float)
    if vec.shape != (n,) or np.max(np.abs(vec - ref0["uc"])) > 1e-14 * (1 + np.max(np.abs(ref0["uc"]))):
        v.append(viol("vector_dirichlet", f"{prog}: Bc_vector_Dirichlet() is not the sum of the entered values per dof", **key))
    known, unknown = twin.Bc_dofs_known_unknown(pt)
    if not (np.array_equal(np.sort(known), ref0["cset"]) and np.array_equal(np.sort(unknown), np.setdiff1d(np.arange(n), ref0["cset"]))):
        v.append(viol("known_unknown", f"{prog}: Bc_dofs_known_unknown is not the partition (constrained, rest)", **key))
    out = {"K": K, "F": F, "entries": entries, "ref0": ref0, "n": n, "nops": nops, "orphan_dofs": orphan_dofs, "dup": dup, "violations": v}
    if len(_TWIN_CACHE) > 48:
        _TWIN_CACHE.clear()
    _TWIN_CACHE[ck] = out
    return out


def _run_solver_set(case):
    """the SolverType members of the implementation against the set this check was written for."""
    from EasyFEA.Simulations import Solvers

    names = [s.name for s in Solvers.SolverType]
    v = []
    missing = [s for s in EXPECTED_SOLVERS + ["pypardiso", "petsc"] if s not in names]
    new = [s for s in names if s not in EXPECTED_SOLVERS + ["pypardiso", "petsc"]]
    if missing:
        v.append(viol("solver_set", f"SolverType lost the members {missing}", which="missing"))
    if new:
        v.append(viol("solver_set", f"SolverType has members this check does not know how to qualify: {new} (they are run with the direct-solver tolerance)", which="new"))
    return {"violations": v, "fingerprint": fp(names, installed_solvers()), "nontrivial": True, "transitions": 1,
            "outcome": "ok" if not v else "violation"}


# ------------------------------------------------------------------------------------------------
# kind "reuse": caller-owned value arrays handed to several calls / several solves
# ------------------------------------------------------------------------------------------------
REUSE_FORMS = ["neu", "dir", "line"]


def _run_reuse(case):
    """The value arrays of a condition belong to the caller: the same array objects (writeable or read-only) are handed to the library for
    two successive load cases of one live simulation (Bc_Init in between) and to a twin simulation. Invariants: the arrays are bit-identical
    afterwards; both load cases give the same solution; that solution equals the one obtained with fresh copies of the arrays."""
    problem, form, readonly = case["problem"], case["form"], case["readonly"]
    spec = make_spec({"problem": problem, "orphan": False, "resol": "elim" if problem != "beam" else "shared"})
    atom = {"neu": "nC", "dir": "dAa", "line": "lD"}[form]
    kind, nodes, values, unknowns = spec.atoms[atom]
    r = rng("c04reuse", problem, form)
    nodes = np.array(nodes)
    arrays = [r.uniform(0.2, 0.9, nodes.size) * (0.05 if form == "dir" else 1.0) for _ in unknowns]
    pristine = [a.copy() for a in arrays]
    if readonly:
        for a in arrays:
            a.flags.writeable = False
    support = ["G", "dBf"]
    key = dict(kind="reuse", problem=problem, form=form, readonly=bool(readonly))
    v, sols, ntr = [], [], 0

    def enter(simu, pt, vals):
        kw = {"problemType": pt} if spec.problem == "damage" else {}
        simu.Bc_Init()
        apply_program(simu, pt, spec, support)
        if kind == "dir":
            simu.add_dirichlet(nodes, vals, list(unknowns), **kw)
        elif kind == "neu":
            simu.add_neumann(nodes, vals, list(unknowns), **kw)
        else:
            simu.add_lineLoad(nodes, vals, list(unknowns), **kw)

    simu, pt = build_simu(spec, "linear")
    for rep in range(2):
        try:
            enter(simu, pt, arrays)
        except Exception as e:
            v.append(viol("reuse_raises", f"{problem}: entering a {form} condition with caller-owned {'read-only ' if readonly else ''}arrays (use {rep + 1}) raised {type(e).__name__}: {str(e)[:160]}", **key))
            break
        u, err, _ = solve_impl(simu, pt, spec)
        ntr += 2
        if err:
            v.append(viol("solve_raised", f"{problem}/{form}: {err}", **key))
            break
        sols.append(u)
    twin, pt2 = build_simu(spec, "linear")
    enter(twin, pt2, [a.copy() for a in pristine])
    uref, err, _ = solve_impl(twin, pt2, spec)
    ntr += 2
    for a, b in zip(arrays, pristine):
        if not np.array_equal(a, b):
            v.append(viol("input_mutated", f"{problem}: the value array handed to the {form} condition was modified by the library (max change {np.abs(a - b).max():.3e})", **key))
            break
    if uref is None or not np.all(np.isfinite(uref)):
        return {"violations": v, "fingerprint": fp("reuse-undefined", problem, form), "nontrivial": False, "transitions": ntr, "outcome": "undefined", "skipped": "reference twin not solvable"}
    sc = max(np.abs(uref).max(), 1e-300)
    for k, u in enumerate(sols):
        e = np.abs(u - uref).max() / sc
        if e > 1e-11:
            v.append(viol("reuse_solution", f"{problem}/{form}: load case {k + 1} entered with the caller's arrays differs from the solution with fresh copies by {e:.3e}", use=k + 1, **key))
    return {"violations": v, "fingerprint": fp("reuse", problem, form, readonly, uref), "nontrivial": bool(np.abs(uref).max() > 0), "transitions": ntr,
            "outcome": "violation" if v else "ok"}


# ------------------------------------------------------------------------------------------------
# kind "resolve": conditions entered in stages on ONE live simulation that holds Lagrange conditions
# ------------------------------------------------------------------------------------------------
RESOLVE_STAGES = [["dAc"], ["dAc", "nC"], ["dAc", "nC", "dBf"]]


def _run_resolve(case):
    """Solve, enter one more condition, solve again (and once more), then clear everything and start over without multipliers: after every
    stage the live simulation returns the solution of a fresh simulation given the same conditions at once."""
    problem, resol = case["problem"], case["resol"]
    spec = make_spec({"problem": problem, "orphan": False, "resol": resol})
    key = dict(kind="resolve", problem=problem, resol=resol)
    v, ntr, obs = [], 0, []

    def conditions(simu, pt, atoms, with_lagrange):
        apply_program(simu, pt, spec, ["G"] + atoms)
        if with_lagrange:
            # multiplier conditions between dofs no Dirichlet atom touches, with a non-zero right-hand side (active multipliers)
            ls = lagrange_specs(spec, resol, np.zeros(spec.coords.shape[0] * spec.dof_n))
            add_lagrange(simu, pt, spec, resol, ls)

    live, pt = build_simu(spec, "linear")
    history = [(atoms, True) for atoms in RESOLVE_STAGES] + [(RESOLVE_STAGES[1], False), (RESOLVE_STAGES[2], True)]
    entered = None
    for k, (atoms, lag) in enumerate(history):
        stage = f"{k}:{'+'.join(atoms)}{'+L' if lag else ''}"
        try:
            if entered is not None and lag and entered[1] and atoms[: len(entered[0])] == entered[0]:
                # one more condition on top of what is there
                apply_program(live, pt, spec, atoms[len(entered[0]):])
            else:
                live.Bc_Init()
                conditions(live, pt, atoms, lag)
            entered = (atoms, lag)
            u, err, _ = solve_impl(live, pt, spec)
        except Exception as e:
            u, err = None, f"{type(e).__name__}: {str(e)[:160]}"
        ntr += 2
        twin, pt2 = build_simu(spec, "linear")
        conditions(twin, pt2, atoms, lag)
        uref, err2, _ = solve_impl(twin, pt2, spec)
        ntr += 2
        if err2 or uref is None or not np.all(np.isfinite(uref)):
            continue  # the stage is not solvable by itself: nothing is promised
        obs.append(uref)
        if err:
            v.append(viol("solve_raised", f"{problem}/{resol}: stage {stage} on the live simulation: {err} (a fresh simulation with the same conditions solves)", stage=stage, **key))
            break
        e = np.abs(u - uref).max() / max(np.abs(uref).max(), 1e-300)
        if not np.all(np.isfinite(u)) or e > 1e-9:
            v.append(viol("resolve_solution", f"{problem}/{resol}: stage {stage}: the live simulation returns a solution that differs from a fresh simulation with the same conditions by {e:.3e}",
                          stage=stage, **key))
            break
    return {"violations": v, "fingerprint": fp("resolve", problem, resol, *obs), "nontrivial": len(obs) >= 3, "transitions": ntr, "outcome": "violation" if v else "ok"}


def _run_hinge(case):
    """two collinear members A-B, B-C clamped at A and C, joined at B by add_connection_hinged, force on B: each member is a cantilever
    carrying half the force (closed form); the rotation about the released axis jumps across the hinge"""
    from EasyFEA import ElemType, Mesher, Models, Simulations
    from EasyFEA.Geoms import Domain, Line, Point

    dim, kwargs = case["dim"], dict(case["kwargs"])
    E, nu, L, F = 210.0, 0.3, 10.0, -0.1
    key = dict(kind="hinge", dim=dim, released=",".join(kwargs.get("unknowns", ["default"])))
    with contextlib.redirect_stdout(io.StringIO()):
        section = Mesher().Mesh_2D(Domain(Point(-0.5, -1.0), Point(0.5, 1.0)))
        b1 = Models.Beam.Isotropic(dim, Line(Point(0, 0), Point(L, 0), L / 2), section, E, nu)
        b2 = Models.Beam.Isotropic(dim, Line(Point(L, 0), Point(2 * L, 0), L / 2), section, E, nu)
        simu = Simulations.Beam(Mesher().Mesh_Beams([b1, b2], ElemType.SEG2), Models.Beam.BeamStructure([b1, b2]))
        mesh = simu.mesh
        unk = simu.Get_unknowns()
        nA, nB, nC = (mesh.Nodes_Point(Point(x, 0)) for x in (0, L, 2 * L))
        simu.add_dirichlet(nA, [0.0] * len(unk), unk)
        simu.add_dirichlet(nC, [0.0] * len(unk), unk)
        simu.add_connection_hinged(nB, **kwargs)
        simu.add_neumann(nB[:1], [F], ["y"])
        u = np.asarray(simu.Solve(), dtype=float).reshape(mesh.Nn, -1)
    uy_hinge = F / 2 * L ** 3 / (3 * E * b1.Iz)
    jump_hinge = 2 * abs(F / 2 * L ** 2 / (2 * E * b1.Iz))
    uy, jump = u[nB[0], 1], abs(u[nB[0], -1] - u[nB[1], -1])
    v = []
    if abs(uy - uy_hinge) > 1e-8 * abs(uy_hinge) or abs(jump - jump_hinge) > 1e-8 * jump_hinge:
        v.append(viol("hinge_transmits_moment", f"{dim}D add_connection_hinged({kwargs or ''}): deflection of the hinge {uy:.6e} (two cantilevers: {uy_hinge:.6e}; "
                                                f"welded members: {F * (2 * L) ** 3 / (192 * E * b1.Iz):.6e}), jump of rz across the hinge {jump:.3e} (closed form {jump_hinge:.3e})", **key))
    for a in range(dim):
        if abs(u[nB[0], a] - u[nB[1], a]) > 1e-12 * abs(uy_hinge):
            v.append(viol("constraint", f"{dim}D hinge: translation {a} differs across the connection", **key))
    return {"violations": v, "fingerprint": fp("hinge", case, u), "nontrivial": True, "transitions": 2, "outcome": "violation" if v else "ok"}


JOINT_MEMBERS = [2, 3, 4]
JOINT_CONNS = ["fixed", "hinged"]
# unit directions of the members leaving the joint (2D: the in-plane part, normalised)
JOINT_DIRS = [(-1.0, 0.0, 0.0), (0.0, 0.6, 0.8), (1.0, 0.0, 0.0), (0.5, -0.5, -0.5 ** 0.5)]


def _run_joint(case):
    """m members meet in one point: `mesh.Nodes_Point(joint)` gives m coincident nodes (one per member), handed as they come to
    add_connection_fixed / add_connection_hinged. Far ends clamped, force and moment on the joint node of the first member. The solution ties
    the connected unknowns of ALL the nodes of the joint and is the dense KKT solution of K (twin without conditions) under the pairwise
    constraints u(node_0) = u(node_i)."""
    from EasyFEA import ElemType, Mesher, Models, Simulations
    from EasyFEA.Geoms import Domain, Line, Point

    dim, m, conn = case["dim"], case["members"], case["conn"]
    key = dict(kind="joint", dim=dim, members=m, conn=conn)
    E, nu, L = 210.0, 0.3, 4.0
    P = np.array([L, 0.0, 0.0])
    v, ntr = [], 0
    with contextlib.redirect_stdout(io.StringIO()):
        section = Mesher().Mesh_2D(Domain(Point(-0.3, -0.5), Point(0.3, 0.5)))
        beams, ends = [], []
        for d in JOINT_DIRS[:m]:
            d = np.array(d if dim == 3 else (d[0], d[1], 0.0))
            d = d / np.linalg.norm(d)
            y = np.cross([0.0, 0.0, 1.0], d)
            y = y / np.linalg.norm(y) if np.linalg.norm(y) > 1e-8 else np.array([1.0, 0.0, 0.0])
            Q = P + L * d
            ends.append(Q)
            beams.append(Models.Beam.Isotropic(dim, Line(Point(*P), Point(*Q), L / 2), section, E, nu, yAxis=tuple(y)))
        mesh = Mesher().Mesh_Beams(beams, ElemType.SEG2)
        structure = Models.Beam.BeamStructure(beams)
        twin = Simulations.Beam(mesh, structure)
        K = twin.Get_K_C_M_F()[0].toarray().astype(float)
        simu = Simulations.Beam(mesh, structure)
        mesh = simu.mesh
        unk = list(simu.Get_unknowns())
        d_n = len(unk)
        n = mesh.Nn * d_n
        joint = np.asarray(mesh.Nodes_Point(Point(*P)))
        if K.shape != (n, n) or joint.size != m:
            return {"violations": [], "fingerprint": fp("joint-mesh", case), "nontrivial": False, "transitions": 1, "outcome": "skipped",
                    "skipped": f"the mesher gave {joint.size} nodes at the joint of {m} members (K {K.shape})"}
        entries = []
        for Q in ends:
            nd = mesh.Nodes_Point(Point(*Q))
            simu.add_dirichlet(nd, [0.0] * d_n, unk)
            entries += [(int(q) * d_n + c, 0.0) for q in nd for c in range(d_n)]
        load = {"x": 0.3, "y": -0.5, "z": 0.2, "rx": 0.1, "ry": -0.15, "rz": 0.25}
        simu.add_neumann(joint[:1], [load[u] for u in unk], unk)
        F = np.zeros(n)
        F[int(joint[0]) * d_n + np.arange(d_n)] = [load[u] for u in unk]
        ntr += m + 1
        tied = list(range(d_n)) if conn == "fixed" else list(range(dim))
        lspecs = [([int(joint[0]) * d_n + c, int(nd) * d_n + c], [1.0, -1.0], 0.0) for nd in joint[1:] for c in tied]
        ref = reference(K, F, entries, lspecs, [])
        err = None
        try:
            (simu.add_connection_fixed if conn == "fixed" else simu.add_connection_hinged)(joint)
            ntr += 1
        except Exception as e:
            err = f"add_connection_{conn}({joint.size} nodes) raised {type(e).__name__}: {str(e)[:160]}"
    if err is None:
        spec = Spec()
        spec.problem = "beam"
        u, serr, _ = solve_impl(simu, simu.problemType, spec)
        ntr += 1
        if serr:
            err = f"Solve() after add_connection_{conn} on the {joint.size} coincident nodes {joint.tolist()} raised {serr}"
    if ref["u"] is None or ref["cond"] > COND_MAX:
        return {"violations": [], "fingerprint": fp("joint-singular", case), "nontrivial": False, "transitions": ntr, "outcome": "skipped",
                "skipped": "reference KKT system singular / ill conditioned"}
    uref = ref["u"]
    uscale = np.max(np.abs(uref))
    if err:
        v.append(viol("solve_raised", f"{dim}D joint of {m} members: {err}", **key))
        return {"violations": v, "fingerprint": fp("joint-raised", case), "nontrivial": True, "transitions": ntr, "outcome": "violation"}
    if u.shape != (n,) or not np.all(np.isfinite(u)):
        v.append(viol("nonfinite", f"{dim}D joint of {m} members ({conn}): solution has shape {u.shape}, finite={bool(np.all(np.isfinite(u)))}", **key))
        return {"violations": v, "fingerprint": fp("joint-nonfinite", case), "nontrivial": True, "transitions": ntr, "outcome": "violation"}
    e = np.max(np.abs(ref["L"] @ u - ref["g"]))
    if e > TOL_EXACT * uscale:
        v.append(viol("connection", f"{dim}D joint of {m} members ({conn}): the nodes {joint.tolist()} do not share the connected unknowns (gap {e:.3e}, scale {uscale:.2e})", **key))
    cset = ref["cset"]
    if np.max(np.abs(u[cset])) > TOL_EXACT * uscale:
        v.append(viol("constraint", f"{dim}D joint of {m} members ({conn}): a clamped dof holds {np.max(np.abs(u[cset])):.3e}", **key))
    e = np.max(np.abs(u - uref)) / uscale
    if e > TOL_DIRECT:
        v.append(viol("agreement", f"{dim}D joint of {m} members ({conn}): solution differs from the dense KKT reference by {e:.3e} (relative to max|u|)", **key))
    rot = np.abs(u.reshape(-1, d_n)[joint, -1] - u[int(joint[0]) * d_n + d_n - 1]).max()
    return {"violations": v, "fingerprint": fp("joint", case, uref, bool(rot > 1e-9 * uscale)), "nontrivial": bool(uscale > 0), "transitions": ntr,
            "outcome": "violation" if v else "ok"}


def _run_krylov_hard(case):
    """a slender cantilever (aspect ratio 20, 123 nodes): every installed Krylov backend either returns a field that satisfies the assembled
    equations on the free dofs to its own tolerance, or refuses clearly; a non-converged iterate returned as 'the solution' is a violation"""
    from EasyFEA import ElemType, Mesher, Models, Simulations
    from EasyFEA.Geoms import Domain, Point

    solver = case["solver"]
    key = dict(kind="krylov_hard", solver=solver)
    L, h = 100.0, 5.0
    with contextlib.redirect_stdout(io.StringIO()):
        mesh = Mesher().Mesh_2D(Domain(Point(), Point(L, h), h / 2), [], ElemType.QUAD4, isOrganised=True)
        simu = Simulations.Elastic(mesh, Models.Elastic.Isotropic(2, E=210000.0, v=0.3, planeStress=True, thickness=1.0))
        simu.solver = solver
        simu.add_dirichlet(mesh.Nodes_Conditions(lambda x, y, z: x == 0), [0, 0], ["x", "y"])
        simu.add_surfLoad(mesh.Nodes_Conditions(lambda x, y, z: x == L), [-1.0 / h], ["y"])
        K, _, _, F = simu.Get_K_C_M_F()
        K = K.toarray()
        b = np.asarray(simu.Bc_vector_Neumann(), dtype=float).ravel() + F.toarray().ravel()
        known, unknown = simu.Bc_dofs_known_unknown(simu.problemType)
        try:
            with warnings.catch_warnings():
                warnings.simplefilter("ignore")
                u = np.asarray(simu.Solve(), dtype=float)
        except Exception as err:
            if "converge" in str(err).lower():
                return {"violations": [], "fingerprint": fp("krylov_refused", solver), "nontrivial": True, "transitions": 1, "outcome": "refused_not_converged"}
            return {"violations": [viol("solve_raised", f"{solver} on the slender cantilever: {type(err).__name__}: {str(err)[:160]}", **key)],
                    "fingerprint": fp("krylov_raised", solver), "nontrivial": True, "transitions": 1, "outcome": "violation"}
    res = float(np.linalg.norm((K @ u - b)[unknown]) / np.linalg.norm(b[unknown]))
    v = []
    if not np.isfinite(res) or res > 1e-3:
        v.append(viol("not_a_solution", f"{solver} on a slender cantilever ({mesh.Nn} nodes): Solve() returned normally a field with |K u - F| / |F| = {res:.2e} on the free dofs "
                                        f"(the backend stopped at its iteration cap; nothing raised, nothing warned)", **key))
    return {"violations": v, "fingerprint": fp("krylov_hard", solver, round(res, 3)), "nontrivial": True, "transitions": 1, "outcome": "violation" if v else "ok"}


def run_case(case):
    if case.get("kind") == "krylov_hard":
        return _run_krylov_hard(case)
    if case.get("kind") == "hinge":
        return _run_hinge(case)
    if case.get("kind") == "joint":
        return _run_joint(case)
    if case.get("kind") == "resolve":
        return _run_resolve(case)
    if case.get("kind") == "reuse":
        return _run_reuse(case)
    if case.get("kind") == "solver_set":
        return _run_solver_set(case)
    problem, prog, ground, orphan, resol, mode = (case[k] for k in ("problem", "prog", "ground", "orphan", "resol", "mode"))
    spec = make_spec(case)
    order = program_order(prog, ground)
    ntr = 0

    # ---- twin: K and volume source before any condition; nodal loads and bookkeeping as entered -----
    tw = twin_observations(case, spec, order)
    if "fatal" in tw:
        return {"violations": [tw["fatal"]], "fingerprint": "size", "nontrivial": False, "transitions": 1}
    K, F, entries, ref0, n = tw["K"], tw["F"], tw["entries"], tw["ref0"], tw["n"]
    ntr += tw["nops"]
    orphan_dofs = tw["orphan_dofs"]
    dup = tw["dup"]
    basekey = dict(problem=problem, mesh=case.get("mesh", "base"), resol=resol, mode=mode, orphan=bool(orphan), dup=bool(dup))
    v = [dict(x) for x in tw["violations"]]

    # ---- solvability of the stated system --------------------------------------------------------
    und = {"violations": v, "fingerprint": fp("singular", problem, prog, ground, resol), "nontrivial": False,
           "outcome": "undefined_singular_program", "transitions": ntr, "skipped": "stated system singular (no sufficient support)"}
    if resol in ("conn_fixed", "conn_hinged", "conn_slider"):
        lspecs = lagrange_specs(spec, resol, None)
        ref = reference(K, F, entries, lspecs, orphan_dofs)
    else:
        if ref0["u"] is None:
            return und
        lspecs = lagrange_specs(spec, resol, ref0["u"])
        ref = reference(K, F, entries, lspecs, orphan_dofs) if lspecs else ref0
    if ref["u"] is None:
        return und
    if ref["cond"] > COND_MAX:
        return {"violations": v, "fingerprint": fp("illcond", problem, prog), "nontrivial": False, "outcome": "skipped",
                "transitions": ntr, "skipped": f"cond of the reduced system > {COND_MAX:g}"}
    uref, cset, free, uc = ref["u"], ref["cset"], ref["free"], ref["uc"]
    uscale = max(np.max(np.abs(uref)), 1e-300)

    # bounds of the bounded least-squares backend (reference: previous damage <= d <= 1)
    lb_prev = None
    if problem == "damage":
        if mode == "BoundConstrain_active":
            # previous damage above the unconstrained solution on part of the free dofs -> active lower bounds
            lb_prev = np.zeros(n)
            half = free[::2]
            lb_prev[half] = np.minimum(uref[half] + 0.05, 0.95)
            lb_prev[spec.orphan_nodes] = 0.0
        else:
            lb_prev = np.zeros(n)

    solvers = _solver_list(case)
    if case.get("krylov", "all") != "all":
        solvers = [s for s in solvers if s not in KRYLOV or s == case["krylov"]]
    outcomes = []
    # ---- the simulation under test: built once per case, re-solved from a reset state with every backend ----
    simu, pt = build_simu(spec, mode)
    if resol == "conn_fixed":
        add_lagrange(simu, pt, spec, resol, lspecs)  # connection declared before the supports and loads
    apply_program(simu, pt, spec, order)
    if resol not in ("elim", "conn_fixed"):
        add_lagrange(simu, pt, spec, resol, lspecs)  # ... or after them
    ntr += len(order) + (1 if resol != "elim" else 0)
    if mode == "newton":
        start = (rng("c04u0", problem, n).normal(size=n) * 0.02,)  # generic state violating the constraints
    elif mode.startswith("dyn_"):
        start = dyn_state(problem, n)
    elif lb_prev is not None:
        start = (lb_prev,)
    else:
        start = (np.zeros(n),)
    for solver in solvers:
        key = dict(basekey, solver=solver)
        simu.solver = solver
        if str(simu.solver) != solver:
            v.append(viol("solver_refused", f"simu.solver = {solver!r} was not accepted", **key))
            continue
        simu._Set_solutions(pt, *[x.copy() for x in start])
        u, err, msgs = solve_impl(simu, pt, spec)
        ntr += 1
        sing = [m for m in msgs if "singular" in m.lower() or "MatrixRankWarning" in m]
        if err is not None:
            if solver in ("cg", "bicg", "gmres", "lgmres") and "did not converge" in err:
                # a Krylov backend that does not reach its tolerance refuses clearly (it used to hand its last iterate out as the solution):
                # no solution is given, nothing to compare
                outcomes.append("refused_not_converged")
                continue
            v.append(viol("solve_raised", f"{prog} [{ground}] {solver}: {err}", exc=err.split(":")[0], **key))
            outcomes.append("raised")
            continue
        if sing:
            v.append(viol("singular", f"{prog} [{ground}] {solver}: {sing[0]}", **key))
        if u.shape != (n,) or not np.all(np.isfinite(u)):
            v.append(viol("nonfinite", f"{prog} [{ground}] {solver}: solution has shape {u.shape}, finite={bool(np.all(np.isfinite(u)))}", **key))
            outcomes.append("nonfinite")
            continue
        ok = True
        # (i) constrained dofs hold the sum of the entered values
        if cset.size:
            e = np.max(np.abs(u[cset] - uc[cset]))
            if e > TOL_EXACT * max(uscale, np.max(np.abs(uc))):
                worst = cset[np.argmax(np.abs(u[cset] - uc[cset]))]
                v.append(viol("constraint", f"{prog} [{ground}] {solver}: constrained dof {worst} holds {u[worst]!r}, sum of entered values {uc[worst]!r}", **key))
                ok = False
        # multi-point constraints
        if lspecs:
            e = np.max(np.abs(ref["L"] @ u - ref["g"]))
            if e > TOL_EXACT * uscale:
                v.append(viol("connection", f"{prog} [{ground}] {solver}: multi-point constraint violated by {e:.3e} (scale {uscale:.2e})", **key))
                ok = False
        active = False
        if solver == "lsq_linear":
            lbf, xf = lb_prev[free], u[free]
            if np.any(xf < lbf - 1e-12) or np.any(xf > 1 + 1e-12):
                v.append(viol("bounds", f"{prog} [{ground}]: bounded solution leaves [previous damage, 1] by {max(np.max(lbf - xf), np.max(xf - 1)):.3e}", **key))
                ok = False
            active = bool(np.any(uref[free] <= lbf) or np.any(uref[free] >= 1))
        # (ii) the free dofs satisfy the assembled equations
        r = K[np.ix_(free, free)] @ u[free] + K[np.ix_(free, cset)] @ u[cset] - F[free]
        if active:
            # bounded least squares min |A x - b|^2 on lb <= x <= 1 (convex): first-order optimality in the Coleman-Li
            # scaling the trf backend itself uses -- the gradient A^T(Ax-b) may only push a variable against the bound
            # it sits on: g_i (x_i - lb_i) for g_i > 0, -g_i (1 - x_i) for g_i < 0 must vanish
            gvec = ref["Kff"].T @ r
            xf, lbf = u[free], lb_prev[free]
            scaled = np.where(gvec > 0, gvec * (xf - lbf), -gvec * (1.0 - xf))
            nA = np.linalg.norm(ref["Kff"], 2)
            gs = nA * (np.linalg.norm(ref["b"]) + nA * np.linalg.norm(xf)) + 1e-300
            bad = float(np.max(np.abs(scaled), initial=0.0))
            if bad > TOL_LSQ * gs:
                v.append(viol("lsq_optimality", f"{prog} [{ground}]: first-order optimality of the bounded least-squares problem violated by {bad:.3e} (scale {gs:.2e})", **key))
                ok = False
        else:
            rp = _project_out(ref["Lf"], r)
            if solver in KRYLOV and resol == "elim":
                tol, sc = 20 * krylov_rtol(solver), np.linalg.norm(ref["b"]) + 1e-300
            else:
                tol = TOL_LSQ if solver == "lsq_linear" else TOL_DIRECT
                sc = np.linalg.norm(np.abs(K[np.ix_(free, free)]) @ np.abs(u[free])) + np.linalg.norm(ref["b"]) + 1e-300
            if np.linalg.norm(rp) > tol * sc:
                v.append(viol("residual", f"{prog} [{ground}] {solver}: |K_ff u_f + K_fc u_c - F_f| = {np.linalg.norm(rp):.3e} > {tol:g} * {sc:.3e}", **key))
                ok = False
            # (iii) agreement with the dense reference (all backends, both resolutions)
            tol = _tol_agree(solver) if resol == "elim" else TOL_DIRECT
            e = np.max(np.abs(u[free] - uref[free])) / uscale if free.size else 0.0
            if e > tol:
                v.append(viol("agreement", f"{prog} [{ground}] {solver}: solution differs from the dense reference by {e:.3e} (relative to max|u|, tol {tol:g})", **key))
                ok = False
        outcomes.append("ok" if ok else "bad")
    nontrivial = bool(free.size and np.max(np.abs(uref[free])) > 0)
    return {"violations": _dedupe(v), "fingerprint": fp(problem, case.get("mesh", "base"), prog, ground, orphan, resol, mode, uref, outcomes),
            "nontrivial": nontrivial, "transitions": ntr,
            "outcome": "ok" if not v else "violation"}


def _dedupe(v, cap=8):
    seen, out = set(), []
    for x in v:
        k = str(sorted(x["key"].items()))
        if k in seen:
            continue
        seen.add(k)
        out.append(x)
    return out[:cap]
