"""C07 — quadrature rules: points inside, total weight, documented exactness; mesh-level consequences
(length/area/volume/centroid, integrals of monomials on straight-sided meshes); rank sufficiency of the
stiffness rule for every element type."""
from __future__ import annotations

import itertools

import numpy as np

from mc.util import fp, rng, viol
from zoo import meshes as Z
from zoo.refint import REF_MEASURE, in_reference, int_affine_box, int_polygon, ref_monomial

PROPERTY = "C07"
TOL_RULE = 1e-13

SHAPE_REP = {"SEG": "SEG2", "TRI": "TRI3", "QUAD": "QUAD4", "TETRA": "TETRA4", "HEXA": "HEXA8", "PRISM": "PRISM6"}
SHAPE_DIM = {"SEG": 1, "TRI": 2, "QUAD": 2, "TETRA": 3, "HEXA": 3, "PRISM": 3}

# documented orders (docstrings `order = [...]` of EasyFEA/FEM/_gauss.py; numpy's leggauss: 2n-1)
DOCUMENTED = {
    "TRI": {1: 1, 3: 2, 6: 3, 7: 4, 12: 5},
    "QUAD": {4: 1, 9: 2},
    "TETRA": {1: 1, 4: 2, 5: 3, 15: 5},
    "HEXA": {8: 3, 27: 5},
    "PRISM": {6: (2, 3), 8: (3, 3), 21: (5, 5)},  # (triangle plane, axis)
}
# degree these classical rules are known to have (total degree; tensor rules: also per variable) — the mesh-level
# consequences of the property (centroids, low-degree integrals) rest on these, not on the weaker docstrings
STANDARD = {
    "TRI": {1: 1, 3: 2, 6: 4, 7: 5, 12: 6},
    "QUAD": {4: 3, 9: 5},
    "TETRA": {1: 1, 4: 2, 5: 3, 15: 5},
    "HEXA": {8: 3, 27: 5},
    "PRISM": {6: 2, 8: 3, 21: 5},
}
TENSOR = {"QUAD", "HEXA"}


def _gauss_n(shape, n):
    from EasyFEA import ElemType
    from EasyFEA.FEM._gauss import Gauss

    return Gauss._Gauss_factory_nPg(ElemType[SHAPE_REP[shape]], n)


def _accepted(shape):
    out = []
    for n in range(1, 41):
        try:
            c, w = _gauss_n(shape, n)
            if np.asarray(w).size == n:
                out.append(n)
        except Exception:
            pass
    return out


def _monos(d, D, box=False):
    return [e for e in itertools.product(range(D + 1), repeat=d) if (box or sum(e) <= D)]


def _rule_err(shape, c, w, e):
    val = float((w * np.prod(c ** np.array(e), axis=1)).sum())
    ex = float(ref_monomial(shape, e))
    return abs(val - ex)


def measured_degree(shape, c, w, cap=24, tol=1e-10):
    d = SHAPE_DIM[shape]
    deg = -1
    for D in range(cap + 1):
        if any(_rule_err(shape, c, w, e) > tol * REF_MEASURE[shape] for e in _monos(d, D) if sum(e) == D):
            break
        deg = D
    return deg


QUERIES = ["gausscoord_disp", "normals_disp", "syscoord_disp", "integrate", "gausscoord_elems", "locate"]


def cases(tier, seed):
    out = []
    for shape in SHAPE_REP:
        for n in _accepted(shape):
            out.append({"kind": "rule", "shape": shape, "nPg": n})
    from EasyFEA.FEM._utils import MatrixType

    for et in Z.ALL_TYPES:
        for mt in [m.name for m in MatrixType.Get_types()]:
            out.append({"kind": "factory", "elemType": et, "matrixType": mt})
    maps = ["identity", "generic", "tiny"] if tier == "quick" else ["identity", "generic", "generic2", "reflection", "tiny"]
    for et in Z.ALL_TYPES:
        d = Z.dim_of(et)
        variants = [("t", 1, False), ("t", 2, False)]
        if Z.topo(et) in ("QUAD", "HEXA"):
            variants += [("t", 2, True), ("t", 1, True)]
        if d == 1:
            variants = [("t", 2, False), ("t", 3, True)]
        for src, k, dist in variants:
            for mp in maps:
                out.append({"kind": "geom", "elemType": et, "src": src, "k": k, "distort": dist, "map": mp})
        if d >= 2:
            polys = ["quad", "L"] if tier == "quick" else ["quad", "L", "pent"]
            for poly in polys:
                out.append({"kind": "geom_gmsh", "elemType": et, "poly": poly})
    # E2: read-only geometric queries (Gauss coordinates / normals / element frames on a displaced configuration) in every
    # order up to length 2, then the measure, centroid and first moments must still be the exact ones
    for et in Z.ALL_TYPES:
        if Z.dim_of(et) == 1:
            continue
        for seq in [(a,) for a in QUERIES] + [(a, b) for a in QUERIES for b in QUERIES]:
            out.append({"kind": "geom_history", "elemType": et, "ops": list(seq)})
            if "locate" in seq:
                # the same on a mirror image of the mesh (every element numbered clockwise: signed and absolute jacobians differ)
                out.append({"kind": "geom_history", "elemType": et, "ops": list(seq), "map": "reflection"})
    for mix in Z.MIXED_2D + Z.MIXED_3D:
        # k = 2 gives both element groups the same measure (a coincidence that hides mis-weighted group averages): also k = 3, (3, 1)
        d3 = Z.dim_of(mix[0]) == 3
        # and cells of different sizes ("kink": groups with different measures AND different centroids)
        for k in (2, 3, [2, 1, 1] if d3 else [2, 1]):
            for mp in ("generic", "identity"):
                for kink in (False, True):
                    out.append({"kind": "geom", "elemType": list(mix), "src": "t", "k": k, "distort": False, "map": mp, "kink": kink})
    # tapered HEXA / PRISM cells (planar faces, straight edges, NOT affine: the jacobian varies inside every cell)
    for et in Z.TYPES_3D:
        if Z.topo(et) in ("HEXA", "PRISM"):
            for mp in ("identity", "generic"):
                out.append({"kind": "geom", "elemType": et, "src": "t", "k": 2, "distort": False, "map": mp, "taper": True})
    # a part and its mirror image (Mesh.Symmetry on a copy) merged into ONE group: element orientation is not uniform in the group
    for et in Z.ALL_TYPES:
        if Z.dim_of(et) > 1:
            out.append({"kind": "geom_mirrormerge", "elemType": et})
    for et in Z.ALL_TYPES:
        d = Z.dim_of(et)
        probs = ["thermal"] if d == 1 else ["thermal", "elastic"]
        for prob in probs:
            if d == 1:
                ks = [2, 3]
            elif Z.topo(et) in ("QUAD", "HEXA"):
                ks = [[2, 1] if d == 2 else [2, 1, 1], 2]  # >= 2 elements ("when elements are assembled")
            else:
                ks = [1, 2]
            for k in ks:
                out.append({"kind": "rank", "problem": prob, "elemType": et, "k": k})
    return out


def describe(tier, seed):
    return {
        "rule": "cases = every (shape, point count) the rule factory accepts for n=1..40, every (element type, matrix type) "
                "pair, every (element type, template mesh, affine map) geometry case, every (problem, element type, mesh) rank case; "
                "non-trivial = rule with more than one point / mesh with > 1 element; distinct = fingerprint of the rule or of the integrals",
        "exhaustive": True,
        "bound": "rules n<=40; monomials up to the documented and the classical degree of each rule (cap 24); meshes: 1-2 element, k=2 grid, "
                 "distorted straight-sided quad/hexa, gmsh polygons; maps: identity + seeded generic affine (+ second generic, reflection in thorough)",
        "alphabet": {"shapes": 6, "element_types": len(Z.ALL_TYPES), "matrix_types": 4},
        "assumptions": ["exact reference integrals: fractions; mesh-level reference integrals: numpy leggauss + Duffy collapse (independent of EasyFEA tables)",
                        "tolerance 1e-13 x reference measure for tabulated rules, 1e-11 relative for mesh-level integrals",
                        "documented order = docstrings of _gauss.py (total degree); classical degree of each rule also demanded (basis of the 'consequently' clause)"],
    }


def run_case(case):
    return globals()["_run_" + case["kind"]](case)


# ------------------------------------------------------------------------------------------------
def _run_rule(case):
    shape, n = case["shape"], case["nPg"]
    c, w = _gauss_n(shape, n)
    c = np.asarray(c, dtype=float).reshape(n, -1)
    w = np.asarray(w, dtype=float).reshape(n)
    d = SHAPE_DIM[shape]
    v = []
    key = dict(shape=shape, nPg=n)
    if c.shape != (n, d):
        v.append(viol("rule_shape", f"{shape} n={n}: coord shape {c.shape}", **key))
        return {"violations": v, "fingerprint": "shape"}
    inside = in_reference(shape, c)
    if not inside.all():
        v.append(viol("points_inside", f"{shape} n={n}: points outside the reference element: {c[~inside].tolist()}", **key))
    if abs(w.sum() - REF_MEASURE[shape]) > TOL_RULE * REF_MEASURE[shape]:
        v.append(viol("weights_sum", f"{shape} n={n}: sum of weights {w.sum()!r} != {REF_MEASURE[shape]} (err {abs(w.sum() - REF_MEASURE[shape]):.2e})", **key))
    # documented exactness
    if shape == "SEG":
        doc = min(2 * n - 1, 24)
        monos = _monos(1, doc)
        std = doc
    elif shape == "PRISM":
        dd = DOCUMENTED[shape].get(n)
        monos = [e for e in itertools.product(range(6), repeat=3) if dd and e[0] + e[1] <= dd[0] and e[2] <= dd[1]] if dd else []
        std = STANDARD[shape].get(n)
    else:
        dd = DOCUMENTED[shape].get(n)
        monos = _monos(d, dd) if dd is not None else []
        std = STANDARD[shape].get(n)
    nent = 0
    for e in monos:
        err = _rule_err(shape, c, w, e)
        nent += 1
        if err > TOL_RULE * REF_MEASURE[shape]:
            v.append(viol("exactness_documented", f"{shape} n={n}: monomial {e} integrated with error {err:.3e}", monomial=str(e), **key))
    md = measured_degree(shape, c, w)
    if std is not None:
        for e in _monos(d, min(std, 24)):
            err = _rule_err(shape, c, w, e)
            nent += 1
            if err > TOL_RULE * REF_MEASURE[shape]:
                v.append(viol("exactness_classical", f"{shape} n={n}: classical degree {std} but monomial {e} has error {err:.3e} (measured degree {md})",
                              monomial=str(e), **key))
        if shape in TENSOR:
            for e in _monos(d, std, box=True):
                err = _rule_err(shape, c, w, e)
                nent += 1
                if err > TOL_RULE * REF_MEASURE[shape]:
                    v.append(viol("exactness_classical", f"{shape} n={n}: tensor degree {std} but monomial {e} has error {err:.3e}", monomial=str(e), **key))
    return {"violations": v[:12], "fingerprint": fp(shape, n, md, np.sort(w), digits=12), "nontrivial": n > 1,
            "transitions": max(1, nent), "outcome": f"degree{md}" if not v else "violation"}


def _run_factory(case):
    from EasyFEA import ElemType
    from EasyFEA.FEM._gauss import Gauss
    from EasyFEA.FEM._utils import MatrixType

    et, mt = case["elemType"], case["matrixType"]
    shape = Z.topo(et)
    key = dict(elemType=et, matrixType=mt)
    try:
        c, w = Gauss.Gauss_factory(ElemType[et], MatrixType[mt])
    except (ValueError, NotImplementedError) as err:
        if mt in ("beam", "beam_shear") and shape != "SEG":
            return {"violations": [], "fingerprint": "unsupported", "nontrivial": False, "outcome": "unsupported"}
        return {"violations": [viol("factory_missing", f"Gauss_factory({et},{mt}) raised {err!r}", **key)], "fingerprint": "raise"}
    c = np.asarray(c, dtype=float)
    w = np.asarray(w, dtype=float)
    v = []
    g = Gauss(ElemType[et], MatrixType[mt])
    if g.nPg != w.size or not np.array_equal(g.coord, c) or not np.array_equal(g.weights, w):
        v.append(viol("gauss_object", f"Gauss({et},{mt}) differs from Gauss_factory", **key))
    if c.shape != (w.size, SHAPE_DIM[shape]):
        v.append(viol("rule_shape", f"coord {c.shape} weights {w.shape}", **key))
        return {"violations": v, "fingerprint": "shape"}
    if not in_reference(shape, c).all():
        v.append(viol("points_inside", f"{et}/{mt}: point outside reference element", **key))
    if abs(w.sum() - REF_MEASURE[shape]) > TOL_RULE * REF_MEASURE[shape]:
        v.append(viol("weights_sum", f"{et}/{mt}: sum of weights {w.sum()!r} (err {abs(w.sum() - REF_MEASURE[shape]):.2e})", **key))
    md = measured_degree(shape, c, w)
    # the group-level accessors must serve the same rule
    gp = Z.proto(et)
    if not np.allclose(gp.Get_weight_pg(MatrixType[mt]), w, rtol=0, atol=0):
        v.append(viol("gauss_object", f"groupElem.Get_weight_pg({mt}) differs from the factory", **key))
    # the arrays a rule hands out belong to the caller: editing them in place (w /= w.sum(), c += shift) must not reach the rule that
    # the next caller receives
    saved_c, saved_w = c.copy(), w.copy()
    for getter in (lambda: Gauss.Gauss_factory(ElemType[et], MatrixType[mt]), lambda: (g.coord, g.weights),
                   lambda: (Gauss(ElemType[et], MatrixType[mt]).coord, gp.Get_weight_pg(MatrixType[mt]))):
        try:
            cc, ww = getter()
            cc, ww = np.asarray(cc), np.asarray(ww)
            if cc.flags.writeable:
                cc += 0.37
            if ww.flags.writeable:
                ww *= 3.0
        except (ValueError, TypeError):
            pass  # read-only arrays are a legitimate way of protecting the tables
    c2, w2 = Gauss.Gauss_factory(ElemType[et], MatrixType[mt])
    g2 = Gauss(ElemType[et], MatrixType[mt])
    ok2 = (np.array_equal(np.asarray(c2, dtype=float), saved_c) and np.array_equal(np.asarray(w2, dtype=float), saved_w)
           and np.array_equal(np.asarray(g2.weights, dtype=float), saved_w) and np.array_equal(np.asarray(Z.proto(et).Get_weight_pg(MatrixType[mt]), dtype=float), saved_w))
    if not ok2:
        v.append(viol("rule_not_pure", f"{et}/{mt}: after a caller edited the arrays it was given in place, the rule served next has changed "
                                       f"(sum of weights {float(np.sum(w2))!r}, reference measure {REF_MEASURE[shape]!r})", **key))
    return {"violations": v, "fingerprint": fp(et, mt, w.size, md), "nontrivial": w.size > 1, "transitions": 6,
            "outcome": f"n{w.size}deg{md}" if not v else "violation"}


def _map(name, dim):
    if name == "identity":
        return np.eye(3), np.zeros(3)
    if name == "reflection":
        return Z.reflection(dim), np.array([0.3, -0.2, 0.1])[:3] * (np.arange(3) < dim)
    if name == "tiny":
        # the generic map in nanometres: every edge is ~1e-9 long (nothing geometric may depend on an absolute length)
        A, b = _map("generic", dim)
        return 1e-9 * A, 1e-9 * b
    r = rng("c07map", name, dim)
    A = Z.generic_affine(r, dim)
    b = np.zeros(3)
    b[:dim] = r.uniform(-1, 1, size=dim)
    return A, b


def _mono_fun(e):
    return lambda x, y, z: x ** e[0] * y ** e[1] * z ** e[2]


def _run_geom(case):
    from EasyFEA.FEM._utils import MatrixType

    et = case["elemType"]
    ets = tuple(et) if isinstance(et, list) else et
    d = Z.dim_of(ets[0] if isinstance(ets, tuple) else ets)
    k, dist = case["k"], case["distort"]
    k = tuple(k) if isinstance(k, list) else k
    if d == 1:
        zm = Z.template_1d(ets, n=k, graded=dist, L=1.3)
        size = (1.3, 1, 1)
    elif d == 2:
        zm = Z.template_2d(ets, k=k, distort=dist)
        size = (1, 1, 1)
    else:
        zm = Z.template_3d(ets, k=k, distort=dist)
        size = (1, 1, 1)
    A, b = _map(case["map"], d)
    if case.get("kink"):
        zm = zm.kinked(0.5, 0.3)
    if case.get("taper"):
        zm = zm.tapered(0.3)
        dist = True  # (not affine: the monomial and boundary references below do not apply)
    zm2 = zm.mapped(A, b)
    mesh = zm2.build()
    v = []
    key = dict(kink=bool(case.get("kink", False)), taper=bool(case.get("taper", False)), elemType=str(et), k=case["k"], distort=dist, map=case["map"])
    meas = {1: "length", 2: "area", 3: "volume"}[d]
    got = getattr(mesh, meas)
    nent = 1
    if "measure" in zm2.exact:
        ex = zm2.exact["measure"]
        if abs(got - ex) > 1e-11 * ex:
            v.append(viol("measure", f"{zm2.name}: mesh.{meas} = {got!r}, exact {ex!r} (rel err {abs(got - ex) / ex:.2e})", **key))
        cen = np.asarray(mesh.center)
        exc = np.asarray(zm2.exact["centroid"])
        sc = max(1.0, np.abs(zm2.coords).max())
        nent += 1
        if np.abs(cen - exc).max() > 1e-11 * sc:
            v.append(viol("centroid", f"{zm2.name}: mesh.center = {cen}, exact {exc}", **key))
    fps = [got]
    # the centre of mass a SIMULATION reports on that mesh (density x measure weighted centroid, same quadrature): uniform density, and a
    # density per element on the affine single-group templates (cell centroid = mean of the vertices, cell measure from the vertices)
    if d >= 2 and "measure" in zm2.exact and mesh.inDim == d:
        from EasyFEA import Models, Simulations

        from props.c02 import NVERT, elem_measures

        simu = Simulations.Elastic(mesh, Models.Elastic.Isotropic(d, E=1.0, v=0.3, planeStress=True, thickness=0.7))
        trials = [("uniform", 2.0, np.asarray(zm2.exact["centroid"], dtype=float))]
        if not dist and not case.get("kink") and len(zm2.groups) == 1:
            g0, con = next(iter(zm2.groups.items()))
            rho_e = 1.0 + 1.5 * ((np.arange(con.shape[0]) * 7 + 1) % 5) / 4.0
            m_e = elem_measures(zm2.coords, con, g0)
            c_e = zm2.coords[con[:, :NVERT[Z.topo(g0)]]].mean(axis=1)
            trials.append(("per_element", rho_e, (rho_e * m_e) @ c_e / float(rho_e @ m_e)))
        sc = max(1.0, float(np.abs(zm2.coords).max()))
        for nm, rho, exc in trials:
            simu.rho = rho
            nent += 1
            try:
                cs = np.asarray(simu.center, dtype=float)
            except Exception as err:
                v.append(viol("simu_center_raises", f"{zm2.name}: Simulations.Elastic(...).center with a {nm} density raised {type(err).__name__}: {str(err)[:120]}",
                              density=nm, **key))
                continue
            if cs.shape != (3,) or np.abs(cs - exc).max() > 1e-11 * sc:
                v.append(viol("simu_center", f"{zm2.name}: centre of mass of the simulation with a {nm} density = {cs}, exact {exc}", density=nm, **key))
    # integrands that return PLAIN arrays of shape (Ne, nPg) (np.asarray(x), np.full(x.shape, c), a third-party routine): same integrals
    if "measure" in zm2.exact:
        plain2 = sum(float(np.sum(np.asarray(g.Integrate_e(lambda x, y, z: np.full(np.shape(x), 2.0)), dtype=float))) for g in mesh.Get_list_groupElem(d))
        fe_x = sum(float(np.sum(np.asarray(g.Integrate_e(lambda x, y, z: x), dtype=float))) for g in mesh.Get_list_groupElem(d))
        plain_x = sum(float(np.sum(np.asarray(g.Integrate_e(lambda x, y, z: np.array(np.asarray(x), dtype=float)), dtype=float))) for g in mesh.Get_list_groupElem(d))
        nent += 3
        exm = zm2.exact["measure"]
        if abs(plain2 - 2.0 * exm) > 1e-11 * 2.0 * exm:
            v.append(viol("plain_integrand", f"{zm2.name}: the integral of a plain (Ne, nPg) array of 2.0 is {plain2!r}, 2 x measure = {2.0 * exm!r}", **key))
        if abs(plain_x - fe_x) > 1e-11 * max(abs(fe_x), exm * max(1.0, float(np.abs(zm2.coords).max()))):
            v.append(viol("plain_integrand", f"{zm2.name}: integral of x given as a plain array {plain_x!r}, given as the finite element array {fe_x!r}", **key))
    # boundary groups (dimension d-1, embedded in dimension d) of affinely mapped templates: their total measure against the sum of the
    # straight segment lengths / flat face areas computed from the vertices
    if not dist and d >= 2 and zm2.boundary:
        exb = 0.0
        for bt, bcon in zm2.boundary.items():
            P = zm2.coords[bcon]
            if d == 2:
                exb += float(np.linalg.norm(P[:, 1] - P[:, 0], axis=1).sum())
            elif Z.topo(bt) == "TRI":
                exb += float(0.5 * np.linalg.norm(np.cross(P[:, 1] - P[:, 0], P[:, 2] - P[:, 0]), axis=1).sum())
            else:
                exb += float(np.linalg.norm(np.cross(P[:, 1] - P[:, 0], P[:, 3] - P[:, 0]), axis=1).sum())
        gotb = 0.0
        for g in mesh.Get_list_groupElem(d - 1):
            gotb += float(g.length if d == 2 else g.area)
        nent += 1
        fps.append(gotb / exb)
        if abs(gotb - exb) > 1e-10 * exb:
            v.append(viol("boundary_measure", f"{zm2.name}: boundary groups measure {gotb!r}, sum of straight edges / flat faces {exb!r} (rel err {abs(gotb - exb) / exb:.2e})", **key))
    # monomial integrals on affine meshes (undistorted templates): exact up to the measured degree of each group's rule
    if not dist and "measure" in zm.exact:
        for g in mesh.Get_list_groupElem():
            shape = Z.topo(g.elemType.name)
            for mt in (MatrixType.rigi, MatrixType.mass):
                gauss = g.Get_gauss(mt)
                c = np.asarray(gauss.coord, dtype=float).reshape(gauss.nPg, -1)
                w = np.asarray(gauss.weights, dtype=float)
                q = min(measured_degree(shape, c, w, cap=8), 6)
                for e in _monos(3, q):
                    if any(e[i] for i in range(d, 3)):
                        continue  # coordinates beyond the mesh dimension vanish identically
                    f = _mono_fun(e)
                    val = float(np.sum(g.Integrate_e(f, mt)))
                    if len(mesh.Get_list_groupElem()) > 1:
                        continue  # mixed mesh: per-group exact value not available in closed form; measure/centroid above
                    ex = int_affine_box(f, A, b, d, sum(e) * 1, size)
                    scale = int_affine_box(lambda x, y, z: np.abs(f(x, y, z)), A, b, d, 2 * sum(e) + 2, size)
                    nent += 1
                    fps.append(val)
                    if abs(val - ex) > 1e-11 * max(scale, 1e-300) + 1e-13:
                        v.append(viol("monomial_integral", f"{zm2.name}: Integrate_e({e}, {mt}) = {val!r}, exact {ex!r}",
                                      matrixType=str(mt), monomial=str(e), **key))
    return {"violations": v[:12], "fingerprint": fp(str(et), k, dist, case["map"], np.array(fps)), "nontrivial": mesh.Ne > 1,
            "transitions": nent}


def _run_geom_mirrormerge(case):
    from EasyFEA.FEM._mesh import Mesh

    et = case["elemType"]
    d = Z.dim_of(et)
    part = (Z.template_2d(et, 2) if d == 2 else Z.template_3d(et, 1)).build(with_boundary=False)
    other = part.copy()
    other.Symmetry((1.0, 0.0, 0.0), (1.0, 0.0, 0.0))
    mesh = Mesh.Merge([part, other])
    meas = float(mesh.area if d == 2 else mesh.volume)
    cen = np.asarray(mesh.center, dtype=float)
    exc = np.array([1.0, 0.5, 0.5 if d == 3 else 0.0])
    mm = float(sum(np.sum(np.asarray(g.Integrate_e(lambda x, y, z: 1.0), dtype=float)) for g in mesh.Get_list_groupElem(d)))
    mx = float(sum(np.sum(np.asarray(g.Integrate_e(lambda x, y, z: x), dtype=float)) for g in mesh.Get_list_groupElem(d)))
    v = []
    key = dict(kind="geom_mirrormerge", elemType=et)
    if abs(meas - 2.0) > 1e-11 or abs(mm - 2.0) > 1e-11:
        v.append(viol("measure", f"{et}: unit part merged with its mirror image: measure {meas!r}, mass-rule integral of 1 {mm!r}, exact 2", **key))
    if np.abs(cen - exc).max() > 1e-11 or abs(mx - 2.0) > 1e-11:
        v.append(viol("centroid", f"{et}: unit part merged with its mirror image: center {cen}, exact {exc}; integral of x {mx!r}, exact 2", **key))
    return {"violations": v, "fingerprint": fp("mirrormerge", et, meas, mm), "nontrivial": True, "transitions": 4}


def _observe_geom(mesh, d):
    from EasyFEA.FEM._utils import MatrixType

    meas = float(mesh.area if d == 2 else mesh.volume)
    cen = np.asarray(mesh.center, dtype=float)
    moms = []
    for g in mesh.Get_list_groupElem():
        for mt in (MatrixType.rigi, MatrixType.mass):
            moms.append(float(np.sum(g.Integrate_e(lambda x, y, z: 1 + 0 * x, mt))))
            moms.append(float(np.sum(g.Integrate_e(lambda x, y, z: x + 2 * y - z, mt))))
    bnd = []
    for g in mesh.Get_list_groupElem(d - 1):
        bnd.append(float(np.sum(g.Integrate_e(lambda x, y, z: 1 + 0 * x, MatrixType.mass))))
        bnd.append(float(np.sum(g.Integrate_e(lambda x, y, z: x - y + 0.5 * z, MatrixType.mass))))
    return np.array([meas, *cen, *moms, *bnd])


def _run_geom_history(case):
    from EasyFEA.FEM._utils import MatrixType

    et = case["elemType"]
    d = Z.dim_of(et)
    zm = Z.template_2d(et, 2) if d == 2 else Z.template_3d(et, 1 if Z.topo(et) != "HEXA" else [2, 1, 1])
    A, b = _map(case.get("map", "generic"), d)
    zm = zm.mapped(A, b)
    mesh = zm.build()
    ref = _observe_geom(zm.build(), d)  # fresh objects, no query issued
    r = rng("c07hist", et)
    U = r.normal(size=(mesh.Nn, 3)) * 0.1
    v = []
    done = []
    ntr = 0
    for op in case["ops"]:
        done.append(op)
        for g in mesh.dict_groupElem.values():
            if g.dim == 0:
                continue
            if op == "gausscoord_disp":
                X0 = np.asarray(g.Get_GaussCoordinates_e_pg(MatrixType.mass))
                X1 = np.asarray(g.Get_GaussCoordinates_e_pg(MatrixType.mass, displacementMatrix=U))
                N = np.asarray(g.Get_N_pg(MatrixType.mass))[:, 0, :]
                want = X0 + np.einsum("pn,end->epd", N, U[g.connect])
                if np.abs(X1 - want).max() > 1e-12:
                    v.append(viol("displaced_gauss_coordinates", f"{et}/{g.elemType}: Gauss coordinates on the displaced configuration differ from x + N u by {np.abs(X1 - want).max():.2e}",
                                  elemType=et, ops="+".join(done)))
            elif op == "normals_disp" and g.dim in (1, 2) and g.dim == d - 1:
                g.Get_normals_e_pg(MatrixType.mass, displacementMatrix=U)
            elif op == "syscoord_disp" and g.dim < 3:
                g._Get_sysCoord_e(U)
            elif op == "integrate":
                g.Integrate_e(lambda x, y, z: x * y, MatrixType.mass)
            elif op == "gausscoord_elems":
                g.Get_GaussCoordinates_e_pg(MatrixType.rigi, elements=np.array([0]))
            elif op == "locate" and g.dim == d:
                cen = zm.coords[np.asarray(g.connect, dtype=int)].mean(axis=1)
                g.Get_Mapping(cen, needCoordinates=True)
            ntr += 1
        obs = _observe_geom(mesh, d)
        sc = max(1.0, np.abs(ref).max())
        if obs.shape != ref.shape or np.abs(obs - ref).max() > 1e-11 * sc:
            v.append(viol("geometry_after_query", f"{et}: after read-only queries {done} measure/centroid/moments changed by {np.abs(obs - ref).max():.3e}",
                          elemType=et, ops="+".join(done)))
            break
    # the stored nodes are still the nodes that were given, also once the geometry is rebuilt from them (a rigid round trip
    # through the public API drops every cached geometric factor)
    if not v:
        dev = np.abs(np.asarray(mesh.coord, dtype=float) - zm.coords).max()
        if dev > 0:
            v.append(viol("geometry_after_query", f"{et}: after read-only queries {done} mesh.coord differs from the nodes given by {dev:.3e}",
                          elemType=et, ops="+".join(done), stage="coord"))
        t = np.array([0.25, -0.5, 0.125])
        mesh.Translate(*t)
        mesh.Translate(*(-t))
        obs = _observe_geom(mesh, d)
        ntr += 2
        if obs.shape != ref.shape or np.abs(obs - ref).max() > 1e-11 * sc:
            v.append(viol("geometry_after_query", f"{et}: after read-only queries {done} and a translation there and back, measure/centroid/moments "
                                                  f"changed by {np.abs(obs - ref).max():.3e}", elemType=et, ops="+".join(done), stage="roundtrip"))
    # ... and after the nodes are re-coordinated by a non-isometric map (a stretch with shear): measures, centroid and moments are those of
    # a mesh built directly on the new nodes
    if not v:
        B = np.eye(3)
        B[:d, :d] = np.diag([2.0, 3.0, 1.5][:d]) + 0.25 * np.triu(np.ones((d, d)), 1)
        c = np.array([0.3, -0.2, 0.1])
        c[d:] = 0.0
        zm2 = zm.mapped(B, c)
        mesh.coord = zm2.coords.copy()
        obs = _observe_geom(mesh, d)
        ref2 = _observe_geom(zm2.build(), d)
        ntr += 1
        sc2 = max(1.0, np.abs(ref2).max())
        if obs.shape != ref2.shape or np.abs(obs - ref2).max() > 1e-11 * sc2:
            v.append(viol("geometry_after_query", f"{et}: after read-only queries {done} and a re-coordination of the nodes (stretch), measure/centroid/moments differ from those "
                                                  f"of a mesh built on the new nodes by {np.abs(obs - ref2).max():.3e}", elemType=et, ops="+".join(done), stage="stretch"))
    # the exact values too
    if "measure" in zm.exact and abs(ref[0] - zm.exact["measure"]) > 1e-11 * zm.exact["measure"]:
        v.append(viol("measure", f"{zm.name}: measure {ref[0]!r} exact {zm.exact['measure']!r}", elemType=et, k=0, distort=False, map="generic"))
    return {"violations": v[:6], "fingerprint": fp(et, case["ops"], case.get("map", "generic"), ref), "nontrivial": True, "transitions": ntr}


def _run_geom_gmsh(case):
    et, poly = case["elemType"], case["poly"]
    d = Z.dim_of(et)
    if d == 2:
        mesh, ex = Z.gmsh_2d(et, poly, h=0.5)
    else:
        mesh, ex = Z.gmsh_3d(et, poly, h=0.6, height=0.8, layers=2)
    v = []
    key = dict(elemType=et, poly=poly)
    got = mesh.area if d == 2 else mesh.volume
    if abs(got - ex["measure"]) > 1e-11 * ex["measure"]:
        v.append(viol("measure", f"gmsh {poly}/{et}: measure {got!r} exact {ex['measure']!r}", **key))
    cen = np.asarray(mesh.center)
    if np.abs(cen - ex["centroid"]).max() > 1e-11 * 2:
        v.append(viol("centroid", f"gmsh {poly}/{et}: center {cen} exact {ex['centroid']}", **key))
    nent = 2
    fps = [got]
    from EasyFEA.FEM._utils import MatrixType

    # monomials in (x,y) [times z^c] of total degree <= 2 on simplices (affine elements) with the mass rule
    if Z.topo(et) in ("TRI", "TETRA"):
        g = mesh.groupElem
        gauss = g.Get_gauss(MatrixType.mass)
        q = min(measured_degree(Z.topo(et), np.asarray(gauss.coord, float).reshape(gauss.nPg, -1), np.asarray(gauss.weights, float), cap=6), 4)
        for e in _monos(3, q):
            if d == 2 and e[2]:
                continue
            f = _mono_fun(e)
            val = float(np.sum(g.Integrate_e(f, MatrixType.mass)))
            exv = int_polygon(lambda x, y, z: x ** e[0] * y ** e[1], ex["polygon"], e[0] + e[1])
            if d == 3:
                h = ex["height"]
                exv *= h ** (e[2] + 1) / (e[2] + 1)
            nent += 1
            fps.append(val)
            if abs(val - exv) > 1e-10 * max(abs(exv), 1e-3):
                v.append(viol("monomial_integral", f"gmsh {poly}/{et}: Integrate_e({e}) = {val!r} exact {exv!r}", monomial=str(e), **key))
    return {"violations": v[:12], "fingerprint": fp(et, poly, np.array(fps)), "nontrivial": True, "transitions": nent}


def physical_kernel_dim(problem, d):
    if problem == "thermal":
        return 1
    return {2: 3, 3: 6}[d]


def _run_rank(case):
    from EasyFEA import Models, Simulations

    et, prob, k = case["elemType"], case["problem"], case["k"]
    d = Z.dim_of(et)
    if d == 1:
        zm = Z.template_1d(et, n=k)
    elif d == 2:
        zm = Z.template_2d(et, k=k)
    else:
        zm = Z.template_3d(et, k=k)
    mesh = zm.build()
    if prob == "thermal":
        simu = Simulations.Thermal(mesh, Models.Thermal(k=1.0, c=1.0))
        dofn = 1
    else:
        simu = Simulations.Elastic(mesh, Models.Elastic.Isotropic(d, E=1.0, v=0.3, planeStress=True))
        dofn = d
    K = simu.Get_K_C_M_F()[0].toarray()
    v = []
    key = dict(problem=prob, elemType=et, k=k)
    if not np.all(np.isfinite(K)):
        return {"violations": [viol("rank_nonfinite", f"K has non-finite entries on {zm.name}", **key)], "fingerprint": "nan"}
    Ks = (K + K.T) / 2
    lam = np.linalg.eigvalsh(Ks)
    lmax = max(abs(lam).max(), 1e-300)
    nullity = int(np.sum(np.abs(lam) < 1e-9 * lmax))
    expect = physical_kernel_dim(prob, d)
    if nullity != expect:
        v.append(viol("rank", f"{prob} K on {zm.name} ({mesh.Ne} elements, {K.shape[0]} dofs): {nullity} zero-energy modes, physical kernel has {expect}",
                      **key))
    return {"violations": v, "fingerprint": fp(prob, et, k, nullity, np.round(lam[-3:] / lmax, 6)), "nontrivial": mesh.Ne > 1,
            "transitions": 2, "outcome": f"nullity{nullity}"}
