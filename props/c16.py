"""C16 — named results are consistent with the fields and matrices they derive from.

E1: simulation type (Elastic, Thermal, Beam, PhaseField, HyperElastic, InElastic, WeakForms) x variant (law / split /
dof_n / beam theory / time scheme) x dim x mesh (single element group, mixed groups, gmsh, orphan node) x state (the
three cyclic assignments of three seeded generic vectors to (u, v, a), set through `_Set_solutions`: NOT equilibrium
states) x EVERY name of `simu.Results_Available()` x nodeValues in {True, False}.

Oracle: one relation table per simulation, written in plain numpy from the documented meaning of each name
(component <-> column of the vector result, Sij/Eij <-> tensor component of the stress / strain recomputed at the
Gauss points from the nodal vector and averaged per element, Svm <-> mean over the Gauss points of sqrt(3/2 s:s),
Wdef <-> 1/2 u'Ku with K from Get_K_C_M_F and <-> the integral of 1/2 sigma:eps, beam N/M/T <-> D.B.u from the element
operators, ...) and the two documented conversions (element value of a nodal field = mean over the nodes of the
element; nodal value of an element field = mean over the elements around the node).  Every advertised name must be
answerable.  Further kinds of cases: `convert` (constants survive node<->element conversion on every mesh) and
`reaction` (solved static problems with a fully clamped boundary part: reactions balance the applied loads).
"""
from __future__ import annotations

import contextlib
import io
import itertools

import numpy as np

from mc.util import fp, rng, viol
from zoo import meshes as Z

PROPERTY = "C16"
TOL = 1e-10
SQ2 = np.sqrt(2.0)

SIMS = ["Elastic", "Thermal", "Beam", "PhaseField", "HyperElastic", "InElastic", "WeakForms"]


# ------------------------------------------------------------------------------------------------
# mesh alphabet
# ------------------------------------------------------------------------------------------------
def _mid(md: dict) -> str:
    et = md["et"] if isinstance(md["et"], str) else "+".join(md["et"])
    if md["src"] == "t":
        k = md["k"] if isinstance(md["k"], int) else "x".join(str(i) for i in md["k"])
        return f"t:{et}:k{k}:d{int(md.get('distort', 0))}" + (":orphan" if md.get("orphan") else "")
    return f"g:{et}:{md['poly']}"


def _t(et, k, distort=0, **kw):
    md = {"src": "t", "et": list(et) if isinstance(et, tuple) else et, "k": k, "distort": int(distort)}
    md.update(kw)
    md["id"] = _mid(md)
    return md


def _g(et, poly):
    md = {"src": "g", "et": et, "poly": poly}
    md["id"] = _mid(md)
    return md


def meshes_for(dim: int, tier: str, single_only=False) -> list[dict]:
    """The mesh alphabet of one space dimension.  quick: one k=2 grid per element type (general straight-sided cells
    for QUAD/HEXA8) + every mixed pairing; thorough adds the 1-2 element meshes, the undistorted grids, gmsh meshes
    of a convex quadrilateral / an L and a mesh with an orphan node."""
    out = []
    if dim == 1:
        for et in Z.TYPES_1D:
            out.append(_t(et, 4, 1))
            if tier != "quick":
                out.append(_t(et, 2, 0))
        return out
    if dim == 2:
        for et in Z.TYPES_2D:
            out.append(_t(et, 2, 1))
        if not single_only:
            for mix in Z.MIXED_2D:
                out.append(_t(mix, 2, 1))
        if tier != "quick":
            for et in Z.TYPES_2D:
                out.append(_t(et, 1, 0))
                out.append(_t(et, [3, 2], 0))
            if not single_only:
                for mix in Z.MIXED_2D:
                    out.append(_t(mix, [3, 2], 0))
                    out.append(_t(mix, [2, 1], 0))
            for et in ("TRI3", "TRI6", "QUAD4", "QUAD8"):
                out.append(_g(et, "quad"))
            out.append(_g("TRI3", "L"))
            out.append(_t("TRI3", 2, 0, orphan=1))
            out.append(_t("QUAD8", 2, 1, orphan=1))
        return out
    for et in Z.TYPES_3D:
        out.append(_t(et, 2, 1 if et in ("HEXA8", "TETRA4", "TETRA10") else 0))
    if not single_only:
        for mix in Z.MIXED_3D:
            out.append(_t(mix, 2, 0))
    if tier != "quick":
        for et in Z.TYPES_3D:
            out.append(_t(et, 1, 0))
        if not single_only:
            for mix in Z.MIXED_3D[:2]:
                out.append(_t(mix, [2, 1, 1], 0))
        for et in ("TETRA4", "HEXA8", "PRISM6"):
            out.append(_g(et, "quad"))
        out.append(_t("TETRA4", 1, 0, orphan=1))
    return out


def build_mesh(md: dict):
    """-> (EasyFEA mesh, ZooMesh or None)"""
    et = tuple(md["et"]) if isinstance(md["et"], list) else md["et"]
    if md["src"] == "g":
        d = Z.dim_of(et)
        with contextlib.redirect_stdout(io.StringIO()):
            mesh, _ = Z.gmsh_2d(et, md["poly"], h=0.55) if d == 2 else Z.gmsh_3d(et, md["poly"], h=0.8, layers=2)
        return mesh, None
    d = Z.dim_of(et if isinstance(et, str) else et[0])
    if d == 1:
        zm = Z.template_1d(et, n=md["k"], graded=bool(md["distort"]))
    elif d == 2:
        zm = Z.template_2d(et, md["k"], distort=bool(md["distort"]))
    else:
        zm = Z.template_3d(et, md["k"], distort=bool(md["distort"]))
    if md.get("orphan"):
        zm = zm.with_orphan((7.0, 7.0, 0.0) if d == 2 else (7.0, 7.0, 7.0))
    return zm.build(), zm


# ------------------------------------------------------------------------------------------------
# enumeration
# ------------------------------------------------------------------------------------------------
PF_SPLITS_QUICK = ["Bourdin", "Amor", "Miehe"]
BEAM_TYPES = ["SEG2", "SEG3", "SEG4", "SEG5"]


def _variants(sim: str, dim: int, tier: str) -> list[str]:
    q = tier == "quick"
    if sim == "Elastic":
        return (["iso_ps", "iso_pe", "aniso"] if dim == 2 else ["iso", "aniso"])
    if sim == "Thermal":
        return ["k"]
    if sim == "PhaseField":
        if q:
            return [f"{s}/AT2" for s in PF_SPLITS_QUICK] + ["Bourdin/AT1"]
        from EasyFEA import Models

        return [f"{s.name}/{r}" for s in Models.PhaseField.Get_splits() for r in ("AT1", "AT2")]
    if sim == "HyperElastic":
        laws = ["SVK", "NeoHookean"] if q else ["SVK", "NeoHookean", "MooneyRivlin"]
        # "active": an active fibre stress field tau (one value per element, zero in a passive region) on top of the law
        return [f"{l}/{a}" for l in laws for a in ("static", "newmark")] + ["NeoHookean/active"]
    if sim == "InElastic":
        return (["vm_pe", "vm_ps", "norton_ps"] if dim == 2 else ["vm", "norton"]) + ["vm_step", "norton_step"] + (["vm_step_ps", "norton_step_ps"] if dim == 2 else []) + ([] if q else ["elastic_only"])
    if sim == "WeakForms":
        return [f"dof{n}" for n in range(dim, 0, -1)]  # first variant = the one advertising the most names
    raise KeyError(sim)


def cases(tier, seed):
    out = []
    q = tier == "quick"
    states = [0, 1, 2]
    for sim in SIMS:
        if sim == "Beam":
            for dim in (1, 2, 3):
                for et in BEAM_TYPES:
                    for theory in ("EB", "Timo"):
                        for st in states:
                            out.append({"kind": "results", "sim": sim, "variant": theory, "dim": dim,
                                        "mesh": {"src": "beam", "et": et, "id": f"beam{dim}d:{et}"}, "state": st})
            continue
        dims = (1, 2, 3) if sim == "Thermal" else (2, 3)
        for dim in dims:
            mds = meshes_for(dim, tier, single_only=(sim == "WeakForms"))
            vs = _variants(sim, dim, tier)
            for iv, var in enumerate(vs):
                for im, md in enumerate(mds):
                    # quick: every mesh with the first variant, every variant on the first two meshes (one single-group,
                    # one mixed where there is one); thorough: the full product
                    if q and iv > 0 and md["id"] not in _rep_meshes(dim, sim):
                        continue
                    for st in states + ([3] if sim in ("Elastic", "Thermal", "PhaseField", "WeakForms") else []):
                        if q and st > 0 and iv > 0:
                            continue
                        if st == 3 and im > 1:
                            continue
                        out.append({"kind": "results", "sim": sim, "variant": var, "dim": dim, "mesh": md, "state": st})
    for dim in (1, 2, 3):
        for md in meshes_for(dim, "thorough"):
            out.append({"kind": "convert", "dim": dim, "mesh": md})
    out += _reaction_cases(tier)
    return out


def _rep_meshes(dim, sim):
    if dim == 1:
        return {_t("SEG3", 4, 1)["id"]}
    if dim == 2:
        ids = {_t("TRI6", 2, 1)["id"], _t("QUAD4", 2, 1)["id"]}
        if sim != "WeakForms":
            ids.add(_t(("TRI3", "QUAD4"), 2, 1)["id"])
        return ids
    ids = {_t("TETRA4", 2, 1)["id"], _t("HEXA20", 2, 0)["id"]}
    if sim != "WeakForms":
        ids.add(_t(("PRISM6", "HEXA8"), 2, 0)["id"])
    return ids


def _reaction_cases(tier):
    out = []
    for dim in (2, 3):
        mds = [m for m in meshes_for(dim, tier) if not m.get("orphan")]
        for md in mds:
            for sim in ("Elastic", "Thermal"):
                for load in ("nodal", "body"):
                    out.append({"kind": "reaction", "sim": sim, "dim": dim, "mesh": md, "load": load})
                # the same questions asked of a STORED iteration: the simulation moves on to a mesh of the same size (same connectivity, other
                # coordinates), solves and stores there, and iteration 0 is restored: reactions, K u and the balance are those of iteration 0
                out.append({"kind": "reaction", "sim": sim, "dim": dim, "mesh": md, "load": "nodal", "restored": True})
            # a user weak form with a NON symmetric operator (rows of K and columns of K are different things)
            out.append({"kind": "reaction", "sim": "WeakNonsym", "dim": dim, "mesh": md, "load": "nodal"})
    # phase-field displacement problem after a NON proportional two-step history with a strain-sign dependent split and damage: the
    # reactions are those of the system the displacement was solved with (they sum to zero per direction over all constrained dofs)
    for split in ("Amor", "Miehe", "Bourdin"):
        for md in [m for m in meshes_for(2, tier) if not m.get("orphan")][:3]:
            out.append({"kind": "reaction_pf", "split": split, "mesh": md})
    for dim in (1, 2, 3):
        for et in BEAM_TYPES:
            for theory in ("EB", "Timo"):
                for load in ("nodal", "body"):
                    out.append({"kind": "reaction", "sim": "Beam", "variant": theory, "dim": dim, "load": load,
                                "mesh": {"src": "beam", "et": et, "id": f"beam{dim}d:{et}"}})
    return out


def describe(tier, seed):
    return {
        "rule": "E1: every (simulation, variant, dim, mesh, state) case; inside a case EVERY name of Results_Available() x nodeValues "
                "in {True, False} is requested from the real simulation and compared with the relation table; plus node<->element "
                "conversion of constants on every mesh and reaction balance on solved clamped problems. non-trivial = at least one "
                "compared result is not identically zero and u, v, a are three different vectors; distinct = fingerprint of all returned arrays",
        "exhaustive": True,
        "bound": ("quick: every mesh x first variant x 3 states, every variant x representative meshes x state 0"
                  if tier == "quick" else "full product simulation x variant x mesh x 3 states")
                 + "; meshes: k=2 grids of every element type (general straight-sided QUAD/HEXA8/TETRA cells), all mixed pairings"
                 + ("" if tier == "quick" else ", 1-2 element meshes, 3x2 grids, gmsh quadrilateral / L, orphan node"),
        "alphabet": {"simulations": len(SIMS), "element_types_2d": len(Z.TYPES_2D), "element_types_3d": len(Z.TYPES_3D),
                     "mixed": len(Z.MIXED_2D) + len(Z.MIXED_3D), "beam_families": 2 * len(BEAM_TYPES), "states": 3, "nodeValues": 2},
        "assumptions": [
            "states are set with _Set_solutions followed by Need_Update() (cache invalidation after a state change is C14's subject)",
            "element value of a nodal field = mean over the nodes of the element; nodal value of an element field = mean over the "
            "elements containing the node (docstrings of Results_Reshape_values / Get_Node_Values); orphan nodes are not compared",
            "shear components of Sij/Eij/Stress/Strain are tensor components (Kelvin-Mandel sqrt(2) removed), as documented in Models/_utils.py",
            "Svm in 2D is the von Mises norm of the in-plane stress the simulation reports (out-of-plane stress of plane strain is not part of 'Stress')",
            "Evm is checked as the same quadratic norm applied to the strain result (no documented definition)",
            "shape-function gradients at Gauss points (Get_dN_e_pg), Gauss weights and beam element operators (Get_beam_B_e_pg) are taken from the "
            "implementation (subjects of C06/C07); material stiffness C from the model (subject of C11)",
            "PhaseField: psiP is the history field max(psi+, 0) of the default History solver; for splits other than Bourdin sigma+/-, psi+ come from "
            "the model (subject of C17), the degradation g(d) and the Gauss-point reduction are recomputed here; damage is a generic field in [0, 0.9)",
            "InElastic: generic states lie inside the elastic domain (yield stress above the stresses of the state) so that the stress of a total strain "
            "at the committed state is defined; variant vm_step first solves and commits a plastic load step (p > 0, eps_p != 0)",
            "HyperElastic: generic displacement amplitude 0.05 x smallest node spacing so that det F > 0.05 (cases violating it are skipped and counted); closed forms for "
            "Saint-Venant-Kirchhoff and Neo-Hookean, model derivatives for Mooney-Rivlin",
            "Beam 2D/3D stress values are not modelled (only Sij <-> column of 'Stress' and the 1D relation Sxx = N/A)",
            "reaction cases: static solves with all dofs of a boundary part prescribed to zero; applied resultant = total of add_neumann (exact by "
            "definition) or the assembled Neumann vector for body loads (their integration is C09's subject)",
            f"tolerance {TOL:g} relative to the magnitude of the field the result derives from",
        ],
        "explanation": "A result wired to the wrong vector, the wrong column or the wrong Kelvin-Mandel factor changes a value that is "
                       "compared entry-wise here for every advertised name, in nodal and element form.",
    }


# ------------------------------------------------------------------------------------------------
# reference conversions (plain loops)
# ------------------------------------------------------------------------------------------------
def node_to_elem(groups, vals_n: np.ndarray) -> np.ndarray:
    """(Nn,k) -> (Ne,k): mean over the nodes of each element, elements in the order of the groups."""
    rows = []
    for g in groups:
        con = np.asarray(g.connect, dtype=int)
        for e in range(con.shape[0]):
            rows.append(vals_n[con[e]].mean(axis=0))
    return np.array(rows)


def elem_to_node(groups, Nn: int, vals_e: np.ndarray):
    """(Ne,k) -> (Nn,k), mask of connected nodes: mean over the elements that contain the node."""
    acc = np.zeros((Nn, vals_e.shape[1]))
    cnt = np.zeros(Nn)
    e0 = 0
    for g in groups:
        con = np.asarray(g.connect, dtype=int)
        for e in range(con.shape[0]):
            for n in con[e]:
                acc[n] += vals_e[e0 + e]
                cnt[n] += 1
        e0 += con.shape[0]
    mask = cnt > 0
    acc[mask] /= cnt[mask][:, None]
    return acc, mask


class Spec:
    """expected value of one named result at its natural location"""

    def __init__(self, loc, val, scale=None, flat=False, layouts=None):
        self.loc = loc  # "node" | "elem" | "scalar"
        self.val = val if loc == "scalar" else np.asarray(val, dtype=float)
        self.flat = flat  # nodal dof vector (Nn*k,) : conversions keep it flat
        sc = float(np.max(np.abs(self.val))) if loc != "scalar" and self.val.size else (abs(float(val)) if loc == "scalar" else 0.0)
        self.scale = max(sc, float(scale or 0.0), 1e-300)
        self.layouts = layouts  # optional {ncols: column index list} alternative accepted column layouts


def expected(spec: Spec, nodeValues: bool, groups, Nn: int, Ne: int):
    """-> (array in the shape the API promises, mask of rows to compare or None)"""
    v = spec.val
    one_d = v.ndim == 1
    if spec.loc == "node":
        vn = v.reshape(Nn, -1)
        if nodeValues:
            return (v.ravel() if one_d else vn), None
        ve = node_to_elem(groups, vn)
        return (ve.ravel() if one_d else ve), None
    ve = v.reshape(Ne, -1)
    if not nodeValues:
        return (v.ravel() if one_d else ve), None
    vn, mask = elem_to_node(groups, Nn, ve)
    return (vn.ravel() if one_d else vn), (mask if one_d else mask)


# ------------------------------------------------------------------------------------------------
# small tensor helpers (own conventions, independent of Models/_utils.py)
# ------------------------------------------------------------------------------------------------
def grad_gauss(g, U: np.ndarray, mt) -> np.ndarray:
    """grad[e,p,i,j] = d u_i / d x_j at the Gauss points of matrix type mt; U (Nn, ncomp)."""
    dN = np.asarray(g.Get_dN_e_pg(mt))  # (Ne, nPg, dim, nPe)
    Ue = U[np.asarray(g.connect, dtype=int)]  # (Ne, nPe, ncomp)
    return np.einsum("eni,epjn->epij", Ue, dN)


def embed3(T: np.ndarray) -> np.ndarray:
    d = T.shape[-1]
    out = np.zeros(T.shape[:-2] + (3, 3))
    out[..., :d, :d] = T
    return out


def small_strain3(g, U, mt) -> np.ndarray:
    G = grad_gauss(g, U, mt)
    d = G.shape[-1]
    G = G[..., :d, :d]
    return embed3(0.5 * (G + np.swapaxes(G, -1, -2)))


def t2km(T3: np.ndarray, dim: int) -> np.ndarray:
    """3x3 symmetric tensor -> Kelvin-Mandel vector [xx,yy,(zz,s2 yz,s2 xz,) s2 xy]"""
    if dim == 2:
        return np.stack([T3[..., 0, 0], T3[..., 1, 1], SQ2 * T3[..., 0, 1]], axis=-1)
    return np.stack([T3[..., 0, 0], T3[..., 1, 1], T3[..., 2, 2], SQ2 * T3[..., 1, 2], SQ2 * T3[..., 0, 2], SQ2 * T3[..., 0, 1]], axis=-1)


def km2t(v: np.ndarray) -> np.ndarray:
    v = np.asarray(v, dtype=float)
    out = np.zeros(v.shape[:-1] + (3, 3))
    if v.shape[-1] == 3:
        out[..., 0, 0], out[..., 1, 1] = v[..., 0], v[..., 1]
        out[..., 0, 1] = out[..., 1, 0] = v[..., 2] / SQ2
    else:
        out[..., 0, 0], out[..., 1, 1], out[..., 2, 2] = v[..., 0], v[..., 1], v[..., 2]
        out[..., 1, 2] = out[..., 2, 1] = v[..., 3] / SQ2
        out[..., 0, 2] = out[..., 2, 0] = v[..., 4] / SQ2
        out[..., 0, 1] = out[..., 1, 0] = v[..., 5] / SQ2
    return out


COMPS = {2: [("xx", 0, 0), ("yy", 1, 1), ("xy", 0, 1)],
         3: [("xx", 0, 0), ("yy", 1, 1), ("zz", 2, 2), ("yz", 1, 2), ("xz", 0, 2), ("xy", 0, 1)]}


def comps_of(T3: np.ndarray, dim: int) -> np.ndarray:
    """tensor (…,3,3) -> (…, 3|6) columns in the documented order, plain tensor components"""
    return np.stack([T3[..., i, j] for _, i, j in COMPS[dim]], axis=-1)


def inplane(T3: np.ndarray, dim: int) -> np.ndarray:
    if dim == 3:
        return T3
    out = np.zeros_like(T3)
    out[..., :2, :2] = T3[..., :2, :2]
    return out


def vonmises(T3: np.ndarray) -> np.ndarray:
    tr = np.trace(T3, axis1=-2, axis2=-1)
    s = T3 - tr[..., None, None] * np.eye(3) / 3.0
    return np.sqrt(1.5 * np.einsum("...ij,...ij->...", s, s))


def tensor_table(table: dict, prefix: str, vecname: str, T3_by_group: list, dim: int, vm_name: str | None, ncols=None):
    """Adds Pij names, the vector name and the equivalent norm of the per-Gauss-point tensors (one array per group)."""
    allc = np.concatenate([comps_of(T, dim).mean(axis=1) for T in T3_by_group])  # (Ne, 3|6)
    sc = float(np.max(np.abs(allc))) if allc.size else 0.0
    for c, (nm, _, _) in enumerate(COMPS[dim]):
        table[prefix + nm] = Spec("elem", allc[:, c], sc)
    layouts = None
    if dim == 2:
        # a 2D tensor field may legitimately be reported padded to the 6 columns [xx,yy,zz,yz,xz,xy]
        full = np.concatenate([comps_of(T, 3).mean(axis=1) for T in T3_by_group])
        layouts = {6: full}
    table[vecname] = Spec("elem", allc, sc, layouts=layouts)
    if vm_name:
        vm = np.concatenate([vonmises(inplane(T, dim)).mean(axis=1) for T in T3_by_group])
        table[vm_name] = Spec("elem", vm, sc)
    return sc


def kinematic_table(table, names_vec, U, dof_names, prefix, flat_name, norm_name=None, matrix_name=None, ntrans=None):
    """component names <-> columns of a nodal dof vector U (Nn, k)"""
    sc = float(np.max(np.abs(U))) if U.size else 0.0
    table[flat_name] = Spec("node", U.ravel(), sc, flat=True)
    for c, nm in enumerate(dof_names):
        table[prefix + nm if prefix is not None else nm] = Spec("node", U[:, c], sc)
    nt = U.shape[1] if ntrans is None else ntrans
    if norm_name:
        table[norm_name] = Spec("node", np.sqrt((U[:, :nt] ** 2).sum(axis=1)), sc)
    if matrix_name:
        M = np.zeros((U.shape[0], 3))
        M[:, :nt] = U[:, :nt]
        table[matrix_name] = Spec("node", M, sc)


# ------------------------------------------------------------------------------------------------
# state vectors
# ------------------------------------------------------------------------------------------------
def state_vectors(case, n: int, amp: float, tag=""):
    gens = [rng("c16state", case["sim"], case["mesh"]["id"], tag, i).normal(size=n) * amp for i in range(3)]
    s = case["state"]
    if s == 3 and tag != "d":
        # state 3: the first state at a tiny amplitude (a micrometre-scale body in SI units: |u| ~ 1e-9); every statement of the property
        # is homogeneous in the state, nothing may depend on its absolute magnitude
        return gens[0] * 1e-8, gens[1] * 1e-8, gens[2] * 1e-8
    return gens[s % 3], gens[(s + 1) % 3], gens[(s + 2) % 3]


def _quiet():
    return contextlib.redirect_stdout(io.StringIO())


# ------------------------------------------------------------------------------------------------
# per-simulation builders: -> (simu, table{name: Spec}, extra violations, transitions)
# ------------------------------------------------------------------------------------------------
def _iso_stress(eps3, dim, E, v, planeStress):
    """isotropic Hooke law on (…,3,3) strain tensors whose out-of-plane part is zero in 2D; returns in-plane stress in 2D"""
    mu = E / (2 * (1 + v))
    lam = E * v / ((1 + v) * (1 - 2 * v))
    if dim == 2 and planeStress:
        lam = 2 * lam * mu / (lam + 2 * mu)
    tr = np.trace(eps3, axis1=-2, axis2=-1)
    sig = lam * tr[..., None, None] * np.eye(3) + 2 * mu * eps3
    return inplane(sig, dim)


def _make_elastic_material(variant, dim, case):
    from EasyFEA import Models

    if variant in ("iso_ps", "iso_pe", "iso"):
        E, v = 2.3, 0.28
        ps = variant == "iso_ps"
        mat = Models.Elastic.Isotropic(dim, E=E, v=v, planeStress=ps, thickness=0.7)
        return mat, (lambda eps3: _iso_stress(eps3, dim, E, v, ps))
    n = 3 if dim == 2 else 6
    r = rng("c16aniso", dim)
    A = r.normal(size=(n, n))
    C = A @ A.T / n + 1.5 * np.eye(n)
    mat = Models.Elastic.Anisotropic(dim, C, False, axis1=(1, 0, 0), axis2=(0, 1, 0), thickness=0.7) if dim == 2 else \
        Models.Elastic.Anisotropic(dim, C, False, axis1=(1, 0, 0), axis2=(0, 1, 0))
    Cm = np.asarray(mat.C)

    def law(eps3):
        return inplane(km2t(np.einsum("ij,...j->...i", Cm, t2km(eps3, dim))), dim)

    return mat, law


def _elastic_like_tables(table, simu_mesh, groups, U, dim, law_by_group, thickness, mt, with_energy=True):
    """strain / stress / equivalent norms / energies of a small-strain displacement field. law_by_group(g, eps3) -> in-plane stress"""
    eps = [small_strain3(g, U, mt) for g in groups]
    sig = [law_by_group(g, e) for g, e in zip(groups, eps)]
    tensor_table(table, "E", "Strain", eps, dim, "Evm")
    tensor_table(table, "S", "Stress", sig, dim, "Svm")
    W_e = None
    if with_energy:
        W_e = np.concatenate([
            thickness * (np.asarray(g.Get_weightedJacobian_e_pg(mt)) * 0.5 * np.einsum("epij,epij->ep", s, e)).sum(axis=1)
            for g, s, e in zip(groups, sig, eps)])
    return eps, sig, W_e


def build_Elastic(case, mesh):
    from EasyFEA import Simulations
    from EasyFEA.FEM import MatrixType

    dim = case["dim"]
    mat, law = _make_elastic_material(case["variant"], dim, case)
    simu = Simulations.Elastic(mesh, mat)
    Nn = mesh.Nn
    u, v, a = state_vectors(case, Nn * dim, 0.1)
    simu._Set_solutions(simu.problemType, u, v, a)
    simu.Need_Update()
    groups = mesh.Get_list_groupElem()
    table = {}
    comp = ["x", "y", "z"][:dim]
    kinematic_table(table, None, u.reshape(Nn, dim), comp, "u", "displacement", "displacement_norm", "displacement_matrix")
    kinematic_table(table, None, v.reshape(Nn, dim), comp, "v", "speed", "speed_norm")
    kinematic_table(table, None, a.reshape(Nn, dim), comp, "a", "accel", "accel_norm")
    th = 0.7 if dim == 2 else 1.0
    mt = MatrixType.rigi
    U = u.reshape(Nn, dim)
    eps, sig, W_e = _elastic_like_tables(table, mesh, groups, U, dim, lambda g, e: law(e), th, mt)
    if case["variant"] == "iso_pe":
        # plane strain: the stress tensor has the out-of-plane component sigma_zz = nu (sigma_xx + sigma_yy); the equivalent stress is the von Mises
        # norm of THAT tensor (property: "equivalent stress as the von Mises norm of the stress at each integration point, averaged per element")
        full = []
        for sg in sig:
            t = np.array(sg, dtype=float)
            t[..., 2, 2] = 0.28 * (t[..., 0, 0] + t[..., 1, 1])
            full.append(t)
        vm = np.concatenate([vonmises(t).mean(axis=1) for t in full])
        table["Svm"] = Spec("elem", vm, float(np.max(np.abs(vm))))
    K = simu.Get_K_C_M_F()[0]
    W = 0.5 * float(u @ (K @ u))
    extra = []
    key = _key(case)
    if abs(W - W_e.sum()) > 1e-9 * abs(W):
        extra.append(viol("energy_integral", f"1/2 u'Ku = {W:.12g} but the integral of 1/2 sigma:eps recomputed at the Gauss points = {W_e.sum():.12g}", **key))
    table["Wdef"] = Spec("scalar", W)
    table["Wdef_e"] = Spec("elem", W_e, abs(W))
    # ZZ1: energy of the nodal-averaged (smoothed) stress field versus the raw one (docstrings of _Calc_Psi_Elas / _Calc_ZZ1)
    sig_e = np.concatenate([s.reshape(s.shape[0], s.shape[1], 9).mean(axis=1) for s in sig])
    sig_n, _ = elem_to_node(groups, Nn, sig_e)
    Ws_e = []
    for g, e in zip(groups, eps):
        N = np.asarray(g.Get_N_pg(mt))[:, 0, :]  # (nPg, nPe)
        s_pg = np.einsum("pn,enk->epk", N, sig_n[np.asarray(g.connect, dtype=int)]).reshape(e.shape)
        Ws_e.append(th * (np.asarray(g.Get_weightedJacobian_e_pg(mt)) * 0.5 * np.einsum("epij,epij->ep", s_pg, e)).sum(axis=1))
    Ws_e = np.concatenate(Ws_e)
    table["ZZ1_e"] = Spec("elem", np.abs(Ws_e - W_e) / W_e.sum(), 1.0)
    table["ZZ1"] = Spec("scalar", abs(W_e.sum() - Ws_e.sum()) / W_e.sum(), 1.0)
    return simu, table, extra, 1


def build_Thermal(case, mesh):
    from EasyFEA import Models, Simulations

    simu = Simulations.Thermal(mesh, Models.Thermal(k=1.5, c=0.8, thickness=0.7))
    Nn = mesh.Nn
    u, v, a = state_vectors(case, Nn, 1.0)
    simu._Set_solutions(simu.problemType, u, v, a)
    simu.Need_Update()
    table = {"thermal": Spec("node", u), "thermalDot": Spec("node", v), "displacement_matrix": Spec("node", np.zeros((Nn, 3)), 1.0)}
    return simu, table, [], 1


def build_WeakForms(case, mesh):
    from EasyFEA import Models, Simulations
    from EasyFEA.FEM import BiLinearForm, Field

    dof_n = int(case["variant"][3:])
    field = Field(mesh.groupElem, dof_n)
    k = BiLinearForm(lambda u, v: u.grad.dot(v.grad)) if dof_n == 1 else BiLinearForm(lambda u, v: u.grad.ddot(v.grad))
    simu = Simulations.WeakForms(mesh, Models.WeakForms(field, computeK=k))
    Nn = mesh.Nn
    u, v, a = state_vectors(case, Nn * dof_n, 1.0, tag=dof_n)
    simu._Set_solutions(simu.problemType, u, v, a)
    simu.Need_Update()
    table = {}
    comp = ["x", "y", "z"][:dof_n]
    for letter, vec in (("u", u), ("v", v), ("a", a)):
        table[letter] = Spec("node", vec, flat=dof_n > 1)
        if dof_n > 1:
            for c, nm in enumerate(comp):
                table[letter + nm] = Spec("node", vec.reshape(Nn, dof_n)[:, c], float(np.abs(vec).max()))
    M = np.zeros((Nn, 3))
    if dof_n > 1:
        M[:, :dof_n] = u.reshape(Nn, dof_n)
    table["displacement_matrix"] = Spec("node", M, float(np.abs(u).max()))
    return simu, table, [], 1


def build_PhaseField(case, mesh):
    from EasyFEA import Models, Simulations
    from EasyFEA.FEM import MatrixType

    dim = case["dim"]
    split, regu = case["variant"].split("/")
    E, nu = 2.3, 0.28
    mat = Models.Elastic.Isotropic(dim, E=E, v=nu, planeStress=False, thickness=0.7)
    pfm = Models.PhaseField(mat, Models.PhaseField.SplitType[split], Models.PhaseField.ReguType[regu], Gc=1.3, l0=0.4)
    simu = Simulations.PhaseField(mesh, pfm)
    Nn = mesh.Nn
    u, _, _ = state_vectors(case, Nn * dim, 0.1)
    d = np.abs(state_vectors(case, Nn, 1.0, tag="d")[0])
    d = 0.9 * d / (1.0 + d)  # generic damage in [0, 0.9)
    PT = simu.ProblemTypes
    simu._Set_solutions(PT.elastic, u)
    simu._Set_solutions(PT.damage, d)
    simu.Need_Update()
    groups = mesh.Get_list_groupElem()
    th = 0.7 if dim == 2 else 1.0
    table = {}
    U = u.reshape(Nn, dim)
    kinematic_table(table, None, U, ["x", "y", "z"][:dim], "u", "displacement", "displacement_norm", "displacement_matrix")
    table["damage"] = Spec("node", d)
    mt = MatrixType.rigi

    def g_of(g, mtype):
        N = np.asarray(g.Get_N_pg(mtype))[:, 0, :]
        dp = np.einsum("pn,en->ep", N, d[np.asarray(g.connect, dtype=int)])
        return (1.0 - dp) ** 2

    def law(g, eps3):
        if split == "Bourdin":
            return g_of(g, mt)[..., None, None] * _iso_stress(eps3, dim, E, nu, False)
        # other splits: sigma+ / sigma- from the model (subject of C17), degradation recomputed here
        sP, sM = pfm.Calc_Sigma_e_pg(simu._Calc_Epsilon_e_pg(u, g, mt))
        return inplane(g_of(g, mt)[..., None, None] * km2t(np.asarray(sP)) + km2t(np.asarray(sM)), dim)

    eps, sig, W_e = _elastic_like_tables(table, mesh, groups, U, dim, law, th, mt)
    # psiP: positive energy density at the MASS Gauss points, averaged per element
    psiP = []
    for g in groups:
        e3 = small_strain3(g, U, MatrixType.mass)
        if split == "Bourdin":
            psiP.append(0.5 * np.einsum("epij,epij->ep", _iso_stress(e3, dim, E, nu, False), e3).mean(axis=1))
        else:
            pP, _ = pfm.Calc_psi_e_pg(simu._Calc_Epsilon_e_pg(u, g, MatrixType.mass))
            # default History solver: the reported field is the history max(psi+, previous) with a zero initial history
            # (splits with cross terms can give psi+ < 0 at a Gauss point)
            psiP.append(np.maximum(np.asarray(pP), 0.0).mean(axis=1))
    psiP = np.concatenate(psiP)
    table["psiP"] = Spec("elem", psiP)
    Ku = simu.Get_K_C_M_F(PT.elastic)[0]
    Kd = simu.Get_K_C_M_F(PT.damage)[0]
    W = 0.5 * float(u @ (Ku @ u))
    table["Wdef"] = Spec("scalar", W)
    table["Psi_Crack"] = Spec("scalar", 0.5 * float(d @ (Kd @ d)))
    extra = []
    if split == "Bourdin" and abs(W - W_e.sum()) > 1e-9 * abs(W):
        extra.append(viol("energy_integral", f"1/2 u'K(d)u = {W:.12g} but the integral of 1/2 g(d) sigma:eps = {W_e.sum():.12g}", **_key(case)))
    return simu, table, extra, 2


def _hyper_law(variant, dim):
    from EasyFEA import Models

    name = variant.split("/")[0]
    I = np.eye(3)
    if name == "SVK":
        lam, mu, K = 1.2, 0.8, 0.3
        mat = Models.HyperElastic.SaintVenantKirchhoff(dim, lam, mu, K, thickness=0.7)

        def S(F):
            C = np.swapaxes(F, -1, -2) @ F
            Eg = 0.5 * (C - I)
            I3 = np.linalg.det(C)
            return lam * np.trace(Eg, axis1=-2, axis2=-1)[..., None, None] * I + 2 * mu * Eg \
                + (2 * K * (I3 - 1) * I3)[..., None, None] * np.linalg.inv(C)

        def W(F):
            C = np.swapaxes(F, -1, -2) @ F
            Eg = 0.5 * (C - I)
            I3 = np.linalg.det(C)
            return 0.5 * lam * np.trace(Eg, axis1=-2, axis2=-1) ** 2 + mu * np.einsum("...ij,...ij->...", Eg, Eg) + 0.5 * K * (I3 - 1) ** 2

        return mat, S, W
    if name == "NeoHookean":
        K = 1.7
        mat = Models.HyperElastic.NeoHookean(dim, K, thickness=0.7)

        def S(F):
            C = np.swapaxes(F, -1, -2) @ F
            I1 = np.trace(C, axis1=-2, axis2=-1)
            I3 = np.linalg.det(C)
            return (2 * K * I3 ** (-1 / 3))[..., None, None] * (I - (I1 / 3)[..., None, None] * np.linalg.inv(C))

        def W(F):
            C = np.swapaxes(F, -1, -2) @ F
            return K * (np.trace(C, axis1=-2, axis2=-1) * np.linalg.det(C) ** (-1 / 3) - 3)

        return mat, S, W
    mat = Models.HyperElastic.MooneyRivlin(dim, 0.9, 0.4, 1.1, thickness=0.7)
    return mat, None, None


def build_HyperElastic(case, mesh):
    from EasyFEA import Simulations
    from EasyFEA.FEM import MatrixType
    from EasyFEA.Models.HyperElastic._state import HyperElasticState

    dim = case["dim"]
    mat, S_of, W_of = _hyper_law(case["variant"], dim)
    dyn = case["variant"].endswith("newmark")
    simu = Simulations.HyperElastic(mesh, mat)
    if dyn:
        simu.Solver_Set_Hyperbolic_Algorithm(0.1)
    Nn = mesh.Nn
    groups = mesh.Get_list_groupElem()
    # finite strains of order 0.1-0.3 with det F > 0: amplitude relative to the smallest node spacing of the mesh
    hmin = np.inf
    for g in groups:
        X = np.asarray(mesh.coord)[np.asarray(g.connect, dtype=int)]
        D = np.linalg.norm(X[:, :, None, :] - X[:, None, :, :], axis=-1) + 1e9 * np.eye(X.shape[1])
        hmin = min(hmin, float(D.min()))
    u, v, a = state_vectors(case, Nn * dim, 0.05 * hmin)
    simu._Set_solutions(simu.problemType, u, v, a)
    simu.Need_Update()
    table = {}
    comp = ["x", "y", "z"][:dim]
    U = u.reshape(Nn, dim)
    kinematic_table(table, None, U, comp, "u", "displacement", "displacement_norm", "displacement_matrix")
    if dyn:
        kinematic_table(table, None, v.reshape(Nn, dim), comp, "v", "speed", "speed_norm")
        kinematic_table(table, None, a.reshape(Nn, dim), comp, "a", "accel", "accel_norm")
    mt = MatrixType.rigi
    th = 0.7 if dim == 2 else 1.0
    Egl, Spk, W_e = [], [], []
    active = case["variant"].endswith("active")
    if active:
        from EasyFEA.FEM import FeArray

        if len(groups) > 1:
            return simu, None, [], 0  # (the direction field is registered for one element group)
        g = groups[0]
        nPg = g.Get_gauss(mt).nPg
        That = np.array([0.6, 0.8, 0.0]) if dim == 2 else np.array([0.6, 0.0, 0.8])
        tau = np.where(np.arange(g.Ne) % 2 == 0, 0.0, 0.4) + 0.05 * (np.arange(g.Ne) % 3 == 1)  # passive elements have tau = 0
        mat.Set_active_stress_vec(FeArray.asfearray(np.tile(1.7 * That, (g.Ne, nPg, 1))))
        mat.active_stress = tau
    for g in groups:
        G = grad_gauss(g, U, mt)
        F = np.eye(3) + embed3(G[..., :dim, :dim])
        if np.linalg.det(F).min() <= 0.05:
            return simu, None, [], 0  # assumption guard
        Egl.append(0.5 * (np.swapaxes(F, -1, -2) @ F - np.eye(3)))
        wJ = np.asarray(g.Get_weightedJacobian_e_pg(mt))
        if S_of is not None:
            Spk.append(inplane(S_of(F) + (tau[:, None, None, None] * np.outer(That, That)[None, None] if active else 0.0), dim))
            W_e.append(th * (wJ * W_of(F)).sum(axis=1))
        else:
            st = HyperElasticState(g, u, mt)
            Spk.append(inplane(km2t(np.asarray(mat.Compute_dWde(st))), dim))
            W_e.append(th * (wJ * np.asarray(mat.Compute_W(st))).sum(axis=1))
    tensor_table(table, "E", "Green-Lagrange", Egl, dim, "Evm")
    tensor_table(table, "S", "Piola-Kirchhoff", Spk, dim, "Svm")
    W_e = np.concatenate(W_e)
    table["W"] = Spec("scalar", float(W_e.sum()))
    table["W_e"] = Spec("elem", W_e, abs(float(W_e.sum())))
    return simu, table, [], 1


def build_InElastic(case, mesh):
    from EasyFEA import Models, Simulations
    from EasyFEA.FEM import MatrixType

    dim = case["dim"]
    var = case["variant"]
    E, nu = 2.3, 0.28
    el = Models.Elastic.Isotropic(3, E=E, v=nu)
    ps = var in ("vm_ps", "norton_ps", "vm_step_ps", "norton_step_ps")
    step = "_step" in var
    if var == "elastic_only":
        beh = Models.InElastic.Behavior(dim, el, thickness=0.7)
    else:
        # generic states stay inside the elastic domain (yield stress far above the stresses of the state) except in the
        # 'vm_step' variant, where a real plastic load step is solved and committed first
        # 'norton_*': a viscoplastic rate law on top (reading a result involves no time step)
        rate = Models.InElastic.ViscoPlastic.Norton(1.0, 4.0) if var.startswith("norton") else None
        beh = Models.InElastic.Behavior(dim, el, Models.InElastic.Yield.VonMises(0.05 if step else 50.0),
                                        Models.InElastic.IsotropicHardening.Linear(0.3), rate=rate, thickness=0.7, planeStress=ps)
    simu = Simulations.InElastic(mesh, beh)
    if var.startswith("norton"):
        simu.dt = 0.5
    Nn = mesh.Nn
    groups = mesh.Get_list_groupElem()
    ntr = 1
    epsp = {g.elemType: 0.0 for g in groups}
    pvals = {g.elemType: np.zeros((g.Ne, 1)) for g in groups}
    if step:
        nodes = np.asarray(mesh.nodes, dtype=int)
        cl, ld = _clamp_and_load_nodes(np.asarray(mesh.coord), nodes)
        unk = simu.Get_unknowns()
        simu.add_dirichlet(cl, [0.0] * dim, unk)
        simu.add_dirichlet(ld, [0.08], ["x"])
        try:
            simu.Solve()
        except AssertionError as err:
            return simu, None, [], 0, f"load step did not converge: {str(err)[:60]}"
        simu.Save_Iter()
        ntr += 2
        saved = simu.Get_results(-1)["state"]
        slots = beh.layout.slots
        sl_p = [sl for nm, sl in slots.items() if str(getattr(nm, "value", nm)) == "p"][0]
        sl_e = [sl for nm, sl in slots.items() if str(getattr(nm, "value", nm)) == "eps_p"][0]
        for g in groups:
            z = np.asarray(saved[g.elemType], dtype=float)
            pvals[g.elemType] = z[..., sl_p.start]
            epsp[g.elemType] = km2t(z[..., sl_e])  # plastic strain, 6D Kelvin-Mandel -> tensor
    u, v, a = state_vectors(case, Nn * dim, 0.1)
    simu._Set_solutions(simu.problemType, u, v, a)
    simu.Need_Update()
    table = {}
    U = u.reshape(Nn, dim)
    kinematic_table(table, None, U, ["x", "y", "z"][:dim], "u", "displacement", "displacement_norm", "displacement_matrix")

    # the stress of a given total strain at the committed state is the elastic one of (eps - eps_p); no flow is triggered by reading it
    def law(g, e3):
        e = e3 - epsp[g.elemType]
        if ps:
            # plane stress: the out-of-plane elastic strain is whatever makes sigma_zz vanish; only the in-plane elastic strain enters the reduced law
            e = np.array(e, dtype=float)
            e[..., 2, :] = 0.0
            e[..., :, 2] = 0.0
        return _iso_stress(e, dim, E, nu, ps)

    _elastic_like_tables(table, mesh, groups, U, dim, law, 1.0, MatrixType.rigi, with_energy=False)
    for name, slot in beh.layout.slots.items():
        if slot.stop - slot.start == 1:
            table[str(getattr(name, "value", name))] = Spec("elem", np.concatenate([pvals[g.elemType].reshape(g.Ne, -1).mean(axis=1) for g in groups]), 1e-3)
    return simu, table, [], ntr


# ---- beams -------------------------------------------------------------------------------------
def make_beam(case):
    """-> (simu, beams, points) : a straight member (dim 1) or an L frame with a member along x and one along y."""
    from EasyFEA import ElemType, Models, Simulations
    from EasyFEA.FEM import Mesher
    from EasyFEA.Geoms import Domain, Line, Point

    dim = case["dim"]
    et = case["mesh"]["et"]
    with _quiet():
        sec = Mesher().Mesh_2D(Domain(Point(-0.05, -0.07), Point(0.05, 0.07)))
        p0, p1, p2 = Point(0, 0), Point(1.0, 0), Point(1.0, 0.8)
        if dim == 1:
            lines = [Line(p0, p1, 1.0 / 4)]
            beams = [Models.Beam.Isotropic(1, lines[0], sec, 210.0, 0.3)]
        else:
            lines = [Line(p0, p1, 1.0 / 3), Line(p1, p2, 0.4)]
            beams = [Models.Beam.Isotropic(dim, lines[0], sec, 210.0, 0.3, yAxis=(0, 1, 0)),
                     Models.Beam.Isotropic(dim, lines[1], sec, 150.0, 0.25, yAxis=(-1, 0, 0))]
        mesh = Mesher().Mesh_Beams(beams, ElemType[et])
        simu = Simulations.Beam(mesh, Models.Beam.BeamStructure(beams), useTimoshenko=(case["variant"] == "Timo"))
    return simu, beams, (p0, p1, p2)


def _beam_D(beam, dim, timo):
    E, A = beam.E, beam.area
    if dim == 1:
        return np.diag([E * A])
    if dim == 2:
        return np.diag([E * A, E * beam.Iz] + ([beam.mu * beam._ky * A] if timo else []))
    return np.diag([E * A, beam.mu * beam.J, E * beam.Iy, E * beam.Iz] + ([beam._ky * beam.mu * A, beam._kz * beam.mu * A] if timo else []))


def build_Beam(case, mesh_unused):
    from EasyFEA.FEM import MatrixType

    simu, beams, _ = make_beam(case)
    mesh = simu.mesh
    dim = case["dim"]
    timo = case["variant"] == "Timo"
    dof_n = simu.Get_dof_n()
    Nn, Ne = mesh.Nn, mesh.Ne
    u, _, _ = state_vectors(case, Nn * dof_n, 0.01, tag=case["variant"])
    simu._Set_solutions(simu.problemType, u)
    simu.Need_Update()
    g = mesh.groupElem
    U = u.reshape(Nn, dof_n)
    table = {}
    unk = {1: ["ux"], 3: ["ux", "uy", "rz"], 6: ["ux", "uy", "uz", "rx", "ry", "rz"]}[dof_n]
    ntr = {1: 1, 3: 2, 6: 3}[dof_n]
    kinematic_table(table, None, U, unk, None, "displacement", "displacement_norm", "displacement_matrix", ntrans=ntr)
    # nodal generalised forces: K u
    K = simu.Get_K_C_M_F()[0].toarray()[: Nn * dof_n, : Nn * dof_n]
    Fn = (K @ u).reshape(Nn, dof_n)
    fnames = {1: ["fx"], 3: ["fx", "fy", "cz"], 6: ["fx", "fy", "fz", "cx", "cy", "cz"]}[dof_n]
    for c, nm in enumerate(fnames):
        table[nm] = Spec("node", Fn[:, c], float(np.abs(Fn).max()))
    # generalised strains and internal forces from the element operators
    con = np.asarray(g.connect, dtype=int)
    ue = U[con].reshape(Ne, -1)
    B = np.asarray(g.Get_beam_B_e_pg(simu.structure))  # (Ne, nPg, rows, nPe*dof_n)
    eps = np.einsum("eprk,ek->epr", B, ue)
    D_e = np.zeros((Ne,) + _beam_D(beams[0], dim, timo).shape)
    area_e = np.zeros(Ne)
    for b in beams:
        el = np.asarray(mesh.Elements_Tags([b.name]), dtype=int)
        D_e[el] = _beam_D(b, dim, timo)
        area_e[el] = b.area
    forces = np.einsum("ers,eps->epr", D_e, eps)
    srow = {1: ["ux'"], 2: ["ux'", "rz'"], 3: ["ux'", "rx'", "ry'", "rz'"]}[dim]
    frow = {1: ["N"], 2: ["N", "Mz"], 3: ["N", "Mx", "My", "Mz"]}[dim]
    esc, fsc = float(np.abs(eps).max()), float(np.abs(forces).max())
    for r, nm in enumerate(srow):
        table[nm] = Spec("elem", eps[:, :, r].mean(axis=1), esc)
    for r, nm in enumerate(frow):
        table[nm] = Spec("elem", forces[:, :, r].mean(axis=1), fsc)
    extra = []
    if dim >= 2:
        tnames = ["Ty"] if dim == 2 else ["Ty", "Tz"]
        if timo:
            Bs = np.asarray(g.Get_beam_B_e_pg(simu.structure, MatrixType.beam_shear))
            fs = np.einsum("ers,eps->epr", D_e, np.einsum("eprk,ek->epr", Bs, ue))
            for nm, r in zip(tnames, ([2] if dim == 2 else [4, 5])):
                table[nm] = Spec("elem", fs[:, :, r].mean(axis=1), float(np.abs(fs).max()))
        else:
            Bsh = np.asarray(g.Get_beam_shear_B_e_pg(simu.structure))
            fs = np.einsum("ers,eps->epr", D_e, np.einsum("eprk,ek->epr", Bsh, ue))
            rows = {"Ty": 1 if dim == 2 else 3, "Tz": 2}
            # independent cross-check: T = -dM/dx, M being a polynomial of degree nPg-1 along the (straight) element
            Xp = np.asarray(g.Get_GaussCoordinates_e_pg(MatrixType.beam))
            for nm in tnames:
                Tref = -fs[:, :, rows[nm]].mean(axis=1)
                table[nm] = Spec("elem", Tref, float(np.abs(fs).max()))
                M = forces[:, :, rows[nm]]
                Tder = np.zeros(Ne)
                for e in range(Ne):
                    x0 = mesh.coord[con[e, 0]]
                    s = np.linalg.norm(Xp[e] - x0, axis=1)
                    L = s.max() if s.max() > 0 else 1.0
                    co = np.polyfit(s / L, M[e], len(s) - 1)
                    Tder[e] = -np.mean(np.polyval(np.polyder(co), s / L)) / L
                if np.abs(Tder - Tref).max() > 1e-7 * max(np.abs(Tref).max(), 1e-300):
                    extra.append(viol("beam_shear_operator", f"{nm}: -D.B_shear.u differs from -dM/dx of the moment D.B.u by {np.abs(Tder - Tref).max():.3e}",
                                      name=nm, **_key(case)))
    table["Strain"] = Spec("elem", eps.mean(axis=1), esc)  # generalised strains, one column per row of B
    # stresses: only the 1D relation is documented (Sxx = N / A); in 2D/3D the component names are tied to the columns of "Stress"
    if dim == 1:
        table["Sxx"] = Spec("elem", (forces[:, :, 0] / area_e[:, None]).mean(axis=1))
    snames = {1: ["Sxx"], 2: ["Sxx", "Syy", "Sxy"], 3: ["Sxx", "Syy", "Szz", "Syz", "Sxz", "Sxy"]}[dim]
    table["__parents__"] = [(nm, "Stress", c) for c, nm in enumerate(snames)]
    return simu, table, extra, 1


BUILDERS = {"Elastic": build_Elastic, "Thermal": build_Thermal, "WeakForms": build_WeakForms, "PhaseField": build_PhaseField,
            "HyperElastic": build_HyperElastic, "InElastic": build_InElastic, "Beam": build_Beam}


# ------------------------------------------------------------------------------------------------
# the comparison loop
# ------------------------------------------------------------------------------------------------
def _key(case):
    k = {"sim": case["sim"], "dim": case["dim"], "mesh": case["mesh"]["id"]}
    if "variant" in case:
        k["variant"] = case["variant"]
    return k  # the state index is deliberately not part of the key: the three states exercise the same wiring


def _run_results(case):
    sim = case["sim"]
    mesh = None
    if sim != "Beam":
        mesh, _ = build_mesh(case["mesh"])
    with _quiet():
        built = BUILDERS[sim](case, mesh)
    simu, table, v, ntr = built[:4]
    if table is None:
        reason = built[4] if len(built) > 4 else "generic state inverts an element (det F <= 0.05)"
        return {"violations": [], "skipped": reason, "fingerprint": "guard", "nontrivial": False, "outcome": "skipped"}
    mesh = simu.mesh
    Nn, Ne = mesh.Nn, mesh.Ne
    groups = mesh.Get_list_groupElem()
    key = _key(case)
    fps, nonzero, unmodelled, collided = [], 0, [], {}
    parents = table.pop("__parents__", [])
    answers = {}
    names = list(simu.Results_Available())
    for name in names:
        sname = str(getattr(name, "value", name))
        for nv in (True, False):
            ntr += 1
            out = io.StringIO()
            try:
                with contextlib.redirect_stdout(out):
                    got = simu.Result(name, nv)
            except Exception as err:  # the name is advertised: it must be answerable
                v.append(viol("unanswerable", f"Result({sname!r}, nodeValues={nv}) raised {type(err).__name__}: {err}",
                              name=sname, nodeValues=nv, error=type(err).__name__, **key))
                continue
            if got is None:
                v.append(viol("unanswerable", f"Result({sname!r}, nodeValues={nv}) returned None for an advertised name "
                              f"({out.getvalue().strip()[:120]})", name=sname, nodeValues=nv, error="None", **key))
                continue
            spec = table.get(sname)
            arr = np.asarray(got, dtype=float)
            answers[(sname, nv)] = arr
            fps.append(fp(sname, nv, arr))
            if not np.all(np.isfinite(arr)):
                v.append(viol("not_finite", f"Result({sname!r}, nodeValues={nv}) contains NaN/inf", name=sname, nodeValues=nv, **key))
                continue
            if spec is None:
                unmodelled.append(sname)
                continue
            if spec.loc == "scalar":
                if arr.ndim != 0:
                    v.append(viol("shape", f"{sname}: scalar expected, got shape {arr.shape}", name=sname, nodeValues=nv, **key))
                elif abs(float(arr) - spec.val) > TOL * max(spec.scale, abs(spec.val)):
                    v.append(viol("value", f"{sname} = {float(arr):.12g}, relation table gives {spec.val:.12g}", name=sname, nodeValues=nv, **key))
                nonzero += abs(spec.val) > 0
                continue
            exp, mask = expected(spec, nv, groups, Nn, Ne)
            if spec.layouts and arr.ndim == 2 and arr.shape[1] in spec.layouts and arr.shape[1] != exp.shape[-1]:
                alt = Spec(spec.loc, spec.layouts[arr.shape[1]], spec.scale)
                exp, mask = expected(alt, nv, groups, Nn, Ne)
            # sizes the implementation may have handed to Results_Reshape_values (alternative column layouts included)
            sizes = [spec.val.size] + [int(np.asarray(a).size) for a in (spec.layouts or {}).values()]
            collision = any((spec.loc == "elem" and nv and sz % Nn == 0) or (spec.loc == "node" and not nv and sz % Ne == 0) for sz in sizes)
            bad = None
            if arr.shape != exp.shape:
                bad = f"shape {arr.shape}, expected {exp.shape}"
            else:
                a, b = (arr[mask], exp[mask]) if mask is not None else (arr, exp)
                err = float(np.max(np.abs(a - b))) if a.size else 0.0
                if err > TOL * spec.scale:
                    where = int(np.argmax(np.abs(a - b).reshape(a.shape[0], -1).max(axis=1))) if a.size else -1
                    bad = f"max deviation {err:.3e} (scale {spec.scale:.3e}) first at row {where}"
            if bad and collision:
                collided.setdefault((spec.loc, nv), []).append(sname)
            elif bad:
                chk = "shape" if bad.startswith("shape") else ("component" if spec.loc == "node" else "value")
                v.append(viol(chk, f"Result({sname!r}, nodeValues={nv}): {bad}; natural location of the quantity: {spec.loc}",
                              name=sname, nodeValues=nv, **key))
            nonzero += float(np.max(np.abs(exp))) > 0 if exp.size else 0
    # component names <-> columns of the vector result of the same request (where the table has no independent value)
    modelled_by_parent = set()
    for child, parent, col in parents:
        for nv in (True, False):
            a, b = answers.get((child, nv)), answers.get((parent, nv))
            if a is None or b is None:
                continue
            modelled_by_parent.add(child)
            if b.ndim != 2 or b.shape[1] <= col or a.shape != b[:, col].shape:
                v.append(viol("component", f"Result({child!r}) has shape {a.shape} but Result({parent!r}) has shape {b.shape} (column {col} expected)",
                              name=child, nodeValues=nv, **key))
            elif np.abs(a - b[:, col]).max() > TOL * max(np.abs(b).max(), 1e-300):
                v.append(viol("component", f"Result({child!r}) differs from column {col} of Result({parent!r}) by {np.abs(a - b[:, col]).max():.3e}",
                              name=child, nodeValues=nv, **key))
    unmodelled = [n for n in unmodelled if n not in modelled_by_parent]
    for (loc, nv), nms in collided.items():
        v.append(viol("reshape_size_collision",
                      f"Nn={Nn}, Ne={Ne}: {loc} values of {sorted(set(nms))} requested with nodeValues={nv} are returned unconverted / wrongly "
                      f"converted because their size is divisible by both counts (Results_Reshape_values decides the location by size only)",
                      nodeValues=nv, loc=loc, Nn=Nn, Ne=Ne, **key))
    missing = [n for n in table if n not in [str(getattr(x, "value", x)) for x in names]]
    outcome = f"{sim}:names={len(names)}:unmodelled={len(set(unmodelled))}:viol={len(v)}"
    return {"violations": v, "fingerprint": fp(sim, case.get("variant"), case["mesh"]["id"], case["state"], fps),
            "nontrivial": nonzero > 0, "outcome": outcome, "transitions": ntr,
            "skipped": None, "unmodelled": sorted(set(unmodelled)), "not_advertised": missing}


def _run_convert(case):
    """Constants survive node<->element conversion (Results_Reshape_values, mesh.Get_Node_Values) on every mesh; a generic
    element field is averaged onto the nodes as documented."""
    from EasyFEA import Models, Simulations

    mesh, _ = build_mesh(case["mesh"])
    with _quiet():
        simu = Simulations.Thermal(mesh, Models.Thermal(k=1.0, c=1.0))
    Nn, Ne = mesh.Nn, mesh.Ne
    groups = mesh.Get_list_groupElem()
    key = {"dim": case["dim"], "mesh": case["mesh"]["id"]}
    connected = np.zeros(Nn, dtype=bool)
    for g in groups:
        connected[np.unique(np.asarray(g.connect, dtype=int))] = True
    v, fps, ntr, collided = [], [], 0, []
    c = 2.75
    forms = [("node", "scalar", (Nn,)), ("node", "flat2", (Nn * 2,)), ("node", "flat3", (Nn * 3,)), ("node", "matrix3", (Nn, 3)),
             ("elem", "scalar", (Ne,)), ("elem", "matrix3", (Ne, 3)), ("elem", "matrix6", (Ne, 6))]
    for loc, form, shape in forms:
        vals = np.full(shape, c)
        for nv in (True, False):
            ntr += 1
            k = int(np.prod(shape)) // (Nn if loc == "node" else Ne)
            N_out = Nn if nv else Ne
            exp_shape = (N_out * k,) if len(shape) == 1 else (N_out, k)
            collision = (loc == "elem" and nv and vals.size % Nn == 0) or (loc == "node" and not nv and vals.size % Ne == 0)
            try:
                got = np.asarray(simu.Results_Reshape_values(vals.copy(), nv), dtype=float)
            except Exception as err:
                v.append(viol("unanswerable", f"Results_Reshape_values({loc} {form}, nodeValues={nv}) raised {type(err).__name__}: {err}",
                              loc=loc, form=form, nodeValues=nv, **key))
                continue
            fps.append(fp(loc, form, nv, got.shape))
            ok_shape = got.shape == exp_shape
            if ok_shape:
                rows = got.reshape(N_out, -1)
                sel = connected if (nv and loc == "elem") else np.ones(N_out, dtype=bool)
                ok_val = np.abs(rows[sel] - c).max() <= 1e-13 * c if sel.any() else True
            else:
                ok_val = False
            if ok_shape and ok_val:
                continue
            if collision:
                collided.append(f"{loc}/{form}/nodeValues={nv}")
            else:
                v.append(viol("constant_not_preserved",
                              f"Results_Reshape_values of a constant {loc} field ({form}) with nodeValues={nv}: "
                              + (f"shape {got.shape} instead of {exp_shape}" if not ok_shape else f"values deviate from the constant by {np.abs(rows[sel] - c).max():.3e}"),
                              loc=loc, form=form, nodeValues=nv, **key))
    if collided:
        v.append(viol("reshape_size_collision", f"Nn={Nn}, Ne={Ne}: constant fields {collided} come back with the wrong shape/location "
                      "(size divisible by both counts)", Nn=Nn, Ne=Ne, sim="convert", **key))
    # mesh.Get_Node_Values directly: constants, and a generic element field against the documented average
    r = rng("c16conv", case["mesh"]["id"])
    for form, arr in (("const1d", np.full(Ne, c)), ("const2d", np.full((Ne, 4), c)), ("generic1d", r.normal(size=Ne)), ("generic2d", r.normal(size=(Ne, 3)))):
        ntr += 1
        got = np.asarray(mesh.Get_Node_Values(arr.copy()), dtype=float)
        ref, mask = elem_to_node(groups, Nn, arr.reshape(Ne, -1))
        ref = ref.ravel() if arr.ndim == 1 else ref
        fps.append(fp(form, got))
        if got.shape != ref.shape:
            v.append(viol("node_values", f"Get_Node_Values({form}): shape {got.shape}, expected {ref.shape}", form=form, **key))
        elif np.abs(got[mask] - ref[mask]).max() > 1e-12 * max(np.abs(arr).max(), 1e-300):
            v.append(viol("node_values", f"Get_Node_Values({form}) deviates from the mean over the elements around each node by "
                          f"{np.abs(got[mask] - ref[mask]).max():.3e}", form=form, **key))
    return {"violations": v, "fingerprint": fp(case["mesh"]["id"], Nn, Ne, fps), "nontrivial": Ne > 1, "transitions": ntr,
            "outcome": f"convert:viol={len(v)}"}


# ------------------------------------------------------------------------------------------------
# reactions on a fully clamped boundary part balance the applied loads
# ------------------------------------------------------------------------------------------------
def _clamp_and_load_nodes(coord, nodes):
    x = coord[nodes, 0]
    lo, hi = x.min(), x.max()
    for frac in (0.05, 0.2, 0.35):
        cl = nodes[x <= lo + frac * (hi - lo)]
        if len(cl) >= 4:
            break
    ld = nodes[x >= hi - 0.05 * (hi - lo)]
    return cl, ld


def _run_reaction(case):
    if case["sim"] == "Beam":
        return _run_reaction_beam(case)
    from EasyFEA import Models, Simulations

    sim, dim, load = case["sim"], case["dim"], case["load"]
    mesh, zm = build_mesh(case["mesh"])
    key = {"sim": sim, "dim": dim, "mesh": case["mesh"]["id"], "load": load}
    with _quiet():
        if sim == "Elastic":
            mat = Models.Elastic.Isotropic(dim, E=2.3, v=0.28, planeStress=True, thickness=0.7)
            simu = Simulations.Elastic(mesh, mat)
        elif sim == "WeakNonsym":
            from EasyFEA.FEM import BiLinearForm, Field

            if len(mesh.Get_list_groupElem()) > 1:
                return {"violations": [], "skipped": "weak forms are written on one element group", "fingerprint": "na", "nontrivial": False}
            A = np.array([[0.6, 0.5, -0.2], [-0.3, 0.9, 0.4], [0.1, -0.35, 0.8]])[:dim, :dim]
            simu = Simulations.WeakForms(mesh, Models.WeakForms(Field(mesh.groupElem, 1), computeK=BiLinearForm(lambda u, w: (u.grad @ A).dot(w.grad))))
        else:
            simu = Simulations.Thermal(mesh, Models.Thermal(k=1.5, c=0.8, thickness=0.7))
    unk = simu.Get_unknowns()
    nodes = np.asarray(mesh.nodes, dtype=int)
    cl, ld = _clamp_and_load_nodes(np.asarray(mesh.coord), nodes)
    P = rng("c16load", sim, dim).uniform(0.5, 2.0, size=len(unk)) * np.array([1.0, -1.0, 1.0])[: len(unk)]
    with _quiet():
        simu.add_dirichlet(cl, [0.0] * len(unk), unk)
        simu.add_neumann(ld, [float(p) for p in P], unk)
        if load == "body":
            b = rng("c16body", sim, dim).uniform(0.5, 2.0, size=len(unk))
            simu.add_volumeLoad(nodes, [float(x) for x in b], unk)
        u = simu.Solve()
    if case.get("restored"):
        key["restored"] = True
        with _quiet():
            simu.Save_Iter()
            m2 = mesh.copy()
            X = np.asarray(m2.coord, dtype=float)
            X2 = X.copy()
            X2[:, 0] = X[:, 0] * (1.0 + 0.10 * X[:, 0])
            X2[:, 1] = X[:, 1] * (1.0 + 0.07 * X[:, 0])
            m2.coord = X2
            simu.mesh = m2   # (the setter clears the conditions: they are entered again, on the same nodes)
            simu.add_dirichlet(cl, [0.0] * len(unk), unk)
            simu.add_neumann(ld, [float(p) for p in P], unk)
            simu.Solve()
            simu.Save_Iter()
            simu.Set_Iter(0)
        pt0 = simu.problemType
        u0 = np.asarray(simu._Get_u_n(pt0), dtype=float)
        if simu.mesh.Nn != mesh.Nn or np.abs(np.asarray(simu.mesh.coord) - np.asarray(mesh.coord)).max() > 0 or np.abs(u0 - u).max() > 1e-12 * np.abs(u).max():
            return {"violations": [viol("restored_state", "Set_Iter(0) did not bring back the mesh and the solution of iteration 0", **key)],
                    "fingerprint": fp("restored_state", case["mesh"]["id"]), "nontrivial": True, "transitions": 6, "outcome": "restored_state"}
        u = u0
    K = simu.Get_K_C_M_F()[0]
    F = np.asarray(simu.Bc_vector_Neumann(), dtype=float).ravel()  # assembled nodal loads (point loads + integrated body load)
    v, obs = [], []
    ntr = 3
    scale = float(np.abs(P).max())
    for d, name in enumerate(unk):
        dofs = np.asarray(simu.Bc_dofs_nodes(cl, [name]), dtype=int)
        R = np.asarray(simu.Calc_Reaction(dofs), dtype=float)
        ntr += 1
        if R.shape != dofs.shape:
            v.append(viol("reaction_shape", f"Calc_Reaction returned shape {R.shape} for {dofs.size} dofs", direction=name, **key))
            continue
        if load == "nodal":
            applied = float(P[d])  # add_neumann spreads the total P over the loaded nodes: the resultant is P by definition
            react = float(R.sum())
        else:
            # part of the body load is applied on the clamped nodes themselves: the reaction proper is K u - F there (docstring of Calc_Reaction)
            alld = np.asarray(simu.Bc_dofs_nodes(nodes, [name]), dtype=int)
            applied = float(F[alld].sum())
            react = float((R - F[dofs]).sum())
        obs.append(react)
        if abs(react + applied) > 1e-8 * max(scale, abs(applied)):
            v.append(viol("reaction_balance", f"direction {name}: sum of reactions on the clamped part = {react:.10g}, applied resultant = {applied:.10g}",
                          direction=name, **key))
        # element-wise: the reaction is (K u) on those dofs
        Ku = K[dofs] @ u
        if np.abs(R - Ku).max() > 1e-10 * max(np.abs(Ku).max(), 1e-300):
            v.append(viol("reaction_value", f"direction {name}: Calc_Reaction differs from K[dofs] u by {np.abs(R - Ku).max():.3e}", direction=name, **key))
    # with a time scheme the reaction carries the inertial / capacity terms of the scheme (docstring of Calc_Reaction)
    if sim in ("Elastic", "Thermal") and load == "nodal":
        pt = simu.problemType
        r = rng("c16dyn", sim, dim, case["mesh"]["id"])
        n = u.size
        uu, vv, aa = r.normal(size=n), r.normal(size=n) * 3.0, r.normal(size=n) * 7.0
        with _quiet():
            if sim == "Elastic":
                simu.rho = 1.9
                simu.Set_Rayleigh_Damping_Coefs(0.11, 0.07)
                simu.Solver_Set_Hyperbolic_Algorithm(0.05)
                simu._Set_solutions(pt, uu, vv, aa)
            else:
                simu.Solver_Set_Parabolic_Algorithm(0.05, 0.6)
                simu._Set_solutions(pt, uu, vv)
            K, C, M, _ = simu.Get_K_C_M_F()
        for name in unk:
            dofs = np.asarray(simu.Bc_dofs_nodes(cl, [name]), dtype=int)
            with _quiet():
                R = np.asarray(simu.Calc_Reaction(dofs), dtype=float)
            ntr += 1
            ref = K[dofs] @ uu + C[dofs] @ vv + (M[dofs] @ aa if sim == "Elastic" else 0.0)
            if R.shape != ref.shape or np.abs(R - ref).max() > 1e-10 * np.abs(ref).max():
                what = "K u + C v + M a" if sim == "Elastic" else "K u + C v"
                v.append(viol("reaction_dynamic", f"direction {name}: with a time scheme Calc_Reaction differs from {what} on the clamped dofs by "
                                                  f"{np.abs(R - ref).max() if R.shape == ref.shape else float('nan'):.3e} (scale {np.abs(ref).max():.3e})", direction=name, **key))
    return {"violations": v, "fingerprint": fp(sim, case["mesh"]["id"], load, np.array(obs), u), "nontrivial": float(np.abs(u).max()) > 0,
            "transitions": ntr, "outcome": f"reaction:{sim}:viol={len(v)}"}


def _run_reaction_pf(case):
    from EasyFEA import Models, Simulations

    split = case["split"]
    mesh, zm = build_mesh(case["mesh"])
    if len(mesh.Get_list_groupElem()) > 1 and False:
        pass
    key = {"sim": "PhaseField", "split": split, "mesh": case["mesh"]["id"]}
    PF = Models.PhaseField
    mat = Models.Elastic.Isotropic(2, E=2.3, v=0.28, planeStress=False, thickness=0.7)
    with _quiet():
        simu = Simulations.PhaseField(mesh, PF(mat, PF.SplitType[split], PF.ReguType.AT2, Gc=2e-3, l0=0.35))
    nodes = np.asarray(mesh.nodes, dtype=int)
    cl, ld = _clamp_and_load_nodes(np.asarray(mesh.coord), nodes)
    v, obs, ntr = [], [], 0
    steps = [(0.05, 0.0), (0.02, 0.04), (0.03, -0.03)]  # (u_x, u_y) prescribed on the loaded side: not proportional
    for k, (ux, uy) in enumerate(steps):
        with _quiet():
            simu.Bc_Init()
            simu.add_dirichlet(cl, [0.0, 0.0], ["x", "y"])
            simu.add_dirichlet(ld, [ux, uy], ["x", "y"])
            simu.Solve()
            simu.Save_Iter()
        ntr += 1
        d = np.asarray(simu.damage, dtype=float)
        for name in ("x", "y"):
            dofs = np.asarray(simu.Bc_dofs_nodes(np.concatenate([cl, ld]), [name], simu.ProblemTypes.elastic), dtype=int)
            with _quiet():
                R = np.asarray(simu.Calc_Reaction(dofs, simu.ProblemTypes.elastic), dtype=float)
            ntr += 1
            tot, sc = float(R.sum()), float(np.abs(R).sum()) + 1e-300
            obs.append(tot / sc)
            if abs(tot) > 1e-8 * sc:
                v.append(viol("reaction_balance", f"{split}, step {k} (max damage {d.max():.3f}): the reactions in direction {name} over ALL constrained dofs sum to {tot:.6e} "
                                                  f"(sum of magnitudes {sc:.3e}): they are not those of the system the displacement was solved with", direction=name, step=k, **key))
    return {"violations": v[:4], "fingerprint": fp("rpf", split, case["mesh"]["id"], np.round(obs, 9)), "nontrivial": bool(np.max(np.asarray(simu.damage)) > 1e-3),
            "transitions": ntr, "outcome": f"reaction:PhaseField:viol={len(v)}"}


def _run_reaction_beam(case):
    dim = case["dim"]
    c2 = dict(case)
    simu, beams, (p0, p1, p2) = make_beam(c2)
    mesh = simu.mesh
    key = {"sim": "Beam", "dim": dim, "mesh": case["mesh"]["id"], "variant": case["variant"], "load": case["load"]}
    unk = simu.Get_unknowns()
    dof_n = len(unk)
    tip = mesh.Nodes_Point(p1 if dim == 1 else p2)
    root = mesh.Nodes_Point(p0)
    P = rng("c16beamload", dim).uniform(0.5, 2.0, size=dof_n) * np.array([1.0, -1.0, 1.0, -1.0, 1.0, -1.0])[:dof_n]
    with _quiet():
        if dim >= 2:
            simu.add_connection_fixed(mesh.Nodes_Point(p1))  # the two members meet at p1 (duplicated nodes tied by Lagrange conditions)
        simu.add_dirichlet(root, [0.0] * dof_n, unk)
        simu.add_neumann(tip, [float(p) for p in P], unk)
        if case["load"] == "body":
            tr = unk[: {1: 1, 3: 2, 6: 3}[dof_n]]
            q = rng("c16beamq", dim).uniform(0.5, 2.0, size=len(tr))
            simu.add_lineLoad(np.asarray(mesh.nodes, dtype=int), [float(x) for x in q], tr)
        u = simu.Solve()
    Nn = mesh.Nn
    v, ntr = [], 3
    F = np.asarray(simu.Bc_vector_Neumann(), dtype=float).ravel()[: Nn * dof_n].reshape(Nn, dof_n)
    X = np.asarray(mesh.coord)
    rdofs = np.asarray(simu.Bc_dofs_nodes(root, unk), dtype=int)
    Kuu = simu.Get_K_C_M_F()[0].toarray()[: Nn * dof_n, : Nn * dof_n]
    try:
        R = np.asarray(simu.Calc_Reaction(rdofs), dtype=float)
    except Exception as err:  # the property promises reactions on a solved clamped problem
        v.append(viol("reaction_unanswerable", f"Calc_Reaction on the clamped dofs raised {type(err).__name__}: {str(err)[:160]}",
                      error=type(err).__name__, **key))
        R = Kuu[rdofs] @ u  # continue the balance checks with the documented definition K[dofs] u
    # the energy helper on the solved structure (documented idiom: K from Get_K_C_M_F, u as the solver leaves it) equals 1/2 u'Ku
    uu = np.asarray(u, dtype=float).ravel()[: Nn * dof_n]
    want = 0.5 * float(uu @ (Kuu @ uu))
    try:
        got = float(simu.Calc_Energy(simu.Get_K_C_M_F()[0], np.asarray(simu.displacement, dtype=float)))
        if abs(got - want) > 1e-9 * abs(want):
            v.append(viol("energy_helper", f"Calc_Energy(K, u) = {got!r}, 1/2 u'Ku = {want!r}", **key))
    except Exception as err:
        v.append(viol("energy_unanswerable", f"Calc_Energy(K, u) on the solved structure raised {type(err).__name__}: {str(err)[:160]} (1/2 u'Ku = {want!r})", error=type(err).__name__, **key))
    ntr += 1
    G = np.zeros((Nn, dof_n))  # generalised nodal forces acting on the structure: loads + reactions proper
    G += F
    rn = int(np.asarray(root).ravel()[0])
    if R.shape != rdofs.shape:
        v.append(viol("reaction_shape", f"Calc_Reaction returned shape {R.shape} for {rdofs.size} dofs", **key))
        R = np.zeros(rdofs.size)
    # rdofs are returned in the order of Bc_dofs_nodes: node-major over the requested unknowns
    Rn = np.zeros(dof_n)
    for j, dof in enumerate(rdofs):
        Rn[int(dof) - rn * dof_n] = R[j]
    G[rn] += Rn - F[rn]
    scale = float(np.abs(P).max())
    ntrans = {1: 1, 3: 2, 6: 3}[dof_n]
    for d in range(ntrans):
        if abs(G[:, d].sum()) > 1e-8 * scale:
            v.append(viol("reaction_balance", f"force direction {unk[d]}: loads + reactions sum to {G[:, d].sum():.3e}", direction=unk[d], **key))
    if dof_n == 3:
        m = G[:, 2].sum() + (X[:, 0] * G[:, 1] - X[:, 1] * G[:, 0]).sum()
        if abs(m) > 1e-8 * scale:
            v.append(viol("reaction_balance", f"moment about the origin: loads + reactions give {m:.3e}", direction="rz", **key))
    elif dof_n == 6:
        m = G[:, 3:6].sum(axis=0) + np.cross(X, G[:, :3]).sum(axis=0)
        for d in range(3):
            if abs(m[d]) > 1e-8 * scale:
                v.append(viol("reaction_balance", f"moment component {unk[3 + d]} about the origin: loads + reactions give {m[d]:.3e}", direction=unk[3 + d], **key))
    # the nodal force results at the clamped node are the reaction
    names = {1: ["fx"], 3: ["fx", "fy", "cz"], 6: ["fx", "fy", "fz", "cx", "cy", "cz"]}[dof_n]
    for d, nm in enumerate(names):
        with _quiet():
            val = float(np.asarray(simu.Result(nm, True))[rn])
        ntr += 1
        if abs(val - Rn[d]) > 1e-9 * max(np.abs(Rn).max(), 1e-300):
            v.append(viol("reaction_result", f"Result({nm!r}) at the clamped node = {val:.10g}, Calc_Reaction gives {Rn[d]:.10g}", name=nm, **key))
    return {"violations": v, "fingerprint": fp("beam", case["mesh"]["id"], case["variant"], case["load"], Rn, u), "nontrivial": float(np.abs(u).max()) > 0,
            "transitions": ntr, "outcome": f"reaction:Beam:viol={len(v)}"}


def run_case(case):
    return globals()["_run_" + case["kind"]](case)
