"""C01 — patch test through the full solve pipeline (E1).

Every case is one configuration (problem, element type, mesh, affine map, numbering, law, input form of the Dirichlet
values).  Inside a case EVERY basis field of the space of exact solutions is prescribed on all boundary nodes and the
real `simu.Solve()` is run: `u = G x + c` for the dim*dim + dim unit choices of (G, c) (thermal: dim + 1; beams: unit
axial strain, unit curvature per bending plane, unit twist, the rigid translations and rotations).  By linearity of the
solve in the prescribed values the basis decides every linear field.

Oracle (closed form, zoo/c01_ref.py): interior nodal values equal the field; Result("Strain") / ("Stress") / ("Wdef")
equal sym G, C : sym G, 1/2 eps:C:eps * measure * thickness with C built as a 4th-order tensor from the engineering
constants and the measure taken from the template (not from the mesh); beams: N, Mx, My, Mz, Ty, Tz equal D * strain.
"""
from __future__ import annotations

import contextlib
import io

import numpy as np

from mc.util import deviations, fp, rng, viol
from zoo import c01_ref as R
from zoo import meshes as Z

PROPERTY = "C01"
TOL = 1e-9

ELASTIC = {"el2d_ps": (2, True), "el2d_pe": (2, False), "el3d": (3, False)}
THERMAL = {"th1d": 1, "th2d": 2, "th3d": 3}
BEAM = {f"beam_{f}{d}d": (f == "timo", d) for f in ("eb", "timo") for d in (1, 2, 3)}
THICKNESS = 0.7
BEAM_L, BEAM_B, BEAM_H, BEAM_E, BEAM_V = 1.3, 0.3, 0.5, 2.0, 0.3


# ------------------------------------------------------------------------------------------------
# enumeration
# ------------------------------------------------------------------------------------------------
def _etname(et):
    return "+".join(et) if isinstance(et, (list, tuple)) else et


def _types(dim):
    return {1: Z.TYPES_1D, 2: Z.TYPES_2D + [list(m) for m in Z.MIXED_2D], 3: Z.TYPES_3D + [list(m) for m in Z.MIXED_3D]}[dim]


def _templates(et, dim, tier, beam=False):
    th = tier == "thorough"
    if dim == 1:
        # "welded": two collinear members meshed by Mesh_Beams (each keeps its own joint node) and tied by add_connection_fixed
        return ["n2", "n3g", "n1"] + (["gmsh", "welded"] if beam else (["curved"] if _curvable(et) else []))
    if isinstance(et, (list, tuple)):
        return (["t2", "two", "dist2"] if dim == 2 else ["conf2", "conf1"]) + (["curved"] if _curvable(et) else [])
    t = Z.topo(et)
    if _curvable(et):
        # "curved": interior mid-side / face / volume nodes displaced (ZooMesh.curved): non-constant Jacobian inside simplices,
        # non-multilinear quadrangles / hexahedra; the domain and its boundary are unchanged
        return _templates_straight(et, dim, tier, t) + ["curved"]
    return _templates_straight(et, dim, tier, t)


def _curvable(et):
    """element types (or same-order pairs) of order >= 2 whose stiffness rule integrates cof(J) grad N exactly on curved elements:
    all of them but TETRA10 (4-point rule of degree 2 against an integrand of degree 3: the patch test on curved tetrahedra is
    only passed to O(curvature), which is outside the property - it speaks of straight-sided / affinely distorted meshes)."""
    ets = et if isinstance(et, (list, tuple)) else [et]
    return all(Z.proto(e).order >= 2 and e != "TETRA10" for e in ets)


def _templates_straight(et, dim, tier, t):
    th = tier == "thorough"
    if dim == 2:
        # "mirrormerge": a part and its mirror image merged into one conforming mesh (the mirrored elements are numbered clockwise:
        # element orientation is not uniform inside the group)
        out = ["t2", "two"] + (["t2alt"] if t == "TRI" else []) + ["dist2", "dist1", "gmsh_quad", "gmsh_L", "mirrormerge"]
        if et == "QUAD4":
            out.append("collapsed")  # quadrangles degenerated into triangles (one node listed twice): the classical all-quad grading
        return out + (["gmsh_pent", "gmsh_quad_org"] if th else [])
    out = ["t2", "two"] + (["dist2", "dist1"] if t in ("HEXA", "TETRA") else []) + ["gmsh_quad", "mirrormerge"]
    return out + (["gmsh_L"] if th else [])


# "@aboutx": material frame turned about its own first axis, which stays the global x (axis_1 = e_x, axis_2 != e_y)
LAWS_QUICK = ["iso", "trans", "ortho", "aniso", "trans@rot", "ortho@rot", "aniso@rot", "aniso_voigt", "ortho@aboutx"]
LAWS_THOROUGH = LAWS_QUICK + ["trans@oop", "ortho@oop", "aniso_voigt@rot"]


def _factors(problem, et, tier):
    th = tier == "thorough"
    if problem in ELASTIC:
        dim = ELASTIC[problem][0]
        return {
            "mesh": _templates(et, dim, tier),
            "map": ["generic", "identity", "reflection"] + (["generic2"] if th else []),
            "numbering": ["identity", "reversal", "seeded"],
            "law": LAWS_THOROUGH if th else LAWS_QUICK,
            "bcform": ["function", "array", "constant"],
            "amp": [1.0, 1e-13],  # amplitude of the prescribed linear field (the problem is linear: nothing depends on it)
        }
    if problem in THERMAL:
        dim = THERMAL[problem]
        return {
            "mesh": _templates(et, dim, tier),
            "map": ["generic", "identity", "reflection"] + (["embed"] if dim < 3 else []) + (["generic2"] if th else []),
            "numbering": ["identity", "reversal", "seeded"],
            "bcform": ["function", "array", "constant"],
            "amp": [1.0, 1e-13],
        }
    timo, dim = BEAM[problem]
    # "negx0": the member lies ON the x axis and points towards -x (the mesh of such a member is embedded in one dimension)
    # "negx_off": a 1D structure parallel to x, drawn towards -x, NOT on the x axis (y = 1)
    maps = {1: ["identity", "generic", "negx0", "negx_off"], 2: ["identity", "generic", "alongy", "reflection", "negx0"],
            3: ["identity", "generic", "alongy", "alongz", "reflection", "negx0"]}[dim]
    F = {
        "mesh": _templates(et, 1, tier, beam=True),
        "map": maps + (["generic2"] if th and dim > 1 else []),
        "numbering": ["identity", "reversal", "seeded"],
        "bcform": ["function", "array", "constant"],
    }
    if dim == 3:
        F["yaxis"] = ["default", "generic"]
    return F


def _problem_types():
    out = []
    for p, (d, _) in ELASTIC.items():
        out += [(p, et) for et in _types(d)]
    for p, d in THERMAL.items():
        out += [(p, et) for et in _types(d)]
    for p in BEAM:
        out += [(p, et) for et in Z.TYPES_1D]
    return out


def _bound(tier, problem=None):
    """deviation bound of the E1 enumeration (None = full product of the factor alphabets)."""
    if tier == "quick":
        return 1
    return 3 if problem in ELASTIC else None


def cases(tier, seed):
    import itertools

    out = []
    for problem, et in _problem_types():
        for cfg in deviations(_factors(problem, et, tier), _bound(tier, problem)):
            out.append({"problem": problem, "elemType": et, **cfg})
    # all node numberings of the tiny meshes (4-node 2xTRI3: 24; 6-node 2xQUAD4: 720 in the thorough tier)
    tiny = [("el2d_ps", "TRI3"), ("th2d", "TRI3")] + ([("el2d_ps", "QUAD4")] if tier == "thorough" else [])
    for problem, et in tiny:
        n = 4 if et == "TRI3" else 6
        for perm in itertools.permutations(range(n)):
            c = {"problem": problem, "elemType": et, "mesh": "two", "map": "generic",
                 "numbering": "p:" + ",".join(map(str, perm)), "bcform": "function"}
            if problem in ELASTIC:
                c["law"] = "ortho@rot"
            out.append(c)
    return out


def describe(tier, seed):
    alph = {}
    for problem, et in _problem_types():
        if problem in alph:
            continue
        alph[problem] = {k: len(v) for k, v in _factors(problem, et, tier).items()}
    return {
        "rule": "case = (problem, element type, mesh template, affine map, numbering, law, Dirichlet input form); inside a case every "
                "basis field (dim^2+dim elastic, dim+1 thermal, axial/curvatures/twist/rigid modes beams) is prescribed on all boundary "
                "nodes and solved; non-trivial = mesh has at least one interior node; distinct = fingerprint of (problem, type, node / "
                "interior counts, reported strain / stress / energy / internal forces)",
        "exhaustive": True,
        "bound": ("for every (problem, element type): default configuration + every configuration differing in <= 1 factor"
                  if tier == "quick" else
                  "for every (problem, element type): elastic = default + every configuration differing in <= 3 of the 5 factors "
                  "(mesh, map, numbering, law, input form); thermal and beams = full product of their factors")
                 + "; all 4! numberings of the 2xTRI3 mesh" + (" and all 6! of the 2xQUAD4 mesh" if tier == "thorough" else ""),
        "alphabet": {"problems": len(ELASTIC) + len(THERMAL) + len(BEAM), "element_types": len(Z.ALL_TYPES),
                     "mixed_pairs": len(Z.MIXED_2D) + len(Z.MIXED_3D), "factors": alph},
        "assumptions": ["tolerance 1e-9 relative to the natural scale of the case (|u|_inf of the exact field, |C| |eps|, energy)",
                        "well-conditioned alphabets: stretch in [0.6,1.7], moduli ratios <= 4, meshes <= ~600 dofs (no conditioning guard: "
                        "a singular or ill-conditioned K of these problems is itself a failure of the property)",
                        "generic representatives (affine map, rotation of the material axes, SPD anisotropic matrix, permutation, beam yAxis) are "
                        "instantiated from VERIF_SEED; the enumeration over the alphabets is complete within the stated bound",
                        "reference elastic tensors are built as 4th-order tensors from engineering constants (zoo/c01_ref.py), never from the "
                        "implementation's Kelvin-Mandel matrices; reference measure from the template / polygon, not from the mesh",
                        "3D mixed meshes: prism / hexa columns alternate in (x,y) only (conforming); the zoo's k=2 mixed 3D template is not used"],
        "explanation": "by linearity of the solve in the prescribed boundary values the basis of linear fields decides every linear field",
    }


# ------------------------------------------------------------------------------------------------
# meshes, maps, numberings
# ------------------------------------------------------------------------------------------------
def _affine(name, dim):
    if name == "identity":
        return np.eye(3), np.zeros(3)
    b = np.zeros(3)
    if name == "reflection":
        b[:dim] = np.array([0.3, -0.2, 0.1])[:dim]
        return Z.reflection(dim), b
    r = rng("c01", "map", name, dim)
    d = 3 if name == "embed" else dim
    A = Z.generic_affine(r, d)
    b[:d] = r.uniform(-1, 1, size=d)
    return A, b


def _perm(name, Nn):
    if name == "identity":
        return None
    if name == "reversal":
        return np.arange(Nn)[::-1].copy()
    if name == "seeded":
        return rng("c01", "perm", Nn).permutation(Nn)
    if name.startswith("p:"):
        p = np.array([int(s) for s in name[2:].split(",")], dtype=int)
        assert p.size == Nn
        return p
    raise KeyError(name)


def _template(case, dim):
    """-> (ZooMesh before map / numbering, library mesh when it came from gmsh else None)."""
    et = case["elemType"]
    ets = tuple(et) if isinstance(et, list) else et
    m = case["mesh"]
    first = ets[0] if isinstance(ets, tuple) else ets
    t = Z.topo(first)
    if dim == 1 and m != "curved":
        zm = {"n2": lambda: Z.template_1d(ets, 2, False, BEAM_L), "n3g": lambda: Z.template_1d(ets, 3, True, BEAM_L),
              "n1": lambda: Z.template_1d(ets, 1, False, BEAM_L)}[m]()
        return zm, None
    if m.startswith("gmsh"):
        poly = m.split("_")[1]
        org = m.endswith("_org")
        if dim == 2:
            mesh, ex = Z.gmsh_2d(ets, poly, h=0.5, organised=org)
        else:
            mesh, ex = Z.gmsh_3d(ets, poly, h=0.6, height=0.8, layers=2)
        zm = Z.zoo_from_mesh(mesh, {k: v for k, v in ex.items() if k in ("measure", "dim")}, name=f"gmsh[{ets},{poly}]")
        zm.boundary = Z.compute_boundary(zm.coords, zm.groups)  # by face counting, independent of the physical groups
        return zm, mesh
    if m == "curved":
        if dim == 1:
            return Z.template_1d(ets, 2, False, BEAM_L).curved(), None
        if isinstance(ets, tuple) and dim == 3:
            return R.mixed3d_conforming(ets, 2).curved(), None
        return (Z.template_2d(ets, k=2) if dim == 2 else Z.template_3d(ets, k=2)).curved(), None
    if m == "mirrormerge":
        from EasyFEA.FEM._mesh import Mesh

        part = (Z.template_2d(ets, k=2) if dim == 2 else Z.template_3d(ets, k=2)).build(with_boundary=False)
        other = part.copy()
        other.Symmetry((1.0, 0.0, 0.0), (1.0, 0.0, 0.0))
        merged = Mesh.Merge([part, other])
        zm = Z.zoo_from_mesh(merged, {"measure": 2.0, "dim": dim}, name=f"mirrormerge[{ets}]")
        zm.boundary = Z.compute_boundary(zm.coords, zm.groups)
        return zm, None
    if dim == 2:
        if m == "two":
            k = 1 if (t == "TRI" and not isinstance(ets, tuple)) else [2, 1]
            return Z.template_2d(ets, k=k), None
        if m == "t2":
            return Z.template_2d(ets, k=2), None
        if m == "t2alt":
            return Z.template_2d(ets, k=2, diag=2), None
        if m == "dist2":
            return Z.template_2d(ets, k=2, distort=True), None
        if m == "dist1":
            return Z.template_2d(ets, k=1, distort=True), None
        if m == "collapsed":
            # unit square: two regular quadrangles on the left half, the right half fanned into collapsed quadrangles around an interior node
            co = np.array([[0, 0, 0], [0.5, 0, 0], [1, 0, 0], [0, 0.5, 0], [0.5, 0.5, 0], [1, 0.45, 0], [0, 1, 0], [0.5, 1, 0], [1, 1, 0],
                           [0.78, 0.52, 0]], dtype=float)
            con = np.array([[0, 1, 4, 3], [3, 4, 7, 6], [1, 2, 9, 9], [2, 5, 9, 9], [5, 8, 9, 9], [8, 7, 9, 9], [7, 4, 9, 9], [4, 1, 9, 9]])
            bnd = np.array([[0, 1], [1, 2], [2, 5], [5, 8], [8, 7], [7, 6], [6, 3], [3, 0]])
            return Z.ZooMesh(co, {"QUAD4": con}, {"measure": 1.0, "centroid": np.array([0.5, 0.5, 0.0]), "dim": 2}, "collapsedQUAD4", {"SEG2": bnd}), None
    else:
        if m == "conf2":
            return R.mixed3d_conforming(ets, 2), None
        if m == "conf1":
            return R.mixed3d_conforming(ets, 1), None
        if m == "two":
            return Z.template_3d(ets, k=[2, 1, 1] if t == "HEXA" else 1), None
        if m == "t2":
            return Z.template_3d(ets, k=2), None
        if m == "dist2":
            return Z.template_3d(ets, k=2, distort=True), None
        if m == "dist1":
            return Z.template_3d(ets, k=1, distort=True), None
    raise KeyError(m)


def _make_mesh(case, dim):
    zm, lib = _template(case, dim)
    if "measure" not in zm.exact:
        zm.exact["measure"] = R.own_measure_3d(zm)
    A, b = _affine(case["map"], dim)
    perm = _perm(case["numbering"], zm.Nn)
    if case["map"] != "identity":
        zm = zm.mapped(A, b)
        if lib is not None and perm is None:
            # a mesh made by the mesher (it owns boundary and point groups) is MOVED with the library's own calls: mirrored with
            # Mesh.Symmetry, then sent to its place through the coordinate setter from the coordinates the mesh itself reports
            S = np.diag([-1.0, 1.0, 1.0])
            lib.Symmetry((0.0, 0.0, 0.0), (1.0, 0.0, 0.0))
            lib.coord = lib.coord @ (A @ S).T + b
        else:
            lib = None
    if perm is not None:
        zm = zm.renumbered(perm)
        lib = None
    mesh = lib if lib is not None else zm.build()
    return zm, mesh


def _prescribe(simu, nodes, X, values, unknowns, form, funs=None):
    """values (Nn, ndof) exact field at all nodes; the three input forms of add_dirichlet."""
    nodes = np.asarray(nodes, dtype=int)
    # the node list is given in a scrambled (deterministic) order: nothing may depend on it being sorted
    nodes = np.roll(nodes[::-1], nodes.size // 3)
    if form == "function":
        simu.add_dirichlet(nodes, list(funs), list(unknowns))
        return 1
    if form == "array":
        # ... nor on the unknowns being named in their canonical order (the docstring's own example names ['y', 'x'])
        order = list(range(len(unknowns)))[1:] + [0]
        simu.add_dirichlet(nodes, [values[nodes, d].copy() for d in order], [unknowns[d] for d in order])
        return 1
    if form == "constant":
        for n in nodes:
            simu.add_dirichlet(np.array([n]), [float(values[n, d]) for d in range(len(unknowns))], list(unknowns))
        return len(nodes)
    raise KeyError(form)


def _linfun(g, c):
    g = np.array(g, dtype=float)
    c = float(c)
    return lambda x, y, z: g[0] * x + g[1] * y + g[2] * z + c


def _key(case):
    k = {"problem": case["problem"], "elemType": _etname(case["elemType"])}
    for f in ("mesh", "map", "numbering", "law", "bcform", "yaxis", "amp"):
        if f in case:
            k[f] = case[f] if not str(case[f]).startswith("p:") else "perm"
    return k


def _finish(case, v, obs, Nn, nint, ntrans, extra=()):
    seen, uniq = set(), []
    for x in v:  # one violation per (check, key): the first failing field is kept, the others repeat the same input
        k = repr(sorted(x["key"].items()))
        if k not in seen:
            seen.add(k)
            uniq.append(x)
    v = uniq
    return {"violations": v[:12],
            "fingerprint": fp(case["problem"], _etname(case["elemType"]), int(Nn), int(nint), *extra, np.asarray(obs, dtype=float), digits=7),
            "nontrivial": nint > 0, "transitions": ntrans,
            "outcome": "violation" if v else ("ok" if nint > 0 else "ok_no_interior_node")}


# ------------------------------------------------------------------------------------------------
# elastic
# ------------------------------------------------------------------------------------------------
def _law(case, dim, ps):
    """-> (EasyFEA model, reference ElasticRef)."""
    from EasyFEA import Models

    name, _, axes = case["law"].partition("@")
    axes = axes or "canon"
    if axes == "canon":
        Rm = np.eye(3)
    elif axes == "rot":
        r = rng("c01", "axes", dim)
        Rm = Z.rot3([0, 0, 1], r.uniform(0.3, 1.2)) if dim == 2 else Z.rot3(r.normal(size=3), r.uniform(0.3, 2.8))
    elif axes == "oop":
        Rm = R.frame([0, 0, 1], [1, 0, 0])
    elif axes == "aboutx":
        Rm = Z.rot3([1, 0, 0], 0.7)
    else:
        raise KeyError(axes)
    a1, a2 = Rm[:, 0].copy(), Rm[:, 1].copy()
    # the thickness is a parameter of every law; it must have no effect on a 3D analysis
    kw = dict(thickness=THICKNESS)
    if name == "iso":
        return (Models.Elastic.Isotropic(dim, planeStress=ps, **R.ISO_PARAMS, **kw),
                R.ElasticRef(dim, R.isotropic_C4(**R.ISO_PARAMS), None, ps))
    if name == "trans":
        return (Models.Elastic.TransverselyIsotropic(dim, axis_l=a1, axis_t=a2, planeStress=ps, **R.TRANS_PARAMS, **kw),
                R.ElasticRef(dim, R.engineering_C4(**R.trans_as_engineering(**R.TRANS_PARAMS)), Rm, ps))
    if name == "ortho":
        return (Models.Elastic.Orthotropic(dim, axis_1=a1, axis_2=a2, planeStress=ps, **R.ORTHO_PARAMS, **kw),
                R.ElasticRef(dim, R.engineering_C4(**R.ORTHO_PARAMS), Rm, ps))
    if name in ("aniso", "aniso_voigt"):
        voigt = name == "aniso_voigt"
        w6 = np.ones(6) if voigt else None
        if dim == 2 and ps:
            # the class has no plane-stress reduction (documented): the user gives the in-plane stiffness as a 3x3 matrix
            C3 = R.generic_spd(rng("c01", "spd", 3), 3)
            w = np.ones(3) if voigt else np.array([1.0, 1.0, np.sqrt(2.0)])
            return (Models.Elastic.Anisotropic(2, C3.copy(), voigt, axis1=a1, axis2=a2, **kw),
                    R.ElasticRef(2, C2_inplane=C3 / np.outer(w, w), R2=Rm[:2, :2]))
        C6 = R.generic_spd(rng("c01", "spd", 6), 6)
        C4 = R.mat6_to_tensor(C6, w6) if voigt else R.mat6_to_tensor(C6)
        return (Models.Elastic.Anisotropic(dim, C6.copy(), voigt, axis1=a1, axis2=a2, **kw),
                R.ElasticRef(dim, C4, Rm, False))
    raise KeyError(name)


def _tensor_from_result(row, dim):
    """Result('Strain'/'Stress') row -> symmetric (dim,dim) matrix; documented component order xx,yy,(zz,yz,xz,)xy."""
    if dim == 2:
        return np.array([[row[0], row[2]], [row[2], row[1]]])
    return np.array([[row[0], row[5], row[4]], [row[5], row[1], row[3]], [row[4], row[3], row[2]]])


def _cmp_tensor_result(simu, name, expected, dim, scale, Ne, Nn, v, case, field, check):
    ncomp = 3 if dim == 2 else 6
    out = []
    for nodeValues, n, suffix in ((False, Ne, ""), (True, Nn, "_nodevalues")):
        val = np.asarray(simu.Result(name, nodeValues=nodeValues))
        if val.shape != (n, ncomp):
            v.append(viol(check + suffix + "_shape", f"Result('{name}', nodeValues={nodeValues}) has shape {val.shape}, expected {(n, ncomp)} "
                                                     f"(Ne={Ne}, Nn={Nn})", **_key(case)))
            continue
        if not np.all(np.isfinite(val)):
            v.append(viol(check + suffix, f"field {field}: Result('{name}') has non-finite entries", **_key(case)))
            continue
        worst = 0.0
        for row in val:
            worst = max(worst, float(np.abs(_tensor_from_result(row, dim) - expected).max()))
        if worst > TOL * scale:
            r0 = val[int(np.argmax(np.abs(val - val.mean(0)).sum(1)))] if n > 1 else val[0]
            v.append(viol(check + suffix, f"field {field}: Result('{name}', nodeValues={nodeValues}) differs from the constant tensor by {worst:.3e} "
                                          f"(scale {scale:.3e}); expected {np.round(expected, 9).tolist()}, a reported row {np.round(r0, 9).tolist()}",
                          **_key(case)))
        if not nodeValues:
            out = val[0]
    return out


def _run_elastic(case):
    from EasyFEA import Simulations

    dim, ps = ELASTIC[case["problem"]]
    zm, mesh = _make_mesh(case, dim)
    model, ref = _law(case, dim, ps)
    simu = Simulations.Elastic(mesh, model)
    X = zm.coords
    Nn, Ne = zm.Nn, sum(c.shape[0] for c in zm.groups.values())
    bn, inn = zm.boundary_nodes(), zm.interior_nodes()
    unknowns = ["x", "y", "z"][:dim]
    thick = THICKNESS if dim == 2 else 1.0
    measure = zm.exact["measure"]
    diam = float(np.linalg.norm(X.max(0) - X.min(0)))
    v, obs, ntrans = [], [], 0
    key = _key(case)
    if mesh.Nn != Nn or mesh.Ne != Ne:
        v.append(viol("mesh_counts", f"mesh.Nn/Ne = {mesh.Nn}/{mesh.Ne}, template has {Nn}/{Ne}", **key))
    for f in range(dim * dim + dim):
        G, c = np.zeros((dim, dim)), np.zeros(dim)
        if f < dim * dim:
            G[f // dim, f % dim] = float(case.get("amp", 1.0))
            field = f"G{f // dim}{f % dim}"
        else:
            c[f - dim * dim] = float(case.get("amp", 1.0))
            field = f"c{f - dim * dim}"
        Uex = X[:, :dim] @ G.T + c
        G3 = np.zeros((dim, 3))
        G3[:, :dim] = G
        simu.Bc_Init()
        ntrans += _prescribe(simu, bn, X, Uex, unknowns, case["bcform"], [_linfun(G3[i], c[i]) for i in range(dim)])
        u = np.asarray(simu.Solve(), dtype=float)
        ntrans += 1
        if u.shape != (Nn * dim,):
            v.append(viol("solution_shape", f"Solve() returned shape {u.shape}, expected {(Nn * dim,)}", **key))
            break
        u = u.reshape(Nn, dim)
        us = max(float(np.abs(Uex).max()), 1e-300)
        if not np.all(np.isfinite(u)):
            v.append(viol("interior_nodal", f"field {field}: solution has non-finite entries", **key))
            continue
        eb = float(np.abs(u[bn] - Uex[bn]).max()) if bn.size else 0.0
        ei = float(np.abs(u[inn] - Uex[inn]).max()) if inn.size else 0.0
        if eb > TOL * us:
            v.append(viol("prescribed_nodal", f"field {field}: prescribed boundary values changed by the solve, max error {eb:.3e} (|u| = {us:.3g})", **key))
        if ei > TOL * us:
            n = inn[int(np.argmax(np.abs(u[inn] - Uex[inn]).max(1)))]
            v.append(viol("interior_nodal", f"field {field} on {zm.name}: interior node {int(n)} at {np.round(X[n], 6).tolist()} has u = {u[n].tolist()}, "
                                            f"exact {Uex[n].tolist()} (max error {ei:.3e}, {inn.size} interior nodes of {Nn})", **key))
        eps = (G + G.T) / 2
        sig = ref.sigma(eps)
        es = max(float(np.abs(G).max()), us / diam)
        ss = ref.norm() * es
        r1 = _cmp_tensor_result(simu, "Strain", eps, dim, es, Ne, Nn, v, case, field, "strain")
        r2 = _cmp_tensor_result(simu, "Stress", sig, dim, ss, Ne, Nn, v, case, field, "stress")
        W = simu.Result("Wdef")
        ntrans += 5
        Wex = ref.energy_density(eps) * measure * thick
        ws = ref.norm() * es * es * measure * thick
        if not np.isscalar(W) and np.ndim(W) != 0:
            v.append(viol("wdef", f"Result('Wdef') is not a scalar: {type(W).__name__} shape {np.shape(W)}", **key))
        elif not np.isfinite(W) or abs(float(W) - Wex) > TOL * ws:
            v.append(viol("wdef", f"field {field}: Result('Wdef') = {float(W)!r}, exact 1/2 eps:C:eps * measure * thickness = {Wex!r} "
                                  f"(measure {measure!r}, thickness {thick})", **key))
        obs += [float(W) if np.ndim(W) == 0 else np.nan, *np.ravel(r1), *np.ravel(r2)]
    # two more solves on the same simulation: the field is also prescribed at ONE interior node (still the exact solution), first at one
    # node, then at another one: constrained sets of the same size that differ
    if inn.size >= 2 and not v:
        for extra, (G, c) in ((inn[0], (np.eye(dim)[0][:, None] * np.eye(dim)[0][None, :], np.zeros(dim))), (inn[-1], (np.zeros((dim, dim)), np.eye(dim)[-1]))):
            G = G * float(case.get("amp", 1.0)) + 0.5 * float(case.get("amp", 1.0)) * np.eye(dim)[::-1]
            c = c * float(case.get("amp", 1.0))
            Uex = X[:, :dim] @ G.T + c
            G3 = np.zeros((dim, 3))
            G3[:, :dim] = G
            simu.Bc_Init()
            ntrans += _prescribe(simu, np.append(bn, extra), X, Uex, unknowns, case["bcform"], [_linfun(G3[i], c[i]) for i in range(dim)])
            u = np.asarray(simu.Solve(), dtype=float).reshape(Nn, dim)
            ntrans += 1
            us = max(float(np.abs(Uex).max()), 1e-300)
            e = float(np.abs(u - Uex).max()) if np.all(np.isfinite(u)) else np.inf
            if e > TOL * us:
                n = int(np.argmax(np.abs(u - Uex).max(1)))
                v.append(viol("interior_nodal", f"field also prescribed at interior node {int(extra)} (second / third constrained set on the same simulation) on {zm.name}: "
                                                f"node {n} has u = {u[n].tolist()}, exact {Uex[n].tolist()} (max error {e:.3e})", **key))
    return _finish(case, v, obs, Nn, inn.size, ntrans)


# ------------------------------------------------------------------------------------------------
# thermal
# ------------------------------------------------------------------------------------------------
def _run_thermal(case):
    from EasyFEA import Models, Simulations

    dim = THERMAL[case["problem"]]
    zm, mesh = _make_mesh(case, dim)
    simu = Simulations.Thermal(mesh, Models.Thermal(k=1.7, c=1.0, thickness=THICKNESS))
    X = zm.coords
    Nn = zm.Nn
    bn = R.ends_1d(zm) if dim == 1 else zm.boundary_nodes()
    inn = np.setdiff1d(np.arange(Nn), bn)
    # the mesh may live in more coordinates than its dimension (map "embed"): the basis spans every coordinate it occupies
    nco = 3 if case["map"] == "embed" else dim
    v, obs, ntrans = [], [], 0
    key = _key(case)
    if mesh.Nn != Nn:
        v.append(viol("mesh_counts", f"mesh.Nn = {mesh.Nn}, template has {Nn}", **key))
    for f in range(nco + 1):
        g, c = np.zeros(3), 0.0
        if f < nco:
            g[f] = float(case.get("amp", 1.0))
            field = f"g{f}"
        else:
            c = float(case.get("amp", 1.0))
            field = "c"
        Tex = (X @ g + c)[:, None]
        simu.Bc_Init()
        ntrans += _prescribe(simu, bn, X, Tex, ["t"], case["bcform"], [_linfun(g, c)])
        t = np.asarray(simu.Solve(), dtype=float)
        ntrans += 1
        if t.shape != (Nn,):
            v.append(viol("solution_shape", f"Solve() returned shape {t.shape}, expected {(Nn,)}", **key))
            break
        ts = max(float(np.abs(Tex).max()), 1e-300)
        if not np.all(np.isfinite(t)):
            v.append(viol("interior_nodal", f"field {field}: solution has non-finite entries", **key))
            continue
        eb = float(np.abs(t[bn] - Tex[bn, 0]).max()) if bn.size else 0.0
        ei = float(np.abs(t[inn] - Tex[inn, 0]).max()) if inn.size else 0.0
        if eb > TOL * ts:
            v.append(viol("prescribed_nodal", f"field {field}: prescribed boundary values changed by the solve, max error {eb:.3e}", **key))
        if ei > TOL * ts:
            n = inn[int(np.argmax(np.abs(t[inn] - Tex[inn, 0])))]
            v.append(viol("interior_nodal", f"field {field} on {zm.name}: interior node {int(n)} at {np.round(X[n], 6).tolist()} has t = {t[n]!r}, "
                                            f"exact {Tex[n, 0]!r} (max error {ei:.3e}, {inn.size} interior nodes of {Nn})", **key))
        r = np.asarray(simu.Result("thermal"))
        ntrans += 1
        if r.shape != (Nn,) or np.abs(r - t).max() > 0:
            v.append(viol("result_thermal", f"field {field}: Result('thermal') differs from the value returned by Solve()", **key))
        obs += [float(t[inn].sum()) if inn.size else 0.0, float(t.sum())]
    return _finish(case, v, obs, Nn, inn.size, ntrans)


# ------------------------------------------------------------------------------------------------
# beams
# ------------------------------------------------------------------------------------------------
def _beam_map(name, dim):
    off = np.array([0.2, -0.1, 0.3])
    off[dim:] = 0.0
    if name == "identity":
        return np.eye(3), off
    if name == "negx_off":
        return np.diag([-1.0, -1.0, 1.0]), np.array([0.2, 1.0, 0.0])
    if name == "negx0":
        return np.diag([-1.0, -1.0, 1.0]), np.array([0.2, 0.0, 0.0])  # exact: sin(pi) would leave y ~ 1e-16 and a mesh "in 2D"
    if name == "reflection":
        return Z.reflection(dim), off
    if name == "alongy":
        return Z.rot3([0, 0, 1], np.pi / 2), off
    if name == "alongz":
        return Z.rot3([0, 1, 0], -np.pi / 2), off
    r = rng("c01", "beammap", name, dim)
    s = r.uniform(0.6, 1.7)
    if dim == 1:
        return np.diag([s, 1.0, 1.0]), off
    if dim == 2:
        return Z.rot3([0, 0, 1], r.uniform(0.3, 1.3) + (np.pi / 2 if name == "generic2" else 0.0)) @ np.diag([s, 1.0, 1.0]), off
    return Z.rot3(r.normal(size=3), r.uniform(0.4, 2.6)) @ np.diag([s, 1.0, 1.0]), off


def _beam_yaxis(case, dim, i):
    if case.get("yaxis", "default") == "generic" and dim == 3:
        y = rng("c01", "yaxis").normal(size=3)
        if np.linalg.norm(np.cross(y / np.linalg.norm(y), i)) < 0.3:
            y = y + 2 * np.cross(i, [0.3, 0.5, 0.8])
        return y / np.linalg.norm(y)
    y = np.array([0.0, 1.0, 0.0])
    if np.linalg.norm(np.cross(i, y)) < 1e-6:  # the documented default would be collinear with the fiber: give one explicitly
        y = np.array([-1.0, 0.0, 0.0])
    return y


def _beam_dofs(U, Rot, dim):
    return {1: U[:, :1], 2: np.c_[U[:, :2], Rot[:, 2]], 3: np.c_[U, Rot]}[dim]


def _beam_fun(field, p1, ijk, dim, d):
    """component d of the exact beam field as a function of the node coordinates (function form of add_dirichlet)."""
    def f(x, y, z):
        Xq = np.stack([np.asarray(x, float), np.asarray(y, float), np.asarray(z, float)], axis=1)
        U, Rot, _ = R.beam_exact(field, Xq, p1, ijk)
        return _beam_dofs(U, Rot, dim)[:, d]
    return f


def _run_beam(case):
    from EasyFEA import ElemType, Mesher, Models, Simulations
    from EasyFEA.Geoms import Domain, Line, Point

    timo, dim = BEAM[case["problem"]]
    et = case["elemType"]
    A, b0 = _beam_map(case["map"], dim)
    p1 = b0.copy()
    p2 = A @ np.array([BEAM_L, 0, 0]) + b0
    i = (p2 - p1) / np.linalg.norm(p2 - p1)
    yAxis = _beam_yaxis(case, dim, i)
    ijk = R.beam_frame(p1, p2, yAxis)
    sec = R.rect_section(BEAM_B, BEAM_H)
    key = _key(case)
    sink = io.StringIO()
    with contextlib.redirect_stdout(sink):
        section = Mesher().Mesh_2D(Domain(Point(-BEAM_B / 2, -BEAM_H / 2), Point(BEAM_B / 2, BEAM_H / 2), BEAM_H))
        nel = {"n1": 1, "n2": 2, "n3g": 3, "gmsh": 3, "welded": 2}[case["mesh"]]
        L = float(np.linalg.norm(p2 - p1))
        beam = Models.Beam.Isotropic(dim, Line(Point(*p1), Point(*p2), L / nel), section, BEAM_E, BEAM_V, yAxis=tuple(yAxis))
        welded = case["mesh"] == "welded"
        beams = [beam]
        if welded:
            pm = p1 + 0.4 * (p2 - p1)
            beams = [Models.Beam.Isotropic(dim, Line(Point(*a), Point(*b), float(np.linalg.norm(b - a)) / nel), section, BEAM_E, BEAM_V, yAxis=tuple(yAxis))
                     for a, b in ((p1, pm), (pm, p2))]
            beam = beams[0]
            lib = Mesher().Mesh_Beams(beams, ElemType[et])
            zm = Z.zoo_from_mesh(lib, {"measure": L, "dim": 1}, name=f"weldedBeams[{et}]")
        elif case["mesh"] == "gmsh":
            lib = Mesher().Mesh_Beams([beam], ElemType[et])
            zm = Z.zoo_from_mesh(lib, {"measure": L, "dim": 1}, name=f"gmshBeam[{et}]")
        else:
            lib = None
            zm, _ = _template(case, 1)
            zm = zm.mapped(A, b0)
        perm = _perm(case["numbering"], zm.Nn) if not welded else None  # (the two members are told apart by the mesher's tags)
        if perm is not None:
            zm = zm.renumbered(perm)
            lib = None
        if lib is None:
            lib = zm.build()
            for g in lib.Get_list_groupElem():
                g.Set_Tag(np.arange(zm.Nn), beam.name)
        simu = Simulations.Beam(lib, Models.Beam.BeamStructure(beams), useTimoshenko=timo)
    mesh = simu.mesh
    X = zm.coords
    Nn, Ne = zm.Nn, sum(c.shape[0] for c in zm.groups.values())
    v, obs, ntrans = [], [], 0
    if mesh.Nn != Nn or mesh.Ne != Ne:
        v.append(viol("mesh_counts", f"mesh.Nn/Ne = {mesh.Nn}/{mesh.Ne}, expected {Nn}/{Ne}", **key))
        return _finish(case, v, obs, Nn, 0, 1)
    # section constants the model reports vs the rectangle's closed form
    got = dict(A=beam.area, Iy=beam.Iy, Iz=beam.Iz, J=beam.J)
    for nm in got:
        if abs(got[nm] - sec[nm]) > 1e-9 * sec[nm]:
            v.append(viol("section_constant", f"{nm} of the {BEAM_B} x {BEAM_H} rectangle: model {got[nm]!r}, exact {sec[nm]!r}", **key))
    ends = R.ends_1d(zm)
    joint = None
    if welded:
        dist = lambda q: np.linalg.norm(X - q, axis=1)
        ends = np.where((dist(p1) < 1e-9 * L) | (dist(p2) < 1e-9 * L))[0]
        joint = np.where(dist(pm) < 1e-9 * L)[0]
        if ends.size != 2 or joint.size != 2:
            raise AssertionError(f"harness: welded beam mesh has {ends.size} end nodes and {joint.size} joint nodes")
    inn = np.setdiff1d(np.arange(Nn), ends)
    unknowns = simu.Get_unknowns()
    expect_unknowns = {1: ["x"], 2: ["x", "y", "rz"], 3: ["x", "y", "z", "rx", "ry", "rz"]}[dim]
    if list(unknowns) != expect_unknowns:
        v.append(viol("unknowns", f"Get_unknowns() = {unknowns}, documented {expect_unknowns}", **key))
        return _finish(case, v, obs, Nn, inn.size, 1)
    E, mu = BEAM_E, BEAM_E / (2 * (1 + BEAM_V))
    for field in R.beam_fields(dim):
        U, Rot, gen = R.beam_exact(field, X, p1, ijk)
        full = _beam_dofs(U, Rot, dim)
        nd = full.shape[1]
        simu.Bc_Init()
        funs = [_beam_fun(field, p1, ijk, dim, d) for d in range(nd)] if case["bcform"] == "function" else None
        ntrans += _prescribe(simu, ends, X, full, unknowns, case["bcform"], funs)
        if joint is not None:
            simu.add_connection_fixed(joint)
        u = np.asarray(simu.Solve(), dtype=float)
        ntrans += 1
        if u.shape != (Nn * nd,):
            v.append(viol("solution_shape", f"Solve() returned shape {u.shape}, expected {(Nn * nd,)}", **key))
            break
        u = u.reshape(Nn, nd)
        us = max(float(np.abs(U).max()), L * float(np.abs(Rot).max()), 1e-300)
        sc = np.array([us] * min(nd, dim) + [us / L] * (nd - min(nd, dim)))
        if not np.all(np.isfinite(u)):
            v.append(viol("interior_nodal", f"field {field}: solution has non-finite entries", **key))
            continue
        err = np.abs(u - full) / sc
        eb = float(err[ends].max())
        ei = float(err[inn].max()) if inn.size else 0.0
        if eb > TOL:
            v.append(viol("prescribed_nodal", f"field {field}: prescribed end values changed by the solve, relative error {eb:.3e}", **key))
        if ei > TOL:
            n = inn[int(np.argmax(err[inn].max(1)))]
            v.append(viol("interior_nodal", f"field {field}, beam {np.round(p1, 4).tolist()} -> {np.round(p2, 4).tolist()}: interior node {int(n)} has "
                                            f"{unknowns} = {np.round(u[n], 9).tolist()}, exact {np.round(full[n], 9).tolist()} (relative error {ei:.3e}, "
                                            f"{inn.size} interior nodes of {Nn})", **key))
        # internal forces reported afterwards
        fs = E * sec["A"] * us / L
        ms = E * max(sec["Iy"], sec["Iz"]) * us / L ** 2
        expected = {"N": (E * sec["A"] * gen["eps"], fs)}
        if dim >= 2:
            expected["Mz"] = (E * sec["Iz"] * gen["kap_z"], ms)
            expected["Ty"] = (0.0, fs)
        if dim == 3:
            expected["Mx"] = (mu * sec["J"] * gen["tau"], ms)
            expected["My"] = (E * sec["Iy"] * gen["kap_y"], ms)
            expected["Tz"] = (0.0, fs)
        for nm, (ex, scale) in expected.items():
            val = np.asarray(simu.Result(nm, nodeValues=False), dtype=float)
            ntrans += 1
            if val.shape != (Ne,):
                v.append(viol("beam_force_shape", f"Result('{nm}', nodeValues=False) has shape {val.shape}, expected {(Ne,)}", result=nm, **key))
                continue
            obs.append(float(val[0]))
            if not np.all(np.isfinite(val)) or np.abs(val - ex).max() > TOL * scale:
                v.append(viol("beam_force", f"field {field}: Result('{nm}') = {np.round(val, 10).tolist()}, exact constant {ex!r} (scale {scale:.3e})",
                              result=nm, **key))
        # generalized strains reported afterwards (names documented as derivatives along the fiber)
        strains = {"ux'": gen["eps"]}
        if dim >= 2:
            strains["rz'"] = gen["kap_z"]
        if dim == 3:
            strains["rx'"] = gen["tau"]
        for nm, ex in strains.items():
            ntrans += 1
            try:
                val = np.asarray(simu.Result(nm, nodeValues=False), dtype=float)
            except Exception as err_:  # the property promises the reported strain: failing to produce it is a violation of this sub-check only
                v.append(viol("beam_strain", f"Result(\"{nm}\") raised {type(err_).__name__}: {err_}", result=nm, **key))
                continue
            if val.shape != (Ne,) or not np.all(np.isfinite(val)) or np.abs(val - ex).max() > TOL * us / L * (1 if nm == "ux'" else 1 / L):
                v.append(viol("beam_strain", f"field {field}: Result(\"{nm}\") = {np.round(val, 10).tolist()}, exact constant {ex!r}", result=nm, **key))
    return _finish(case, v, obs, Nn, inn.size, ntrans, extra=(int(timo), dim))


def run_case(case):
    p = case["problem"]
    if p in ELASTIC:
        return _run_elastic(case)
    if p in THERMAL:
        return _run_thermal(case)
    return _run_beam(case)
