"""C20 — any partition of a mesh is a true partition and assembles row-complete systems; Merge with a node mapping is
the inverse bookkeeping.

E1.  (a) partition cases: every mesh of a small zoo of gmsh meshes (quick: TRI3, QUAD4, TRI6, TRI3+QUAD4, TETRA4, HEXA8, PRISM6,
PRISM6+HEXA8 with 11-24 main-dimension elements; thorough: 27 meshes, also second/third order and up to 39 elements) x EVERY part
count Nproc = 1..Ne, plus Nproc = Ne+1 (must be refused).  The parts are obtained exactly as the test-suite obtains them without
MPI: Mesher._Mesh_Get_Meshes(Nproc).  The unpartitioned mesh (Nproc = 1) of the same geometry is the global reference.
Oracle (plain numpy / python sets, written from the statement): one owner per element (main-dimension groups; boundary groups
reported apart with the prefix `boundary_`) and per node; part == owned elements + every element touching a node the part owns,
no more; global numbering / coordinates / element orientation kept; the four index arrays stored sorted; two runs give the same
split; K, M (Elastic) and K (Thermal) assembled on the part alone equal the global matrices on the rows of the owned dofs, and so
do the load vectors of a body load and of a load over the whole boundary; owned-row energies Calc_Energy(K, u, owned) and
reactions Calc_Reaction(owned) summed over the parts equal 1/2 u^T K u and K u of the global system; Mesh.Merge of the parts gives
the global element set back.
(b) merge cases: ALL lists of <= 3 meshes over {A, E = A translated onto a shared edge/face, D = A disjoint, S = a second copy of A}
(repetition = the same object twice) x 7 (thorough 13) template meshes x {identity, generic affine image} x constructUniqueElements
x mergePoints.

gmsh's partitioner (METIS) is the environment: which element goes to which part is not judged, only the bookkeeping on top of it.
MPI is not installed: Reduce_sum / Get_dofs() under MPI_SIZE > 1 / the MPI return branch of Calc_Reaction / the solver's parallel
path / Mesh._Gather are not exercised; the owned nodes are read with Mesh._Get_mpi_owned_nodes() and turned into dofs with
Bc_dofs_nodes, which is what Get_dofs() does under MPI.
"""
from __future__ import annotations

import itertools
from collections import Counter

import numpy as np

from mc.util import fp, rng, viol
from zoo import meshes as Z

PROPERTY = "C20"
TOL_K = 1e-13
TOL_SUM = 1e-12

# ------------------------------------------------------------------------------------------------
# alphabets
# ------------------------------------------------------------------------------------------------
# gmsh meshes; "ne" = number of main-dimension elements of the unpartitioned mesh (declared so that `cases` needs no meshing;
# verified at run time: a different count makes the case inconclusive ("skipped"), never silently smaller).
PART_MESHES = {
    # name: (builder kind, parameters, ne, tiers)
    "tri3_quad": dict(kind="poly", et="TRI3", poly="quad", h=0.5, dim=2, ne=14, quick=True),
    "quad4_quad": dict(kind="poly", et="QUAD4", poly="quad", h=0.5, dim=2, ne=11, quick=True),
    "tri6_quad": dict(kind="poly", et="TRI6", poly="quad", h=0.5, dim=2, ne=14, quick=True),
    "mixed2d": dict(kind="mixed", dim=2, h=0.5, order=1, ne=18, quick=True),
    "tetra4_L": dict(kind="poly", et="TETRA4", poly="L", h=2.0, dim=3, layers=1, ne=18, quick=True),
    "hexa8_square": dict(kind="poly", et="HEXA8", poly="square", h=0.5, dim=3, layers=2, ne=12, quick=True),
    "prism6_quad": dict(kind="poly", et="PRISM6", poly="quad", h=0.5, dim=3, layers=1, ne=14, quick=True),
    "mixed3d": dict(kind="mixed", dim=3, h=0.5, order=1, ne=18, quick=True),
    # a mesh read from a file that contains one zero-area triangle (three collinear grid nodes): the library drops it as ill-formed
    "tri3_file_sliver": dict(kind="sliver", nx=4, ny=3, dim=2, ne=24, quick=True),
    # the documented unit-conversion factor of the mesh getters (coordinates x coef), for the whole mesh and for its parts alike
    "tri3_quad_coef": dict(kind="poly", et="TRI3", poly="quad", h=0.5, dim=2, ne=14, quick=True, coef=2.5),
    "hexa8_square_coef": dict(kind="poly", et="HEXA8", poly="square", h=0.5, dim=3, layers=2, ne=12, quick=True, coef=0.01),
    # thorough only
    "tri3_L": dict(kind="poly", et="TRI3", poly="L", h=0.5, dim=2, ne=20, quick=False),
    "quad4_L": dict(kind="poly", et="QUAD4", poly="L", h=0.5, dim=2, ne=15, quick=False),
    "quad4_pent": dict(kind="poly", et="QUAD4", poly="pent", h=0.45, dim=2, ne=24, quick=False),
    "quad4_org": dict(kind="poly", et="QUAD4", poly="quad", h=0.2, dim=2, org=True, ne=24, quick=False),
    "tri6_L": dict(kind="poly", et="TRI6", poly="L", h=0.6, dim=2, ne=13, quick=False),
    "mixed2d_o2": dict(kind="mixed", dim=2, h=0.5, order=2, ne=18, quick=False),
    "tetra4_quad": dict(kind="poly", et="TETRA4", poly="quad", h=1.0, dim=3, layers=1, ne=24, quick=False),
    "hexa8_quad": dict(kind="poly", et="HEXA8", poly="quad", h=0.5, dim=3, layers=2, ne=22, quick=False),
    "prism6_L": dict(kind="poly", et="PRISM6", poly="L", h=0.7, dim=3, layers=2, ne=20, quick=False),
    "tri3_pent": dict(kind="poly", et="TRI3", poly="pent", h=0.5, dim=2, ne=18, quick=False),
    "tri6_pent": dict(kind="poly", et="TRI6", poly="pent", h=0.6, dim=2, ne=18, quick=False),
    "tri10_quad": dict(kind="poly", et="TRI10", poly="quad", h=0.6, dim=2, ne=11, quick=False),
    "quad8_quad": dict(kind="poly", et="QUAD8", poly="quad", h=0.5, dim=2, ne=11, quick=False),
    "quad9_L": dict(kind="poly", et="QUAD9", poly="L", h=0.5, dim=2, ne=15, quick=False),
    "tetra10_quad": dict(kind="poly", et="TETRA10", poly="quad", h=2.0, dim=3, layers=1, ne=12, quick=False),
    "hexa20_square": dict(kind="poly", et="HEXA20", poly="square", h=0.5, dim=3, layers=1, ne=6, quick=False),
    "prism15_quad": dict(kind="poly", et="PRISM15", poly="quad", h=1.0, dim=3, layers=1, ne=8, quick=False),
    "mixed2d_h04": dict(kind="mixed", dim=2, h=0.4, order=1, ne=39, quick=False),
    "mixed3d_l2": dict(kind="mixed", dim=3, h=0.5, order=1, layers=2, ne=36, quick=False),
}

MERGE_MESHES = {
    "TRI3": lambda: Z.template_2d("TRI3", 2),
    "QUAD4": lambda: Z.template_2d("QUAD4", 2),
    "TRI6": lambda: Z.template_2d("TRI6", 2, diag=1),
    "mixed": lambda: Z.template_2d(("TRI3", "QUAD4"), 2),
    "TETRA4": lambda: Z.template_3d("TETRA4", 1),
    "HEXA8": lambda: Z.template_3d("HEXA8", [1, 2, 1]),
    "PRISM6": lambda: Z.template_3d("PRISM6", 1),
    # thorough only
    "QUAD9": lambda: Z.template_2d("QUAD9", 2),
    "mixed_o2": lambda: Z.template_2d(("TRI6", "QUAD9"), 2),
    "TETRA10": lambda: Z.template_3d("TETRA10", 1),
    "HEXA20": lambda: Z.template_3d("HEXA20", [1, 2, 1]),
    "PRISM15": lambda: Z.template_3d("PRISM15", 1),
    "mixed_3d": lambda: Z.template_3d(("PRISM6", "HEXA8"), [2, 1, 1]),
}
JOB_MESHES = ["quad4_quad", "tri6_quad", "quad8_quad", "quad9_L", "tri10_quad", "prism15_quad", "hexa8_square"]
MERGE_QUICK = ["TRI3", "QUAD4", "TRI6", "mixed", "TETRA4", "HEXA8", "PRISM6"]
LETTERS = ["A", "E", "D", "S"]  # A, A translated onto a shared edge, A disjoint, a second copy of A
# N: like E but 2e-7 further (used with coordinates x 1000 and an explicit absolute tolerance of 1e-6: a gap of 2e-4 must survive)
SHIFT = {"A": (0.0, 0.0, 0.0), "E": (1.0, 0.0, 0.0), "D": (3.0, 0.5, 0.25), "S": (0.0, 0.0, 0.0), "N": (1.0 + 2e-7, 0.0, 0.0)}
MAPS = ["identity", "generic"]


def cases(tier, seed):
    out = []
    for name, spec in PART_MESHES.items():
        if tier == "quick" and not spec["quick"]:
            continue
        ne = spec["ne"]
        # ne + 1: the partitioner has to refuse (not asked of the file mesh: its dropped element still counts for the partitioner)
        for nproc in range(1, ne + (1 if spec["kind"] == "sliver" else 2)):
            out.append({"kind": "partition", "mesh": name, "Nproc": nproc, "ne": ne})
    # E2, depth 3: two meshing jobs in ONE process (every ordered pair of element families), the second one repeated: what a job returns
    # may not depend on the jobs done before it
    for a in JOB_MESHES:
        for b in JOB_MESHES:
            out.append({"kind": "jobs", "first": a, "second": b})
    lists = [list(t) for n in (1, 2, 3) for t in itertools.product(LETTERS, repeat=n)]
    for name in (MERGE_QUICK if tier == "quick" else MERGE_MESHES):
        for mp in MAPS:
            for uniq in (True, False):
                for mpts in (True, False):
                    for lst in lists:
                        out.append({"kind": "merge", "mesh": name, "map": mp, "unique": uniq, "mergePoints": mpts, "list": "".join(lst)})
        # W: a mesh of LOWER dimension (the boundary of E taken as a mesh of its own: a frame of bars / a skin of plates sharing the
        # edge/face x = 1 with A and sticking out of it): lists that mix dimensions
        for mp in MAPS:
            for uniq in (True, False):
                for mpts in (True, False):
                    for lst in ("W", "AW", "WA", "ADW", "WAE", "AWW"):
                        out.append({"kind": "merge", "mesh": name, "map": mp, "unique": uniq, "mergePoints": mpts, "list": lst})
        # bodies in millimetres (coordinates x 1000) merged with an explicit ABSOLUTE tolerance: nodes further apart than it stay distinct
        for lst in ("AN", "AEN", "NA"):
            out.append({"kind": "merge", "mesh": name, "map": "identity", "unique": True, "mergePoints": True, "list": lst, "big": True})
    return out


def describe(tier, seed):
    names = [n for n, s in PART_MESHES.items() if tier != "quick" or s["quick"]]
    return {
        "rule": "E1 full product. partition: every mesh of the zoo x every Nproc in 1..Ne+1 (Ne+1 must be refused), parts from "
                "Mesher._Mesh_Get_Meshes(Nproc), reference = the unpartitioned mesh, its assembled K/M and its load vectors; merge: every list of <= 3 letters over "
                "{A, shared-edge translate, disjoint translate, second copy} x 7 (thorough: 13) template meshes x {identity, generic affine} x constructUniqueElements x "
                "mergePoints. non-trivial (partition) = Nproc >= 2, some part has ghost elements and some node is shared between parts; non-trivial (merge) = "
                ">= 2 meshes in the list; distinct = fingerprint of (ownership tables, energies) resp. (merged node/element tables)",
        "exhaustive": True,
        "bound": f"{len(names)} gmsh meshes of {min(PART_MESHES[n]['ne'] for n in names)}-{max(PART_MESHES[n]['ne'] for n in names)} main-dimension elements, all part counts; merge lists of length <= 3 over 4 letters (84 lists)",
        "alphabet": {"partition_meshes": len(names), "Nproc": "1..Ne+1", "merge_meshes": len(MERGE_QUICK if tier == "quick" else MERGE_MESHES), "letters": len(LETTERS),
                     "lists": 84, "maps": len(MAPS), "flags": 4},
        "assumptions": [
            "gmsh/METIS decide which element goes to which part; only EasyFEA's bookkeeping on top of it is judged",
            "MPI is not installed (CAN_USE_MPI False): Reduce_sum, Get_dofs() under MPI_SIZE>1, the parallel solver path and Mesh._Gather are not executed; "
            "owned dofs = Bc_dofs_nodes(mesh._Get_mpi_owned_nodes()) as Get_dofs() would compute them under MPI",
            "the unpartitioned mesh of the same geometry (Nproc=1, deterministic gmsh) is the global reference; its assembly is C03's subject",
            f"K/M/load rows: {TOL_K} relative to max|K|; summed energies / reactions: {TOL_SUM} relative to sum of |terms|",
            "loads are given through mesh.nodes of the part (what Nodes_Conditions yields on a rank); a part without any boundary element gets no boundary load "
            "(add_surfLoad on a node set holding no complete element raises ZeroDivisionError: load API, outside this property)",
            "POINT groups (dimension 0) carry no integral and are not judged",
            "the seed only picks the generic dof vector u of the energy/reaction check and the generic affine map of the merge cases",
        ],
        "explanation": "every configuration is executed on the real Mesher / Simulations / Mesh.Merge code",
    }


# ------------------------------------------------------------------------------------------------
# building the parts (the way tests/FEM/partition_test.py does it, without MPI)
# ------------------------------------------------------------------------------------------------
def _partition(name, nproc):
    """-> list of EasyFEA meshes (the Nproc parts).  Raises what the partitioner raises."""
    import gmsh
    from EasyFEA import ElemType, Mesher
    from EasyFEA.Geoms import Domain, Point, Points

    spec = PART_MESHES[name]
    dim = spec["dim"]
    mesher = Mesher()
    mesher._Init_gmsh("occ")
    try:
        if spec["kind"] == "sliver":
            import os
            import tempfile

            nx, ny = spec["nx"], spec["ny"]
            nid = lambda i, j: j * (nx + 1) + i + 1  # noqa: E731
            pts = [(i, j) for j in range(ny + 1) for i in range(nx + 1)]
            tris = [(nid(0, 0), nid(1, 0), nid(2, 0))]  # first element of the file: zero area
            for j in range(ny):
                for i in range(nx):
                    a, b, c, d_ = nid(i, j), nid(i + 1, j), nid(i + 1, j + 1), nid(i, j + 1)
                    tris += [(a, b, c), (a, c, d_)]
            tmpd = tempfile.mkdtemp(prefix="c20_")
            path = os.path.join(tmpd, "grid_with_sliver.msh")
            with open(path, "w") as f:
                f.write("$MeshFormat\n2.2 0 8\n$EndMeshFormat\n")
                f.write(f"$Nodes\n{len(pts)}\n")
                for k_, (x, y) in enumerate(pts):
                    f.write(f"{k_ + 1} {float(x)} {float(y)} 0.0\n")
                f.write(f"$EndNodes\n$Elements\n{len(tris)}\n")
                for k_, t in enumerate(tris):
                    f.write(f"{k_ + 1} 2 2 1 1 {t[0]} {t[1]} {t[2]}\n")
                f.write("$EndElements\n")
            try:
                gmsh.open(path)
                return mesher._Mesh_Get_Meshes(nproc)
            finally:
                import shutil

                shutil.rmtree(tmpd, ignore_errors=True)
        if spec["kind"] == "poly":
            et = ElemType[spec["et"]]
            h = spec["h"]
            contour = Points(Z.POLYGONS[spec["poly"]], h)
            surfaces, _, _ = mesher._Surfaces(contour, [])
            mesher._Organise_Surfaces(et, bool(spec.get("org", False)), h)
            if dim == 3:
                mesher._Extrude(surfaces, [0, 0, 0.6], et, [spec["layers"]])
        else:
            # two adjacent surfaces, the second one recombined into quadrangles: TRI+QUAD (extruded: PRISM+HEXA)
            h = spec["h"]
            left = Domain(Point(0, 0), Point(1.0, 1.0), h)
            right = Domain(Point(1.0, 0.0), Point(1.8, 1.0), h, isFilled=True)
            mesher._Surfaces(left, [])
            mesher._Additional_Surfaces(2, [right])
            mesher._Synchronize()
            surfaces = [t for _, t in mesher._factory.getEntities(2)]
            mesher._Surfaces_Organize(surfaces[1:], ElemType.QUAD4, True)
            if dim == 3:
                et = ElemType.PRISM6
                mesher._Synchronize()
                mesher._Extrude(surfaces, [0, 0, 0.5], et, [int(spec.get("layers", 1))])
            else:
                et = ElemType.TRI3 if spec["order"] == 1 else ElemType.TRI6
        mesher._Set_PhysicalGroups()
        mesher._Mesh_Generate(dim, et)
        if "coef" in spec:
            return mesher._Mesh_Get_Meshes(nproc, spec["coef"])
        return mesher._Mesh_Get_Meshes(nproc)
    except BaseException:
        # (a refused job leaves the session to its caller; a job that succeeds is left exactly as the library leaves it: the next job of
        # this process starts from there)
        if gmsh.isInitialized():
            gmsh.finalize()
        raise


def _main(mesh):
    """{elemType name: group} of the main-dimension groups."""
    return {g.elemType.name: g for g in mesh.Get_list_groupElem()}


def _groups(mesh):
    """{elemType name: group} of every group of dimension >= 1 (main-dimension and boundary groups; POINT groups carry no
    integral and are left out)."""
    return {et.name: g for et, g in mesh.dict_groupElem.items() if g.dim >= 1}


def _pdata(g):
    rank, el, gh, no, gno = g._Get_partitioned_data()
    return int(rank), np.asarray(el, dtype=int), np.asarray(gh, dtype=int), np.asarray(no, dtype=int), np.asarray(gno, dtype=int)


def _simus(mesh, dim):
    from EasyFEA import Models, Simulations

    el = Simulations.Elastic(mesh, Models.Elastic.Isotropic(dim, E=2.0, v=0.3, planeStress=True, thickness=0.7))
    el.rho = 1.3
    th = Simulations.Thermal(mesh, Models.Thermal(k=1.5, c=0.8, thickness=0.7))
    th.rho = 1.3
    return {"elastic": el, "thermal": th}


BODY = {"elastic": ([lambda x, y, z: 1.0 + 0.5 * x - 0.3 * y + 0.2 * z, -0.7], ["x", "y"]), "thermal": ([lambda x, y, z: 0.6 + x * y - 0.4 * z], ["t"])}
BOUNDARY = {"elastic": ([lambda x, y, z: 0.4 + x * y + 0.3 * z, 0.9], ["x", "y"]), "thermal": ([lambda x, y, z: 0.8 - 0.5 * x + y], ["t"])}


def _loads(sims, mesh, dim):
    """{prob: {"body": vector, "boundary": vector}}: a body load over the main-dimension elements and a load over the whole boundary,
    given through the nodes of the mesh as a user does (`Nodes_Conditions` under MPI returns the rank's nodes); the vectors are read back
    with Bc_vector_Neumann and the conditions removed again."""
    nodes = np.asarray(mesh.nodes, dtype=int)
    nb = sum(int(g.Ne) for g in mesh.Get_list_groupElem(dim - 1))
    out = {}
    for prob, s in sims.items():
        body = s.add_volumeLoad  # main-dimension elements (2D: x thickness)
        bnd = s.add_surfLoad  # boundary elements (2D: edges x thickness)
        out[prob] = {}
        for nm, fun, (vals, unk) in (("body", body, BODY[prob]), ("boundary", bnd, BOUNDARY[prob])):
            s.Bc_Init()
            # a part without any boundary element carries no boundary load (add_lineLoad / add_surfLoad on a node set that holds no
            # complete element raises ZeroDivisionError in BoundaryCondition.__init__: load API, outside this property)
            if nm == "body" or nb > 0:
                fun(nodes, vals, unk)
            out[prob][nm] = np.asarray(s.Bc_vector_Neumann(s.problemType), dtype=float).ravel()
        s.Bc_Init()
    return out


def _dense(A):
    return A.toarray() if hasattr(A, "toarray") else np.asarray(A)


# ------------------------------------------------------------------------------------------------
# partition cases
# ------------------------------------------------------------------------------------------------
def _run_partition(case):
    name, nproc = case["mesh"], int(case["Nproc"])
    spec = PART_MESHES[name]
    dim = spec["dim"]
    key = dict(mesh=name, Nproc=nproc)
    v = []
    ntr = 0

    G = _partition(name, 1)[0]
    ntr += 1
    groupsG = _groups(G)
    mainT = set(_main(G))
    conG = {t: np.asarray(g.connect, dtype=int) for t, g in groupsG.items()}
    NeG = sum(c.shape[0] for t, c in conG.items() if t in mainT)

    def lvl(t):  # check-name prefix: boundary groups are reported apart from the main-dimension ones
        return "" if t in mainT else "boundary_"

    coordG = np.asarray(G.coord, dtype=float)
    NnG = int(G.Nn)
    if NeG != case["ne"]:
        return {"violations": [], "skipped": f"mesh generator gave {NeG} elements for {name}, declared {case['ne']}", "fingerprint": "drift",
                "nontrivial": False, "outcome": "drift", "transitions": ntr}

    # ---- the partitioner refuses more parts than elements (then nothing is promised) ------------
    try:
        parts = _partition(name, nproc)
        ntr += 1
    except AssertionError as err:
        if nproc > NeG:
            return {"violations": [], "fingerprint": fp(name, "refused"), "nontrivial": False, "outcome": "refused", "transitions": ntr}
        v.append(viol("partition_refused", f"{name}: Nproc={nproc} <= Ne={NeG} refused: {str(err)[:200]}", **key))
        return {"violations": v, "fingerprint": fp(name, nproc, "refused?"), "nontrivial": False, "outcome": "violation", "transitions": ntr}
    if nproc > NeG:
        v.append(viol("more_parts_than_elements_accepted", f"{name}: Nproc={nproc} > Ne={NeG} was accepted", **key))

    if len(parts) != nproc:
        v.append(viol("parts_count", f"{name}: {len(parts)} meshes returned for Nproc={nproc}", **key))
        return {"violations": v, "fingerprint": fp(name, nproc, len(parts)), "nontrivial": False, "transitions": ntr}

    # ---- plain tables of what the implementation returned ----------------------------------------
    T = []  # per part: {"groups": {type: dict}, "ownedNodes": array}
    for r, pm in enumerate(parts):
        rec = {"groups": {}, "Nn": int(pm.Nn)}
        for t, g in _groups(pm).items():
            rank, el, gh, no, gno = _pdata(g)
            rec["groups"][t] = dict(rank=rank, owned=el, ghost=gh, nodes=no, ghostNodes=gno, connect=np.asarray(g.connect, dtype=int),
                                    glob=np.asarray(g._globalElements, dtype=int), gnodes=np.asarray(g.nodes, dtype=int),
                                    gcoord=np.asarray(g.coord, dtype=float))
        rec["ownedNodes"] = np.asarray(pm._Get_mpi_owned_nodes(), dtype=int) if _main(pm) else np.zeros(0, dtype=int)
        T.append(rec)

    # ---- numbering, coordinates, orientation kept -------------------------------------------------
    for r, (pm, rec) in enumerate(zip(parts, T)):
        if rec["Nn"] != NnG:
            v.append(viol("numbering_kept", f"{name} Nproc={nproc} part {r}: Nn={rec['Nn']} but the global mesh has {NnG} nodes", **key))
            continue
        for t, d in rec["groups"].items():
            if t not in conG:
                v.append(viol("foreign_group", f"{name} Nproc={nproc} part {r}: group {t} does not exist in the global mesh", elemType=t, **key))
                continue
            if d["rank"] != r:
                v.append(viol("rank_label", f"{name} Nproc={nproc}: part {r} group {t} carries rank {d['rank']}", elemType=t, **key))
            for nm in ("owned", "ghost", "nodes", "ghostNodes"):
                a = d[nm]
                if a.size > 1 and np.any(np.diff(a) <= 0):
                    v.append(viol("partition_data_sorted", f"{name} Nproc={nproc} part {r} {t}: `{nm}` is not strictly increasing: {a.tolist()[:12]}", elemType=t, field=nm, **key))
            both = np.union1d(d["owned"], d["ghost"])
            if np.intersect1d(d["owned"], d["ghost"]).size:
                v.append(viol("ghost_is_owned", f"{name} Nproc={nproc} part {r} {t}: elements {np.intersect1d(d['owned'], d['ghost']).tolist()} both owned and ghost", elemType=t, **key))
            if not np.array_equal(d["glob"], both) or d["connect"].shape[0] != both.size:
                v.append(viol("part_rows", f"{name} Nproc={nproc} part {r} {t}: {d['connect'].shape[0]} rows, _globalElements={d['glob'].tolist()[:10]}, owned+ghost={both.tolist()[:10]}", elemType=t, **key))
                continue
            if both.size and (both.max() >= conG[t].shape[0] or both.min() < 0):
                v.append(viol("element_index_range", f"{name} Nproc={nproc} part {r} {t}: element index outside 0..{conG[t].shape[0] - 1}", elemType=t, **key))
                continue
            if not np.array_equal(d["connect"], conG[t][both]):
                v.append(viol("connect_kept", f"{name} Nproc={nproc} part {r} {t}: connectivity rows differ from the global rows of the same elements (global node numbering / orientation lost)", elemType=t, **key))
            if not np.array_equal(d["gcoord"], coordG[d["gnodes"]]):
                v.append(viol("coordinates_kept", f"{name} Nproc={nproc} part {r} {t}: coordinates of the part's nodes differ from the global ones", elemType=t, **key))
            # ghost nodes = nodes of the part's elements that the part does not own (bookkeeping of _Set_partitioned_data)
            exp_gn = np.setdiff1d(d["gnodes"], d["nodes"])
            if not np.array_equal(np.sort(d["ghostNodes"]), exp_gn):
                v.append(viol("ghost_nodes", f"{name} Nproc={nproc} part {r} {t}: ghostNodes {d['ghostNodes'].tolist()[:12]} != nodes of the group minus owned {exp_gn.tolist()[:12]}", elemType=t, **key))
            if np.setdiff1d(d["nodes"], d["gnodes"]).size:
                v.append(viol("owned_node_outside_part", f"{name} Nproc={nproc} part {r} {t}: owned nodes {np.setdiff1d(d['nodes'], d['gnodes']).tolist()} are not nodes of the part", elemType=t, **key))
        # coordinates through the mesh-level accessor (rows of the part's nodes)
        pn = np.asarray(pm.nodes, dtype=int) if _main(pm) else np.zeros(0, dtype=int)
        if pn.size and not np.array_equal(np.asarray(pm.coord)[pn], coordG[pn]):
            v.append(viol("coordinates_kept", f"{name} Nproc={nproc} part {r}: mesh.coord rows of the part's nodes differ from the global ones", elemType="mesh", **key))
        # node tags (physical groups) on a part: every node of the tag that the part HOLDS (owned or ghost: the boundary elements a load or a
        # condition selected by tag is integrated on reach across the cut) must still be returned by the tag
        if pn.size:
            held = np.unique(np.concatenate([d["gnodes"] for d in rec["groups"].values()] or [np.zeros(0, dtype=int)]))
            gtags = sorted({tg for g in G.dict_groupElem.values() for tg in g._dict_nodes_tags})
            for tg in gtags:
                want = np.intersect1d(np.asarray(G.Nodes_Tags(tg), dtype=int), held)
                try:
                    got = np.asarray(pm.Nodes_Tags(tg), dtype=int)
                except Exception as err:
                    if want.size:
                        v.append(viol("tag_nodes", f"{name} Nproc={nproc} part {r}: Nodes_Tags('{tg}') raised {type(err).__name__} although the part holds "
                                                   f"{want.size} nodes of the tag", elemType="mesh", **key))
                    continue
                ntr += 1
                miss = np.setdiff1d(want, got)
                if miss.size:
                    v.append(viol("tag_nodes", f"{name} Nproc={nproc} part {r}: Nodes_Tags('{tg}') misses nodes {miss.tolist()[:10]} that the part holds "
                                               f"(owned or ghost) and the tag of the global mesh contains", elemType="mesh", **key))
                    break
    if v:
        return {"violations": v[:6], "fingerprint": fp(name, nproc, "bookkeeping"), "nontrivial": False, "transitions": ntr}

    # ---- one owner per element --------------------------------------------------------------------
    owner_e = {}
    for t, c in conG.items():
        cnt = np.zeros(c.shape[0], dtype=int)
        own = np.full(c.shape[0], -1, dtype=int)
        for r, rec in enumerate(T):
            d = rec["groups"].get(t)
            if d is None:
                continue
            np.add.at(cnt, d["owned"], 1)
            own[d["owned"]] = r
        if np.any(cnt != 1):
            bad = np.where(cnt != 1)[0]
            v.append(viol(lvl(t) + "element_one_owner", f"{name} Nproc={nproc} {t}: elements {bad.tolist()[:10]} have {cnt[bad].tolist()[:10]} owners", elemType=t, **key))
        owner_e[t] = own

    # ---- one owner per node -----------------------------------------------------------------------
    used = np.unique(np.concatenate([c.ravel() for t, c in conG.items() if t in mainT]))
    cntn = np.zeros(NnG, dtype=int)
    owner_n = np.full(NnG, -1, dtype=int)
    for r, rec in enumerate(T):
        on = rec["ownedNodes"]
        if on.size and (on.min() < 0 or on.max() >= NnG):
            v.append(viol("node_index_range", f"{name} Nproc={nproc} part {r}: owned node outside 0..{NnG - 1}", **key))
            continue
        np.add.at(cntn, on, 1)
        owner_n[on] = r
    badn = used[cntn[used] != 1]
    if badn.size:
        v.append(viol("node_one_owner", f"{name} Nproc={nproc}: nodes {badn.tolist()[:10]} have {cntn[badn].tolist()[:10]} owners", **key))
    strange = np.setdiff1d(np.where(cntn > 0)[0], used)
    if strange.size:
        v.append(viol("node_one_owner", f"{name} Nproc={nproc}: nodes {strange.tolist()[:10]} are owned but belong to no main-dimension element", **key))

    # ---- part == owned elements + every element touching an owned node, no more -------------------
    n_ghost_total = 0
    for r, rec in enumerate(T):
        mask = np.zeros(NnG, dtype=bool)
        mask[rec["ownedNodes"]] = True
        for t, c in conG.items():
            d = rec["groups"].get(t)
            have = d["glob"] if d is not None else np.zeros(0, dtype=int)
            owned = d["owned"] if d is not None else np.zeros(0, dtype=int)
            touching = np.where(mask[c].any(axis=1))[0]
            expected = np.union1d(owned, touching)
            missing = np.setdiff1d(expected, have)
            extra = np.setdiff1d(have, expected)
            n_ghost_total += int(np.setdiff1d(have, owned).size) if t in mainT else 0
            if missing.size:
                v.append(viol(lvl(t) + "ghost_layer_missing", f"{name} Nproc={nproc} part {r}: {t} elements {missing.tolist()[:10]} touch nodes owned by the part "
                              f"(e.g. node {int(c[missing[0]][mask[c[missing[0]]]][0])}) but are not in the part", elemType=t, **key))
            if extra.size:
                v.append(viol(lvl(t) + "ghost_layer_extra", f"{name} Nproc={nproc} part {r}: {t} elements {extra.tolist()[:10]} are in the part but neither owned nor touching an owned node", elemType=t, **key))
            # the nodes a rank owns lie on elements it owns (an owner that cannot see the node could not own its row)
        onodes = rec["ownedNodes"]
        own_el_nodes = [conG[t][rec["groups"][t]["owned"]].ravel() for t in conG if t in rec["groups"] and t in mainT]
        own_el_nodes = np.unique(np.concatenate(own_el_nodes)) if own_el_nodes else np.zeros(0, dtype=int)
        if np.setdiff1d(onodes, own_el_nodes).size:
            v.append(viol("owned_node_not_on_owned_element", f"{name} Nproc={nproc} part {r}: owned nodes {np.setdiff1d(onodes, own_el_nodes).tolist()[:10]} lie on no element the part owns", **key))

    # ---- reproducible ------------------------------------------------------------------------------
    parts2 = _partition(name, nproc)
    ntr += 1
    same = len(parts2) == len(parts)
    if same:
        for pm, pm2 in zip(parts, parts2):
            g1, g2 = _groups(pm), _groups(pm2)
            if set(g1) != set(g2):
                same = False
                break
            for t in g1:
                a, b = _pdata(g1[t]), _pdata(g2[t])
                if a[0] != b[0] or any(not np.array_equal(x, y) for x, y in zip(a[1:], b[1:])) or not np.array_equal(g1[t].connect, g2[t].connect):
                    same = False
    if not same:
        v.append(viol("reproducible", f"{name} Nproc={nproc}: two runs of the same input give different splits", **key))

    # ---- row-complete systems, owned-row energies and reactions -----------------------------------
    energies = []
    sysfp = []
    ownership_ok = not any(x["check"] in ("node_one_owner", "element_one_owner") for x in v)
    bdim = dim - 1
    simG = _simus(G, dim)
    partsims = [(_simus(pm, dim) if any(d["connect"].shape[0] for t, d in rec["groups"].items() if t in mainT) else None)
                for pm, rec in zip(parts, T)]
    loadsG = _loads(simG, G, dim)
    loadsP = [(_loads(ps, pm, dim) if ps is not None else None) for ps, pm in zip(partsims, parts)]
    ntr += 4 * (1 + sum(1 for ps in partsims if ps is not None))
    for prob in ("elastic", "thermal"):
        sG = simG[prob]
        pt = sG.problemType
        dof_n = int(sG.Get_dof_n(pt))
        unk = sG.Get_unknowns(pt)
        KG, CG, MG, FG = [_dense(a) for a in sG.Get_K_C_M_F(pt)]
        ntr += 1
        Ndof = NnG * dof_n
        u = rng("c20u", name, prob).normal(size=Ndof)
        scK, scM = max(np.abs(KG).max(), 1e-300), max(np.abs(MG).max(), 1e-300)
        E_ref = 0.5 * float(u @ (KG @ u))
        E_abs = 0.5 * float(np.abs(u) @ (np.abs(KG) @ np.abs(u)))
        R_ref = KG @ u
        R_abs = np.abs(KG) @ np.abs(u)
        bG = loadsG[prob]
        E_sum, R_sum = 0.0, np.zeros(Ndof)
        cover = np.zeros(Ndof, dtype=int)
        for r, (pm, rec) in enumerate(zip(parts, T)):
            on = rec["ownedNodes"]
            ref_dofs = (on[:, None] * dof_n + np.arange(dof_n)[None, :]).ravel()
            if partsims[r] is None:
                if on.size:
                    v.append(viol("owned_nodes_without_elements", f"{name} Nproc={nproc} part {r} owns nodes but holds no element", **key))
                continue
            sP = partsims[r][prob]
            dofs = np.asarray(sP.Bc_dofs_nodes(on, unk, pt), dtype=int)
            if not np.array_equal(np.sort(dofs), np.sort(ref_dofs)):
                v.append(viol("owned_dofs", f"{name} Nproc={nproc} part {r} {prob}: Bc_dofs_nodes(owned nodes) != node*dof_n + component", prob=prob, **key))
                continue
            KP, CP, MP, FP = [_dense(a) for a in sP.Get_K_C_M_F(pt)]
            ntr += 1
            if KP.shape != KG.shape:
                v.append(viol("system_size", f"{name} Nproc={nproc} part {r} {prob}: K of the part is {KP.shape}, global {KG.shape} (global dof numbering lost)", prob=prob, **key))
                continue
            for nm, AP, AG, sc in (("K", KP, KG, scK), ("M", MP, MG, scM)):
                if ref_dofs.size == 0:
                    continue
                err = float(np.abs(AP[ref_dofs] - AG[ref_dofs]).max())
                if err > TOL_K * sc:
                    rows = ref_dofs[np.abs(AP[ref_dofs] - AG[ref_dofs]).max(axis=1) > TOL_K * sc]
                    v.append(viol("owned_rows", f"{name} Nproc={nproc} part {r} {prob}: {nm} assembled on the part differs from the global {nm} on owned rows "
                                  f"(nodes {sorted(set((rows // dof_n).tolist()))[:8]}), max err {err:.3e}, scale {sc:.2e}", prob=prob, matrix=nm, **key))
            # distributed loads: body load on the main-dimension elements, boundary load on the boundary elements
            for nm, bP in loadsP[r][prob].items():
                sc = max(np.abs(bG[nm]).max(), 1e-300)
                if ref_dofs.size and np.abs(bP[ref_dofs] - bG[nm][ref_dofs]).max() > TOL_K * sc:
                    rows = ref_dofs[np.abs(bP[ref_dofs] - bG[nm][ref_dofs]) > TOL_K * sc]
                    v.append(viol("load_rows", f"{name} Nproc={nproc} part {r} {prob}: the {nm} load integrated on the part differs from the global load vector on owned rows "
                                  f"(nodes {sorted(set((rows // dof_n).tolist()))[:8]}), max err {np.abs(bP[ref_dofs] - bG[nm][ref_dofs]).max():.3e}, scale {sc:.2e}", prob=prob, load=nm, **key))
            # owned-row energy and reaction through the simulation's own functions
            e_r = float(sP.Calc_Energy(sP.Get_K_C_M_F(pt)[0], u, dofs))
            E_sum += e_r
            sP._Set_solutions(pt, u.copy())
            rea = np.asarray(sP.Calc_Reaction(dofs.copy(), pt), dtype=float)
            ntr += 2
            if rea.shape != dofs.shape:
                v.append(viol("reaction_shape", f"{name} Nproc={nproc} part {r} {prob}: Calc_Reaction(owned dofs) has shape {rea.shape}, expected {dofs.shape}", prob=prob, **key))
            else:
                np.add.at(R_sum, dofs, rea)
                np.add.at(cover, dofs, 1)
        if ownership_ok:
            if abs(E_sum - E_ref) > TOL_SUM * max(E_abs, 1e-300):
                v.append(viol("energy_sum", f"{name} Nproc={nproc} {prob}: sum over parts of Calc_Energy(K_part, u, owned dofs) = {E_sum:.15g}, global 1/2 u^T K u = {E_ref:.15g}", prob=prob, **key))
            bad = np.abs(R_sum - R_ref) > TOL_SUM * np.maximum(R_abs, R_abs.max() * 1e-3)
            if np.any(bad):
                v.append(viol("reaction_sum", f"{name} Nproc={nproc} {prob}: reactions summed over parts differ from the global K u at dofs {np.where(bad)[0].tolist()[:8]} "
                              f"(max err {np.abs(R_sum - R_ref).max():.3e})", prob=prob, **key))
            # the global simulation's own answer (serial semantics: all dofs)
            sG._Set_solutions(pt, u.copy())
            allDofs = np.asarray(sG.Get_dofs(pt), dtype=int)
            RG = np.zeros(Ndof)
            RG[allDofs] = np.asarray(sG.Calc_Reaction(None, pt), dtype=float)
            EG = float(sG.Calc_Energy(sG.Get_K_C_M_F(pt)[0], u))
            ntr += 2
            if abs(EG - E_sum) > TOL_SUM * max(E_abs, 1e-300) or np.any(np.abs(RG - R_sum) > TOL_SUM * np.maximum(R_abs, R_abs.max() * 1e-3)):
                v.append(viol("global_vs_parts", f"{name} Nproc={nproc} {prob}: Calc_Energy / Calc_Reaction of the unpartitioned simulation ({EG:.15g}) != sum over parts ({E_sum:.15g})", prob=prob, **key))
        energies.append(E_sum)
        sysfp.append(fp(KG))

    # ---- merging the parts gives the global element set back ------------------------------------
    if nproc >= 2:
        v += _roundtrip(parts, T, conG, coordG, key, name)
        ntr += 1
        # ---- a part written with Mesh.Save and read back (what every rank does with its piece between a computation and its
        # post-processing) is the same part: rank, owned / ghost elements, owned nodes, global node numbers, tags
        import contextlib
        import io
        import shutil
        import tempfile

        from EasyFEA.FEM._mesh import Load_Mesh

        tmp = tempfile.mkdtemp(prefix="c20_")
        try:
            for r, part in enumerate(parts):
                with contextlib.redirect_stdout(io.StringIO()):
                    path = part.Save(tmp, f"part{r}")
                    back = Load_Mesh(path)
                ntr += 2
                g0, g1 = _groups(part), _groups(back)
                if sorted(g0) != sorted(g1):
                    v.append(viol("part_saveload", f"{name} Nproc={nproc} part {r}: groups {sorted(g1)} after Save/Load_Mesh, {sorted(g0)} before", item="groups", **key))
                    continue
                for t in g0:
                    items = ("rank", "elements", "ghostElements", "nodes", "globalNodes")
                    for nm, a, b in zip(items, _pdata(g0[t]), _pdata(g1[t])):
                        if not np.array_equal(a, b):
                            v.append(viol("part_saveload", f"{name} Nproc={nproc} part {r} group {t}: {nm} differs after Save/Load_Mesh "
                                                           f"({np.asarray(b).ravel()[:6].tolist()} ... vs {np.asarray(a).ravel()[:6].tolist()} ...)", item=nm, elemType=t, **key))
                            break
                    if not np.array_equal(np.asarray(g0[t].connect), np.asarray(g1[t].connect)):
                        v.append(viol("part_saveload", f"{name} Nproc={nproc} part {r} group {t}: connectivity differs after Save/Load_Mesh", item="connect", elemType=t, **key))
        finally:
            shutil.rmtree(tmp, ignore_errors=True)

    n_shared = int(sum(np.setdiff1d(np.unique(np.concatenate([d["gnodes"] for t, d in rec["groups"].items() if t in mainT] + [np.zeros(0, dtype=int)])),
                                    rec["ownedNodes"]).size for rec in T))
    nontrivial = nproc >= 2 and n_ghost_total > 0 and n_shared > 0
    fpr = fp(name, nproc, [owner_e[t].tolist() for t in sorted(owner_e)], owner_n.tolist(), np.array(energies), sysfp)
    # keep one violation per (check, elemType/prob): the first part that shows it
    seen, out = set(), []
    for x in v:
        k = tuple(sorted(x["key"].items()))
        if k not in seen:
            seen.add(k)
            out.append(x)
    return {"violations": out[:12], "fingerprint": fpr, "nontrivial": bool(nontrivial), "outcome": "violation" if out else "partitioned",
            "transitions": ntr, "states": nproc}


def _roundtrip(parts, T, conG, coordG, key, name):
    """Mesh.Merge(parts, return_mapping=True): on the nodes of each part the mapping leads to the same coordinates, two parts map a
    shared global node to the same merged node, and the merged main-dimension elements are the global ones (ghost copies removed)."""
    from EasyFEA import Mesh

    v = []
    try:
        merged, mapping = Mesh.Merge(list(parts), return_mapping=True)
    except Exception as err:  # Merge promises a result for any list of meshes
        return [viol("roundtrip_exception", f"{name}: Mesh.Merge(parts) raised {type(err).__name__}: {str(err)[:200]}", **key)]
    mc = np.asarray(merged.coord, dtype=float)
    img = np.full(coordG.shape[0], -1, dtype=int)
    for r, (pm, rec) in enumerate(zip(parts, T)):
        if not rec["groups"]:
            continue
        pn = np.unique(np.concatenate([d["gnodes"] for d in rec["groups"].values()]))
        mp = np.asarray(mapping[r], dtype=int)
        if mp.shape[0] != coordG.shape[0]:
            v.append(viol("roundtrip_mapping", f"{name}: mapping[{r}] has {mp.shape[0]} entries, the part has {coordG.shape[0]} node rows", **key))
            return v
        if pn.size and np.abs(mc[mp[pn]] - coordG[pn]).max() > 1e-11:
            v.append(viol("roundtrip_mapping", f"{name}: merged.coord[mapping[{r}]] differs from the coordinates of part {r}", **key))
        clash = pn[(img[pn] >= 0) & (img[pn] != mp[pn])]
        if clash.size:
            v.append(viol("roundtrip_identify", f"{name}: global nodes {clash.tolist()[:8]} seen by two parts map to different merged nodes", **key))
        img[pn] = mp[pn]
    if v:
        return v
    mg = _groups(merged)
    for t, c in conG.items():
        if t not in mg:
            v.append(viol("roundtrip_elements", f"{name}: merged mesh has no {t} group", elemType=t, **key))
            continue
        got = Counter(tuple(row) for row in np.asarray(mg[t].connect, dtype=int).tolist())
        exp = Counter(tuple(row) for row in img[c].tolist())
        if got != exp:
            v.append(viol("roundtrip_elements", f"{name}: merging the parts gives {sum(got.values())} {t} elements, the global mesh has {sum(exp.values())}; "
                          f"{len((got - exp))} unexpected, {len((exp - got))} missing", elemType=t, **key))
    return v


# ------------------------------------------------------------------------------------------------
# merge cases
# ------------------------------------------------------------------------------------------------
def _cluster(points):
    """Reference identification of coincident points: ids by coordinates rounded to 1e-9 (points of the alphabet are either
    >= 0.2 apart or <= 1e-14 apart, and no coordinate sits near a rounding boundary of the 1e-9 grid by more than chance: checked)."""
    keys = {}
    ids = np.empty(len(points), dtype=int)
    for i, p in enumerate(points):
        k = tuple(np.round(p, 9) + 0.0)
        if k not in keys:
            keys[k] = len(keys)
        ids[i] = keys[k]
    return ids, len(keys)


_NODES_PER = {  # nodes of a conforming mesh from its vertex-level topology: (per vertex, per edge, per triangular face, per quadrangular face, per cell)
    "TRI3": (1, 0, 0, 0, 0), "TRI6": (1, 1, 0, 0, 0), "TRI10": (1, 2, 1, 0, 0), "TRI15": (1, 3, 3, 0, 0),
    "QUAD4": (1, 0, 0, 0, 0), "QUAD8": (1, 1, 0, 0, 0), "QUAD9": (1, 1, 0, 1, 0),
    "TETRA4": (1, 0, 0, 0, 0), "TETRA10": (1, 1, 0, 0, 0), "HEXA8": (1, 0, 0, 0, 0), "HEXA20": (1, 1, 0, 0, 0), "HEXA27": (1, 1, 0, 1, 1),
    "PRISM6": (1, 0, 0, 0, 0), "PRISM15": (1, 1, 0, 0, 0), "PRISM18": (1, 1, 0, 1, 0),
}
_EDGES = {"TRI": [(0, 1), (1, 2), (2, 0)], "QUAD": [(0, 1), (1, 2), (2, 3), (3, 0)],
          "TETRA": [(0, 1), (1, 2), (2, 0), (0, 3), (1, 3), (2, 3)],
          "HEXA": [(0, 1), (1, 2), (2, 3), (3, 0), (4, 5), (5, 6), (6, 7), (7, 4), (0, 4), (1, 5), (2, 6), (3, 7)],
          "PRISM": [(0, 1), (1, 2), (2, 0), (3, 4), (4, 5), (5, 3), (0, 3), (1, 4), (2, 5)]}
_FACES = {"TRI": [(0, 1, 2)], "QUAD": [(0, 1, 2, 3)], "TETRA": [(0, 1, 2), (0, 1, 3), (1, 2, 3), (0, 2, 3)],
          "HEXA": [(0, 1, 2, 3), (4, 5, 6, 7), (0, 1, 5, 4), (1, 2, 6, 5), (2, 3, 7, 6), (3, 0, 4, 7)],
          "PRISM": [(0, 1, 2), (3, 4, 5), (0, 1, 4, 3), (1, 2, 5, 4), (2, 0, 3, 5)]}


def _expected_node_count(et, con):
    """number of nodes of a conforming mesh of `et` elements, counted from the VERTICES of its elements (first nodes of each row)"""
    tp = Z.topo(et)
    nv = {"TRI": 3, "QUAD": 4, "TETRA": 4, "HEXA": 8, "PRISM": 6}[tp]
    V = np.asarray(con)[:, :nv]
    verts = set(V.ravel().tolist())
    edges = {tuple(sorted((int(r[a]), int(r[b])))) for r in V for a, b in _EDGES[tp]}
    f3 = {tuple(sorted(int(r[i]) for i in f)) for r in V for f in _FACES[tp] if len(f) == 3}
    f4 = {tuple(sorted(int(r[i]) for i in f)) for r in V for f in _FACES[tp] if len(f) == 4}
    pv, pe, p3, p4, pc = _NODES_PER[et]
    return pv * len(verts) + pe * len(edges) + p3 * len(f3) + p4 * len(f4) + pc * V.shape[0]


def _signature(parts):
    sig = []
    for part in parts:
        for et, g in part.dict_groupElem.items():
            sig.append((et.name, np.asarray(g.connect).tolist(), [np.asarray(a).tolist() if hasattr(a, "__len__") else a for a in g._Get_partitioned_data()]))
        sig.append(np.round(np.asarray(part.coord, dtype=float), 10).tolist())
    return sig


def _run_jobs(case):
    a, b = case["first"], case["second"]
    key = dict(first=a, second=b)
    etb = PART_MESHES[b]["et"]
    v = []
    _partition(a, 2)
    B1 = _partition(b, 2)
    B2 = _partition(b, 2)
    for r, part in enumerate(B1):
        names = sorted(_main(part))
        if names != [etb]:
            v.append(viol("job_elemtype", f"job 2 asked for {etb} (after a {PART_MESHES[a]['et']} job in the same process): part {r} is made of {names}", **key))
            break
    if not v:
        # the parts keep the global numbering: all elements of all parts, by their global node rows
        rows = {tuple(r) for part in B1 for r in np.asarray(_main(part)[etb].connect).tolist()}
        con = np.array(sorted(rows))
        nexp = _expected_node_count(etb, con)
        owned = np.unique(np.concatenate([np.asarray(part._Get_mpi_owned_nodes()) for part in B1]))
        if owned.size != nexp or np.unique(con).size != nexp:
            v.append(viol("job_node_count", f"job 2 ({etb} after {PART_MESHES[a]['et']}): {owned.size} owned nodes, {np.unique(con).size} nodes used by the elements, "
                                            f"{nexp} expected from the vertices, edges, faces and cells of the mesh", **key))
    if _signature(B1) != _signature(B2):
        v.append(viol("job_not_reproducible", f"the same {etb} split done twice in a row (after a {PART_MESHES[a]['et']} job) differs", **key))
    return {"violations": v, "fingerprint": fp("jobs", a, b, _signature(B1)), "nontrivial": True, "outcome": "violation" if v else "jobs_ok", "transitions": 3}


def _run_merge(case):
    from EasyFEA import Mesh

    name, mp, uniq, mpts, letters = case["mesh"], case["map"], bool(case["unique"]), bool(case["mergePoints"]), list(case["list"])
    key = dict(mesh=name, map=mp, unique=uniq, mergePoints=mpts, list=case["list"])
    zm0 = MERGE_MESHES[name]()
    d = zm0.dim
    A = np.eye(3) if mp == "identity" else Z.generic_affine(rng("c20merge", name), d)
    big = bool(case.get("big"))
    if big:
        A = A * 1000.0
        key["big"] = True
    zms = {L: zm0.mapped(A, A @ np.asarray(SHIFT[L])) for L in (set(LETTERS) | set(letters)) - {"W"}}
    if "W" in letters:
        zmE = zms["E"]
        used = np.unique(np.concatenate([np.asarray(c).ravel() for c in zmE.boundary.values()]))
        new = -np.ones(zmE.coords.shape[0], dtype=int)
        new[used] = np.arange(used.size)
        zms["W"] = Z.ZooMesh(zmE.coords[used], {t: new[np.asarray(c)] for t, c in zmE.boundary.items()}, {"dim": d - 1}, zmE.name + "|skin", {})
    d_exp = d if any(L != "W" for L in letters) else d - 1
    built = {}
    lst = []
    for L in letters:
        if L not in built:
            built[L] = zms[L].build()
        lst.append(built[L])
    v = []
    try:
        kw = {"mergePointsTol": 1e-6} if big else {}
        res = Mesh.Merge(lst, constructUniqueElements=uniq, mergePoints=mpts, return_mapping=True, **kw)
        merged, mapping = res
    except Exception as err:  # the property promises a merged mesh and a mapping for any list
        v.append(viol("merge_exception", f"Mesh.Merge of {letters} ({name}) raised {type(err).__name__}: {str(err)[:200]}", **key))
        return {"violations": v, "fingerprint": fp("exc", name, case["list"], type(err).__name__), "nontrivial": len(lst) > 1, "outcome": "exception", "transitions": 1}

    coords_i = [zms[L].coords for L in letters]
    sizes = [c.shape[0] for c in coords_i]
    allp = np.vstack(coords_i)
    offs = np.concatenate([[0], np.cumsum(sizes)[:-1]])
    if mpts and len(lst) > 1:
        ids, nexp = _cluster(allp)
        # guard of the reference model: clusters are tight and well separated
        cen = np.zeros((nexp, 3))
        cen[ids] = allp
        if np.abs(cen[ids] - allp).max() > 1e-12:
            return {"violations": [], "skipped": "reference clustering ambiguous", "fingerprint": "amb", "nontrivial": False, "transitions": 1}
    elif len(lst) == 1:
        ids, nexp = np.arange(allp.shape[0]), allp.shape[0]
    else:
        ids, nexp = np.arange(allp.shape[0]), allp.shape[0]
    mc = np.asarray(merged.coord, dtype=float)

    # mapping: one array per input mesh, leading to the same coordinates
    ok = True
    if len(mapping) != len(lst):
        v.append(viol("mapping_length", f"{len(mapping)} mapping arrays for {len(lst)} meshes", **key))
        ok = False
    else:
        for i, (m_i, c_i) in enumerate(zip(mapping, coords_i)):
            m_i = np.asarray(m_i)
            if m_i.shape != (c_i.shape[0],) or m_i.dtype.kind not in "iu" or (m_i.size and (m_i.min() < 0 or m_i.max() >= mc.shape[0])):
                v.append(viol("mapping_shape", f"mapping[{i}] has shape {m_i.shape}, dtype {m_i.dtype}, range outside the merged mesh ({mc.shape[0]} nodes)", **key))
                ok = False
                continue
            err = np.abs(mc[m_i] - c_i).max()
            if err > 1e-11:
                v.append(viol("mapping_coord", f"merged.coord[mapping[{i}]] differs from the coordinates of mesh {i} ({letters[i]}) by {err:.2e}", **key))
                ok = False
    if ok:
        mapped = np.concatenate([np.asarray(m) for m in mapping])
        pairs = set(zip(ids.tolist(), mapped.tolist()))
        if len(pairs) != nexp or len({b for _, b in pairs}) != nexp:
            nm = len({b for _, b in pairs})
            v.append(viol("identification", f"{allp.shape[0]} input nodes form {nexp} distinct points, the mapping uses {nm} merged nodes "
                          f"({'coincident nodes kept apart' if nm > nexp else 'distinct nodes identified'})", **key))
            ok = False
        if mc.shape[0] != nexp:
            v.append(viol("node_count", f"merged mesh has {mc.shape[0]} nodes, {nexp} distinct points expected", **key))
            ok = False
    if ok:
        # elements: every group of every dimension (boundary groups included)
        m2id = np.full(mc.shape[0], -1, dtype=int)
        m2id[mapped] = ids
        types = {}
        for L, off in zip(letters, offs):
            zm = zms[L]
            for t, con in list(zm.groups.items()) + list(zm.boundary.items()):
                types.setdefault(t, []).extend(tuple(row) for row in ids[con + off].tolist())
        got_types = {et.name: g for et, g in merged.dict_groupElem.items()}
        if set(got_types) != set(types):
            v.append(viol("group_types", f"merged groups {sorted(got_types)} != union of the inputs' groups {sorted(types)}", **key))
        for t in sorted(set(types) & set(got_types)):
            got = [tuple(row) for row in m2id[np.asarray(got_types[t].connect, dtype=int)].tolist()]
            exp = types[t]
            if uniq:
                # duplicates (same node set) removed, one representative kept with its own node order
                expset = {}
                for e in exp:
                    expset.setdefault(tuple(sorted(e)), set()).add(e)
                gotkeys = Counter(tuple(sorted(e)) for e in got)
                if set(gotkeys) != set(expset) or any(n != 1 for n in gotkeys.values()):
                    v.append(viol("elements_unique", f"{t}: merged mesh has {len(got)} elements ({len(gotkeys)} distinct node sets), the union of the inputs has {len(expset)} distinct elements", elemType=t, **key))
                elif any(e not in expset[tuple(sorted(e))] for e in got):
                    v.append(viol("element_orientation", f"{t}: a merged element lists its nodes in an order no input element has", elemType=t, **key))
            else:
                if Counter(got) != Counter(exp):
                    v.append(viol("elements_multiset", f"{t}: merged mesh has {len(got)} elements, the inputs together {len(exp)}; multisets differ", elemType=t, **key))
        if merged.dim != d_exp:
            v.append(viol("merged_dim", f"merged.dim = {merged.dim}, inputs have dim {d_exp}", **key))
        if len(merged.orphanNodes) > 0 and "W" not in letters:
            v.append(viol("orphan_nodes", f"merged mesh has orphan nodes {list(merged.orphanNodes)[:8]}", **key))
    fpr = fp(name, mp, uniq, mpts, case["list"], mc.shape[0], {et.name: int(g.Ne) for et, g in merged.dict_groupElem.items()},
             np.round(mc, 8)[np.lexsort(np.round(mc, 8).T)] if mc.size else mc)
    return {"violations": v[:6], "fingerprint": fpr, "nontrivial": len(lst) > 1, "outcome": "violation" if v else "merged", "transitions": 1 + len(built)}


def run_case(case):
    return globals()["_run_" + case["kind"]](case)
