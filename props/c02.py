"""C02 — K is symmetric PSD with exactly the physical kernel; M is SPD and carries the mass.

Bounded exhaustive enumeration (E1) of
    simulation {Elastic 2D/3D, Thermal 1D/2D/3D, Beam Euler-Bernoulli / Timoshenko 1D/2D/3D}
  x element type (19 Lagrange types where applicable; SEG2..5 for beams)
  x mesh {2 elements, 3-cell strip, k=2 grid, gmsh unstructured, affinely mapped (+ thorough extras)}
  x material x thickness {0.37, 1} x density {2.5, 1, per-element array}     (beams: x member direction
                                                                              x node order of the segments {fwd, rev, alt})
on the real implementation; the oracle works on the dense K, C, M of `simu.Get_K_C_M_F()`:

  K : symmetric; eigenvalues >= -1e-10 lmax; K R = 0 for the analytically built rigid-body / constant modes R
      (no missing mode); nullity(K) == rank(R) (no spurious mode); with rank(R) dofs restrained so that R is
      blocked, the reduced matrix is SPD (uniquely solvable).
  M : (capacity C for heat conduction) symmetric; continuum / thermal: lmin > 1e-10 lmax; T^T M T = m I for the
      unit translations T with m = sum_e rho_e (c_e) measure_e thickness; beams: PSD and T^T M T = sum rho A L.
      `simu.mass` (where defined) carries the same number.

Reference data are built here from the node coordinates and the vertex connectivity only (own quadrature of the
vertex (multi)linear map for the element measures, closed-form domain measures from the MeshZoo)."""
from __future__ import annotations

import itertools

import numpy as np

from mc.util import deviations, fp, rng, todense, viol
from zoo import meshes as Z

PROPERTY = "C02"

TOL_SYM = 1e-12     # ||A - A^T||_max / ||A||_max
TOL_NEG = 1e-10     # lmin >= -TOL_NEG * lmax
TOL_KR = 1e-9       # ||K r||_max <= TOL_KR * ||K||_max * ||r||_max
TOL_NULL = 1e-10    # eigenvalue counted as zero-energy when |l| <= TOL_NULL * lmax (round-off zeros are ~1e-15 lmax)
TOL_GAP = 1e-8      # eigenvalues in (TOL_NULL, TOL_GAP] * lmax : ambiguous -> assumption guard (case skipped, counted)
TOL_SPD = 1e-10     # lmin(M) > TOL_SPD * lmax(M) ; lmin(K_reduced) > TOL_SPD * lmax(K)
TOL_MASS = 1e-10    # relative error of the translational mass

THICK = {"t037": 0.37, "t1": 1.0}
RHO = ["r25", "r1", "relem"]

CONT_SIMS = {
    # sim: (space dimension, element types, materials)
    "elastic2d": (2, Z.TYPES_2D, ["iso_ps", "iso_pe", "aniso", "aniso_voigt", "tiso", "ortho", "hetero"]),
    "elastic3d": (3, Z.TYPES_3D, ["iso", "aniso", "aniso_voigt", "tiso", "ortho", "hetero"]),
    "thermal1d": (1, Z.TYPES_1D, ["k1", "khet"]),
    "thermal2d": (2, Z.TYPES_2D, ["k1", "khet"]),
    "thermal3d": (3, Z.TYPES_3D, ["k1", "khet"]),
}
CONT_MESHES = ["two", "strip3", "grid2", "gmsh", "mapped"]
BEAM_DIMS = {"beam1d": 1, "beam2d": 2, "beam3d": 3}
BEAM_THEORIES = ["EB", "TIMO"]
BEAM_MESHES = {1: ["two", "strip3", "gmsh", "twosec"], 2: ["two", "strip3", "gmsh", "twosec", "frame"],
               3: ["two", "strip3", "gmsh", "twosec", "frame"]}
# "negx0": the member lies ON the x axis and points towards -x (no offset: the mesh stays embedded in one dimension, which the library keys on)
# "incl_far": an inclined member far from the origin (coordinates ~ 3e4: a frame written in millimetres)
BEAM_DIRS = {1: ["x", "negx0"], 2: ["x", "y", "negx", "incl", "negx0", "incl_far"], 3: ["x", "y", "z", "incl", "negx0", "incl_far"]}
# node order of the segments of the hand-made beam meshes relative to the line of their member (a mesh does not promise an order:
# imported / hand-made / renumbered meshes): "fwd" every segment runs along its member line, "rev" every segment runs against it,
# "alt" every second segment of the mesh runs against it.  The gmsh letter is meshed from the member lines themselves (always "fwd").
BEAM_ORIENTS = ["fwd", "rev", "alt"]
BEAM_ORIENT_DIRS = {1: ["x", "negx0"], 2: ["x", "incl", "negx0"], 3: ["x", "incl", "negx0"]}   # quick tier: directions combined with rev / alt
SECTIONS = {"A": (0.6, 0.8), "B": (0.9, 0.5)}  # stocky on purpose: keeps EI/L^3 within 1e-6 of EA/L (conditioning)
NVERT = {"SEG": 2, "TRI": 3, "QUAD": 4, "TETRA": 4, "HEXA": 8, "PRISM": 6}


# ------------------------------------------------------------------------------------------------
# enumeration
# ------------------------------------------------------------------------------------------------
def _cont_meshes(et, tier):
    m = list(CONT_MESHES)
    if Z.proto(et).order >= 2:
        # interior mid-side / face / volume nodes displaced (ZooMesh.curved): the Jacobian varies inside every element, the tiled
        # domain is unchanged.  Rigid motions stay in the isoparametric space (zero strain at every quadrature point whatever the
        # rule) and the mass rules integrate det J exactly for every type (checked: degree of det J <= degree of the mass rule).
        m.append("curved")
    if Z.topo(et) in ("HEXA", "PRISM"):
        # frusta (ZooMesh.tapered): straight edges, planar faces, NOT affine - the Jacobian varies inside a first-order wedge / brick as well
        m.append("taper")
    if tier == "thorough":
        m += ["mapped_grid"]
        t = Z.topo(et)
        if t in ("TRI", "QUAD", "TETRA", "HEXA", "PRISM"):
            m += ["gmshL"]
        if t == "TRI":
            m += ["diag1"]
        if t in ("QUAD", "HEXA"):
            m += ["distort"]
    return m


def cases(tier, seed):
    out = []
    bound = 1 if tier == "quick" else None
    for sim, (d, types, mats) in CONT_SIMS.items():
        for et in types:
            factors = {"mesh": _cont_meshes(et, tier), "mat": mats, "thick": list(THICK), "rho": RHO}
            for c in deviations(factors, bound):
                if c["mesh"] == "curved" and (c["rho"] == "relem" or c["mat"] == "khet"):
                    continue  # per-element density / capacity needs the measure of each CURVED element; the total only needs the domain
                out.append({"kind": "cont", "sim": sim, "elemType": et, **c})
    # same-order mixed meshes (two element groups): scalar density only
    for sim, pairs in (("elastic2d", Z.MIXED_2D), ("thermal2d", Z.MIXED_2D), ("elastic3d", Z.MIXED_3D), ("thermal3d", Z.MIXED_3D)):
        for pair in pairs:
            mats = CONT_SIMS[sim][2]
            for mat in ([mats[0]] if tier == "quick" else [m for m in mats if m not in ("hetero", "khet")]):
                for thick in (["t037"] if tier == "quick" else list(THICK)):
                    # both orders of the two element groups in the mesh (the order in which a user merges / lists the parts)
                    for ml in ("mixed", "mixed_rev"):
                        out.append({"kind": "cont", "sim": sim, "elemType": list(pair), "mesh": ml, "mat": mat,
                                    "thick": thick, "rho": "r25"})
    for sim, d in BEAM_DIMS.items():
        for th in BEAM_THEORIES:
            for n in (2, 3, 4, 5):
                factors = {"mesh": BEAM_MESHES[d], "dir": BEAM_DIRS[d], "rho": RHO}
                if tier == "thorough" and d == 3:
                    factors["yaxis"] = ["auto", "default", "generic"]
                if tier == "thorough" and d == 2:
                    factors["dir"] = BEAM_DIRS[d] + ["incl2", "negy"]
                for c in deviations(factors, None):
                    out.append({"kind": "beam", "sim": sim, "theory": th, "elemType": f"SEG{n}", **c})
                # node order of the segments against / partly against the member line (hand-made meshes), default density
                ofac = {"mesh": [m for m in BEAM_MESHES[d] if m != "gmsh"],
                        "dir": BEAM_ORIENT_DIRS[d] if tier == "quick" else factors["dir"],
                        "rho": RHO[:1] if tier == "quick" else RHO, "orient": BEAM_ORIENTS[1:]}
                if "yaxis" in factors:
                    ofac["yaxis"] = factors["yaxis"]
                for c in deviations(ofac, None):
                    out.append({"kind": "beam", "sim": sim, "theory": th, "elemType": f"SEG{n}", **c})
    return out


def describe(tier, seed):
    n_c = sum(len(v[1]) for v in CONT_SIMS.values())
    return {
        "rule": "one case = one assembled simulation (mesh x element type x material x thickness x density [x member direction]); "
                "non-trivial = connected mesh with >= 2 elements (checked in the case); distinct = fingerprint of (kernel dimension, "
                "normalised low/high spectrum of K and M, translational mass)",
        "exhaustive": True,
        "bound": ("continuum/thermal: per (simulation, element type) the default configuration and every configuration differing from it "
                  "in ONE of {mesh, material, thickness, density}; beams: full product mesh x direction x density with the segments "
                  "running along their member line (fwd), plus node order {rev, alt} x hand-made mesh x direction {x, incl, negx0} "
                  "at the default density"
                  if tier == "quick" else
                  "full product of all factors (continuum: mesh x material x thickness x density; beams: mesh x direction x density "
                  "[x y-axis choice in 3D] x node order of the segments {fwd, rev, alt} (rev, alt on the hand-made meshes)); "
                  "mixed meshes with scalar density"),
        "alphabet": {"simulations": len(CONT_SIMS) + 2 * len(BEAM_DIMS), "sim_x_elemType_pairs": n_c + 24,
                     "meshes_continuum": len(CONT_MESHES) + (4 if tier == "thorough" else 0), "meshes_beam": 5,
                     "materials_elastic2d": 6, "materials_elastic3d": 5, "materials_thermal": 2, "thickness": 2, "density": 3,
                     "beam_directions_1d": 2, "beam_directions_2d": 6 + (2 if tier == "thorough" else 0), "beam_directions_3d": 6,
                     "beam_segment_node_order": len(BEAM_ORIENTS)},
        "assumptions": [
            "meshes are connected, without orphan nodes, >= 2 elements (verified per case; otherwise skipped and counted)",
            "materials are SPD with condition number <= ~50; zero-energy threshold 1e-10*lmax, cases with an eigenvalue in "
            "(1e-10, 1e-8]*lmax are skipped as ambiguous (count reported, expected 0)",
            "element measures: own Gauss-Legendre quadrature of the vertex (multi)linear map; total cross-checked with the closed-form "
            "measure of the MeshZoo domain (1e-12)",
            "the seed only instantiates: the generic affine map, the anisotropic SPD matrix, the material axis angle, the inclined "
            "member direction and the generic beam y-axis",
            "anisotropic law given in Kelvin-Mandel notation in canonical axes (axis handling / Voigt conversion belong to C11)",
        ],
        "explanation": "dense eigen-decomposition of the assembled matrices of the real implementation against analytically built "
                       "rigid-body / constant modes and closed-form masses",
    }


# ------------------------------------------------------------------------------------------------
# reference geometry (independent of the implementation's quadrature / shape tables)
# ------------------------------------------------------------------------------------------------
def _gl01(n):
    x, w = np.polynomial.legendre.leggauss(n)
    return (x + 1) / 2, w / 2


def _ref_rule(t):
    """Own quadrature on the reference cell of QUAD / HEXA / PRISM (4 Gauss-Legendre points per direction)."""
    x, w = np.polynomial.legendre.leggauss(4)
    if t == "QUAD":
        P = np.array([[a, b] for a in x for b in x])
        W = np.array([wa * wb for wa in w for wb in w])
        return P, W
    if t == "HEXA":
        P = np.array([[a, b, c] for a in x for b in x for c in x])
        W = np.array([wa * wb * wc for wa in w for wb in w for wc in w])
        return P, W
    if t == "PRISM":
        V = Z.local_coords("PRISM6")
        z = [k for k in range(3) if set(np.round(V[:, k], 12)) == {-1.0, 1.0}][0]
        tri = [k for k in range(3) if k != z]
        u, wu = _gl01(4)
        P, W = [], []
        for a, wa in zip(u, wu):
            for b, wb in zip(u, wu):
                for c, wc in zip(x, w):
                    p = np.zeros(3)
                    p[tri[0]], p[tri[1]], p[z] = a, b * (1 - a), c   # collapsed square -> triangle
                    P.append(p)
                    W.append(wa * wb * (1 - a) * wc)
        return np.array(P), np.array(W)
    raise KeyError(t)


def elem_measures(coords, con, et):
    """length / area / volume of every straight-sided element from its VERTICES (first nVertex nodes, gmsh ordering)."""
    t = Z.topo(et)
    nv = NVERT[t]
    ref_v = Z.local_coords(Z.LINEAR_OF[t])
    assert np.allclose(Z.local_coords(et)[:nv], ref_v), f"{et}: vertices are not the first {nv} nodes"
    X = np.asarray(coords, dtype=float)[np.asarray(con)[:, :nv]]  # (Ne, nv, 3)
    if t == "SEG":
        return np.linalg.norm(X[:, 1] - X[:, 0], axis=1)
    if t == "TRI":
        return 0.5 * np.linalg.norm(np.cross(X[:, 1] - X[:, 0], X[:, 2] - X[:, 0]), axis=1)
    if t == "TETRA":
        return np.abs(np.linalg.det(np.stack([X[:, 1] - X[:, 0], X[:, 2] - X[:, 0], X[:, 3] - X[:, 0]], axis=1))) / 6.0
    P, W = _ref_rule(t)
    d = P.shape[1]
    h = 0.25
    J = np.zeros((X.shape[0], P.shape[0], d, 3))
    for k in range(d):
        e = np.zeros(d)
        e[k] = h
        dN = (Z.linear_shape(et, P + e) - Z.linear_shape(et, P - e)) / (2 * h)  # exact: N is linear in each variable
        J[:, :, k, :] = np.einsum("qa,eac->eqc", dN, X)
    if d == 2:
        dens = np.linalg.norm(np.cross(J[:, :, 0, :], J[:, :, 1, :]), axis=-1)
    else:
        dens = np.abs(np.linalg.det(J))
    return dens @ W


def connected(groups: dict, Nn: int):
    """(is the element graph connected through shared nodes, are all nodes used)."""
    parent = list(range(Nn))

    def find(a):
        while parent[a] != a:
            parent[a] = parent[parent[a]]
            a = parent[a]
        return a

    used = np.zeros(Nn, dtype=bool)
    for con in groups.values():
        for row in np.asarray(con):
            used[row] = True
            r0 = find(int(row[0]))
            for n in row[1:]:
                parent[find(int(n))] = r0
                r0 = find(r0)
    roots = {find(i) for i in range(Nn) if used[i]}
    return len(roots) == 1, bool(used.all())


# ------------------------------------------------------------------------------------------------
# rigid-body / constant modes
# ------------------------------------------------------------------------------------------------
def modes_continuum(coords, d, vector: bool):
    """columns of R (Ndof, nModes) and their names; dof = node*dofn + component."""
    Nn = coords.shape[0]
    if not vector:
        return np.ones((Nn, 1)), ["const"]
    R, names = [], []
    for k in range(d):
        r = np.zeros((Nn, d))
        r[:, k] = 1.0
        R.append(r.ravel())
        names.append("t" + "xyz"[k])
    axes = [2] if d == 2 else [0, 1, 2]
    for a in axes:
        w = np.zeros(3)
        w[a] = 1.0
        u = np.cross(w, coords)  # omega x x
        R.append(u[:, :d].ravel())
        names.append("r" + "xyz"[a])
    return np.array(R).T, names


def modes_beam(coords, d):
    """beam dofs per node: 1D [u]; 2D [u, v, rz]; 3D [u, v, w, rx, ry, rz] (global components)."""
    Nn = coords.shape[0]
    if d == 1:
        return np.ones((Nn, 1)), ["tx"], np.ones((Nn, 1))
    dofn = 3 if d == 2 else 6
    R, names = [], []
    for k in range(d):
        r = np.zeros((Nn, dofn))
        r[:, k] = 1.0
        R.append(r.ravel())
        names.append("t" + "xyz"[k])
    T = np.array(R).T.copy()
    for a in ([2] if d == 2 else [0, 1, 2]):
        w = np.zeros(3)
        w[a] = 1.0
        u = np.cross(w, coords)
        r = np.zeros((Nn, dofn))
        r[:, :d] = u[:, :d]
        if d == 2:
            r[:, 2] = 1.0
        else:
            r[:, 3 + a] = 1.0
        R.append(r.ravel())
        names.append("r" + "xyz"[a])
    return np.array(R).T, names, T


# ------------------------------------------------------------------------------------------------
# oracle
# ------------------------------------------------------------------------------------------------
def _sym_err(A):
    sc = np.max(np.abs(A)) if A.size else 0.0
    if sc == 0:
        return 0.0
    return float(np.max(np.abs(A - A.T)) / sc)


def check_K(K, R, names, kkey, label):
    """-> (violations, info). `kkey` = stable key factors of the input."""
    v = []
    info = {"nullity": -1, "gap": None, "skipped": None}
    if not np.all(np.isfinite(K)):
        v.append(viol("K_nonfinite", f"{label}: K has non-finite entries", **kkey))
        return v, info
    nK = np.max(np.abs(K))
    if nK == 0:
        v.append(viol("K_zero", f"{label}: K is identically zero", **kkey))
        return v, info
    es = _sym_err(K)
    if es > TOL_SYM:
        v.append(viol("K_symmetry", f"{label}: ||K-K^T||/||K|| = {es:.3e}", **kkey))
    lam = np.linalg.eigvalsh((K + K.T) / 2)
    lmax = float(np.max(np.abs(lam)))
    info["lam"] = lam
    if lam[0] < -TOL_NEG * lmax:
        v.append(viol("K_psd", f"{label}: lmin(K) = {lam[0]:.6e} < -1e-10*lmax ({lmax:.6e})", **kkey))
    # no missing mode
    missing = []
    for j, nm in enumerate(names):
        r = R[:, j]
        res = float(np.max(np.abs(K @ r)) / (nK * np.max(np.abs(r))))
        if res > TOL_KR:
            missing.append((nm, res))
    if missing:
        v.append(viol("kernel_missing", f"{label}: rigid/constant mode(s) not zero-energy, ||K r||/(||K|| ||r||): "
                      + ", ".join(f"{nm}: {res:.3e}" for nm, res in missing), **kkey))
    # no spurious mode
    rankR = int(np.linalg.matrix_rank(R, tol=1e-9 * max(1.0, np.max(np.abs(R)))))
    nullity = int(np.sum(np.abs(lam) <= TOL_NULL * lmax))
    ambiguous = int(np.sum((np.abs(lam) > TOL_NULL * lmax) & (np.abs(lam) <= TOL_GAP * lmax)))
    info["nullity"], info["rankR"] = nullity, rankR
    pos = lam[np.abs(lam) > TOL_NULL * lmax]
    info["gap"] = float(np.min(np.abs(pos)) / lmax) if pos.size else 0.0
    if ambiguous:
        info["skipped"] = "ill-conditioned: eigenvalue of K in (1e-10,1e-8]*lmax"
    elif nullity != rankR:
        if nullity > rankR:
            v.append(viol("kernel_spurious", f"{label}: {nullity} zero-energy modes, the physical kernel has {rankR} "
                          f"(lowest eigenvalues/lmax: {np.round(lam[:nullity + 2] / lmax, 14).tolist()})", **kkey))
        elif not missing:
            v.append(viol("kernel_missing", f"{label}: only {nullity} zero-energy modes, the physical kernel has {rankR}", **kkey))
    # restrain exactly the rigid modes: rank(R) dofs chosen by pivoted QR of R^T (R restricted to them is invertible)
    from scipy.linalg import qr

    _, _, piv = qr(R.T, pivoting=True, mode="economic")
    fixed = np.sort(piv[:rankR])
    free = np.setdiff1d(np.arange(K.shape[0]), fixed)
    Kff = K[np.ix_(free, free)]
    lr = np.linalg.eigvalsh((Kff + Kff.T) / 2)
    info["lmin_reduced"] = float(lr[0] / lmax)
    if not ambiguous and lr[0] <= TOL_SPD * lmax:
        v.append(viol("reduced_not_spd", f"{label}: after restraining the {rankR} physical modes (dofs {fixed.tolist()}) the reduced "
                      f"matrix is not SPD: lmin = {lr[0]:.3e}, lmax(K) = {lmax:.3e}", **kkey))
    return v, info


def check_M(M, T, expected, mkey, label, definite: bool, what="M"):
    """`mkey` carries density / thickness letters; they only enter the keys of the checks that depend on them."""
    v = []
    info = {}
    tkey = dict(mkey)                                                    # mass_total: all factors
    mkey = {k: x for k, x in mkey.items() if k not in ("rho", "thick")}  # definiteness / symmetry: not a matter of rho, t
    if not np.all(np.isfinite(M)):
        v.append(viol("M_nonfinite", f"{label}: {what} has non-finite entries", **mkey))
        return v, info
    nM = np.max(np.abs(M)) if M.size else 0.0
    if nM == 0:
        v.append(viol("M_zero", f"{label}: {what} is identically zero", **mkey))
        return v, info
    es = _sym_err(M)
    if es > TOL_SYM:
        v.append(viol("M_symmetry", f"{label}: ||{what}-{what}^T||/||{what}|| = {es:.3e}", **mkey))
    lam = np.linalg.eigvalsh((M + M.T) / 2)
    lmax = float(np.max(np.abs(lam)))
    info["lam"] = lam
    if definite:
        if lam[0] <= TOL_SPD * lmax:
            nz = int(np.sum(lam <= TOL_SPD * lmax))
            v.append(viol("mass_spd", f"{label}: {what} is not positive definite: lmin/lmax = {lam[0] / lmax:.3e} "
                          f"({nz} eigenvalue(s) <= 1e-10*lmax of {lam.size})", **mkey))
    elif lam[0] < -TOL_NEG * lmax:
        v.append(viol("mass_psd", f"{label}: lmin({what}) = {lam[0]:.3e} < -1e-10*lmax ({lmax:.3e})", **mkey))
    G = T.T @ M @ T
    info["mass"] = float(G[0, 0])
    err = float(np.max(np.abs(G - expected * np.eye(T.shape[1]))) / expected)
    info["mass_err"] = err
    if err > TOL_MASS:
        v.append(viol("mass_total", f"{label}: T^T {what} T = {np.round(G, 12).tolist()}, expected {expected!r} * I "
                      f"(rel. err {err:.3e})", **tkey))
    return v, info


# ------------------------------------------------------------------------------------------------
# mesh alphabet (continuum / thermal)
# ------------------------------------------------------------------------------------------------
_TET_PTS = np.array([[0, 0, 0], [1.1, 0, 0], [0.1, 0.9, 0], [0.2, 0.1, 1.0], [1.0, 0.9, 0.8], [1.3, 0.2, 1.7]], dtype=float)


def _tet_chain(et, n):
    """n tetrahedra, consecutive ones sharing a face."""
    bank, groups = Z._NodeBank(), {}
    vol = 0.0
    for i in range(n):
        a, b, c, d = [_TET_PTS[i + j] for j in range(4)]
        vv = np.linalg.det(np.array([b - a, c - a, d - a])) / 6.0
        if vv < 0:
            b, c = c, b
        vol += abs(vv)
        Z._add_elem(bank, groups, et, [a, b, c, d])
    coords = np.array(bank.coords)
    groups = {k: np.array(x, dtype=int) for k, x in groups.items()}
    return Z.ZooMesh(coords, groups, {"measure": vol, "dim": 3}, f"TETCHAIN[{et},n={n}]", Z.compute_boundary(coords, groups))


def _affine(d, salt):
    r = rng("c02map", salt, d)
    A = Z.generic_affine(r, d)
    b = np.zeros(3)
    b[:d] = r.uniform(-1, 1, size=d)
    return A, b


def build_cont_mesh(et, letter):
    """-> ZooMesh record (plain arrays + exact measure) and the EasyFEA mesh."""
    ets = tuple(et) if isinstance(et, (list, tuple)) else et
    e0 = ets[0] if isinstance(ets, tuple) else ets
    d, t = Z.dim_of(e0), Z.topo(e0)
    base = letter
    if letter == "curved":
        zc = build_cont_mesh(et, "grid2")[0].curved()
        return zc, zc.build()
    if letter == "taper":
        zc = Z.template_3d(ets, k=2).tapered(0.3)
        return zc, zc.build()
    if letter == "mapped":
        base = "two"
    elif letter == "mapped_grid":
        base = "grid2"
    if base in ("gmsh", "gmshL"):
        poly = "quad" if base == "gmsh" else "L"
        if d == 1:
            from EasyFEA import ElemType
            from EasyFEA.FEM import Mesher
            from EasyFEA.Geoms import Line, Point

            L = 1.3
            mesh = Mesher().Mesh_1D([Line(Point(0.2, 0), Point(0.2 + L, 0), L / 3)], ElemType[e0])
            ex = {"measure": L, "dim": 1}
        elif d == 2:
            mesh, ex = Z.gmsh_2d(e0, poly, h=0.6)
        else:
            mesh, ex = Z.gmsh_3d(e0, poly, h=0.7, height=0.8, layers=2)
        zm = Z.zoo_from_mesh(mesh, {"measure": ex["measure"], "dim": d}, f"gmsh[{e0},{poly}]")
        return zm, mesh
    if d == 1:
        n, graded = {"two": (2, False), "strip3": (3, True), "grid2": (4, False)}[base]
        zm = Z.template_1d(ets, n=n, graded=graded, L=1.3)
    elif d == 2:
        size = (1.3, 0.9)
        if base == "two":
            zm = Z.template_2d(ets, k=(1, 1) if t == "TRI" else (2, 1), size=size)
        elif base == "strip3":
            zm = Z.template_2d(ets, k=(3, 1), size=size)
        elif base == "grid2":
            zm = Z.template_2d(ets, k=2, size=size)
        elif base == "diag1":
            zm = Z.template_2d(ets, k=2, diag=2, size=size)
        elif base == "distort":
            zm = Z.template_2d(ets, k=2, distort=True, size=size)
        elif base in ("mixed", "mixed_rev"):
            zm = Z.template_2d(ets, k=2, size=size)
        else:
            raise KeyError(letter)
    else:
        size = (1.3, 0.9, 0.7)
        if base == "two":
            zm = _tet_chain(ets, 2) if t == "TETRA" else Z.template_3d(ets, k=(1, 1, 1) if t == "PRISM" else (2, 1, 1), size=size)
        elif base == "strip3":
            zm = _tet_chain(ets, 3) if t == "TETRA" else Z.template_3d(ets, k=(3, 1, 1), size=size)
        elif base == "grid2":
            zm = Z.template_3d(ets, k=2, size=size)
        elif base == "distort":
            zm = Z.template_3d(ets, k=2, distort=True, size=size)
        elif base in ("mixed", "mixed_rev"):
            zm = Z.template_3d(ets, k=2, size=size)
        else:
            raise KeyError(letter)
    if letter in ("mapped", "mapped_grid"):
        A, b = _affine(d, letter)
        zm = zm.mapped(A, b)
    if base == "mixed_rev":
        zm = Z.ZooMesh(zm.coords, dict(reversed(list(zm.groups.items()))), dict(zm.exact), zm.name + "|rev", zm.boundary)
    return zm, zm.build()


def _elem_pattern(Ne, lo, hi, mul, mod):
    """deterministic per-element values in [lo, hi] (not monotone in the element index)."""
    e = np.arange(Ne)
    return lo + (hi - lo) * ((e * mul + 1) % mod) / (mod - 1)


def rho_of(letter, Ne):
    if letter == "r1":
        return 1.0
    if letter == "r25":
        return 2.5
    return _elem_pattern(Ne, 1.0, 2.5, 7, 5)


def spd_matrix(n, salt):
    r = rng("c02aniso", salt, n)
    Q, _ = np.linalg.qr(r.normal(size=(n, n)))
    lam = r.uniform(1.0, 8.0, size=n)
    C = (Q * lam) @ Q.T
    return (C + C.T) / 2


def build_material(sim, mat, thick, d, Ne):
    from EasyFEA import Models

    th = THICK[thick]
    if sim.startswith("thermal"):
        if mat == "k1":
            return Models.Thermal(k=1.7, c=1.3, thickness=th), np.full(Ne, 1.3)
        k = _elem_pattern(Ne, 0.8, 3.1, 3, 7)
        c = _elem_pattern(Ne, 0.9, 2.2, 5, 4)
        return Models.Thermal(k=k, c=c, thickness=th), c
    E = Models.Elastic
    if mat in ("iso_ps", "iso"):
        return E.Isotropic(d, E=2.0, v=0.3, planeStress=True, thickness=th), None
    if mat == "iso_pe":
        return E.Isotropic(d, E=2.0, v=0.3, planeStress=False, thickness=th), None
    if mat == "hetero":
        return E.Isotropic(d, E=_elem_pattern(Ne, 1.0, 3.0, 3, 7), v=0.3, planeStress=True, thickness=th), None
    if mat == "aniso":
        C = spd_matrix(3 if d == 2 else 6, "C")
        return E.Anisotropic(d, C, useVoigtNotation=False, thickness=th), None
    if mat == "aniso_voigt":
        # a fully populated SPD stiffness (every normal/shear coupling non-zero) entered in Voigt notation
        n = 3 if d == 2 else 6
        C = spd_matrix(n, "Cv")
        return E.Anisotropic(d, C, useVoigtNotation=True, thickness=th), None
    if mat == "ortho":
        return E.Orthotropic(d, 3.0, 2.0, 1.0, 0.9, 0.8, 0.7, 0.2, 0.25, 0.3, planeStress=False, thickness=th), None
    if mat == "tiso":
        r = rng("c02tiso", d)
        if d == 2:
            a = r.uniform(0.2, 1.3)
            al, at = (np.cos(a), np.sin(a), 0.0), (-np.sin(a), np.cos(a), 0.0)
        else:
            Q = Z.rot3(r.normal(size=3), r.uniform(0.3, 2.8))
            al, at = tuple(Q[:, 0]), tuple(Q[:, 1])
        return E.TransverselyIsotropic(d, El=3.0, Et=1.0, Gl=0.8, vl=0.25, vt=0.3, axis_l=al, axis_t=at,
                                       planeStress=True, thickness=th), None
    raise KeyError(mat)


def run_case(case):
    return _run_cont(case) if case["kind"] == "cont" else _run_beam(case)


def _result(v, fpr, outcome, skipped=None, transitions=4, nontrivial=True):
    return {"violations": v[:16], "fingerprint": fpr, "nontrivial": nontrivial, "outcome": outcome if not v else "violation",
            "transitions": transitions, "skipped": skipped}


def _spec_sig(lam, n=4):
    lam = np.asarray(lam)
    lmax = max(float(np.max(np.abs(lam))), 1e-300)
    return np.round(np.concatenate([lam[:n], lam[-n:]]) / lmax, 7)


def _run_cont(case):
    from EasyFEA import Simulations

    sim, et, meshl, mat, thick, rhol = case["sim"], case["elemType"], case["mesh"], case["mat"], case["thick"], case["rho"]
    d = CONT_SIMS[sim][0]
    etname = "+".join(et) if isinstance(et, list) else et
    zm, mesh = build_cont_mesh(et, meshl)
    ok_conn, ok_used = connected(zm.groups, zm.Nn)
    Ne = sum(c.shape[0] for c in zm.groups.values())
    if not ok_conn or not ok_used or Ne < 2:
        return _result([], "guard", "skipped", skipped="mesh not connected / orphan nodes / < 2 elements", nontrivial=False)
    # reference measures
    meas = {g: elem_measures(zm.coords, con, g) for g, con in zm.groups.items()}   # from the vertices: on the curved letter only the sum is meaningful
    total = float(sum(m.sum() for m in meas.values()))
    if "measure" in zm.exact:
        assert abs(total - zm.exact["measure"]) <= 1e-11 * zm.exact["measure"], \
            f"harness: element measures sum to {total!r}, domain measure {zm.exact['measure']!r} ({zm.name})"
    single = len(zm.groups) == 1
    rho = rho_of(rhol, Ne)
    model, c_e = build_material(sim, mat, thick, d, Ne)
    thermal = sim.startswith("thermal")
    simu = (Simulations.Thermal if thermal else Simulations.Elastic)(mesh, model)
    simu.rho = rho
    K, C, M, F = simu.Get_K_C_M_F()
    K = todense(K)
    Mm = todense(C if thermal else M)
    dofn = 1 if thermal else d
    label = f"{sim}/{etname}/{zm.name}/{mat}/{thick}/{rhol}"
    if K.shape != (zm.Nn * dofn,) * 2 or Mm.shape != K.shape:
        return _result([viol("shape", f"{label}: K {K.shape}, M {Mm.shape}, expected {(zm.Nn * dofn,) * 2}", sim=sim, elemType=etname)],
                       "shape", "violation")
    R, names = modes_continuum(zm.coords, d, vector=not thermal)
    kkey = dict(sim=sim, elemType=etname, mesh=meshl, mat=mat)
    v, ik = check_K(K, R, names, kkey, label)
    # mass / capacity
    thf = THICK[thick] if d == 2 else 1.0
    g0 = next(iter(zm.groups))
    if single:
        rho_e = np.broadcast_to(np.asarray(rho, dtype=float), (Ne,))
        cc = c_e if thermal else np.ones(Ne)
        expected = float(np.sum(rho_e * cc * meas[g0])) * thf
    else:
        expected = float(rho) * (1.3 if thermal else 1.0) * total * thf
    T = R[:, :dofn] if not thermal else R
    mkey = dict(sim=sim, elemType=etname, mesh=meshl, rho=rhol, thick=thick)
    vm, im = check_M(Mm, T, expected, mkey, label, definite=True, what="C" if thermal else "M")
    # a total that equals density x measure exactly but lacks the thickness factor gets its own check name
    if d == 2 and thf != 1.0:
        G = T.T @ Mm @ T
        for x in vm:
            if x["check"] == "mass_total" and np.max(np.abs(G - expected / thf * np.eye(T.shape[1]))) <= TOL_MASS * expected:
                x["check"] = x["key"]["check"] = "thickness_ignored"
                x["detail"] += "  -> equals density x measure WITHOUT the thickness factor"
    v += vm
    # simu.mass
    ms = simu.mass
    if ms is not None:
        exp_m = expected if not thermal else None
        if exp_m is not None and abs(float(ms) - exp_m) > TOL_MASS * exp_m:
            v.append(viol("mass_property", f"{label}: simu.mass = {float(ms)!r}, expected {exp_m!r}", **mkey))
    sig = [sim, etname, meshl, ik.get("nullity"), _spec_sig(ik["lam"]) if "lam" in ik else None,
           _spec_sig(im["lam"]) if "lam" in im else None, np.array([im.get("mass", 0.0)])]
    return _result(v, fp(*[s for s in sig if s is not None]), f"null{ik.get('nullity')}", skipped=ik.get("skipped"))


# ------------------------------------------------------------------------------------------------
# beams
# ------------------------------------------------------------------------------------------------
def _beam_layout(d, letter):
    """members in canonical position (first member along +x from the origin):
    list of (P0, P1, nElems, graded, section letter)."""
    p = np.array
    if letter == "two":
        return [(p([0, 0, 0.0]), p([1.3, 0, 0]), 2, False, "A")]
    if letter in ("strip3", "gmsh"):
        return [(p([0, 0, 0.0]), p([1.3, 0, 0]), 3, True, "A")]
    if letter == "twosec":
        return [(p([0, 0, 0.0]), p([0.8, 0, 0]), 1, False, "A"), (p([0.8, 0, 0.0]), p([1.4, 0, 0]), 2, False, "B")]
    if letter == "frame":
        if d == 2:
            return [(p([0, 0, 0.0]), p([1.0, 0, 0]), 2, False, "A"), (p([1.0, 0, 0.0]), p([1.3, 0.8, 0]), 1, False, "B")]
        return [(p([0, 0, 0.0]), p([1.0, 0, 0]), 1, False, "A"), (p([1.0, 0, 0.0]), p([1.2, 0.8, 0.1]), 1, False, "B"),
                (p([1.2, 0.8, 0.1]), p([0.9, 1.0, 0.9]), 1, False, "A")]
    raise KeyError(letter)


def _beam_motion(d, letter):
    """rotation applied to the canonical layout (+ a fixed offset of the origin)."""
    if letter == "negx0":
        return np.array([[-1, 0, 0], [0, -1, 0], [0, 0, 1.0]]), np.array([0.2, 0.0, 0.0])
    if d == 1:
        return np.eye(3), np.array([0.2, 0.0, 0.0])
    off = np.array([0.2, -0.1, 0.0]) if d == 2 else np.array([0.2, -0.1, 0.15])

    def rz(a):
        return np.array([[np.cos(a), -np.sin(a), 0], [np.sin(a), np.cos(a), 0], [0, 0, 1.0]])

    if letter == "x":
        return np.eye(3), off
    if letter == "y":
        return np.array([[0, -1, 0], [1, 0, 0], [0, 0, 1.0]]), off
    if letter == "negy":
        return np.array([[0, 1, 0], [-1, 0, 0], [0, 0, 1.0]]), off
    if letter == "negx":
        return np.array([[-1, 0, 0], [0, -1, 0], [0, 0, 1.0]]), off
    if letter == "z":
        return np.array([[0, 0, -1], [0, 1, 0], [1, 0, 0.0]]), off
    if letter == "incl_far":
        Qf, _ = _beam_motion(d, "incl")
        return Qf, np.array([3.0e4, 2.0e4, 0.0 if d == 2 else 1.0e4])
    r = rng("c02beamdir", d, letter)
    if d == 2:
        a = np.deg2rad(r.uniform(20, 70)) if letter == "incl" else np.deg2rad(r.uniform(110, 160))
        return rz(a), off
    return Z.rot3(r.normal(size=3), r.uniform(0.4, 2.6)), off


def _section(letter):
    from EasyFEA import ElemType
    from EasyFEA.FEM import Mesher
    from EasyFEA.Geoms import Domain, Point

    b, h = SECTIONS[letter]
    return Mesher().Mesh_2D(Domain(Point(), Point(b, h)), [], ElemType.QUAD4), b * h


def _run_beam(case):
    from EasyFEA import ElemType, Models, Simulations
    from EasyFEA.FEM import Mesher
    from EasyFEA.Geoms import Line, Point

    sim, theory, et, meshl, dirl, rhol = case["sim"], case["theory"], case["elemType"], case["mesh"], case["dir"], case["rho"]
    yax = case.get("yaxis", "auto")
    orient = case.get("orient", "fwd")
    d = BEAM_DIMS[sim]
    Q, off = _beam_motion(d, dirl)
    layout = _beam_layout(d, meshl)
    if yax == "auto":
        yax = "generic" if (d == 3 and dirl == "incl") else "default"
    beams, areas, members = [], [], []
    for m, (P0, P1, n, graded, sec) in enumerate(layout):
        a, b = Q @ P0 + off, Q @ P1 + off
        section, A = _section(sec)
        line = Line(Point(*a), Point(*b), np.linalg.norm(b - a) / n)
        kw = {}
        if d == 3 and yax == "generic":
            yv = rng("c02yaxis", m).normal(size=3)
            kw["yAxis"] = tuple(yv)
        beams.append(Models.Beam.Isotropic(d, line, section, 2.0, 0.3, **kw))
        areas.append(A)
        members.append((a, b, n, graded))
    if meshl == "gmsh":
        mesh = Mesher().Mesh_Beams(beams, ElemType[et])
        zm = Z.zoo_from_mesh(mesh, {}, "gmshbeam")
        member_of = np.zeros(zm.groups[et].shape[0], dtype=int)
    else:
        bank, groups, member_of = Z._NodeBank(), {}, []
        for m, (a, b, n, graded) in enumerate(members):
            s = np.linspace(0, 1, n + 1)
            if graded:
                s = s ** 1.7
            for e in range(n):
                ends = [a + s[e] * (b - a), a + s[e + 1] * (b - a)]
                if orient == "rev" or (orient == "alt" and len(member_of) % 2 == 1):
                    ends.reverse()   # the same segment, its nodes listed from the other end
                Z._add_elem(bank, groups, et, ends)
                member_of.append(m)
        member_of = np.array(member_of)
        zm = Z.ZooMesh(np.array(bank.coords), {et: np.array(groups[et], dtype=int)}, {}, f"BEAM[{et},{meshl}]", {})
        mesh = zm.build()
        for m, beam in enumerate(beams):
            nodes = np.unique(zm.groups[et][member_of == m])
            mesh.groupElem.Set_Tag(nodes, beam.name)
    con = zm.groups[et]
    Ne = con.shape[0]
    ok_conn, ok_used = connected(zm.groups, zm.Nn)
    if not ok_conn or not ok_used or Ne < 2:
        return _result([], "guard", "skipped", skipped="mesh not connected / orphan nodes / < 2 elements", nontrivial=False)
    lengths = elem_measures(zm.coords, con, et)
    Ltot = sum(np.linalg.norm(b - a) for a, b, _, _ in members)
    assert abs(lengths.sum() - Ltot) <= 1e-11 * Ltot, f"harness: element lengths sum to {lengths.sum()!r}, members {Ltot!r}"
    rho = rho_of(rhol, Ne)
    structure = Models.Beam.BeamStructure(beams)
    simu = Simulations.Beam(mesh, structure, useTimoshenko=(theory == "TIMO"))
    simu.rho = rho
    K, C, M, F = simu.Get_K_C_M_F()
    K, M = todense(K), todense(M)
    dofn = {1: 1, 2: 3, 3: 6}[d]
    label = f"{sim}/{theory}/{et}/{meshl}/dir={dirl}/yaxis={yax}/{rhol}" + (f"/segments={orient}" if orient != "fwd" else "")
    bkey = dict(sim=sim, theory=theory, elemType=et, mesh=meshl, dir=dirl)
    if orient != "fwd":
        bkey["orient"] = orient
    if "yaxis" in case:
        bkey["yaxis"] = case["yaxis"]
    if K.shape != (zm.Nn * dofn,) * 2 or M.shape != K.shape:
        return _result([viol("shape", f"{label}: K {K.shape}, M {M.shape}, expected {(zm.Nn * dofn,) * 2}", **bkey)], "shape", "violation")
    R, names, T = modes_beam(zm.coords, d)
    v, ik = check_K(K, R, names, bkey, label)
    rho_e = np.broadcast_to(np.asarray(rho, dtype=float), (Ne,))
    expected = float(np.sum(rho_e * np.asarray(areas)[member_of] * lengths))
    mkey = dict(bkey, rho=rhol)
    vm, im = check_M(M, T, expected, mkey, label, definite=False)
    v += vm
    ms = simu.mass
    if ms is not None and abs(float(ms) - expected) > TOL_MASS * expected:
        v.append(viol("mass_property", f"{label}: simu.mass = {float(ms)!r}, expected {expected!r}", **mkey))
    sig = [sim, theory, et, meshl, dirl] + ([orient] if orient != "fwd" else []) + [ik.get("nullity"), _spec_sig(ik["lam"]) if "lam" in ik else None,
           _spec_sig(im["lam"]) if "lam" in im else None, np.array([im.get("mass", 0.0)])]
    return _result(v, fp(*[s for s in sig if s is not None]), f"null{ik.get('nullity')}", skipped=ik.get("skipped"))
