"""C05 — every time scheme satisfies its documented update rule and discrete equation of motion.

E2 exploration on the real `_Simu` time-stepping code: letters = (algo, params, dt); states = (u, v, a);
all letter sequences to depth 2 (quick) / 3 (thorough) from a generic state, every basis prior state at depth 1
(one step is affine in the prior state and the load, so the basis decides all states). Reference model = the
documented scheme definitions (AlgoType docstrings) written as dense formulas."""
from __future__ import annotations

import contextlib
import io
import itertools

import numpy as np

from mc.util import fp, rng, viol
from zoo import meshes as Z

PROPERTY = "C05"

DTS = [0.1, 0.37, 5.0]
HYPER = (
    [("newmark", {"beta": b, "gamma": g}) for b, g in [(0.25, 0.5), (0.3, 0.6), (1 / 6, 0.5), (0.4, 0.7)]]
    # alpha: 0 (= newmark), two interior values and 0.5 (the default of the argument; = midpoint only for the default beta, gamma)
    # (beta, gamma) pairs: the default, one with gamma == 2 beta, and one with gamma != 2 beta (several history
    # coefficients vanish identically when gamma == 2 beta, which would hide an error in them)
    + [("hht", {"alpha": al, "beta": b, "gamma": g}) for al in (0.0, 0.1, 0.3, 0.5) for b, g in [(0.25, 0.5), (0.3, 0.6), (0.3025, 0.65)]]
    + [("hht_newmark", {"alpha": al}) for al in (0.0, 1 / 6, 1 / 3)]
    + [("midpoint", {}), ("euler_implicit", {}), ("euler_explicit", {})]
    # schemes without free parameter called with left-over (alpha, beta, gamma) of another set-up: the parameters must not enter
    + [("midpoint", {"alpha": 0.2, "beta": 0.3, "gamma": 0.7}), ("euler_implicit", {"alpha": 0.3, "beta": 0.3, "gamma": 0.7})]
)
PARAB = [("parabolic", {"alpha": al}) for al in (0.25, 0.5, 1.0)]


def letters(system):
    base = PARAB if system == "thermal" else HYPER
    return [{"algo": a, "params": p, "dt": dt} for (a, p) in base for dt in DTS]


def lname(L):
    return L["algo"] + "(" + ",".join(f"{k}={round(v, 4)}" for k, v in sorted(L["params"].items())) + f",dt={L['dt']})"


# "tiny_mass": the same system in a unit system where every mass / capacity entry is ~1e-13 (mm-tonne-s like): nothing in a scheme
# may depend on the absolute magnitude of M
DAMPINGS = {"elastic": ["none", "rayleigh", "tiny_mass"], "thermal": ["none", "tiny_mass"]}
CONSTRAINTS = ["none", "clamped", "prescribed"]
LOADS = ["none", "constant", "changed"]


def cases(tier, seed):
    out = []
    for system in ("elastic", "thermal"):
        Ls = letters(system)
        for damp in DAMPINGS[system]:
            for con in CONSTRAINTS:
                for load in LOADS:
                    cfg = {"system": system, "damping": damp, "constraint": con, "load": load}
                    for i, L in enumerate(Ls):
                        out.append({"kind": "step1", **cfg, "l1": i})
                        if tier == "quick":
                            # quick: depth 2 with the richest matrices (Rayleigh damping), without/with a load change;
                            # second letters restricted to dt=0.37 (first letters keep all dt: step-size switches covered)
                            if (system == "elastic" and damp == "none") or load == "constant":
                                continue
                            out.append({"kind": "step2", **cfg, "l1": i, "dt2": [0.37]})
                        else:
                            out.append({"kind": "step2", **cfg, "l1": i})
                        if tier == "thorough" and load != "none":
                            for j in range(len(Ls)):
                                out.append({"kind": "step3", **cfg, "l1": i, "l2": j})
        for i, L in enumerate(Ls):
            out.append({"kind": "coefs", "system": system, "l1": i})
            if L["algo"] != "euler_explicit":
                for con in CONSTRAINTS:
                    for load in ("none", "constant"):
                        out.append({"kind": "newton", "system": system, "constraint": con, "load": load, "l1": i})
    # every hyperbolic letter once more with the scheme named by the VALUE of the AlgoType member (a plain string)
    for i, L in enumerate(letters("elastic")):
        out.append({"kind": "step1", "system": "elastic", "damping": DAMPINGS["elastic"][0], "constraint": CONSTRAINTS[0], "load": "constant",
                    "l1": i, "spelling": "str"})
    # alpha = 0 of the parabolic scheme (documented as Forward Euler)
    for con in CONSTRAINTS:
        for load in ("none", "constant"):
            out.append({"kind": "forward_euler", "constraint": con, "load": load})
    # the Newton path of a REAL nonlinear simulation (HyperElastic, Saint-Venant-Kirchhoff) in its linear limit (amplitudes 1e-7):
    # update relations, and K_lin u_t + C v_t + M a_t = F with K_lin, M of the linear elastic simulation of the same material
    for i, L in enumerate(letters("elastic")):
        if L["algo"] != "euler_explicit" and (tier == "thorough" or L["dt"] == 0.37):
            for visc in (False, True):
                out.append({"kind": "hyper", "l1": i, "viscous": visc})
    nsteps = 50 if tier == "quick" else 400
    dts = [0.05, 0.37, 5.0, 40.0] if tier == "quick" else [0.01, 0.05, 0.37, 1.0, 5.0, 40.0, 1000.0]
    for algo in ("newmark_avg", "midpoint", "euler_implicit"):
        for dt in dts:
            for init in ("u", "v", "uv", "generic"):
                for et in ("TRI3", "QUAD4") if tier == "quick" else ("TRI3", "QUAD4", "TRI6", "QUAD8"):
                    out.append({"kind": "energy", "algo": algo, "dt": dt, "init": init, "elemType": et, "nsteps": nsteps})
    return out


def describe(tier, seed):
    return {
        "rule": "E2: states (u,v,a) of a real Elastic (8 dofs) / Thermal (4 dofs) simulation; letters (algo, params, dt): "
                f"{len(letters('elastic'))} hyperbolic + {len(letters('thermal'))} parabolic; step1 = every basis prior state (zero, each unit u/v/a vector, generic) x every letter; "
                "step2/step3 = every letter sequence of length 2/3 from the generic state (states merged by fingerprint inside a case); "
                "x damping x constraint x load alphabets; coefs = difference quotients of the evaluation-point states for every letter; "
                "newton = same linear system through the nonlinear (residual) contract; energy = free vibration runs. "
                "non-trivial = the step changed the state; distinct = fingerprint of the visited states",
        "exhaustive": True,
        "bound": "depth 1: all letters x all basis prior states x all configs; depth 2: quick = all first letters x all second (algo, params) at dt=0.37, damped system, load none/changed; thorough = all letter pairs, all configs, and all letter triples (depth 3) for loaded configs",
        "alphabet": {"letters_hyperbolic": len(letters("elastic")), "letters_parabolic": len(letters("thermal")),
                     "damping": 3, "constraints": 3, "loads": 3},
        "assumptions": ["the load is constant within a step: 'the load at the evaluation point' is the load applied when Solve() is called",
                        "euler_explicit: constrained dofs have zero acceleration (documented); only the free-dof equation and the update are demanded",
                        "tolerances: 1e-9 relative to the sum of term magnitudes (equation), 1e-10 (update relations)"],
    }


# ------------------------------------------------------------------------------------------------
# system construction
# ------------------------------------------------------------------------------------------------
def make_simu(system, damping, elemType="TRI3", cls=None):
    from EasyFEA import Models, Simulations

    mesh = Z.template_2d(elemType, 1).build()
    if system == "elastic":
        mat = Models.Elastic.Isotropic(2, E=3.0, v=0.25, planeStress=True, thickness=0.8)
        simu = (cls or Simulations.Elastic)(mesh, mat)
        simu.rho = 1.7 if damping != "tiny_mass" else 1.7e-12
        if damping == "rayleigh":
            simu.Set_Rayleigh_Damping_Coefs(0.11, 0.07)
    else:
        simu = (cls or Simulations.Thermal)(mesh, Models.Thermal(k=1.3, c=0.9, thickness=0.8))
        simu.rho = 1.7 if damping != "tiny_mass" else 1.7e-12
    return simu


def apply_bc(simu, system, constraint, load, variant=0):
    simu.Bc_Init()
    unk = simu.Get_unknowns()
    nd = len(unk)
    if constraint == "clamped":
        simu.add_dirichlet(np.array([0]), [0.0] * nd, unk)
    elif constraint == "prescribed":
        simu.add_dirichlet(np.array([0]), [0.3, -0.1][:nd], unk)
        simu.add_dirichlet(np.array([1]), [0.05], [unk[-1]])
    if load != "none":
        amp = 0.5 if variant == 0 else -0.8
        node = 2 if variant == 0 else 3
        simu.add_neumann(np.array([node]), [amp], [unk[-1]])
        if variant == 1:
            simu.add_neumann(np.array([2]), [0.25], [unk[0]])


def set_algo(simu, L):
    from EasyFEA.Simulations.Solvers import AlgoType

    a, p, dt = L["algo"], L["params"], L["dt"]
    if a == "parabolic":
        simu.Solver_Set_Parabolic_Algorithm(dt, p["alpha"])
    elif L.get("spelling") == "str":
        # AlgoType is a str-valued Enum and the setter validates with `algo in types`: the member's VALUE is an accepted spelling
        simu.Solver_Set_Hyperbolic_Algorithm(dt, str(AlgoType[a].value), **p)
    else:
        simu.Solver_Set_Hyperbolic_Algorithm(dt, AlgoType[a], **p)


def dense_system(simu):
    pt = simu.problemType
    K, C, M, F = simu.Get_K_C_M_F()
    n = K.shape[0]
    Fext = np.asarray(F.todense()).ravel().astype(float).copy()
    dofs = np.asarray(simu.Bc_dofs_Neumann(pt), dtype=int)
    vals = np.asarray(simu.Bc_values_Neumann(pt), dtype=float)
    np.add.at(Fext, dofs, vals)
    cd = np.asarray(simu.Bc_dofs_Dirichlet(pt), dtype=int)
    cv = np.asarray(simu.Bc_values_Dirichlet(pt), dtype=float)
    return K.toarray(), C.toarray(), M.toarray(), Fext, cd, cv


# ------------------------------------------------------------------------------------------------
# reference model: documented definitions
# ------------------------------------------------------------------------------------------------
def doc_params(L):
    a, p = L["algo"], dict(L["params"])
    if a == "newmark":
        return p.get("beta", 0.25), p.get("gamma", 0.5), 0.0
    if a == "hht":
        return p.get("beta", 0.25), p.get("gamma", 0.5), p.get("alpha", 0.5)
    if a == "hht_newmark":
        al = p["alpha"]
        return 0.25 * (1 + al) ** 2, 0.5 + al, al
    return None, None, p.get("alpha")


def doc_update(L, un, vn, an, u1):
    """(v_{n+1}, a_{n+1}) from u_{n+1} per the documented update relations (implicit schemes)."""
    a, dt = L["algo"], L["dt"]
    beta, gamma, alpha = doc_params(L)
    if a in ("newmark", "hht", "hht_newmark"):
        ut = un + dt * vn + dt ** 2 / 2 * (1 - 2 * beta) * an
        a1 = (u1 - ut) / (beta * dt ** 2)
        v1 = vn + dt * ((1 - gamma) * an + gamma * a1)
        return v1, a1
    if a == "midpoint":
        v1 = 2 / dt * (u1 - un) - vn
        a1 = 2 / dt * (v1 - vn) - an
        return v1, a1
    if a == "euler_implicit":
        v1 = (u1 - un) / dt
        a1 = (v1 - vn) / dt
        return v1, a1
    if a == "parabolic":
        # u_{n+1} = u_n + dt [(1-alpha) v_n + alpha v_{n+1}]
        v1 = (u1 - un - (1 - alpha) * dt * vn) / (alpha * dt)
        return v1, None
    raise KeyError(a)


def doc_eval(L, un, vn, an, u1, v1, a1):
    """documented evaluation-point states (u_t, v_t, a_t)."""
    a = L["algo"]
    _, _, alpha = doc_params(L)
    if a in ("newmark", "euler_implicit"):
        return u1, v1, a1
    if a == "hht":
        return (1 - alpha) * u1 + alpha * un, (1 - alpha) * v1 + alpha * vn, (1 - alpha) * a1 + alpha * an
    if a == "midpoint":
        return (u1 + un) / 2, (v1 + vn) / 2, (a1 + an) / 2
    if a == "hht_newmark":
        return (1 - alpha) * u1 + alpha * un, v1, a1
    if a == "parabolic":
        return u1, v1, None
    raise KeyError(a)


def _rel(x, y, *scales):
    sc = max([np.max(np.abs(x)), np.max(np.abs(y))] + [np.max(np.abs(s)) for s in scales] + [1e-300])
    return float(np.max(np.abs(x - y)) / sc)


def check_step(L, sysd, prev, new, key):
    """Invariants of one step. prev/new = (u,v,a). Returns list of violations."""
    K, C, M, F, cd, cv = sysd
    un, vn, an = prev
    u1, v1, a1 = new
    n = K.shape[0]
    free = np.setdiff1d(np.arange(n), cd)
    a, dt = L["algo"], L["dt"]
    out = []
    k = dict(key, algo=a, params=",".join(f"{kk}={round(vv, 4)}" for kk, vv in sorted(L["params"].items())))
    for name, arr in (("u", u1), ("v", v1), ("a", a1)):
        if arr is not None and not np.all(np.isfinite(arr)):
            out.append(viol("nonfinite", f"{lname(L)}: {name}_(n+1) not finite", **k))
            return out
    if a == "euler_explicit":
        # update
        if _rel(u1, un + dt * vn, un, dt * vn) > 1e-10:
            out.append(viol("update_u", f"{lname(L)}: u_(n+1) != u_n + dt v_n (rel {_rel(u1, un + dt * vn):.2e})", **k))
        if _rel(v1, vn + dt * a1, vn, dt * a1) > 1e-10:
            out.append(viol("update_v", f"{lname(L)}: v_(n+1) != v_n + dt a_n (rel {_rel(v1, vn + dt * a1):.2e})", **k))
        terms = [K @ un, C @ vn, M @ a1, F]
        res = (terms[0] + terms[1] + terms[2] - terms[3])[free]
        sc = sum(np.max(np.abs(t)) for t in terms) + 1e-300
        # round-off floor of the products themselves (K u_n may be tiny by cancellation: u_n close to a rigid-body mode)
        mx = lambda A: float(np.max(np.abs(A))) if np.size(A) else 0.0
        fl = 256 * np.finfo(float).eps * (mx(K) * mx(un) + mx(C) * mx(vn) + mx(M) * mx(a1) + mx(F))
        if free.size and np.max(np.abs(res)) > 1e-9 * sc + fl:
            out.append(viol("equation", f"{lname(L)}: |K u_n + C v_n + M a - F| on free dofs = {np.max(np.abs(res)):.3e} (scale {sc:.3e})", **k))
        if cd.size and np.max(np.abs(a1[cd])) > 1e-12 * (np.max(np.abs(a1)) + 1e-300):
            out.append(viol("explicit_constrained_accel", f"{lname(L)}: constrained dofs have acceleration {a1[cd]}", **k))
        return out
    # implicit schemes
    dv1, da1 = doc_update(L, un, vn, an, u1)
    # (the accelerations enter v_(n+1) multiplied by dt: with a negligible mass they are huge and cancel, so their magnitude is part of the scale)
    acc_sc = [dt * an] + ([dt * da1] if da1 is not None else [])
    if _rel(v1, dv1, vn, (u1 - un) / dt, *acc_sc) > 1e-10:
        out.append(viol("update_v", f"{lname(L)}: returned v_(n+1) violates the documented update (rel {_rel(v1, dv1, vn):.2e})", **k))
    if da1 is not None:
        if a1 is None:
            out.append(viol("update_a", f"{lname(L)}: no acceleration returned", **k))
            return out
        if _rel(a1, da1, an, (u1 - un) / dt ** 2, vn / dt) > 1e-10:
            out.append(viol("update_a", f"{lname(L)}: returned a_(n+1) violates the documented update (rel {_rel(a1, da1, an):.2e})", **k))
    ut, vt, at = doc_eval(L, un, vn, an, u1, dv1, da1)
    terms = [K @ ut, C @ vt, (M @ at) if at is not None else np.zeros(n), F]
    res = (terms[0] + terms[1] + terms[2] - terms[3])[free]
    sc = sum(np.max(np.abs(t)) for t in terms) + 1e-300
    # round-off floor: the step is computed from the previous state, whose products with K, C, M may be many orders larger than the
    # terms of the new state (a mass of 1e-13 against a stiffness of 1: the new state is quasi-static, the old one is not)
    mx = lambda A: float(np.max(np.abs(A))) if np.size(A) else 0.0
    fl = 256 * np.finfo(float).eps * (mx(K) * (mx(un) + mx(u1)) + mx(C) * (mx(vn) + mx(v1)) + mx(M) * (mx(an) + (mx(a1) if a1 is not None else 0.0)) + mx(F))
    if free.size and np.max(np.abs(res)) > 1e-9 * sc + fl:
        out.append(viol("equation", f"{lname(L)}: |K u_t + C v_t + M a_t - F| on free dofs = {np.max(np.abs(res)):.3e} (scale {sc:.3e})", **k))
    if cd.size:
        # summed values on duplicated dofs are C04's subject; here each dof is constrained once
        want = np.zeros(n)
        np.add.at(want, cd, cv)
        if np.max(np.abs(u1[cd] - want[cd])) > 1e-12 * (np.max(np.abs(u1)) + 1.0):
            out.append(viol("constraint", f"{lname(L)}: constrained dofs hold {u1[cd]} instead of {want[cd]}", **k))
    return out


def basis_states(n, system):
    z = np.zeros(n)
    out = [("zero", (z, z, z))]
    for which in range(3 if system == "elastic" else 2):
        for i in range(n):
            e = np.zeros(n)
            e[i] = 1.0
            st = [z, z, z]
            st[which] = e
            out.append((f"e{'uva'[which]}{i}", tuple(st)))
    out.append(("generic", generic_state(n)))
    return out


def generic_state(n):
    r = rng("c05state", n)
    return tuple(r.normal(size=n) for _ in range(3))


def do_step(simu, L, state):
    pt = simu.problemType
    u, v, a = state
    simu._Set_solutions(pt, u.copy(), v.copy(), a.copy())
    set_algo(simu, L)
    simu.Solve()
    u1 = np.array(simu._Get_u_n(pt), dtype=float)
    v1 = np.array(simu._Get_v_n(pt), dtype=float)
    a1 = np.array(simu._Get_a_n(pt), dtype=float) if L["algo"] != "parabolic" else None
    return u1, v1, a1


def run_case(case):
    return globals()["_run_" + case["kind"]](case)


def _run_forward_euler(case):
    """alpha = 0 of the parabolic scheme, documented as Forward Euler (docstring of Solver_Set_Parabolic_Algorithm: 'alpha = 0 -> Forward Euler'):
    u_{n+1} = u_n + dt v_n, and C v_{n+1} + K u_{n+1} = F on the free dofs."""
    simu = make_simu("thermal", "none")
    apply_bc(simu, "thermal", case["constraint"], case["load"])
    pt = simu.problemType
    K, C, M, F = (np.asarray(A.todense()) for A in simu.Get_K_C_M_F())
    n = K.shape[0]
    un, vn, _ = generic_state(n)
    dt = 0.01
    key = dict(kind="forward_euler", algo="parabolic", params="alpha=0", constraint=case["constraint"], load=case["load"])
    simu.Solver_Set_Parabolic_Algorithm(dt, 0.0)
    simu._Set_solutions(pt, un.copy(), vn.copy(), np.zeros(n))
    try:
        with contextlib.redirect_stdout(io.StringIO()):
            simu.Solve()
    except Exception as err:
        return {"violations": [viol("step_raises", f"parabolic scheme with alpha = 0 (documented as Forward Euler): Solve raised {type(err).__name__}: {str(err)[:120]}", **key)],
                "fingerprint": fp("fe", case), "nontrivial": True, "transitions": 1, "outcome": "violation"}
    u1 = np.array(simu._Get_u_n(pt), dtype=float)
    v1 = np.array(simu._Get_v_n(pt), dtype=float)
    known = np.asarray(simu.Bc_dofs_Dirichlet(pt), dtype=int)
    free = np.setdiff1d(np.arange(n), known)
    v = []
    e1 = _rel(u1[free], (un + dt * vn)[free])
    if e1 > 1e-12:
        v.append(viol("update_u", f"parabolic(alpha=0): u_(n+1) differs from u_n + dt v_n by {e1:.3e} on the free dofs", **key))
    r = (C @ v1 + K @ u1 - F.ravel())[free]
    e2 = np.abs(r).max() / max(np.abs(C @ v1).max(), np.abs(K @ u1).max(), 1e-300)
    if e2 > 1e-10:
        v.append(viol("equation", f"parabolic(alpha=0): |C v + K u - F| on the free dofs = {e2:.3e} (relative)", **key))
    return {"violations": v, "fingerprint": fp("fe", case, u1, v1), "nontrivial": True, "transitions": 1, "outcome": "ok" if not v else "violation"}


def _run_hyper(case):
    from EasyFEA import Models, Simulations

    L = letters("elastic")[case["l1"]]
    lam, mu, th, rho, eta = 1.2, 0.8, 0.8, 1.7, (0.3 if case["viscous"] else 0.0)
    mesh = Z.template_2d("TRI3", 1).build()
    mat = Models.HyperElastic.SaintVenantKirchhoff(2, lmbda=lam, mu=mu, thickness=th)
    if eta:
        mat.eta = eta
    simu = Simulations.HyperElastic(mesh, mat)
    simu.rho = rho
    # linear twin: plane strain isotropic with the same Lame constants
    E = mu * (3 * lam + 2 * mu) / (lam + mu)
    nu = lam / (2 * (lam + mu))
    lin = Simulations.Elastic(Z.template_2d("TRI3", 1).build(), Models.Elastic.Isotropic(2, E=E, v=nu, planeStress=False, thickness=th))
    lin.rho = rho
    K, _, M, _ = lin.Get_K_C_M_F()
    K, M = K.toarray(), M.toarray()
    n = K.shape[0]
    key = dict(kind="hyper", algo=L["algo"], params=",".join(f"{k}={round(v, 4)}" for k, v in sorted(L["params"].items())), viscous=bool(case["viscous"]))
    amp = 1e-7
    un, vn, an = (amp * x for x in generic_state(n))
    simu.Bc_Init()
    unk = simu.Get_unknowns()
    simu.add_dirichlet(np.array([0]), [0.0] * len(unk), unk)
    un[:2] = 0.0
    pt = simu.problemType
    simu._Set_solutions(pt, un.copy(), vn.copy(), an.copy())
    set_algo(simu, L)
    v = []
    import contextlib
    import io

    try:
        with contextlib.redirect_stdout(io.StringIO()):
            simu.Solve()
    except Exception as err:
        return {"violations": [viol("hyper_raises", f"{lname(L)} on HyperElastic: Solve raised {type(err).__name__}: {str(err)[:160]}", **key)],
                "fingerprint": fp("hyperraise", case), "nontrivial": False, "transitions": 1}
    u1 = np.array(simu._Get_u_n(pt), dtype=float)
    v1 = np.array(simu._Get_v_n(pt), dtype=float)
    a1 = np.array(simu._Get_a_n(pt), dtype=float)
    dv1, da1 = doc_update(L, un, vn, an, u1)
    if _rel(v1, dv1, vn, (u1 - un) / L["dt"]) > 1e-9:
        v.append(viol("update_v", f"{lname(L)} on HyperElastic: returned v_(n+1) violates the documented update (rel {_rel(v1, dv1, vn):.2e})", **key))
    if _rel(a1, da1, an, (u1 - un) / L["dt"] ** 2, vn / L["dt"]) > 1e-9:
        v.append(viol("update_a", f"{lname(L)} on HyperElastic: returned a_(n+1) violates the documented update (rel {_rel(a1, da1, an):.2e})", **key))
    if not case["viscous"]:
        ut, vt, at = doc_eval(L, un, vn, an, u1, dv1, da1)
        free = np.arange(2, n)
        terms = [K @ ut, M @ at]
        res = (terms[0] + terms[1])[free]
        sc = sum(np.max(np.abs(t)) for t in terms) + 1e-300
        # linear limit: the internal force differs from K_lin u by O(|grad u|^2) ~ amp relative; Newton stops at its own tolerance
        if np.max(np.abs(res)) > 1e-4 * sc:
            v.append(viol("equation", f"{lname(L)} on HyperElastic (linear limit, amplitude {amp:g}): |K_lin u_t + M a_t| on free dofs = {np.max(np.abs(res)):.3e} "
                                      f"(scale {sc:.3e}): the step is not the scheme's equation of motion", **key))
    else:
        # with Kelvin-Voigt viscosity the dissipative operator is not a multiple of K_lin: the step must differ from the inviscid one
        # and still satisfy the update relations (checked above); the equation itself is C18's subject (tangent = d residual)
        pass
    return {"violations": v, "fingerprint": fp("hyper", case, u1, v1, a1), "nontrivial": _rel(u1, un) > 1e-9, "transitions": 1}


def _cfgkey(case):
    return {k: case[k] for k in ("system", "damping", "constraint", "load", "spelling") if k in case}


def _run_step1(case):
    system = case["system"]
    Ls = letters(system)
    L = Ls[case["l1"]]
    if case.get("spelling"):
        L = dict(L, spelling=case["spelling"])
    simu = make_simu(system, case["damping"])
    apply_bc(simu, system, case["constraint"], case["load"])
    sysd = dense_system(simu)
    n = sysd[0].shape[0]
    v, fps, ntr, changed = [], [], 0, 0
    for name, st in basis_states(n, system):
        new = do_step(simu, L, st)
        ntr += 1
        vv = check_step(L, sysd, st, new, dict(_cfgkey(case), depth=1))
        for x in vv:
            x["detail"] += f" [prior state {name}]"
        v += vv
        fps.append(fp(*[x for x in new if x is not None]))
        changed += int(_rel(new[0], st[0]) > 1e-12 or _rel(new[1], st[1]) > 1e-12)
    return {"violations": _dedupe(v), "fingerprint": fp(case["l1"], fps), "nontrivial": changed > 0, "transitions": ntr,
            "states": len(set(fps))}


def _dedupe(v, cap=6):
    seen, out = set(), []
    for x in v:
        k = str(sorted(x["key"].items()))
        if k in seen:
            continue
        seen.add(k)
        out.append(x)
    return out[:cap]


def _run_step2(case, depth=2):
    system = case["system"]
    Ls = letters(system)
    simu = make_simu(system, case["damping"])
    apply_bc(simu, system, case["constraint"], case["load"])
    sysd0 = dense_system(simu)
    n = sysd0[0].shape[0]
    st0 = generic_state(n)
    v, ntr = [], 0
    seen = {}
    first = [case["l1"]] + ([case["l2"]] if "l2" in case else [])
    # replay the prefix
    st = st0
    path = []
    for li in first:
        new = do_step(simu, Ls[li], st)
        ntr += 1
        path.append(lname(Ls[li]))
        vv = check_step(Ls[li], sysd0, st, new, dict(_cfgkey(case), depth=len(path)))
        for x in vv:
            x["detail"] += f" [path {' -> '.join(path)}]"
        v += vv
        st = (new[0], new[1], new[2] if new[2] is not None else st[2])
    # load changed between steps
    if case["load"] == "changed":
        apply_bc(simu, system, case["constraint"], case["load"], variant=1)
        sysd1 = dense_system(simu)
    else:
        sysd1 = sysd0
    base = st
    for j, L in enumerate(Ls):
        if "dt2" in case and L["dt"] not in case["dt2"]:
            continue
        new = do_step(simu, L, base)
        ntr += 1
        vv = check_step(L, sysd1, base, new, dict(_cfgkey(case), depth=len(path) + 1, prev=Ls[first[-1]]["algo"]))
        for x in vv:
            x["detail"] += f" [path {' -> '.join(path)} -> {lname(L)}]"
        v += vv
        seen[fp(*[x for x in new if x is not None])] = 1
    return {"violations": _dedupe(v), "fingerprint": fp(first, sorted(seen)), "nontrivial": True, "transitions": ntr,
            "states": len(seen) + len(first)}


def _run_step3(case):
    return _run_step2(case)


def _run_coefs(case):
    """coefK, coefC, coefM == exact difference quotients of the evaluation-point states wrt u_{n+1};
    the evaluation-point states equal the documented ones."""
    system = case["system"]
    L = letters(system)[case["l1"]]
    simu = make_simu(system, "none")
    pt = simu.problemType
    sysd = dense_system(simu)
    n = sysd[0].shape[0]
    un, vn, an = generic_state(n)
    simu._Set_solutions(pt, un.copy(), vn.copy(), an.copy())
    set_algo(simu, L)
    cK, cC, cM = simu._Solver_Get_K_C_M_coefs_for_time_scheme()
    r = rng("c05coef", n)
    u0 = r.normal(size=n)
    base = simu._Solver_Evaluate_u_v_a_for_time_scheme(pt, u0.copy())
    v = []
    key = dict(system=system, algo=L["algo"], params=",".join(f"{kk}={round(vv, 4)}" for kk, vv in sorted(L["params"].items())))
    ntr = 1
    if L["algo"] == "euler_explicit":
        # documented: A = M, forces evaluated at state n
        if (cK, cC, cM) != (0, 0, 1):
            v.append(viol("coefs", f"{lname(L)}: coefs {(cK, cC, cM)} expected (0,0,1)", **key))
        if _rel(base[0], un) > 1e-14 or _rel(base[1], vn) > 1e-14:
            v.append(viol("eval_states", f"{lname(L)}: explicit scheme must evaluate forces at (u_n, v_n)", **key))
        return {"violations": v, "fingerprint": fp(L["algo"], cK, cC, cM), "nontrivial": True, "transitions": ntr}
    # documented evaluation states at u0
    dv1, da1 = doc_update(L, un, vn, an, u0)
    dut, dvt, dat = doc_eval(L, un, vn, an, u0, dv1, da1)
    for nm, got, want in (("u_t", base[0], dut), ("v_t", base[1], dvt), ("a_t", base[2], dat)):
        if want is None:
            continue
        if got is None or _rel(np.asarray(got), want, un, vn / 1.0, an) > 1e-10:
            v.append(viol("eval_states", f"{lname(L)}: evaluation-point state {nm} differs from the documented definition", which=nm, **key))
    for i in range(n):
        e = np.zeros(n)
        e[i] = 1.0
        pert = simu._Solver_Evaluate_u_v_a_for_time_scheme(pt, (u0 + e).copy())
        ntr += 1
        for nm, coef, b0, b1 in (("coefK", cK, base[0], pert[0]), ("coefC", cC, base[1], pert[1]), ("coefM", cM, base[2], pert[2])):
            if b0 is None:
                if coef != 0:
                    v.append(viol("coefs", f"{lname(L)}: {nm} = {coef} but the scheme has no such state", which=nm, **key))
                continue
            dq = np.asarray(b1) - np.asarray(b0)
            sc = max(abs(coef), np.max(np.abs(dq)), 1e-300)
            # cancellation: dq is a difference of O(|state|) numbers
            tol = 1e-9 * sc + 1e-12 * (np.max(np.abs(b0)) + np.max(np.abs(b1)))
            if np.max(np.abs(dq - coef * e)) > tol:
                v.append(viol("coefs", f"{lname(L)}: {nm} = {coef!r} but d({nm[-1]}_t)/du_(n+1) = {dq[i]!r}", which=nm, **key))
    return {"violations": _dedupe(v), "fingerprint": fp(L["algo"], cK, cC, cM), "nontrivial": True, "transitions": ntr}


def _nl_class(system):
    from EasyFEA import Simulations

    Base = Simulations.Elastic if system == "elastic" else Simulations.Thermal

    class NLProbe(Base):
        """Same linear K, C, M, assembled through the NONLINEAR contract: F_e = -(K_e u_t + C_e v_t + M_e a_t)."""

        def __init__(self, *a, **k):
            super().__init__(*a, **k)
            self._Solver_Set_Newton_Raphson_Algorithm(absTol=1e-12, relTol=1e-13, incTol=1e-14, maxIter=10)

        def Construct_local_matrix_system(self, problemType):
            out = super().Construct_local_matrix_system(problemType)
            dof_n = self.Get_dof_n(problemType)
            u = self._Solver_Get_Newton_Raphson_current_solution()
            from EasyFEA.Simulations.Solvers import AlgoType

            if self.algo == AlgoType.elliptic:
                ut, vt, at = u, None, None
            else:
                ut, vt, at = self._Solver_Evaluate_u_v_a_for_time_scheme(problemType, u)
            new = {}
            for g, (K_e, C_e, M_e, F_e) in out.items():
                R = np.einsum("eij,ej->ei", np.asarray(K_e), np.asarray(g.Locates_sol_e(ut, dof_n)))
                if C_e is not None and vt is not None:
                    R = R + np.einsum("eij,ej->ei", np.asarray(C_e), np.asarray(g.Locates_sol_e(vt, dof_n)))
                if M_e is not None and at is not None:
                    R = R + np.einsum("eij,ej->ei", np.asarray(M_e), np.asarray(g.Locates_sol_e(at, dof_n)))
                new[g] = (K_e, C_e, M_e, -R)
            return new

    return NLProbe


def _run_newton(case):
    import contextlib
    import io

    system = case["system"]
    L = letters(system)[case["l1"]]
    lin = make_simu(system, "rayleigh" if system == "elastic" else "none")
    nl = make_simu(system, "rayleigh" if system == "elastic" else "none", cls=_nl_class(system))
    for s in (lin, nl):
        apply_bc(s, system, case["constraint"], case["load"])
    n = lin.mesh.Nn * lin.Get_dof_n()
    st = generic_state(n)
    a = do_step(lin, L, st)
    with contextlib.redirect_stdout(io.StringIO()):
        b = do_step(nl, L, st)
    v = []
    key = dict(system=system, constraint=case["constraint"], load=case["load"], algo=L["algo"],
               params=",".join(f"{kk}={round(vv, 4)}" for kk, vv in sorted(L["params"].items())))
    for nm, x, y in zip("uva", a, b):
        if x is None:
            continue
        if _rel(x, y) > 1e-8:
            v.append(viol("newton_vs_direct", f"{lname(L)}: {nm}_(n+1) through the Newton (residual) path differs from the direct path by rel {_rel(x, y):.2e}", which=nm, **key))
    return {"violations": v, "fingerprint": fp(case["l1"], case["constraint"], case["load"], a[0]), "nontrivial": True, "transitions": 2}


def _run_energy(case):
    from EasyFEA import Models, Simulations
    from EasyFEA.Simulations.Solvers import AlgoType

    mesh = Z.template_2d(case["elemType"], 1).build()
    simu = Simulations.Elastic(mesh, Models.Elastic.Isotropic(2, E=3.0, v=0.25, planeStress=True, thickness=0.8))
    simu.rho = 1.7
    pt = simu.problemType
    K, C, M, F = [x.toarray() for x in simu.Get_K_C_M_F()]
    n = K.shape[0]
    r = rng("c05energy", case["init"], n)
    u0 = r.normal(size=n) if "u" in case["init"] or case["init"] == "generic" else np.zeros(n)
    v0 = r.normal(size=n) if "v" in case["init"] or case["init"] == "generic" else np.zeros(n)
    dt = case["dt"]
    algo = case["algo"]
    if algo == "newmark_avg":
        a0 = -np.linalg.solve(M, K @ u0)  # consistent initial acceleration
        simu.Solver_Set_Hyperbolic_Algorithm(dt, AlgoType.newmark, beta=0.25, gamma=0.5)
    elif algo == "midpoint":
        a0 = r.normal(size=n) if case["init"] == "generic" else np.zeros(n)  # any state
        simu.Solver_Set_Hyperbolic_Algorithm(dt, AlgoType.midpoint)
    else:
        a0 = np.zeros(n)
        simu.Solver_Set_Hyperbolic_Algorithm(dt, AlgoType.euler_implicit)
    simu._Set_solutions(pt, u0.copy(), v0.copy(), a0.copy())

    def energy(u, v):
        return 0.5 * v @ M @ v + 0.5 * u @ K @ u

    aK, aM = np.abs(K), np.abs(M)

    def energy_abs(u, v):
        # bound of the round-off of `energy`: the quadratic forms of the absolute values (the rigid part of u, which carries
        # no strain energy, grows like v*t in free motion and dominates the cancellation error)
        return 0.5 * np.abs(v) @ aM @ np.abs(v) + 0.5 * np.abs(u) @ aK @ np.abs(u)

    E0 = energy(u0, v0)
    Es = [E0]
    Ea = [energy_abs(u0, v0)]
    for _ in range(case["nsteps"]):
        simu.Solve()
        Es.append(energy(simu._Get_u_n(pt), simu._Get_v_n(pt)))
        Ea.append(energy_abs(simu._Get_u_n(pt), simu._Get_v_n(pt)))
    Es = np.array(Es)
    Ea = np.array(Ea)
    v = []
    key = dict(algo=algo, elemType=case["elemType"], init=case["init"])
    if not np.all(np.isfinite(Es)):
        v.append(viol("energy_nonfinite", f"{algo} dt={dt}: energy not finite", **key))
    elif algo in ("newmark_avg", "midpoint"):
        drift = np.max(np.maximum(np.abs(Es - E0) - 1e-11 * Ea, 0.0)) / E0
        # conditioning: each step solves with A = K + 4/dt^2 M ; allow round-off growth ~ cond * eps per step
        A = K + 4 / dt ** 2 * M
        cond = np.linalg.cond(A)
        tol = max(1e-11, 50 * case["nsteps"] * cond * 2.3e-16)
        if drift > tol:
            v.append(viol("energy_conservation", f"{algo} dt={dt}: max |E-E0|/E0 = {drift:.3e} over {case['nsteps']} steps (tol {tol:.1e})", **key))
    else:
        # each step solves with A = K + M/dt^2 (K has rigid modes: A is ill conditioned for large dt);
        # round-off can raise the energy by ~ cond(A) * eps relative to the energy before the step
        cond = np.linalg.cond(K + M / dt ** 2)
        tol = max(1e-12, 2000 * cond * 2.3e-16)
        # absolute floor: the energy of the (energy-free) rigid part of u is only known to ~eps |K| |u|^2
        # (round-off of the energy itself: ~ n * eps * |K| |u|^2 with the O(1) rigid part of u  ->  1e-11 E0)
        floor = 1e-11 * E0 + 1e-11 * np.maximum(Ea[1:], Ea[:-1])
        inc = np.max((np.diff(Es) - floor) / np.maximum(Es[:-1], 1e-11 * E0))
        if inc > tol:
            v.append(viol("energy_increase", f"euler_implicit dt={dt}: energy increased by {inc:.3e} (relative to the energy before the step; tol {tol:.1e})", **key))
    return {"violations": v, "fingerprint": fp(algo, dt, case["init"], case["elemType"], Es[-1] / E0), "nontrivial": True,
            "transitions": case["nsteps"], "outcome": "ok" if not v else "violation"}
