"""C03 — assembly is the exact scatter-add of the element contributions, for any numbering and any history.

E2 (unmerged): a harness subclass of a real simulation returns seeded element arrays from a *slot table*
(which group contributes to which of K, C, M, F; None slots; lower-dimensional groups "added by a user subclass";
real / complex values; dof_n in {1,2,3}).  All operation sequences up to depth 3 (quick) / 4 (thorough) over
{assemble, add Lagrange condition, clear BCs, swap slot table, new values, switch value kind, replace mesh, renumber,
refresh the element buffers in place};
after every operation the real `Assembly()` is compared with a dense triple loop written from the documented dof
convention (node*dof_n + component)."""
from __future__ import annotations

import itertools

import numpy as np

from mc.util import fp, rng, viol
from zoo import meshes as Z

PROPERTY = "C03"

# "inplace": from then on the harness keeps its element arrays in persistent buffers and refreshes them IN PLACE (same array objects,
# new values) before announcing the change with Need_Update() - what a user subclass that recycles its buffers does
OPS = ["assemble", "lagrange", "clearbc", "dirichlet", "slots", "values", "kind", "mesh", "renumber", "inplace"]
SLOT_TABLES = 5
KINDS = ["real", "real_then_complex", "complex", "complex_then_real", "complex64"]  # complex64: single-precision complex element arrays
MESHES = {
    "tri2": lambda: Z.template_2d("TRI3", 1),
    "mixed2d": lambda: Z.template_2d(("TRI3", "QUAD4"), 2),
    "quad8": lambda: Z.template_2d("QUAD8", [2, 1]),
    "mixed3d": lambda: Z.template_3d(("PRISM6", "HEXA8"), [2, 1, 1]),
    "tri6k2": lambda: Z.template_2d("TRI6", 2),
}
MESH_CYCLE = {"tri2": "mixed2d", "mixed2d": "tri6k2", "quad8": "tri2", "mixed3d": "tri2", "tri6k2": "mixed2d"}
# letter "integer type of the connectivity array": the same node numbers stored in the integer dtypes a mesh reader / a hand-made
# array may carry; every node number is representable in the dtype (asserted), node * dof_n + component need not be.
# grid13 = 13 x 13 cells, 196 nodes (<= 2^8), main group(s) + boundary segments; grid148 = 148 x 148 QUAD4, 22 201 nodes (<= 2^16).
CONN_DTYPES = ["int64", "int32", "uint16", "uint8"]
CONN_MESHES = {
    "grid13_quad": (lambda: Z.template_2d("QUAD4", 13), ["int64", "int32", "uint16", "uint8"], [1, 2, 3]),
    "grid13_mixed": (lambda: Z.template_2d(("TRI3", "QUAD4"), 13), ["int64", "int32", "uint16", "uint8"], [1, 2, 3]),
    "grid148_quad": (None, ["int64", "int32", "uint16"], [3]),
}


def cases(tier, seed):
    out = []
    base_starts = [("tri2", 1), ("mixed2d", 2), ("mixed3d", 3), ("quad8", 2)]
    if tier == "quick":
        plans = [(3, base_starts, [0, 1, 3], ["real", "real_then_complex"])]
    else:
        # depth 4 from the quick starts with every slot table; depth 3 from every (mesh, dof_n, slot table, value kind)
        plans = [(4, base_starts, list(range(SLOT_TABLES)), ["real", "real_then_complex"]),
                 (3, [(m, d) for m in ("tri2", "mixed2d", "mixed3d", "quad8") for d in (1, 2, 3)], list(range(SLOT_TABLES)), KINDS)]
    for depth, starts, slots, kinds in plans:
        for mesh, dof_n in starts:
            for slot0 in slots:
                for kind0 in kinds:
                    for seq in itertools.product(OPS, repeat=depth):
                        out.append({"kind": "history", "mesh": mesh, "dof_n": dof_n, "slot0": slot0, "kind0": kind0, "ops": list(seq)})
    # real simulations: assembly == scatter-add of their own element arrays, first and repeated assembly
    for sim in ("elastic", "thermal", "phasefield", "beam", "weakform"):
        for mesh in ("tri2", "mixed2d", "quad8", "mixed3d", "tri6k2"):
            out.append({"kind": "realsim", "sim": sim, "mesh": mesh})
    # renumbering: K_pi = P K P^T, F_pi = P F, u_pi = P u
    for sim in ("elastic", "thermal"):
        for mesh, perms in (("tri2", "all"), ("mixed2d", "reps"), ("quad8", "reps"), ("mixed3d", "reps")):
            if sim == "thermal" and mesh == "mixed3d" and tier == "quick":
                continue
            out.append({"kind": "renumber", "sim": sim, "mesh": mesh, "perms": perms})
    # special sizes and shapes of the assembly: (i) Ndof^2 >= 2^31 (the flattened (row, col) key no longer fits 32 bits),
    # (ii) meshes on which NO matrix slot receives two contributions (a single element, elements sharing no node) with every /
    # scrambled node numbering, (iii) a caller that edits the returned matrices in place between two reads
    out.append({"kind": "large", "n": 160 if tier == "quick" else 200, "dof_n": 2})
    if tier == "thorough":
        # (iv) more than 2^22 element entries in ONE slot (20 x 20 x 19 HEXA8, 3 dofs per node: 4.4e6 entries, ~1.2 GB): block-wise
        # code paths of a reduction that only very large slots enter
        out.append({"kind": "large", "n": [20, 20, 19], "dof_n": 3})
    for et, nel in (("TRI3", 1), ("QUAD4", 1), ("TRI3", 2), ("QUAD4", 2), ("TETRA4", 1)):
        for dof_n in (1, 2):
            out.append({"kind": "isolated", "elemType": et, "nel": nel, "dof_n": dof_n})
    for sim in ("elastic", "thermal"):
        out.append({"kind": "scribble", "sim": sim, "mesh": "mixed2d"})
    # (v) integer type of the connectivity arrays x dofs per node, on meshes whose dof numbers exceed the range of the small types
    for mesh, (_, dtypes, dofs) in CONN_MESHES.items():
        for dt in dtypes:
            for dof_n in dofs:
                out.append({"kind": "conndtype", "mesh": mesh, "conn": dt, "dof_n": dof_n})
    # direct assembly of user forms (FEM/_forms.py): Assemble == scatter-add of Integrate_e, non-symmetric forms included
    for et in ("TRI3", "QUAD4", "TRI6", "TETRA4"):
        for dof_n in (1, 2):
            for form in ("mass", "nonsym", "linear"):
                for scale in (1.0, 1e-14, 1e12):  # magnitudes of other unit systems: nothing may be dropped or clipped
                    out.append({"kind": "form", "elemType": et, "dof_n": dof_n, "form": form, "scale": scale})
                # a Field on a group that does NOT use every node of the mesh: mesh with an orphan node; a boundary group
                out.append({"kind": "form", "elemType": et, "dof_n": dof_n, "form": form, "scale": 1.0, "group": "orphan"})
                if form != "nonsym":
                    out.append({"kind": "form", "elemType": et, "dof_n": dof_n, "form": form, "scale": 1.0, "group": "boundary"})
    return out


def describe(tier, seed):
    depth = 3 if tier == "quick" else 4
    return {
        "rule": f"E2 unmerged: every sequence of {len(OPS)} operations of length {depth} from each start (mesh, dof_n, slot table, value kind); "
                "after EVERY operation Assembly() of the real simulation is compared entry-wise with a dense loop over the dict returned by "
                "Construct_local_matrix_system; plus real simulations (first and repeated assembly), node renumberings (all 24 permutations of the "
                "4-node mesh, 3 representatives elsewhere), direct form assembly, and the integer type of the connectivity arrays "
                f"{CONN_DTYPES} x dofs per node on grids of 196 nodes (dof_n 1-3) and 22 201 nodes (dof_n 3; no uint8). non-trivial = at least two assemblies with a different cache key; "
                "distinct = fingerprint of the sequence of assembled systems",
        "exhaustive": True,
        "bound": ("depth 3 from 4 (mesh,dof_n) x 3 slot tables x 2 value kinds" if tier == "quick" else
                  "depth 4 from 4 (mesh,dof_n) x 5 slot tables x 2 value kinds, and depth 3 from 12 (mesh,dof_n) x 5 slot tables x 4 value kinds"),
        "alphabet": {"ops": len(OPS), "slot_tables": SLOT_TABLES, "value_kinds": len(KINDS), "meshes": len(MESHES),
                     "connectivity_dtypes": len(CONN_DTYPES)},
        "assumptions": ["dof convention node*dof_n + component (documented in Get_assembly_e)", "tolerance 1e-13 relative, real and imaginary parts"],
    }


# ------------------------------------------------------------------------------------------------
# harness simulation
# ------------------------------------------------------------------------------------------------
def _probe_class():
    from EasyFEA import Simulations

    class ProbeSimu(Simulations.Thermal):
        """User subclass: element arrays come from a slot table; lower-dimensional groups may contribute."""

        probe_dof_n = 1
        probe_slot = 0
        probe_kind = "real"
        probe_epoch = 0
        probe_inplace = False

        def Get_unknowns(self, problemType=None):
            return ["a", "b", "c"][: self.probe_dof_n]

        def Get_dof_n(self, problemType=None):
            return self.probe_dof_n

        def _groups(self):
            main = list(self.mesh.Get_list_groupElem())
            low = list(self.mesh.Get_list_groupElem(self.mesh.dim - 1))
            return main, low

        def Construct_local_matrix_system(self, problemType):
            main, low = self._groups()
            dof_n = self.probe_dof_n
            t = self.probe_slot
            # slot table: per group a 4-tuple of booleans (K, C, M, F)
            table = []
            if t == 0:
                table = [(g, (1, 1, 1, 1)) for g in main]
            elif t == 1:  # boundary groups contribute K, C, F but leave M None (documented cardiac case)
                table = [(g, (1, 1, 1, 1)) for g in main] + [(g, (1, 1, 0, 1)) for g in low]
            elif t == 2:  # first main group K only; others everything; boundary F only
                table = [(g, (1, 0, 0, 0) if i == 0 else (1, 1, 1, 1)) for i, g in enumerate(main)] + [(g, (0, 0, 0, 1)) for g in low]
                if len(main) == 1:
                    table = [(main[0], (1, 0, 1, 0))] + [(g, (1, 0, 0, 1)) for g in low]
            elif t == 3:  # lower-dimensional groups listed FIRST in the returned dict
                table = [(g, (1, 0, 1, 1)) for g in low] + [(g, (1, 1, 1, 1)) for g in main]
            elif t == 4:  # C and M absent everywhere, F only from the last group
                allg = main + low
                table = [(g, (1, 0, 0, 1 if i == len(allg) - 1 else 0)) for i, g in enumerate(allg)]
            out = {}
            for gi, (g, flags) in enumerate(table):
                n = g.nPe * dof_n
                arrs = []
                for si, fl in enumerate(flags):
                    if not fl:
                        arrs.append(None)
                        continue
                    r = rng("c03vals", g.elemType.name, g.Ne, si, dof_n, self.probe_epoch)
                    shape = (g.Ne, n, n) if si < 3 else (g.Ne, n)
                    a = r.normal(size=shape)
                    kind = self.probe_kind
                    cplx = (kind in ("complex", "complex64")) or (kind == "real_then_complex" and gi > 0) or (kind == "complex_then_real" and gi == 0)
                    if cplx:
                        a = a + 1j * r.normal(size=shape)
                    if kind == "complex64":
                        a = a.astype(np.complex64)
                    if self.probe_epoch % 2 == 1 and kind != "complex64":
                        # every second set of values: the last element of each group is 18 decades smaller than the others (a part of
                        # the model in another material / unit): its contributions are genuine coefficients, not round-off
                        a[-1] *= 1e-18
                    if self.probe_inplace:
                        bk = (g.elemType.name, g.Ne, si, dof_n, bool(cplx))
                        bufs = self.__dict__.setdefault("probe_buffers", {})
                        if bk in bufs and bufs[bk].shape == a.shape:
                            bufs[bk][...] = a
                            a = bufs[bk]
                        else:
                            bufs[bk] = a
                    arrs.append(a)
                out[g] = tuple(arrs)
            return out

    return ProbeSimu


def dense_reference(dict_KCMF, dof_n, Ndof):
    """Independent scatter-add: A[n_i*dof_n+a, n_j*dof_n+b] += X_e[i*dof_n+a, j*dof_n+b]."""
    outs = []
    for slot in range(4):
        cplx = any(np.iscomplexobj(v[slot]) for v in dict_KCMF.values() if v[slot] is not None)
        dt = complex if cplx else float
        A = np.zeros((Ndof, Ndof) if slot < 3 else (Ndof, 1), dtype=dt)
        for g, arrs in dict_KCMF.items():
            X = arrs[slot]
            if X is None:
                continue
            X = np.asarray(X)
            con = np.asarray(g.connect, dtype=int)
            nPe = con.shape[1]
            for e in range(con.shape[0]):
                gd = [int(con[e, i]) * dof_n + a for i in range(nPe) for a in range(dof_n)]
                if slot < 3:
                    for li, gi in enumerate(gd):
                        for lj, gj in enumerate(gd):
                            A[gi, gj] += X[e, li, lj]
                else:
                    for li, gi in enumerate(gd):
                        A[gi, 0] += np.asarray(X[e]).ravel()[li]
        outs.append(A)
    return outs


def compare(simu, key, where):
    pt = simu.problemType
    dof_n = simu.Get_dof_n(pt)
    Ndof = simu.mesh.Nn * dof_n + simu._Bc_Lagrange_dim(pt)
    got = simu.Assembly(pt)
    loc = simu.Construct_local_matrix_system(pt)
    ref = dense_reference(loc, dof_n, Ndof)
    # entrywise scale: the scatter-add of the moduli (rounding bound of a sum: every coefficient is exact relative to the contributions
    # IT receives, however small they are next to the rest of the matrix)
    refabs = dense_reference({g: tuple(None if a is None else np.abs(np.asarray(a)) for a in arrs) for g, arrs in loc.items()}, dof_n, Ndof)
    v = []
    fps = []
    # the system the simulation keeps (Get_K_C_M_F: rebuilt only when something announced a change) is the same scatter-add
    kept = simu.Get_K_C_M_F(pt)
    for name, G, R in zip("KCMF", kept, ref):
        Gd = G.toarray() if hasattr(G, "toarray") else np.asarray(G)
        sc = max(np.abs(R).max(), 1e-300) if R.size else 1.0
        if Gd.shape != R.shape or (R.size and np.abs(Gd - R).max() > 1e-13 * sc):
            v.append(viol("kept_system_mismatch", f"{where}: Get_K_C_M_F {name} (shape {Gd.shape}) differs from the dense scatter-add of the current element arrays "
                                                  f"(shape {R.shape})", slot=name, **key))
            break
    for name, G, R in zip("KCMF", got, ref):
        Gd = G.toarray() if hasattr(G, "toarray") else np.asarray(G)
        fps.append(fp(Gd))
        if Gd.shape != R.shape:
            v.append(viol("assembly_shape", f"{where}: {name} has shape {Gd.shape}, expected {R.shape}", slot=name, **key))
            continue
        sc = max(np.abs(R).max(), 1e-300) if R.size else 1.0
        if np.iscomplexobj(R) and not np.iscomplexobj(Gd) and np.abs(R.imag).max() > 0:
            v.append(viol("assembly_complex_dropped", f"{where}: {name} is real but the element contributions are complex", slot=name, **key))
            continue
        err = np.abs(Gd - R).max() if R.size else 0.0
        if err > 1e-13 * sc:
            v.append(viol("assembly_mismatch", f"{where}: {name} differs from the dense scatter-add by {err:.3e} (scale {sc:.2e})", slot=name, **key))
            continue
        Ra = refabs["KCMF".index(name)].real
        tol_ij = (1e-6 if Gd.dtype == np.complex64 or any(np.asarray(a["KCMF".index(name)]).dtype == np.complex64 for a in loc.values() if a["KCMF".index(name)] is not None) else 1e-13) * Ra
        bad = np.abs(Gd - R) > tol_ij
        if R.size and bad.any():
            i, j = np.argwhere(bad)[0]
            v.append(viol("assembly_small_entry", f"{where}: {name}[{i},{j}] = {Gd[i, j]!r}, the scatter-add of the contributions this coefficient receives is {R[i, j]!r} "
                                                  f"(sum of their moduli {Ra[i, j]:.3e}; largest coefficient of the matrix {sc:.2e})", slot=name, **key))
    # the matrices handed out by Assembly() belong to the caller too: an in-place structural operation on them (dropping stored zeros, the
    # natural thing to do with a consistent mass matrix) must not reach the next assembly
    import warnings

    for G in got:
        if hasattr(G, "eliminate_zeros") and G.nnz:
            G.data[::2] = 0.0
            G.eliminate_zeros()
        elif hasattr(G, "eliminate_zeros") and min(G.shape) > 0:
            # ... nor may a value written into a slot nobody contributes to (nodal forces entered by hand into the empty F)
            with warnings.catch_warnings():
                warnings.simplefilter("ignore")
                G[0, 0] = -50.0
    return v, fps


def _build_mesh(name, renum=None):
    zm = MESHES[name]()
    if renum is not None:
        zm = zm.renumbered(renum)
    return zm.build()


def _run_history(case):
    from EasyFEA import Models
    from EasyFEA.FEM import LagrangeCondition

    Probe = _probe_class()
    meshname = case["mesh"]
    simu = Probe(_build_mesh(meshname), Models.Thermal(k=1.0, c=1.0))
    simu.probe_dof_n = case["dof_n"]
    simu.probe_slot = case["slot0"]
    simu.probe_kind = case["kind0"]
    pt = simu.problemType
    key = dict(mesh=case["mesh"], dof_n=case["dof_n"], slot0=case["slot0"], kind0=case["kind0"])
    v, allfp, ntr = [], [], 0
    done = []
    nkeys = set()
    for op in case["ops"]:
        done.append(op)
        if op == "assemble":
            pass
        elif op == "lagrange":
            unk = simu.Get_unknowns()
            nodes = np.array([0, 1])
            dofs = simu.Bc_dofs_nodes(nodes, [unk[0]], pt)
            simu._Bc_Add_Lagrange(LagrangeCondition(pt, nodes, dofs, [unk[0]], np.asarray([0.0]), np.asarray([1.0, -1.0]), "probe"))
        elif op == "dirichlet":
            # with Lagrange conditions present every Dirichlet dof adds a multiplier row: the size of the kept system changes
            unk = simu.Get_unknowns()
            simu.add_dirichlet(np.array([simu.mesh.Nn - 1]), [0.0], [unk[-1]])
        elif op == "clearbc":
            simu.Bc_Init()  # (no Need_Update(): clearing the conditions is a public operation, the simulation keeps its own books)
        elif op == "slots":
            simu.probe_slot = (simu.probe_slot + 1) % SLOT_TABLES
            simu.Need_Update()
        elif op == "values":
            simu.probe_epoch += 1
            simu.Need_Update()
        elif op == "inplace":
            simu.probe_inplace = True
            simu.probe_epoch += 1
            simu.Need_Update()
        elif op == "kind":
            simu.probe_kind = KINDS[(KINDS.index(simu.probe_kind) + 1) % len(KINDS)]
            simu.Need_Update()
        elif op == "mesh":
            meshname = MESH_CYCLE[meshname]
            simu.mesh = _build_mesh(meshname)
        elif op == "renumber":
            n = simu.mesh.Nn
            perm = rng("c03perm", meshname, n).permutation(n)
            simu.mesh = _build_mesh(meshname, perm)
        ntr += 1
        vv, fps = compare(simu, dict(key, ops="+".join(done)), f"after {done}")
        ntr += 1
        allfp += fps
        nkeys.add((meshname, simu.probe_slot, simu._Bc_Lagrange_dim(pt), simu.probe_kind))
        if vv:
            v += vv
            break
    return {"violations": v[:4], "fingerprint": fp(case["mesh"], case["dof_n"], case["slot0"], case["kind0"], allfp),
            "nontrivial": len(nkeys) > 1, "transitions": ntr}


# ------------------------------------------------------------------------------------------------
def _make_real(sim, meshname, renum=None):
    from EasyFEA import Models, Simulations

    zm = MESHES[meshname]()
    if renum is not None:
        zm = zm.renumbered(renum)
    mesh = zm.build()
    d = mesh.dim
    if sim == "elastic":
        s = Simulations.Elastic(mesh, Models.Elastic.Isotropic(d, E=2.0, v=0.3, planeStress=True, thickness=0.7))
        s.rho = 1.3
        s.Set_Rayleigh_Damping_Coefs(0.1, 0.2)
    elif sim == "thermal":
        s = Simulations.Thermal(mesh, Models.Thermal(k=1.5, c=0.8, thickness=0.7))
        s.rho = 1.3
    elif sim == "phasefield":
        mat = Models.Elastic.Isotropic(d, E=2.0, v=0.3, planeStress=False)
        pfm = Models.PhaseField(mat, Models.PhaseField.SplitType.Bourdin, Models.PhaseField.ReguType.AT2, Gc=1.0, l0=0.3)
        s = Simulations.PhaseField(mesh, pfm)
    elif sim == "weakform":
        from EasyFEA.FEM import BiLinearForm, LinearForm, Field

        if len(mesh.Get_list_groupElem()) > 1:
            return None, zm
        field = Field(mesh.groupElem, 1)
        k = BiLinearForm(lambda u, v: u.grad.dot(v.grad))
        m = BiLinearForm(lambda u, v: u.dot(v))
        f = LinearForm(lambda v: 2.0 * v)
        s = Simulations.WeakForms(mesh, Models.WeakForms(field, computeK=k, computeM=m, computeF=f))
    elif sim == "beam":
        return None, zm
    return s, zm


def _assemble_all(s):
    """[(problemType, (K,C,M,F) dense)]"""
    out = []
    for pt in s.Get_problemTypes():
        got = s.Assembly(pt)
        out.append((pt, [g.toarray() for g in got]))
    return out


def _run_realsim(case):
    sim, meshname = case["sim"], case["mesh"]
    key = dict(sim=sim, mesh=meshname)
    if sim == "beam":
        return _run_realsim_beam(case)
    try:
        s, zm = _make_real(sim, meshname)
    except AssertionError as err:
        return {"violations": [], "skipped": f"construction refused: {str(err)[:80]}", "fingerprint": "refused", "nontrivial": False}
    if s is None:
        return {"violations": [], "skipped": "not applicable to a multi-group mesh", "fingerprint": "na", "nontrivial": False}
    v, fps, ntr = [], [], 0
    r = rng("c03real", sim, meshname)
    for rep in range(4 if sim == "phasefield" else 3):
        if rep == 3:
            # a multi-point condition attached to ONE of the two problems: only that system grows
            from EasyFEA.FEM import LagrangeCondition

            pt_l = [p_ for p_ in s.Get_problemTypes() if p_ != s.problemType][0]
            unk = s.Get_unknowns(pt_l)
            nodes = np.array([0, 1])
            dofs = s.Bc_dofs_nodes(nodes, [unk[0]], pt_l)
            s._Bc_Add_Lagrange(LagrangeCondition(pt_l, nodes, dofs, [unk[0]], np.asarray([0.0]), np.asarray([1.0, -1.0]), "probe"))
        if rep == 1 and sim in ("elastic", "thermal", "phasefield"):
            # move the state so that state-dependent element arrays change between assemblies (same pattern, new values)
            for pt in s.Get_problemTypes():
                n = s.mesh.Nn * s.Get_dof_n(pt)
                s._Set_solutions(pt, r.normal(size=n) * 1e-2)
            s.Need_Update()
        for pt in s.Get_problemTypes():
            dof_n = s.Get_dof_n(pt)
            Ndof = s.mesh.Nn * dof_n + s._Bc_Lagrange_dim(pt)
            got = s.Assembly(pt)
            ref = dense_reference(s.Construct_local_matrix_system(pt), dof_n, Ndof)
            ntr += 1
            for name, G, R in zip("KCMF", got, ref):
                Gd = G.toarray()
                fps.append(fp(Gd))
                sc = max(np.abs(R).max(), 1e-300)
                if Gd.shape != R.shape or np.abs(Gd - R).max() > 1e-13 * sc:
                    v.append(viol("assembly_mismatch", f"{sim}/{meshname} {pt} repetition {rep}: {name} differs from the dense scatter-add",
                                  slot=name, problem=str(pt), rep=rep, **key))
    return {"violations": v[:4], "fingerprint": fp(sim, meshname, fps), "nontrivial": True, "transitions": ntr}


def _run_realsim_beam(case):
    """Beam frame with a connection (Lagrange multipliers change Ndof): assembly vs dense scatter-add, before and after the connection."""
    from EasyFEA import ElemType, Models, Simulations
    from EasyFEA.Geoms import Line, Point

    meshname = case["mesh"]
    et = {"tri2": "SEG2", "mixed2d": "SEG3", "quad8": "SEG4", "mixed3d": "SEG5", "tri6k2": "SEG2"}[meshname]
    dimb = 3 if meshname == "mixed3d" else 2
    from EasyFEA.FEM import Mesher

    p0, p1, p2 = Point(0, 0), Point(1.0, 0), Point(1.0, 0.8)
    l1, l2 = Line(p0, p1, 0.5), Line(p1, p2, 0.4)
    sec = Mesher().Mesh_2D(__import__("EasyFEA").Geoms.Domain(Point(-0.05, -0.05), Point(0.05, 0.05)))
    b1 = Models.Beam.Isotropic(dimb, l1, sec, 210e3, 0.3, yAxis=(0, 1, 0))
    b2 = Models.Beam.Isotropic(dimb, l2, sec, 210e3, 0.3, yAxis=(-1, 0, 0))
    mesh = Mesher().Mesh_Beams([b1, b2], ElemType[et])
    struct = Models.Beam.BeamStructure([b1, b2])
    s = Simulations.Beam(mesh, struct)
    key = dict(sim="beam", mesh=meshname)
    v, fps, ntr = [], [], 0
    pt = s.problemType
    for stage in ("plain", "connected", "cleared"):
        if stage == "connected":
            s.add_connection_hinged(mesh.Nodes_Point(p1)) if hasattr(s, "add_connection_hinged") else None
        if stage == "cleared":
            s.Bc_Init()
        dof_n = s.Get_dof_n(pt)
        Ndof = s.mesh.Nn * dof_n + s._Bc_Lagrange_dim(pt)
        got = s.Assembly(pt)
        ref = dense_reference(s.Construct_local_matrix_system(pt), dof_n, Ndof)
        ntr += 1
        for name, G, R in zip("KCMF", got, ref):
            Gd = G.toarray()
            fps.append(fp(Gd))
            sc = max(np.abs(R).max(), 1e-300)
            if Gd.shape != R.shape or np.abs(Gd - R).max() > 1e-13 * sc:
                v.append(viol("assembly_mismatch", f"beam {et} stage {stage}: {name} differs from the dense scatter-add (Ndof {Ndof})", slot=name, stage=stage, **key))
    return {"violations": v[:4], "fingerprint": fp("beam", et, fps), "nontrivial": True, "transitions": ntr}


def _run_renumber(case):
    sim, meshname = case["sim"], case["mesh"]
    s0, zm0 = _make_real(sim, meshname)
    Nn = zm0.Nn
    if case["perms"] == "all":
        perms = [np.array(p) for p in itertools.permutations(range(Nn))]
    else:
        r = rng("c03renum", meshname)
        perms = [np.arange(Nn)[::-1].copy(), r.permutation(Nn), np.roll(np.arange(Nn), 1)]
    dof_n = s0.Get_dof_n()
    pt0 = s0.problemType

    def setup(s, zm):
        # clamp the nodes of the x=min side, load the nodes of the x=max side (selected geometrically: numbering independent)
        x = zm.coords[:, 0]
        left = np.where(np.abs(x - x.min()) < 1e-9)[0]
        right = np.where(np.abs(x - x.max()) < 1e-9)[0]
        unk = s.Get_unknowns()
        s.add_dirichlet(left, [0.0] * len(unk), unk)
        s.add_neumann(right, [0.7], [unk[-1]])
        return s.Solve()

    K0, C0, M0, F0 = [a.toarray() for a in s0.Assembly(pt0)]
    u0 = np.array(setup(s0, zm0))
    v, fps, ntr = [], [], 0
    key = dict(sim=sim, mesh=meshname)
    for ip, perm in enumerate(perms):
        s1, zm1 = _make_real(sim, meshname, renum=perm)
        K1, C1, M1, F1 = [a.toarray() for a in s1.Assembly(s1.problemType)]
        u1 = np.array(setup(s1, zm1))
        ntr += 2
        # dof permutation
        dp = (perm[:, None] * dof_n + np.arange(dof_n)[None, :]).ravel()  # new index of old dof
        for name, A0, A1 in (("K", K0, K1), ("C", C0, C1), ("M", M0, M1)):
            B = np.zeros_like(A0)
            B[np.ix_(dp, dp)] = A0
            sc = max(np.abs(A0).max(), 1e-300)
            if np.abs(B - A1).max() > 1e-12 * sc:
                v.append(viol("renumber_matrix", f"{sim}/{meshname} perm {perm.tolist()}: {name} of the renumbered mesh != P {name} P^T (err {np.abs(B - A1).max():.2e})",
                              slot=name, perm=("all" if case["perms"] == "all" else ip), **key))
        Fp = np.zeros_like(F0)
        Fp[dp] = F0
        if np.abs(Fp - F1).max() > 1e-12 * max(np.abs(F0).max(), 1.0):
            v.append(viol("renumber_vector", f"{sim}/{meshname}: F_pi != P F", perm=("all" if case["perms"] == "all" else ip), **key))
        up = np.zeros_like(u0)
        up[dp] = u0
        if np.abs(up - u1).max() > 1e-9 * max(np.abs(u0).max(), 1e-300):
            v.append(viol("renumber_solution", f"{sim}/{meshname} perm {perm.tolist()}: u_pi != P u (err {np.abs(up - u1).max():.2e}, scale {np.abs(u0).max():.2e})",
                          perm=("all" if case["perms"] == "all" else ip), **key))
        fps.append(fp(K1, u1))
    return {"violations": v[:4], "fingerprint": fp(sim, meshname, sorted(fps)[:3], len(set(fps))), "nontrivial": len(set(fps)) > 1, "transitions": ntr,
            "states": len(set(fps))}


def _run_form(case):
    from EasyFEA.FEM import BiLinearForm, Field, LinearForm

    et, dof_n, form = case["elemType"], case["dof_n"], case["form"]
    d = Z.dim_of(et)
    zm = Z.template_2d(et, 1) if d == 2 else Z.template_3d(et, 1)
    A, b = Z.generic_affine(rng("c03form", et), d), np.zeros(3)
    grp = case.get("group", "all")
    zm = zm.mapped(A, b)
    if grp == "orphan":
        zm = zm.with_orphan()
    mesh = zm.build()
    g = mesh.groupElem if grp != "boundary" else mesh.Get_list_groupElem(d - 1)[0]
    field = Field(g, dof_n)
    key = dict(elemType=et, dof_n=dof_n, form=form)
    if grp != "all":
        key["group"] = grp
    Ndof = g.Ncoords * dof_n
    sc = float(case.get("scale", 1.0))
    key["scale"] = f"{sc:g}"
    if form == "linear":
        fvec = np.array([0.7, -1.2, 0.4])[:dof_n] * sc
        F = LinearForm(lambda v: (1.5 * sc) * v) if dof_n == 1 else LinearForm(lambda v: v.dot(fvec))
        data = np.asarray(F.Integrate_e(field))
        ref = np.zeros((Ndof, 1))
        con = g.connect
        for e in range(g.Ne):
            gd = [int(con[e, i]) * dof_n + a for i in range(g.nPe) for a in range(dof_n)]
            for li, gi in enumerate(gd):
                ref[gi, 0] += data[e, li, 0]
        got = F.Assemble(field).toarray()
    else:
        bvec = np.array([0.3, -1.1, 0.6])[:d]
        Bm = np.array([[0.2, 1.0, -0.3], [-0.5, 0.7, 0.4], [0.9, -0.2, 0.1]])[:d, :dof_n]
        Wm = np.array([[1.0, 2.0, -1.0], [3.0, 4.0, 0.5], [0.3, -0.7, 1.1]])[:d, :dof_n]
        if form == "mass":
            B = BiLinearForm(lambda u, v: (2.0 * sc) * u.dot(v))
        else:
            # non-symmetric forms
            if dof_n == 1:
                B = BiLinearForm(lambda u, v: sc * u.grad.dot(bvec) * v.dot(np.array([1.0])))
            else:
                B = BiLinearForm(lambda u, v: sc * u.grad.ddot(Bm) * v.grad.ddot(Bm * Wm))
        data = np.asarray(B.Integrate_e(field))
        if form == "nonsym" and np.abs(data - np.swapaxes(data, 1, 2)).max() < 1e-6 * np.abs(data).max():
            return {"violations": [], "skipped": "form turned out symmetric", "fingerprint": "sym", "nontrivial": False}
        ref = np.zeros((Ndof, Ndof))
        con = g.connect
        for e in range(g.Ne):
            gd = [int(con[e, i]) * dof_n + a for i in range(g.nPe) for a in range(dof_n)]
            for li, gi in enumerate(gd):
                for lj, gj in enumerate(gd):
                    ref[gi, gj] += data[e, li, lj]
        got = B.Assemble(field).toarray()
    v = []
    if got.shape != ref.shape or np.abs(got - ref).max() > 1e-13 * max(np.abs(ref).max(), 1e-300):
        v.append(viol("form_assemble", f"{form} form on {et}, dof_n={dof_n}: Assemble() != scatter-add of Integrate_e()", **key))
    return {"violations": v, "fingerprint": fp(et, dof_n, form, grp, got), "nontrivial": True, "transitions": 2}


def _run_large(case):
    """Ndof^2 >= 2^31: sparse reference (scipy COO duplicate summation, independent of the library's reduction map)."""
    import scipy.sparse as sp
    from EasyFEA import Models, Simulations

    n, dof_n = case["n"], case["dof_n"]
    if isinstance(n, list):
        zm = Z.template_3d("HEXA8", k=tuple(n))
        simu = Simulations.Elastic(zm.build(with_boundary=False), Models.Elastic.Isotropic(3, E=2.0, v=0.3))
        n = "x".join(map(str, n))
    else:
        xs = np.linspace(0.0, 1.0, n + 1)
        X, Y = np.meshgrid(xs, xs, indexing="ij")
        coords = np.zeros(((n + 1) ** 2, 3))
        coords[:, 0], coords[:, 1] = X.ravel(), Y.ravel()
        idx = np.arange((n + 1) ** 2).reshape(n + 1, n + 1)
        con = np.stack([idx[:-1, :-1].ravel(), idx[1:, :-1].ravel(), idx[1:, 1:].ravel(), idx[:-1, 1:].ravel()], axis=1)
        zm = Z.ZooMesh(coords, {"QUAD4": con}, {}, f"grid{n}")
        simu = Simulations.Elastic(zm.build(with_boundary=False), Models.Elastic.Isotropic(2, E=2.0, v=0.3, planeStress=True, thickness=0.7))
    simu.rho = 1.3
    pt = simu.problemType
    Ndof = simu.mesh.Nn * dof_n
    key = dict(n=n, dof_n=dof_n)
    if Ndof ** 2 < 2 ** 31 and not isinstance(case["n"], list):
        return {"violations": [], "skipped": "mesh too small for the 32-bit threshold", "fingerprint": "small", "nontrivial": False}
    got = simu.Assembly(pt)
    loc = simu.Construct_local_matrix_system(pt)
    v = []
    for si, name in enumerate("KCM"):
        rows, cols, vals = [], [], []
        for g, arrs in loc.items():
            if arrs[si] is None:
                continue
            c = np.asarray(g.connect)
            gd = (c[:, :, None] * dof_n + np.arange(dof_n)[None, None, :]).reshape(c.shape[0], -1)
            rows.append(np.repeat(gd, gd.shape[1], axis=1).ravel())
            cols.append(np.tile(gd, (1, gd.shape[1])).ravel())
            vals.append(np.asarray(arrs[si]).ravel())
        if not rows:
            continue
        ref = sp.coo_matrix((np.concatenate(vals), (np.concatenate(rows), np.concatenate(cols))), shape=(Ndof, Ndof)).tocsr()
        d = abs(got[si] - ref)
        err = d.max() if d.nnz else 0.0
        sc = abs(ref).max()
        if got[si].shape != ref.shape or err > 1e-12 * sc:
            v.append(viol("assembly_mismatch_large", f"{Ndof} dofs (Ndof^2 = {Ndof ** 2:.3e}, mesh {n}): {name} differs from the COO scatter-add by {err:.3e} (scale {sc:.2e})", slot=name, **key))
    return {"violations": v, "fingerprint": fp("large", n, float(abs(got[0]).sum())), "nontrivial": True, "transitions": 2}


def _run_isolated(case):
    """no two element entries share a matrix slot: single element / disconnected elements, every numbering of a single element
    (<= 24) and three scrambled numberings otherwise, through the harness simulation"""
    from EasyFEA import Models

    et, nel, dof_n = case["elemType"], case["nel"], case["dof_n"]
    nPe = Z.proto(et).nPe
    d = Z.dim_of(et)
    base = Z.local_coords(et)
    pts = np.zeros((nPe, 3))
    pts[:, :d] = base
    coords = np.vstack([pts + np.array([3.0 * e, 0.0, 0.0]) for e in range(nel)])  # disjoint copies
    Nn = coords.shape[0]
    if nel == 1 and nPe <= 4:
        perms = [np.array(p) for p in itertools.permutations(range(Nn))]
    else:
        r = rng("c03iso", et, nel)
        perms = [np.arange(Nn), np.arange(Nn)[::-1].copy(), r.permutation(Nn), r.permutation(Nn)]
    Probe = _probe_class()
    v, fps, ntr = [], [], 0
    key = dict(elemType=et, nel=nel, dof_n=dof_n)
    for ip, perm in enumerate(perms):
        co = np.empty_like(coords)
        co[perm] = coords
        con = perm[np.arange(Nn).reshape(nel, nPe)]
        zm = Z.ZooMesh(co, {et: con}, {}, f"iso[{et}x{nel}]")
        simu = Probe(zm.build(with_boundary=False), Models.Thermal(k=1.0, c=1.0))
        simu.probe_dof_n = dof_n
        simu.probe_slot = 0
        for rep in range(2):
            simu.probe_epoch = rep
            simu.Need_Update()
            vv, f = compare(simu, dict(key, perm=("all" if nel == 1 and nPe <= 4 else ip)), f"isolated {et}x{nel}, numbering {perm.tolist()}, assembly {rep}")
            ntr += 1
            fps += f
            v += vv
        if v:
            break
    return {"violations": v[:4], "fingerprint": fp(et, nel, dof_n, len(set(fps))), "nontrivial": len(set(fps)) > 1, "transitions": ntr, "states": len(set(fps))}


def _run_conndtype(case):
    """the harness simulation (slot table 1: the boundary groups contribute too) on a mesh whose connectivity arrays are stored in the
    given integer dtype: Assembly() == scatter-add with rows / columns node * dof_n + component (dense loop on the small grids, scipy COO
    duplicate summation on the large one).  The reference reads the connectivity as Python integers."""
    import scipy.sparse as sp
    from EasyFEA import Models
    from EasyFEA.FEM._group_elem import GroupElemFactory
    from EasyFEA.FEM._mesh import Mesh

    meshname, dt, dof_n = case["mesh"], np.dtype(case["conn"]), case["dof_n"]
    maker = CONN_MESHES[meshname][0]
    if maker is not None:
        zm = maker()
        coords, groups = zm.coords, {**zm.boundary, **zm.groups}
    else:
        n = 148
        xs = np.linspace(0.0, 1.0, n + 1)
        X, Y = np.meshgrid(xs, xs, indexing="ij")
        coords = np.zeros(((n + 1) ** 2, 3))
        coords[:, 0], coords[:, 1] = X.ravel(), Y.ravel()
        idx = np.arange((n + 1) ** 2).reshape(n + 1, n + 1)
        groups = {"QUAD4": np.stack([idx[:-1, :-1].ravel(), idx[1:, :-1].ravel(), idx[1:, 1:].ravel(), idx[:-1, 1:].ravel()], axis=1)}
    Nn = coords.shape[0]
    if Nn - 1 > np.iinfo(dt).max:
        raise AssertionError(f"harness: {Nn} nodes are not representable in {dt}")
    wraps = (Nn - 1) * dof_n + dof_n - 1 > np.iinfo(dt).max
    d = {}
    for et, con in groups.items():
        typed = np.asarray(con).astype(dt)
        assert np.array_equal(typed.astype(np.int64), np.asarray(con, dtype=np.int64))
        d[Z._ET(et)] = GroupElemFactory.Create(Z._ET(et), typed, coords.copy())
    simu = _probe_class()(Mesh(d), Models.Thermal(k=1.0, c=1.0))
    simu.probe_dof_n = dof_n
    simu.probe_slot = 1
    key = dict(mesh=meshname, conn=str(dt), dof_n=dof_n)
    v, fps, ntr = [], [], 0
    pt = simu.problemType
    for rep in range(2):  # first assembly, then new values on the cached pattern
        simu.probe_epoch = 2 * rep
        simu.Need_Update()
        if maker is not None:
            vv, f = compare(simu, key, f"connectivity stored as {dt} ({Nn} nodes, {dof_n} dofs per node), assembly {rep}")
            v += vv
            fps += f
        else:
            Ndof = Nn * dof_n
            got = simu.Assembly(pt)
            loc = simu.Construct_local_matrix_system(pt)
            for si, name in enumerate("KCMF"):
                rows, cols, vals = [], [], []
                for g, arrs in loc.items():
                    if arrs[si] is None:
                        continue
                    c = np.asarray(g.connect).astype(np.int64)
                    gd = (c[:, :, None] * dof_n + np.arange(dof_n)[None, None, :]).reshape(c.shape[0], -1)
                    if si < 3:
                        rows.append(np.repeat(gd, gd.shape[1], axis=1).ravel())
                        cols.append(np.tile(gd, (1, gd.shape[1])).ravel())
                    else:
                        rows.append(gd.ravel())
                        cols.append(np.zeros(gd.size, dtype=np.int64))
                    vals.append(np.asarray(arrs[si]).ravel())
                shape = (Ndof, Ndof) if si < 3 else (Ndof, 1)
                ref = sp.coo_matrix((np.concatenate(vals), (np.concatenate(rows), np.concatenate(cols))), shape=shape).tocsr()
                G = sp.csr_matrix(got[si])
                fps.append(fp(name, float(abs(G).sum())))
                if G.shape != ref.shape:
                    v.append(viol("assembly_shape", f"connectivity stored as {dt}: {name} has shape {G.shape}, expected {ref.shape}", slot=name, **key))
                    continue
                dd = abs(G - ref)
                err = dd.max() if dd.nnz else 0.0
                sc = abs(ref).max()
                if err > 1e-12 * sc:
                    v.append(viol("assembly_mismatch", f"connectivity stored as {dt} ({Nn} nodes, {dof_n} dofs per node), assembly {rep}: {name} differs from "
                                                       f"the COO scatter-add by {err:.3e} (scale {sc:.2e})", slot=name, **key))
        ntr += 1
        if v:
            break
    if v and wraps:
        v[0]["detail"] += f" [largest dof number {(Nn - 1) * dof_n + dof_n - 1} exceeds the range of {dt}, every node number fits]"
    return {"violations": v[:1], "fingerprint": fp(meshname, str(dt), dof_n, fps), "nontrivial": True, "transitions": ntr,
            "outcome": ("wraps" if wraps else "fits") + (":violation" if v else ":ok")}


def _run_scribble(case):
    """the matrices returned by Get_K_C_M_F belong to the caller: editing them in place must not reach the simulation"""
    s, zm = _make_real(case["sim"], case["mesh"])
    key = dict(sim=case["sim"], mesh=case["mesh"])
    ref = [A.toarray().copy() for A in s.Get_K_C_M_F()]
    v = []
    for step in range(3):
        mats = s.Get_K_C_M_F()
        for A in mats:  # what a user applying boundary conditions by hand does
            A.data[:] = 0.0
            A.eliminate_zeros()
        again = s.Get_K_C_M_F()
        for name, A, R in zip("KCMF", again, ref):
            if A.shape != R.shape or np.abs(A.toarray() - R).max() > 0:
                v.append(viol("returned_matrices_shared", f"{case['sim']}: after the caller zeroed the matrices returned by Get_K_C_M_F, the next call returns a changed {name}", slot=name, **key))
        if step == 1:
            s.Need_Update()  # reassembly on the cached sparsity pattern
    return {"violations": v[:4], "fingerprint": fp(case["sim"], ref[0]), "nontrivial": True, "transitions": 6}


def run_case(case):
    return globals()["_run_" + case["kind"]](case)
