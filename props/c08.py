"""C08 — geometry, orientation of boundary normals, point location / evaluation at coordinates.

Two explorations on the real implementation:

(1) kind="motion"  (E2, unmerged).  element type x domain x every history of motions up to a depth over the alphabet
    {T translate, R90 rotate 90 deg, Rg rotate by a seeded generic angle (3D: about a seeded generic axis), S reflect through a
    seeded generic plane}, applied with the library's own mesh.Translate / Rotate / Symmetry.  A case is one history of maximal
    length; the invariant is evaluated in the initial state and after EVERY operation (so all shorter histories are covered as
    prefixes).  Invariant, against a plain-numpy model x -> Q x + b of the same motion:
      coords      mesh.coord == Q X0 + b
      measure     mesh.area / mesh.volume == exact measure of the polygon / polyhedron (rigid motion: unchanged)
      centroid    mesh.center == Q c + b
      bmeasure    sum of the boundary groups' weighted jacobians == exact perimeter / surface
      closure     sum over all boundary groups of wJ * n  == 0
      flux        sum over all boundary groups of wJ * (x . n) / dim == + measure   (outward normals)
      normals_elem   every boundary element's normal at every Gauss point == the outward unit normal computed here from the
                     vertices and the adjacent main element (direct statement of "outward")
      normals_nodal  mesh.Get_normals(): unit vectors, on the outward side of every adjacent boundary element of a group
      surface_normals (planar 2D mesh moved in 3D) normals of the surface elements: unit, orthogonal to the moved plane,
                     the same sign on all elements and Gauss points
      edge_normals, closure, flux, bmeasure (planar 2D mesh moved in 3D) the boundary segments of the embedded surface: unit normals lying in the
                     moved plane, sum of wJ * n == 0, |sum of wJ * (x . n)| / 2 == area (sign not demanded there), sum of wJ == perimeter
(2) kind="locate"  (E1).  element type x small template mesh x placement {identity, in-plane/generic rotation, out-of-plane
    embedding (2D), reflection, milli / milli_far (cells of 1e-3 / 3e-4, the latter turned and far from the origin), mega (the unit mesh
    turned and scaled by 1e6: coordinates of the order of 1e6)} x batch mode.  Cell shapes: affine; general straight-sided (a displaced vertex: non-parallelogram
    quadrangles, unequal triangles/tetrahedra); 3D frustum cells (non-affine, planar faces); 3D warped cells (trilinear, non-planar
    faces).  For every element the images of a reference lattice (interior points, points on edges, on faces, the nodes) are the
    query points, given to mesh.Evaluate_dofsValues_at_coordinates in batches of 1, 2, 3, 5, all points of the element, all
    points of the mesh, all points of the element with the `elements=[e]` hint, and all points of the element with the hint listing the
    element and its neighbours in DESCENDING order (elem_hint_desc); the nodal field holds every monomial of
    degree <= p at once (dof_n = number of monomials); the returned values must equal the monomials at the query points
    (1e-9; 1e-6 where the library inverts the element map iteratively).  A returned row of exact zeros (the constant monomial
    included) is reported as `not_located`, any other deviation as `wrong_value`, an exception as `evaluate_raises`.
    kind="locate_grid": integer-typed pixels of an image around the mesh: the full grid (int and float typed), every pixel inside the mesh
    singly (int_1), every ordered pair of 4-neighbour pixels inside the mesh (int_2).

Violation keys: motion checks {check, dom, src, elemType, poly, dim, hist (prefix reached), mirrored (odd number of reflections),
inward (which boundary faces carry inward normals: none/all/bottom/all_but_bottom/mixed/invalid; boundary checks only)};
locate checks {check, elemType, dim, k, shape, map, batch, loc (class of the failing query points)}.
"""
from __future__ import annotations

import itertools

import numpy as np

from mc.util import fp, rng, viol
from zoo import meshes as Z

PROPERTY = "C08"

# Q = read-only queries on a displaced configuration (documented optional argument), P = point location + evaluation of a linear nodal
# field at the element centroids: identity motions
LETTERS = ["T", "R90", "Rg", "S", "Q", "P"]
POLYS_QUICK = ["quad", "pent", "L"]
BATCHES = [1, 2, 3, 5, "elem", "mesh", "elem_hint", "elem_hint_desc"]
TOL_EVAL = 1e-9
TOL_ITER = 1e-9  # (was 1e-6 while the inverse map stopped on an absolute residual: F-C08-inverse-map-unit)


# ------------------------------------------------------------------------------------------------
# enumeration
# ------------------------------------------------------------------------------------------------
def _histories(depth):
    """all histories of length == depth (shorter ones are their prefixes and are checked on the way)."""
    return [list(h) for h in itertools.product(LETTERS, repeat=depth)]


def _domains(tier):
    out = []
    polys = POLYS_QUICK
    for et in Z.TYPES_2D:
        for poly in polys:
            out.append({"dom": "2d", "src": "gmsh", "elemType": et, "poly": poly})
        out.append({"dom": "2d", "src": "template", "elemType": et, "poly": "k2distort"})
    for et in Z.TYPES_3D:
        for poly in polys:
            out.append({"dom": "3d", "src": "gmsh", "elemType": et, "poly": poly})
        out.append({"dom": "3d", "src": "recon", "elemType": et, "poly": "box"})
    for et in Z.TYPES_2D:
        for poly in polys:
            out.append({"dom": "emb", "src": "gmsh", "elemType": et, "poly": poly})
    # elements with CURVED interior edges / faces (ZooMesh.curved: the boundary, hence the tiled polygon / polyhedron, is unchanged): the
    # Jacobian varies inside the elements.  det J has degree <= the degree of both rules of every type except TETRA10 with its 4-point
    # stiffness rule (left out); the centre of mass (x det J, beyond the mass rule for the cubic / quartic types) is not demanded here.
    for et in Z.TYPES_2D + Z.TYPES_3D:
        if Z.proto(et).order >= 2 and et != "TETRA10":
            out.append({"dom": "2d" if Z.dim_of(et) == 2 else "3d", "src": "curved", "elemType": et, "poly": "k2curved"})
    # bodies of size 1e-6 (no absolute length may enter normals, measures or point location)
    for et in ("TETRA4", "HEXA8", "PRISM6", "PRISM15"):
        out.append({"dom": "3d", "src": "recon", "elemType": et, "poly": "box", "scale": 1e-6})
    for et in ("TRI3", "QUAD8"):
        out.append({"dom": "2d", "src": "gmsh", "elemType": et, "poly": "quad", "scale": 1e-6})
    return out


def _locate_meshes(tier):
    """shape: affine (parallelogram / parallelepiped cells, straight simplices), general (straight-sided, non-affine: displaced vertex),
    frustum (3D non-affine cells with PLANAR faces), warped (3D trilinear cells with non-planar faces)."""
    out = []
    for et in Z.TYPES_2D:
        if Z.topo(et) == "TRI":
            variants = [("affine", 2, 0), ("general", 2, 1)]
        else:
            variants = [("affine", 2, 0), ("general", 2, 0), ("general", 1, 0)]
        for shape, k, diag in variants:
            for mp in ["identity", "rot", "emb", "mirror"] + (["milli"] if shape == "general" else []) + ["milli_far", "mega"]:
                out.append({"kind": "locate", "elemType": et, "k": k, "shape": shape, "diag": diag, "map": mp})
        for poly in (["L"] if tier == "quick" else POLYS_QUICK):
            for mp in ["identity", "emb", "mirror"]:
                out.append({"kind": "locate", "elemType": et, "k": poly, "shape": "gmsh", "diag": 0, "map": mp})
    for et in Z.TYPES_3D:
        t = Z.topo(et)
        if t == "TETRA":
            variants = [("affine", 1), ("general", 1)]
        elif t == "HEXA":
            variants = [("affine", 1), ("affine", [2, 1, 1]), ("frustum", [2, 1, 1]), ("warped", 1)]
            if tier == "thorough":
                variants += [("frustum", [2, 2, 1]), ("warped", 2)]
        else:
            variants = [("affine", 1), ("frustum", 1)]
        for shape, k in variants:
            for mp in ["identity", "rot", "mirror"] + (["milli"] if shape == "frustum" else []) + (["milli_far", "mega"] if shape in ("affine", "general") else []):
                out.append({"kind": "locate", "elemType": et, "k": k, "shape": shape, "diag": 0, "map": mp})
        if tier == "thorough":
            for mp in ["identity", "rot"]:
                out.append({"kind": "locate", "elemType": et, "k": "L", "shape": "gmsh", "diag": 0, "map": mp})
    return out


def _locate_mixed_cases(tier):
    """meshes whose main-dimension element groups each use only a SUBSET of the nodes: same-order mixed meshes (two groups) and
    single-group meshes carrying an orphan node; x placement"""
    out = []
    for mix in Z.MIXED_2D + Z.MIXED_3D:
        for mp in ["identity", "rot"]:
            out.append({"kind": "locate_mixed", "types": list(mix), "orphan": False, "map": mp})
    for et in (["TRI3", "QUAD4", "TETRA4"] if tier == "quick" else ["TRI3", "TRI6", "QUAD4", "QUAD9", "TETRA4", "HEXA8", "PRISM6"]):
        for mp in ["identity", "rot"]:
            out.append({"kind": "locate_mixed", "types": [et], "orphan": True, "map": mp})
    return out


GRID_SHAPES = [(9, 6), (6, 9), (7, 7)]  # (nX, nY) pixels: wider than high, higher than wide, square


def _locate_grid_cases(tier):
    """the batch is a full regular grid of INTEGER-typed coordinates (the pixels of an image: x fastest, z = 0), the mesh lies strictly
    inside the image; every pixel strictly inside the mesh is located and carries the interpolated polynomial; the same batch typed as
    floats gives the same values.  The same integer-typed pixels are also given singly (int_1: every pixel inside the mesh) and in batches
    of 2 (int_2: every ordered pair of 4-neighbour pixels inside the mesh: along a row and along a column, forwards and backwards)."""
    out = []
    ets = ["TRI3", "QUAD4", "TRI6", "QUAD8"] if tier == "quick" else list(Z.TYPES_2D)
    for et in ets:
        for nX, nY in GRID_SHAPES:
            for dist in ((False, True) if Z.topo(et) == "QUAD" else (False,)):
                out.append({"kind": "locate_grid", "elemType": et, "nX": nX, "nY": nY, "distort": dist})
    return out


def _run_locate_grid(case):
    et, nX, nY = case["elemType"], int(case["nX"]), int(case["nY"])
    key = dict(kind="locate_grid", elemType=et, grid=f"{nX}x{nY}", distort=bool(case["distort"]))
    zm = Z.template_2d(et, k=(3, 2), distort=bool(case["distort"]))
    # unit square -> [0.4, nX - 1.4] x [0.4, nY - 1.4]: strictly inside the image, no pixel on the boundary of the mesh
    A = np.diag([nX - 1.8, nY - 1.8, 1.0])
    zm = zm.mapped(A, np.array([0.4, 0.4, 0.0]))
    mesh = zm.build()
    coord = zm.coords
    xp, yp = np.meshgrid(np.arange(nX), np.arange(nY))
    pix = np.zeros((nX * nY, 3), dtype=int)
    pix[:, 0], pix[:, 1] = xp.ravel(), yp.ravel()
    P = pix.astype(float)
    inside = (P[:, 0] > 0.4 + 1e-9) & (P[:, 0] < nX - 1.4 - 1e-9) & (P[:, 1] > 0.4 + 1e-9) & (P[:, 1] < nY - 1.4 - 1e-9)
    deg = 1 if (case["distort"] or et in ("TRI3", "QUAD4")) else 2
    f = (lambda X: 1.0 + 0.2 * X[:, 0] - 0.3 * X[:, 1]) if deg == 1 else (lambda X: 1.0 + 0.2 * X[:, 0] - 0.3 * X[:, 1] + 0.05 * X[:, 0] * X[:, 1] - 0.02 * X[:, 1] ** 2)
    dofs = f(coord)
    want = f(P)
    sc = float(np.abs(want).max())
    tol = TOL_ITER if case["distort"] else TOL_EVAL
    v, obs = [], []
    ins = np.flatnonzero(inside)
    where = {(int(pix[i, 0]), int(pix[i, 1])): int(i) for i in ins}
    pairs = [(i, where[q]) for i in ins for q in ((pix[i, 0] + 1, pix[i, 1]), (pix[i, 0] - 1, pix[i, 1]), (pix[i, 0], pix[i, 1] + 1), (pix[i, 0], pix[i, 1] - 1))
             if q in where]
    ncalls = 2
    for name, chunks in (("int_1", [[int(i)] for i in ins]), ("int_2", [list(pr) for pr in pairs])):
        ncalls += len(chunks)
        bad, first = 0, None
        for idx in chunks:
            try:
                got = np.asarray(mesh.Evaluate_dofsValues_at_coordinates(pix[idx].copy(), dofs), dtype=float).ravel()
                if got.shape != (len(idx),):
                    raise AssertionError(f"returned shape {got.shape}")
                err = np.abs(got - want[idx]).max()
                msg = None if err <= tol * sc else f"got {got.tolist()!r}, exact {want[idx].tolist()!r}" + (" (not located)" if np.any(got == 0.0) else "")
                check = "not_located" if (msg and np.any(got == 0.0)) else "wrong_value"
            except Exception as err:  # the property promises a value for every point of the mesh, singly or in batches
                msg, check = f"{type(err).__name__}: {str(err)[:160]}", "evaluate_raises"
            if msg is not None:
                bad += 1
                first = first or (check, f"pixel(s) {pix[idx, :2].tolist()}: {msg}")
        if bad:
            v.append(viol(first[0], f"{et} mesh inside a {nX}x{nY} image, integer-typed batches of {len(chunks[0])} pixel(s) inside the mesh ({name}): {bad} of {len(chunks)} "
                                    f"calls fail; first: {first[1]}", batch=name, **key))
    for name, batch in (("int_grid", pix), ("float_grid", P)):
        try:
            got = np.asarray(mesh.Evaluate_dofsValues_at_coordinates(batch.copy(), dofs), dtype=float).ravel()
        except Exception as err:
            v.append(viol("evaluate_raises", f"{et} {nX}x{nY} {name}: {type(err).__name__}: {str(err)[:160]}", batch=name, **key))
            continue
        if got.shape != want.shape:
            v.append(viol("evaluate_shape", f"{et} {nX}x{nY} {name}: shape {got.shape}", batch=name, **key))
            continue
        obs.append(np.round(got, 6))
        err = np.abs(got - want)[inside]
        if err.max() > tol * sc:
            lost = int(np.sum(got[inside] == 0.0))
            i = int(np.flatnonzero(inside)[np.argmax(err)])
            v.append(viol("not_located" if lost else "wrong_value", f"{et} mesh inside a {nX}x{nY} image, batch {name}: {lost} of {int(inside.sum())} pixels inside the mesh "
                                                                     f"are not located; worst pixel {pix[i, :2].tolist()}: got {got[i]!r}, exact {want[i]!r}", batch=name, **key))
    return {"violations": v, "fingerprint": fp("grid", et, nX, nY, case["distort"], *obs), "nontrivial": bool(inside.sum() > 4), "transitions": ncalls,
            "outcome": "ok" if not v else "violation:" + "+".join(sorted({x["check"] for x in v}))}


def _locate_1d_cases(tier):
    """line meshes (main dimension 1) of every order, along x and placed generically in space"""
    return [{"kind": "locate_1d", "elemType": et, "map": mp} for et in Z.TYPES_1D for mp in ("identity", "rot")]


def _run_locate_1d(case):
    et, mp = case["elemType"], case["map"]
    key = dict(kind="locate_1d", elemType=et, map=mp)
    zm = Z.template_1d(et, n=3, graded=True, L=1.3)
    if mp == "rot":
        zm = zm.mapped(Z.rot3([0.3, -0.5, 1.0], 0.8), np.array([0.2, -0.1, 0.3]))
    mesh = zm.build()
    coord = zm.coords
    con = zm.groups[et]
    order = {"SEG2": 1, "SEG3": 2, "SEG4": 3, "SEG5": 4}[et]
    f = lambda X: 1.0 + 0.4 * X[:, 0] - 0.3 * X[:, 1] + 0.2 * X[:, 2] + (0.5 * (X[:, 0] + 0.3 * X[:, 1] - 0.2 * X[:, 2])) ** order
    dofs = f(coord)
    pts, where = [], []
    for e in range(con.shape[0]):
        a, b = coord[con[e, 0]], coord[con[e, 1]]  # the two vertices come first in the connectivity
        for t in (0.0, 0.07, 0.35, 0.5, 0.66, 0.8, 0.93, 1.0):
            pts.append(a + t * (b - a))
            where.append((e, t))
    pts = np.array(pts)
    want = f(pts)
    sc = float(np.abs(want).max())
    v, obs, ntr = [], [], 0
    for name, batches in (("one_by_one", [pts[i:i + 1] for i in range(len(pts))]), ("mesh", [pts])):
        got = []
        try:
            for P in batches:
                got.append(np.asarray(mesh.Evaluate_dofsValues_at_coordinates(P.copy(), dofs), dtype=float).ravel())
                ntr += 1
        except Exception as err:
            v.append(viol("evaluate_raises", f"{et} line mesh ({mp}), batch {name}: {type(err).__name__}: {str(err)[:160]}", batch=name, **key))
            continue
        got = np.concatenate(got)
        obs.append(np.round(got, 6))
        err = np.abs(got - want)
        if err.max() > TOL_EVAL * sc:
            i = int(np.argmax(err))
            lost = int(np.sum(got == 0.0))
            v.append(viol("not_located" if lost else "wrong_value", f"{et} line mesh ({mp}), batch {name}: {lost} of {len(pts)} points on the mesh are not located; worst: element "
                                                                     f"{where[i][0]}, t = {where[i][1]}: got {got[i]!r}, exact {want[i]!r}", batch=name, **key))
    return {"violations": v, "fingerprint": fp("loc1d", et, mp, *obs), "nontrivial": True, "transitions": ntr,
            "outcome": "ok" if not v else "violation:" + "+".join(sorted({x["check"] for x in v}))}


def _run_locate_mixed(case):
    types, mp = case["types"], case["map"]
    d = Z.dim_of(types[0])
    ets = tuple(types) if len(types) > 1 else types[0]
    zm = Z.template_2d(ets, k=2) if d == 2 else Z.template_3d(ets, k=(2, 1, 1) if len(types) > 1 else 1)
    if case["orphan"]:
        # orphan node FIRST in the numbering, so that group-local and global node indices differ for every node
        co = np.vstack([np.array([[7.0, 7.0, 0.0]]), zm.coords])
        zm = Z.ZooMesh(co, {k: v + 1 for k, v in zm.groups.items()}, {}, zm.name + "|orphan0", {k: v + 1 for k, v in zm.boundary.items()})
    Q, b = _placement(mp, d)
    zm = zm.mapped(Q, b)
    mesh = zm.build()
    coord = zm.coords
    key = dict(types="+".join(types), orphan=case["orphan"], map=mp, dim=d)

    def field(X):
        X = np.atleast_2d(X)
        return np.stack([np.ones(len(X)), X[:, 0], X[:, 1], X[:, 2]], axis=1)

    dofs = field(coord).ravel()
    scale = max(1.0, float(np.abs(field(coord)).max()))
    pts, cls = [], []
    for et, con in zm.groups.items():
        nv = _nvert(et)
        for e in range(con.shape[0]):
            V = coord[con[e, :nv]]
            pts.append(V.mean(axis=0))
            cls.append("centroid")
            pts.append(0.6 * V[0] + 0.3 * V[1] + 0.1 * V.mean(axis=0))
            cls.append("interior")
            for n in con[e]:
                pts.append(coord[n])
                cls.append("node")
    P = np.array(pts)
    out, ncalls, nfound = [], 0, 0
    bad = {}
    for batch, chunks in (("mesh", [np.arange(len(P))]), (1, [[i] for i in range(len(P))])):
        for idx in chunks:
            ncalls += 1
            try:
                got = np.asarray(mesh.Evaluate_dofsValues_at_coordinates(P[idx].copy(), dofs), dtype=float)
            except Exception as err:
                bad.setdefault(("evaluate_raises", str(batch), "any"), f"{type(err).__name__}: {str(err)[:160]}")
                continue
            want = field(P[idx])
            for j, i in enumerate(idx):
                err = float(np.abs(got[j] - want[j]).max()) / scale
                if not np.isfinite(err) or err > TOL_EVAL:
                    lost = bool(np.all(got[j] == 0.0))
                    bad.setdefault(("not_located" if lost else "wrong_value", str(batch), cls[i]),
                                   f"point {np.round(P[i], 5).tolist()} ({cls[i]}): got {np.round(got[j], 5).tolist()} exact {np.round(want[j], 5).tolist()}")
                else:
                    nfound += 1
    for (check, batch, loc), msg in sorted(bad.items()):
        out.append(viol(check, f"[{zm.name} placed by '{mp}'] batch={batch}: {msg}", batch=batch, loc=loc, shape="mixed_or_orphan", **key))
    return {"violations": out, "fingerprint": fp("+".join(types), case["orphan"], mp, nfound), "nontrivial": nfound > 0, "transitions": ncalls,
            "outcome": "ok" if not out else "violation:" + "+".join(sorted({x["check"] for x in out}))}


def cases(tier, seed):
    depth = 2 if tier == "quick" else 3
    out = []
    for d in _domains(tier):
        if d.get("scale"):
            # micro-scale bodies: identity letters only (a motion by O(1) of a body of size 1e-6 costs 6 digits to round-off alone)
            for h in [["Q"], ["P"], ["Q", "P"], ["P", "Q"]]:
                out.append(dict(d, kind="motion", hist=h))
                out.append(dict(d, kind="motion", hist=h, regime="end"))
            continue
        if d["src"] == "curved" and tier == "quick":
            # quick tier: every single motion and every ordered pair observed at the end only
            for h in _histories(1):
                out.append(dict(d, kind="motion", hist=h))
            for h in _histories(2):
                out.append(dict(d, kind="motion", hist=h, regime="end"))
            continue
        for h in _histories(depth):
            c = {"kind": "motion"}
            c.update(d)
            c["hist"] = h
            out.append(c)
        if depth < 3 and d["dom"] != "emb":
            # quick tier: the one family of length 3 whose middle letter changes what the outer two must agree on: locate, move, locate again
            # on the SAME mesh object (whatever the first location built has to follow the nodes)
            for X in ("T", "R90", "Rg", "S"):
                out.append(dict(d, kind="motion", hist=["P", X, "P"]))
        # the same histories of length 2 observed only at the END (no observation in between that would warm the caches in a
        # particular order)
        for h in _histories(2):
            c = {"kind": "motion", "regime": "end"}
            c.update(d)
            c["hist"] = h
            out.append(c)
    out += _locate_meshes(tier)
    out += _locate_mixed_cases(tier)
    out += _locate_grid_cases(tier)
    out += _locate_1d_cases(tier)
    return out


def describe(tier, seed):
    depth = 2 if tier == "quick" else 3
    nd = len(_domains(tier))
    return {
        "rule": "motion cases: one per (domain, element type, history of maximal length); the invariant is evaluated in the initial state "
                "and after every operation; non-trivial = >= 1 motion applied to a mesh of > 1 element; locate cases: one per "
                "(element type, template mesh, placement), inside: every element x every lattice point x 8 batch modes; non-trivial = at least "
                "one query point evaluated correctly; distinct = fingerprint of the observed measure/centroid/flux/closure/orientation pattern "
                "resp. of the evaluated values",
        "exhaustive": True,
        "bound": f"histories of length <= {depth} over {len(LETTERS)} letters ({len(LETTERS) ** depth} maximal histories per domain, observed after every letter, plus every history of length 2 observed only at its end, {nd} (domain, type) pairs); "
                 "gmsh polygons quad/pent/L (h=0.5; extrusions h=0.6, height 0.8, 2 layers), distorted k=2 template (2D), unit box with boundary "
                 "reconstructed by MeshIO.Surface_reconstruction (3D), planar 2D gmsh meshes moved by the 3D alphabet (embedded); point location on "
                 "template meshes of 1-8 cells: affine, general straight-sided (displaced vertex), 3D frustum cells (non-affine, planar faces), "
                 "3D warped cells (non-planar faces), unstructured gmsh meshes of the L polygon (batch modes element / mesh / element with descending hint only); lattice of 15/16/35/64/40 points per TRI/QUAD/TETRA/HEXA/PRISM plus the element's nodes; "
                 "batches of 1, 2, 3, 5, element, mesh, element with hint [e], element with hint (e and its neighbours, descending); placements identity, rot, "
                 "emb, mirror, milli, milli_far, mega (unit mesh turned and scaled by 1e6); integer-typed pixel grids 9x6, 6x9, 7x7 around a mesh: full grid, every "
                 "inside pixel singly, every ordered pair of 4-neighbour inside pixels; embedded plane meshes: surface normals and the boundary segments "
                 "(in-plane unit normals, closure, |flux|, perimeter)",
        "alphabet": {"letters": len(LETTERS), "element_types": len(Z.TYPES_2D) + len(Z.TYPES_3D), "domains": nd,
                     "batch_modes": len(BATCHES), "placements": 7, "cell_shapes": 4, "int_pixel_batches": 3},
        "assumptions": [
            "generic angle / axis / plane / centre are seeded representatives (VERIF_SEED); 90 deg and the translation are fixed",
            "Rotate: right-handed rotation by theta degrees about the axis through `center` (Rodrigues formula written here); Symmetry: reflection "
            "through the plane (point, n), n not necessarily unit",
            "outward unit normal of a flat boundary element: from its vertices, oriented away from the centroid of the adjacent main element",
            "monomial degree demanded at point evaluation: element order on affine elements; on non-affine (bi/trilinear) quadrangles/hexahedra/prisms 1 for "
            "QUAD4/QUAD8/HEXA8/HEXA20/PRISM6/PRISM15 (serendipity spaces do not contain x^2 on a non-affine cell) and 2 for QUAD9/HEXA27/PRISM18",
            "boundary segments of a planar mesh moved out of the xy-plane (domain 'emb'): their normals must lie in the plane of the surface and close "
            "the domain (integral of n = 0, |flux of x| / 2 = area); whether they point out of or into the domain is not demanded there (it follows "
            "the side of the surface one looks from; the orientation proper is demanded in the domains '2d' and '3d')",
            "tolerances: 1e-11 coordinates, 1e-10 measure/centroid/closure/flux relative to the size of the domain; evaluated values 1e-9 where the "
            "library inverts the element map directly, 1e-6 on non-affine cells where it iterates with scipy least_squares (default tolerances: "
            "stops at |J^T r| < 1e-8, i.e. a position error up to 1e-8/|J|^2 ~ 5e-7 for cells of size >= 0.3); the defects reported by this check are errors of 1e-2 .. 4e-1",
        ],
        "explanation": "bounded exhaustive exploration on the real implementation; reference = plain numpy rigid motion of the exact polygon data, "
                       "outward normals from vertices and adjacency, monomials evaluated at the query points",
    }


def run_case(case):
    return globals()["_run_" + case["kind"]](case)


# ------------------------------------------------------------------------------------------------
# motions: the library call and the plain-numpy model (Q, b) of x -> Q x + b
# ------------------------------------------------------------------------------------------------
def _generic_dir(r, planar):
    if planar:
        a = np.deg2rad(r.uniform(20, 70)) + (np.pi / 2) * int(r.integers(0, 4))
        return np.array([np.cos(a), np.sin(a), 0.0])
    while True:
        v = r.normal(size=3)
        v /= np.linalg.norm(v)
        if np.min(np.abs(v)) > 0.2:
            return v


def _letter(name, space):
    """space '2d' (in-plane motions) or '3d'. -> (apply(mesh), Q, b)"""
    planar = space == "2d"
    r = rng("c08", name, space)
    if name == "Q":
        def query(m):
            from EasyFEA.FEM._utils import MatrixType

            U = rng("c08", "Qdisp", m.Nn).normal(size=(m.Nn, 3)) * 0.1
            if planar:
                U[:, 2] = 0.0
            for g in m.dict_groupElem.values():
                if g.dim == 0:
                    continue
                g.Get_GaussCoordinates_e_pg(MatrixType.mass, displacementMatrix=U)
                if g.dim in (1, 2) and g.dim == m.dim - 1:
                    g.Get_normals_e_pg(MatrixType.mass, displacementMatrix=U)
                    if m.dim == 2 and not planar:
                        continue  # (edges of a surface embedded in 3D: their normal is only defined relative to the surface)
                    # the displaced configuration of a RIGID rotation: the normals are the rotated normals
                    Rq = Z.rot3([0.0, 0.0, 1.0] if planar else [0.3, -0.5, 1.0], 0.6)
                    X_ = np.asarray(m.coord, dtype=float)
                    n0 = np.asarray(g.Get_normals_e_pg(MatrixType.mass), dtype=float)
                    n1 = np.asarray(g.Get_normals_e_pg(MatrixType.mass, displacementMatrix=X_ @ Rq.T - X_), dtype=float)
                    err = float(np.abs(n1 - n0 @ Rq.T).max())
                    if err > 1e-9:
                        m.__dict__["_c08_query_violation"] = (f"Get_normals_e_pg({g.elemType.name}, displacementMatrix = rigid rotation) differs from the rotated "
                                                               f"normals of the undisplaced configuration by {err:.3e}")

        return query, np.eye(3), np.zeros(3)
    if name == "P":
        return (lambda m: None), np.eye(3), np.zeros(3)  # the query itself is issued (and judged) by _check_locate
    if name == "T":
        d = np.array([0.37, -0.21, 0.0 if planar else 0.45])
        return (lambda m: m.Translate(float(d[0]), float(d[1]), float(d[2]))), np.eye(3), d
    if name in ("R90", "Rg"):
        if name == "R90":
            theta = 90.0
            c = np.array([0.3, -0.2, 0.0 if planar else 0.1])
            axis = np.array([0.0, 0.0, 1.0]) if planar else np.array([1.0, 0.0, 0.0])
        else:
            theta = float(r.uniform(20, 70) + (90 if r.integers(0, 2) else 0))
            c = r.uniform(-1, 1, size=3)
            if planar:
                c[2] = 0.0
            axis = np.array([0.0, 0.0, 1.0]) if planar else _generic_dir(r, False)
        Q = Z.rot3(axis, np.deg2rad(theta))
        b = c - Q @ c
        return (lambda m: m.Rotate(theta, tuple(float(x) for x in c), tuple(float(x) for x in axis))), Q, b
    if name == "S":
        p = r.uniform(-1, 1, size=3)
        if planar:
            p[2] = 0.0
        n = _generic_dir(r, planar)
        Q = np.eye(3) - 2.0 * np.outer(n, n)
        b = 2.0 * (p @ n) * n
        nn = 1.7 * n  # the documented argument is "a normal vector", not a unit one
        return (lambda m: m.Symmetry(tuple(float(x) for x in p), tuple(float(x) for x in nn))), Q, b
    raise KeyError(name)


# ------------------------------------------------------------------------------------------------
# domains
# ------------------------------------------------------------------------------------------------
def _perimeter(pts):
    P = np.asarray(pts, dtype=float)
    return float(np.linalg.norm(np.roll(P, -1, axis=0) - P, axis=1).sum())


def _build_domain(case):
    """-> mesh, exact {measure, centroid, bmeasure|None, dim}"""
    dom, src, et, poly = case["dom"], case["src"], case["elemType"], case["poly"]
    if src == "gmsh" and dom in ("2d", "emb"):
        mesh, ex = Z.gmsh_2d(et, poly, h=0.5)
        ex = {"measure": ex["measure"], "centroid": np.asarray(ex["centroid"], float), "bmeasure": _perimeter(ex["polygon"]), "dim": 2}
    elif src == "gmsh":
        mesh, e0 = Z.gmsh_3d(et, poly, h=0.6, height=0.8, layers=2)
        area = e0["measure"] / e0["height"]
        ex = {"measure": e0["measure"], "centroid": np.asarray(e0["centroid"], float),
              "bmeasure": 2 * area + _perimeter(e0["polygon"]) * e0["height"], "dim": 3}
    elif src == "template":
        zm = Z.template_2d(et, k=2, distort=True, diag=1)
        mesh = zm.build()
        ex = {"measure": zm.exact["measure"], "centroid": np.asarray(zm.exact["centroid"], float), "bmeasure": 4.0, "dim": 2}
    elif src == "curved":
        d_ = Z.dim_of(et)
        zm = (Z.template_2d(et, k=2, diag=1) if d_ == 2 else Z.template_3d(et, k=2)).curved()
        mesh = zm.build()
        ex = {"measure": zm.exact["measure"], "centroid": np.asarray(zm.exact["centroid"], float), "bmeasure": 4.0 if d_ == 2 else 6.0, "dim": d_}
    elif src == "recon":
        from EasyFEA.Utilities import MeshIO

        zm = Z.template_3d(et, k=1)
        mesh = MeshIO.Surface_reconstruction(zm.build(with_boundary=False))
        ex = {"measure": 1.0, "centroid": np.array([0.5, 0.5, 0.5]), "bmeasure": 6.0, "dim": 3}
    else:
        raise KeyError(src)
    sc = case.get("scale")
    if sc:
        # the same body described in another unit of length (micro-structure in metres): coordinates x sc through the public setter
        mesh.coord = np.asarray(mesh.coord, dtype=float) * sc
        d_ = ex["dim"]
        ex = {"measure": ex["measure"] * sc ** d_, "centroid": ex["centroid"] * sc, "bmeasure": ex["bmeasure"] * sc ** (d_ - 1), "dim": d_}
    return mesh, ex


# ------------------------------------------------------------------------------------------------
# reference: outward unit normals of flat boundary elements
# ------------------------------------------------------------------------------------------------
def _nvert(et_name):
    return {"SEG": 2, "TRI": 3, "QUAD": 4, "TETRA": 4, "HEXA": 8, "PRISM": 6}[Z.topo(et_name)]


def _outward_normals(mesh, coord):
    """{boundary group name: (Ne_b, 3) outward unit normals} from vertices + adjacency (no call to the normals API)."""
    d = mesh.dim
    mains = [(g.elemType.name, np.asarray(g.connect)) for g in mesh.Get_list_groupElem(d)]
    node2el = {}
    cents = []
    for gi, (nm, con) in enumerate(mains):
        nv = _nvert(nm)
        for e in range(con.shape[0]):
            cents.append(coord[con[e, :nv]].mean(axis=0))
            for n in con[e]:
                node2el.setdefault(int(n), set()).add(len(cents) - 1)
    out = {}
    for g in mesh.Get_list_groupElem(d - 1):
        nm = g.elemType.name
        con = np.asarray(g.connect)
        nv = _nvert(nm)
        N = np.zeros((con.shape[0], 3))
        for e in range(con.shape[0]):
            V = coord[con[e, :nv]]
            if d == 2:
                t = V[1] - V[0]
                n = np.array([t[1], -t[0], 0.0])
            else:
                n = np.cross(V[1] - V[0], V[-1] - V[0])
            n = n / np.linalg.norm(n)
            owners = set.intersection(*[node2el.get(int(x), set()) for x in con[e]])
            if len(owners) != 1:
                N[e] = np.nan  # not a boundary face of exactly one element
                continue
            ce = cents[next(iter(owners))]
            if n @ (V.mean(axis=0) - ce) < 0:
                n = -n
            N[e] = n
        out[nm] = N
    return out


# ------------------------------------------------------------------------------------------------
# invariant of the motion exploration
# ------------------------------------------------------------------------------------------------
def _check_state(mesh, X0, ex, Q, b, dom, key, step, obs):
    from EasyFEA.FEM._utils import MatrixType

    v = []
    d = ex["dim"]
    hist_s = key["hist"]
    det = f"[{key['src']}/{key['poly']}/{key['elemType']} after '{step}' of '{hist_s}']"
    coord = np.asarray(mesh.coord, dtype=float)
    Xref = X0 @ Q.T + b
    L = max(1.0, float(np.abs(Xref).max()))
    nops = 1
    err = float(np.abs(coord - Xref).max())
    if err > 1e-11 * L:
        v.append(viol("coords", f"{det} mesh.coord differs from the moved coordinates by {err:.3e}", **key))
    meas = float(mesh.area if d == 2 else mesh.volume)
    if abs(meas - ex["measure"]) > 1e-10 * ex["measure"]:
        v.append(viol("measure", f"{det} measure {meas!r}, exact {ex['measure']!r}", **key))
    cen = np.asarray(mesh.center, dtype=float)
    cex = Q @ ex["centroid"] + b
    if key["src"] != "curved" and np.abs(cen - cex).max() > 1e-10 * L:
        v.append(viol("centroid", f"{det} mesh.center {cen}, exact {cex}", **key))
    nops += 2
    obs += [meas, cen]
    # the measure once more, integrated with the default (mass) quadrature of the element groups
    mm = 0.0
    for g in mesh.Get_list_groupElem(d):
        mm += float(np.sum(np.asarray(g.Integrate_e(lambda x, y, z: 1.0), dtype=float)))
        nops += 1
    if abs(mm - ex["measure"]) > 1e-10 * ex["measure"]:
        v.append(viol("measure_mass", f"{det} integral of 1 with the mass quadrature {mm!r}, exact measure {ex['measure']!r}", **key))
    if dom == "emb":
        m = Q @ np.array([0.0, 0.0, 1.0])
        signs = set()
        worst = 0.0
        for g in mesh.Get_list_groupElem(2):
            n = np.asarray(g.Get_normals_e_pg(MatrixType.mass), dtype=float)
            nops += 1
            dots = n @ m
            worst = max(worst, float(np.abs(np.linalg.norm(n, axis=-1) - 1).max()), float(np.abs(np.abs(dots) - 1).max()))
            signs.update(np.sign(np.round(dots, 6)).ravel().tolist())
        if worst > 1e-9 or len(signs) != 1:
            v.append(viol("surface_normals", f"{det} surface-element normals: max deviation from +-(moved plane normal) {worst:.2e}, signs {sorted(signs)}", **key))
        obs += [sorted(signs)]
        # the boundary segments of the embedded surface close the (plane) domain: unit normals lying in the moved plane, integral of n = 0,
        # |flux of the position vector| / 2 = area.  The SIGN of the flux (outward / inward) is not demanded here: on a surface in space it
        # follows the side from which the surface is looked at; the orientation in the plane z = 0 is the subject of the domain '2d'.
        tot, flux, S, off_plane, bad_unit = np.zeros(3), 0.0, 0.0, 0.0, 0.0
        for g in mesh.Get_list_groupElem(1):
            n = np.asarray(g.Get_normals_e_pg(MatrixType.mass), dtype=float)
            wJ = np.asarray(g.Get_weightedJacobian_e_pg(MatrixType.mass), dtype=float)
            x = np.asarray(g.Get_GaussCoordinates_e_pg(MatrixType.mass), dtype=float)
            nops += 3
            tot += np.einsum("ep,epd->d", wJ, n)
            flux += float(np.einsum("ep,epd,epd->", wJ, n, x))
            S += float(wJ.sum())
            bad_unit = max(bad_unit, float(np.abs(np.linalg.norm(n, axis=-1) - 1).max()))
            off_plane = max(off_plane, float(np.abs(n @ m).max()))
        flux /= 2
        if abs(S - ex["bmeasure"]) > 1e-10 * ex["bmeasure"]:
            v.append(viol("bmeasure", f"{det} sum of boundary weighted jacobians {S!r}, exact perimeter {ex['bmeasure']!r}", **key))
        if bad_unit > 1e-9 or off_plane > 1e-9:
            v.append(viol("edge_normals", f"{det} normals of the boundary segments of the embedded surface: max | |n|-1 | = {bad_unit:.2e}, max |n . (normal of the moved "
                                          f"plane)| = {off_plane:.2e} (they must lie in the plane of the surface)", **key))
        if np.abs(tot).max() > 1e-10 * max(S, 1e-300):
            v.append(viol("closure", f"{det} integral of n over the boundary segments of the embedded surface = {tot} (perimeter {S:.4g})", **key))
        if abs(abs(flux) - ex["measure"]) > 1e-10 * S * L:
            v.append(viol("flux", f"{det} |flux of the position vector| / 2 over the boundary segments of the embedded surface = {abs(flux)!r}, area {ex['measure']!r}", **key))
        obs += [abs(flux), np.round(tot, 9), S]
        return v, nops
    # ---- boundary groups
    nout = _outward_normals(mesh, Xref)
    tot = np.zeros(3)
    flux = 0.0
    S = 0.0
    counts = {}
    bad_unit = 0.0
    raw_err = 0.0
    fl_in, fl_bottom, n_invalid = [], [], 0
    for g in mesh.Get_list_groupElem(d - 1):
        nm = g.elemType.name
        n = np.asarray(g.Get_normals_e_pg(MatrixType.mass), dtype=float)
        wJ = np.asarray(g.Get_weightedJacobian_e_pg(MatrixType.mass), dtype=float)
        x = np.asarray(g.Get_GaussCoordinates_e_pg(MatrixType.mass), dtype=float)
        nops += 3
        # documented contract of normalize=False: the vectors are the cross product of the surface tangents, their norm is the
        # surface jacobian, weight_pg * normals is the area-weighted normal wJ_e_pg * normals_e_pg (at EVERY Gauss point)
        nraw = np.asarray(g.Get_normals_e_pg(MatrixType.mass, normalize=False), dtype=float)
        wpg = np.asarray(g.Get_weight_pg(MatrixType.mass), dtype=float).ravel()
        nops += 1
        raw_err = max(raw_err, float(np.abs(wpg[None, :, None] * nraw - wJ[..., None] * n).max() / max(float(np.abs(wJ).max()), 1e-300)))
        tot += np.einsum("ep,epd->d", wJ, n)
        flux += float(np.einsum("ep,epd,epd->", wJ, n, x))
        S += float(wJ.sum())
        bad_unit = max(bad_unit, float(np.abs(np.linalg.norm(n, axis=-1) - 1).max()))
        ref = nout[nm]
        ok_e = ~np.isnan(ref[:, 0])
        dots = np.einsum("epd,ed->ep", n, np.nan_to_num(ref))
        is_in = ok_e & np.all(dots < -1 + 1e-9, axis=1)
        is_out = ok_e & np.all(dots > 1 - 1e-9, axis=1)
        n_invalid += int(np.sum(~(is_in | is_out)))
        con = np.asarray(g.connect)
        fl_in += is_in.tolist()
        fl_bottom += np.all(np.abs(X0[con[:, : _nvert(nm)], 2]) < 1e-12, axis=1).tolist()
        counts[nm] = {"inward": int(is_in.sum()), "outward": int(is_out.sum()), "neither": int(np.sum(~(is_in | is_out))), "faces": int(con.shape[0])}
    flux /= d
    fl_in, fl_bottom = np.array(fl_in, dtype=bool), np.array(fl_bottom, dtype=bool)
    if n_invalid:
        pattern = "invalid"
    elif not fl_in.any():
        pattern = "none"
    elif fl_in.all():
        pattern = "all"
    elif d == 3 and np.array_equal(fl_in, fl_bottom):
        pattern = "bottom"  # exactly the faces lying on the (moved) plane z = 0 of the unmoved mesh
    elif d == 3 and np.array_equal(fl_in, ~fl_bottom):
        pattern = "all_but_bottom"
    else:
        pattern = "mixed"
    bkey = dict(key, inward=pattern)
    if ex.get("bmeasure") is not None and abs(S - ex["bmeasure"]) > 1e-10 * ex["bmeasure"]:
        v.append(viol("bmeasure", f"{det} sum of boundary weighted jacobians {S!r}, exact perimeter/surface {ex['bmeasure']!r}", **key))
    if np.abs(tot).max() > 1e-10 * max(S, 1e-300):
        v.append(viol("closure", f"{det} integral of n over all boundary groups = {tot} (boundary measure {S:.4g}); per group: {counts}", **bkey))
    if abs(flux - ex["measure"]) > 1e-10 * S * L:
        v.append(viol("flux", f"{det} flux of the position vector / {d} = {flux!r}, measure {ex['measure']!r}; per group: {counts}", **bkey))
    if raw_err > 1e-9:
        v.append(viol("normals_raw", f"{det} Get_normals_e_pg(normalize=False): weight_pg * normals differs from wJ_e_pg * (unit normals) by {raw_err:.2e} "
                                     "of the largest weighted jacobian", **key))
    if pattern != "none" or bad_unit > 1e-9:
        v.append(viol("normals_elem", f"{det} boundary elements whose normal is not the outward unit normal (pattern '{pattern}'); per group: {counts}; "
                                      f"max | |n|-1 | = {bad_unit:.2e}", **bkey))
    # ---- nodal normals
    normals, nodes = mesh.Get_normals()
    nops += 1
    normals = np.asarray(normals, dtype=float)
    nodes = np.asarray(nodes, dtype=int)
    adj = {}  # node -> group -> list of exact outward normals of the adjacent boundary elements
    for g in mesh.Get_list_groupElem(d - 1):
        nm = g.elemType.name
        con = np.asarray(g.connect)
        for e in range(con.shape[0]):
            for nd_ in con[e]:
                adj.setdefault(int(nd_), {}).setdefault(nm, []).append(nout[nm][e])
    n_bad = 0
    n_unit = float(np.abs(np.linalg.norm(normals, axis=1) - 1).max()) if normals.size else 0.0
    for nvec, nd_ in zip(normals, nodes):
        groups = adj.get(int(nd_), {})
        ok = any(all((not np.isnan(a[0])) and nvec @ a > 1e-9 for a in lst) for lst in groups.values())
        n_bad += 0 if ok else 1
    expect_entries = sum(len(gr) for gr in adj.values())
    if n_bad or n_unit > 1e-9 or len(nodes) != expect_entries:
        v.append(viol("normals_nodal", f"{det} mesh.Get_normals(): {n_bad} of {len(nodes)} nodal normals are not on the outward side of their adjacent "
                                       f"boundary elements; max | |n|-1 | = {n_unit:.2e}; entries {len(nodes)} expected {expect_entries}", **bkey))
    obs += [flux, np.round(tot, 9), S, pattern]
    return v, nops


def _check_locate(mesh, d, key, det):
    """letter P: a linear nodal field evaluated at the centroid of every main element must be reproduced."""
    coord = np.asarray(mesh.coord, dtype=float)
    f = lambda X: 1.0 + 0.3 * X[:, 0] - 0.2 * X[:, 1] + 0.5 * X[:, 2]
    pts = []
    for g in mesh.Get_list_groupElem(d):
        con = np.asarray(g.connect, dtype=int)[:, : _nvert(g.elemType.name)]
        pts.append(coord[con].mean(axis=1))
    pts = np.vstack(pts)
    try:
        got = np.asarray(mesh.Evaluate_dofsValues_at_coordinates(pts.copy(), f(coord)), dtype=float).ravel()
    except Exception as err:
        return [viol("locate_after_motion", f"{det} Evaluate_dofsValues_at_coordinates raised {type(err).__name__}: {str(err)[:160]}", **key)]
    want = f(pts)
    err = np.abs(got - want).max() if got.shape == want.shape else np.inf
    if err > 1e-6 * max(1.0, np.abs(want).max()):
        nz = int(np.sum(got == 0.0)) if got.shape == want.shape else -1
        return [viol("locate_after_motion", f"{det} linear field at the {len(want)} element centroids: max error {err:.3e} ({nz} points returned 0 = not located)", **key)]
    return []


def _run_motion(case):
    dom = case["dom"]
    hist = case["hist"]
    regime = case.get("regime", "each")
    mesh, ex = _build_domain(case)
    space = "2d" if dom == "2d" else "3d"
    X0 = np.asarray(mesh.coord, dtype=float).copy()
    Q, b = np.eye(3), np.zeros(3)
    key0 = dict(dom=dom, src=case["src"], elemType=case["elemType"], poly=case["poly"], dim=ex["dim"])
    viols, obs, nops = [], [], 0
    mirrored = False
    seen = set()
    steps = ["init"] + hist
    for i, step in enumerate(steps):
        if i > 0:
            apply, Qs, bs = _letter(step, space)
            apply(mesh)
            Q, b = Qs @ Q, Qs @ b + bs
            mirrored = mirrored != (step == "S")
            nops += 1
        prefix = ">".join(hist[:i]) if i else "-"
        key = dict(key0, hist=prefix, mirrored=bool(mirrored))
        if regime == "end":
            key["regime"] = "end"
        if i > 0 and step == "Q":
            msg = mesh.__dict__.pop("_c08_query_violation", None)
            if msg is not None and ("displaced_normals", prefix) not in seen:
                seen.add(("displaced_normals", prefix))
                viols.append(viol("displaced_normals", f"[{case['src']}/{case['poly']}/{case['elemType']} after '{step}' of '{prefix}'] {msg}", **key))
        if i > 0 and step == "P" and dom != "emb":
            for x in _check_locate(mesh, ex["dim"], key, f"[{case['src']}/{case['poly']}/{case['elemType']} after '{step}' of '{prefix}']"):
                if (x["check"], prefix) not in seen:
                    seen.add((x["check"], prefix))
                    viols.append(x)
            nops += 1
        if regime == "end" and i < len(steps) - 1:
            continue
        vs, n = _check_state(mesh, X0, ex, Q, b, dom, key, step, obs)
        nops += n
        for x in vs:
            kk = (x["check"], prefix)
            if kk not in seen:
                seen.add(kk)
                viols.append(x)
    return {"violations": viols, "fingerprint": fp(dom, case["src"], case["elemType"], case["poly"], hist, regime, *obs),
            "nontrivial": mesh.Ne > 1 and len(hist) > 0, "transitions": nops,
            "outcome": "ok" if not viols else "violation:" + "+".join(sorted({x["check"] for x in viols}))}


# ------------------------------------------------------------------------------------------------
# point location
# ------------------------------------------------------------------------------------------------
_T1 = [-1.0, -0.4, 0.3, 1.0]


def _tri_lattice(n):
    return [(i / n, j / n) for i in range(n + 1) for j in range(n + 1 - i)]


def _ref_lattice(et):
    """reference lattice of the topology of `et` + the element's own reference nodes -> (xi (n,dim), cls [str])"""
    t = Z.topo(et)
    if t == "TRI":
        pts = _tri_lattice(4)
    elif t == "QUAD":
        pts = list(itertools.product(_T1, _T1))
    elif t == "TETRA":
        n = 4
        pts = [(i / n, j / n, l / n) for i in range(n + 1) for j in range(n + 1 - i) for l in range(n + 1 - i - j)]
    elif t == "HEXA":
        pts = list(itertools.product(_T1, _T1, _T1))
    elif t == "PRISM":
        V = Z.local_coords("PRISM6")
        z = [k for k in range(3) if set(np.round(V[:, k], 12)) == {-1.0, 1.0}][0]
        pts = []
        for (r, s) in _tri_lattice(3):
            for w in _T1:
                p = [0.0, 0.0, 0.0]
                tri = [k for k in range(3) if k != z]
                p[tri[0]], p[tri[1]], p[z] = r, s, w
                pts.append(tuple(p))
    else:
        raise KeyError(et)
    nodes = Z.local_coords(et)
    allp = [tuple(np.round(p, 12)) for p in pts]
    for p in nodes:
        q = tuple(np.round(p, 12))
        if q not in allp:
            allp.append(q)
    xi = np.array(allp, dtype=float)
    # classification from the barycentric coordinates wrt the vertices of the reference element (independent of the tables):
    lam = Z.linear_shape(et, xi)
    nodeset = {tuple(np.round(p, 9)) for p in nodes}
    d = xi.shape[1]
    cls = []
    for p, l in zip(xi, lam):
        if tuple(np.round(p, 9)) in nodeset:
            cls.append("node")
            continue
        if t in ("TRI", "TETRA"):
            nz = int(np.sum(np.abs(l) < 1e-12))  # number of vanishing barycentrics
            codim = nz
        elif t in ("QUAD", "HEXA"):
            codim = int(np.sum(np.abs(np.abs(p) - 1) < 1e-12))
        else:  # PRISM
            V = Z.local_coords("PRISM6")
            z = [k for k in range(3) if set(np.round(V[:, k], 12)) == {-1.0, 1.0}][0]
            tri = [k for k in range(3) if k != z]
            bary = np.array([1 - p[tri[0]] - p[tri[1]], p[tri[0]], p[tri[1]]])
            codim = int(np.sum(np.abs(bary) < 1e-12)) + int(abs(abs(p[z]) - 1) < 1e-12)
        if codim == 0:
            cls.append("interior")
        elif codim == 1:
            cls.append("edge" if d == 2 else "face")
        elif codim == 2 and d == 3:
            cls.append("edge")
        else:
            cls.append("vertex")
    return xi, cls


def _placement(name, d):
    r = rng("c08place", name, d)
    if name == "identity":
        return np.eye(3), np.zeros(3)
    if name == "milli":
        # the same body written in another unit of length (millimetre-size cells in metres): nothing may depend on the unit
        return 1e-3 * np.eye(3), np.zeros(3)
    if name == "milli_far":
        # a small detail far from the origin (cells of a fraction of a millimetre, tens of metres away), turned so that no edge is
        # aligned with an axis: the location of the points of the boundary may depend neither on the unit nor on the origin
        Q = Z.rot3(np.array([0.0, 0.0, 1.0]) if d == 2 else _generic_dir(r, False), np.deg2rad(r.uniform(20, 70)))
        return 3e-4 * Q, np.array([65.0, -48.0, 0.0 if d == 2 else 31.0])
    if name == "mega":
        # the same body in yet another unit (a structure of kilometres written in millimetres, geo-referenced coordinates): coordinates of
        # the order of 1e6, turned so that no edge is aligned with an axis (the round-off of a point of an edge is ~ 1e-10 in that unit)
        Q = Z.rot3(np.array([0.0, 0.0, 1.0]) if d == 2 else _generic_dir(r, False), np.deg2rad(r.uniform(20, 70)))
        return 1e6 * Q, np.zeros(3)
    if name == "rot":
        axis = np.array([0.0, 0.0, 1.0]) if d == 2 else _generic_dir(r, False)
        Q = Z.rot3(axis, np.deg2rad(r.uniform(20, 70)))
        b = r.uniform(-1, 1, size=3)
        if d == 2:
            b[2] = 0.0
        return Q, b
    if name == "emb":
        Q = Z.rot3(_generic_dir(r, False), np.deg2rad(r.uniform(20, 70)))
        return Q, r.uniform(-1, 1, size=3)
    if name == "mirror":
        n = _generic_dir(r, d == 2)
        Q = np.eye(3) - 2 * np.outer(n, n)
        b = r.uniform(-1, 1, size=3)
        if d == 2:
            b[2] = 0.0
        return Q, b
    raise KeyError(name)


def _degree(et, shape):
    g = Z.proto(et)
    p = int(g.order)
    if shape != "affine" and Z.topo(et) in ("QUAD", "HEXA") or shape == "frustum":
        return 2 if et in ("QUAD9", "HEXA27", "PRISM18") else 1
    return p


def _frustum(zm, et):
    """Re-places the nodes of an undistorted 3D template so that every cell becomes a frustum: non-affine (tri)linear geometry
    whose faces stay PLANAR.  Vertices go through g, all other nodes through the cell's multilinear vertex map."""

    def g(X):
        s = 1 - 0.4 * X[:, 2]
        return np.stack([(X[:, 0] - 0.5) * s + 0.5 + 0.15 * X[:, 2], (X[:, 1] - 0.5) * s + 0.5 - 0.1 * X[:, 2], X[:, 2]], axis=1)

    nv = _nvert(et)
    Nl_nodes = Z.linear_shape(et, Z.local_coords(et))
    con = zm.groups[et]
    co = zm.coords.copy()
    for e in range(con.shape[0]):
        co[con[e]] = Nl_nodes @ g(zm.coords[con[e, :nv]])
    return Z.ZooMesh(co, zm.groups, {"dim": 3}, zm.name.replace("T3D[", "T3Dfrustum["), zm.boundary)


def _locate_mesh(case):
    et, k, shape = case["elemType"], case["k"], case["shape"]
    d = Z.dim_of(et)
    kk = tuple(k) if isinstance(k, list) else k
    if shape == "gmsh":  # unstructured mesh of a polygon (k = polygon name) / of its extrusion, as plain arrays
        mesh = Z.gmsh_2d(et, k, h=0.5)[0] if d == 2 else Z.gmsh_3d(et, k, h=0.6, height=0.8, layers=2)[0]
        return Z.zoo_from_mesh(mesh, {"dim": d}, name=f"gmsh[{et},{k}]")
    if d == 2:
        return Z.template_2d(et, k=kk, distort=(shape == "general"), diag=case.get("diag", 0))
    if shape == "frustum":
        return _frustum(Z.template_3d(et, k=kk, distort=False), et)
    return Z.template_3d(et, k=kk, distort=(shape in ("general", "warped")))


def _run_locate(case):
    et, k, shape, mp = case["elemType"], case["k"], case["shape"], case["map"]
    d = Z.dim_of(et)
    zm = _locate_mesh(case)
    Q, b = _placement(mp, d)
    zm = zm.mapped(Q, b)
    mesh = zm.build()
    coord = zm.coords
    con = zm.groups[et]
    key0 = dict(elemType=et, dim=d, k=str(k), shape=shape, map=mp)
    # the library solves the inverse map of non-affine cells iteratively (scipy least_squares, default tolerances 1e-8):
    # "the solver's own tolerance x 10" there, 1e-9 where the map is inverted directly
    # (its stopping rule |J^T r| < 1e-8 leaves a position error of 1e-8 / |J|^2, |J| ~ half the cell size >= 0.15 here: 5e-7)
    iterative = (shape != "affine" and Z.topo(et) in ("QUAD", "HEXA")) or shape == "frustum"
    tol = TOL_ITER if iterative else TOL_EVAL
    modes = ("elem", "mesh", "elem_hint_desc") if shape == "gmsh" else (1, 2, 3, 5, "elem", "elem_hint", "elem_hint_desc", "mesh")
    # geometry must be exactly (multi)linear in the vertices (assumption of the reference map)
    xi, cls = _ref_lattice(et)
    nv = _nvert(et)
    Nl_nodes = Z.linear_shape(et, Z.local_coords(et))
    for e in range(con.shape[0]):
        if np.abs(Nl_nodes @ coord[con[e, :nv]] - coord[con[e]]).max() > 1e-12 * max(1.0, float(np.abs(coord).max())):
            return {"violations": [], "fingerprint": "guard", "nontrivial": False, "skipped": "geometry_not_multilinear", "transitions": 0}
    Nl = Z.linear_shape(et, xi)
    pts_e = [Nl @ coord[con[e, :nv]] for e in range(con.shape[0])]
    # fields: all monomials of degree <= p in the variables the placement makes non-trivial
    p = _degree(et, shape)
    nvar = 2 if (d == 2 and mp != "emb") else 3
    monos = [m for m in itertools.product(range(p + 1), repeat=3) if sum(m) <= p and (nvar == 3 or m[2] == 0)]

    def field(X):
        X = np.atleast_2d(X)
        return np.stack([X[:, 0] ** a * X[:, 1] ** bb * X[:, 2] ** c for a, bb, c in monos], axis=1)

    dofs = field(coord).ravel()  # node-major: value of monomial j at node n is dofs[n * len(monos) + j]
    scale = max(1.0, float(np.abs(field(coord)).max()))
    if mp in ("milli", "milli_far", "mega"):
        # every monomial on its own scale (a field of size 1e-3 off by 40 % must not hide behind the constant monomial)
        scale = np.maximum(np.abs(field(coord)).max(axis=0), 1e-300)
    viols = {}
    ncalls = 0
    nfound = 0
    vals_fp = []

    def record(check, batch, loc, msg, err):
        kx = (check, str(batch), loc)
        if kx not in viols:
            viols[kx] = [msg, err, 1]
        else:
            viols[kx][2] += 1
            if err > viols[kx][1]:
                viols[kx][0], viols[kx][1] = msg, err

    def query(P, C, batch, hint, e):
        nonlocal ncalls, nfound
        ncalls += 1
        P = np.array(P, dtype=float)
        try:
            got = mesh.Evaluate_dofsValues_at_coordinates(P.copy(), dofs, hint)
        except Exception as err:  # the property promises a value for every point of the mesh
            record("evaluate_raises", batch, "any", f"element {e}, {len(P)} point(s) {np.round(P[:3], 4).tolist()}: {type(err).__name__}: {str(err)[:200]}", 1.0)
            return
        got = np.asarray(got, dtype=float)
        want = field(P)
        if got.shape != want.shape:
            record("evaluate_shape", batch, "any", f"returned shape {got.shape}, expected {want.shape}", 1.0)
            return
        for i in range(len(P)):
            err = float((np.abs(got[i] - want[i]) / scale).max())
            if not np.isfinite(err):
                err = np.inf
            if err > tol:
                lost = bool(np.all(got[i] == 0.0))  # the constant monomial is part of the field: all zeros == point not located
                record("not_located" if lost else "wrong_value", batch, C[i],
                       f"element {e}, point {np.round(P[i], 6).tolist()} ({C[i]}): got {np.round(got[i], 6).tolist()}, exact {np.round(want[i], 6).tolist()} "
                       f"for monomials {monos}", err)
            else:
                nfound += 1
        if batch == "mesh":
            vals_fp.append(np.round(got, 6))

    for e, P in enumerate(pts_e):
        for bs in [m for m in modes if isinstance(m, int)]:
            for i0 in range(0, len(P), bs):
                query(P[i0:i0 + bs], cls[i0:i0 + bs], bs, None, e)
        if "elem" in modes:
            query(P, cls, "elem", None, e)
        if "elem_hint" in modes:
            query(P, cls, "elem_hint", np.array([e]), e)
        if "elem_hint_desc" in modes:
            # the documented hint "elements that may contain the coordinates" in another legal form: the element and all its neighbours
            # (elements sharing a node with it), listed in DESCENDING order
            nb = np.flatnonzero(np.isin(con, con[e]).any(axis=1))
            query(P, cls, "elem_hint_desc", np.sort(nb)[::-1].copy(), e)
    query(np.vstack(pts_e), cls * len(pts_e), "mesh", None, -1)

    out = []
    for (check, batch, loc), (msg, err, cnt) in sorted(viols.items()):
        out.append(viol(check, f"[{zm.name} placed by '{mp}', degree<={p}, tol {tol:g}] batch={batch}, {cnt} failing call(s)/point(s) of class '{loc}', worst: {msg} "
                               f"(rel err {err:.2e})", batch=batch, loc=loc, **key0))
    return {"violations": out, "fingerprint": fp(et, str(k), shape, mp, *(vals_fp or [0])), "nontrivial": nfound > 0,
            "transitions": ncalls, "outcome": "ok" if not out else "violation:" + "+".join(sorted({x["check"] for x in out}))}
