"""C17 — phase-field energy splits partition stress and energy; the damage history never decreases.

Part 1 (E1, kinds "split", "amp", "eigen"): every split x {plane strain, plane stress, 3D} x material
{isotropic; seeded anisotropic SPD for the splits that accept it} x strain alphabet S (zero, hydrostatic +-,
uniaxial +- on every axis and on a rotated axis, double max / double min eigenvalue, pure shear, four generic
seeded states).  Every letter alone, EVERY ORDERED PAIR of S on the two Gauss points of one element, pairs on two
elements, and every degenerate letter at 8 amplitudes.  The real `Calc_C / Calc_Sigma_e_pg / Calc_psi_e_pg` are
compared with a reference written from the split definitions with numpy.linalg.eigh (positive part of a symmetric
tensor = V max(w,0) V^T, well defined for repeated eigenvalues).

Part 2 (E2 unmerged, kind "hist"): 3 irreversibility solvers x 2 regularisations x 5 splits on 9 QUAD4 / 18 TRI3;
load letters {0, +a, +2a, -a} ("back to 0" = the letter 0 after a non-zero one); ALL letter sequences up to the
depth bound, every sequence replayed on a freshly built simulation, Solve + Save_Iter per letter, invariants
evaluated after every letter.
"""
from __future__ import annotations

import itertools

import numpy as np

from mc.util import deviations, fp, rng, viol
from zoo import meshes as Z

PROPERTY = "C17"

TOL_PART = 1e-12   # partition identities (algebraic, small dense objects)
TOL_SPEC = 1e-10   # agreement with the eigh-based reference (closed-form spectra lose a few digits legitimately)
TOL_HIST = 1e-9    # monotonicity / history value after direct solves on <= 32 dofs

SPLITS_ISO_ONLY = ["Amor", "Miehe", "Stress"]
SPLITS_ANY = ["Bourdin", "He", "Zhang", "AnisotStrain", "AnisotStrain_PM", "AnisotStrain_MP", "AnisotStrain_NoCross",
              "AnisotStress", "AnisotStress_PM", "AnisotStress_MP", "AnisotStress_NoCross"]
ALL_SPLITS = ["Bourdin", "Amor", "Miehe", "He", "Stress", "Zhang", "AnisotStrain", "AnisotStrain_PM", "AnisotStrain_MP",
              "AnisotStrain_NoCross", "AnisotStress", "AnisotStress_PM", "AnisotStress_MP", "AnisotStress_NoCross"]
STRESS_BASED = ["Stress", "Zhang", "AnisotStress", "AnisotStress_PM", "AnisotStress_MP", "AnisotStress_NoCross"]
SPECTRAL_DOM = ["Zhang", "AnisotStress", "AnisotStress_PM", "AnisotStress_MP", "AnisotStress_NoCross", "He"]
E_ISO, V_ISO = 7.3, 0.27
A0 = 0.1  # amplitude of the letters used in pairs
AMPS = ["1.0", "0.7", "0.3", "0.1", "0.037", "0.011", "0.00013", "2.5"]
GEN_AMPS = ["1e-9", "1e-12", "1e+5"]


# ------------------------------------------------------------------------------------------------
# alphabets
# ------------------------------------------------------------------------------------------------
def letters(dim: int) -> list[str]:
    if dim == 2:
        return ["zero", "hyd+", "hyd-", "uni_x+", "uni_x-", "uni_y+", "uni_y-", "uni_r+", "uni_r-",
                "shear", "shear_d", "gen1", "gen2", "gen3", "gen4"]
    return ["zero", "hyd+", "hyd-", "uni_x+", "uni_x-", "uni_y+", "uni_y-", "uni_z+", "uni_z-", "uni_r+", "uni_r-",
            "ebi+", "ebi-", "dmax_r", "dmin_r", "shear", "shear_d", "gen1", "gen2", "gen3", "gen4"]


def degenerate_letters(dim: int) -> list[str]:
    return [s for s in letters(dim) if s != "zero" and not s.startswith("gen")]


def _rotation(dim: int) -> np.ndarray:
    """generic seeded rotation, bounded away from the coordinate axes."""
    r = rng("c17rot", dim)
    if dim == 2:
        t = r.uniform(0.35, 1.2)
        return np.array([[np.cos(t), -np.sin(t)], [np.sin(t), np.cos(t)]])
    ax = r.uniform(0.3, 1.0, size=3) * np.array([1.0, -1.0, 1.0])
    return Z.rot3(ax, r.uniform(0.5, 1.3))


_GEN = {
    2: {"gen1": (1.0, -0.45), "gen2": (-1.0, 0.4), "gen3": (1.0, 0.4), "gen4": (-1.0, -0.4)},
    3: {"gen1": (1.0, 0.35, -0.6), "gen2": (-1.0, -0.3, 0.55), "gen3": (1.0, 0.6, 0.25), "gen4": (-1.0, -0.6, -0.25)},
}


def letter_matrix(name: str, dim: int, amp: float = A0) -> np.ndarray:
    """symmetric (dim, dim) tensor of a letter."""
    I = np.eye(dim)
    R = _rotation(dim)
    n = R[:, 0]
    sgn = -1.0 if name.endswith("-") else 1.0
    if name == "zero":
        return np.zeros((dim, dim))
    if name.startswith("hyd"):
        return sgn * amp * I
    if name.startswith("uni_"):
        ax = name[4]
        v = n if ax == "r" else I["xyz".index(ax)]
        return sgn * amp * np.outer(v, v)
    if name.startswith("ebi"):  # 3D: diag(a, a, 0): double max (+) / double min (-)
        return sgn * amp * np.diag([1.0, 1.0, 0.0])
    if name == "dmax_r":  # (-0.6, 1, 1) a in a rotated frame
        return amp * (I - 1.6 * np.outer(n, n))
    if name == "dmin_r":  # (-1, -1, 0.6) a in a rotated frame
        return amp * (-I + 1.6 * np.outer(n, n))
    if name == "shear":
        M = np.zeros((dim, dim))
        M[0, 1] = M[1, 0] = amp
        return M
    if name == "shear_d":
        M = np.zeros((dim, dim))
        M[0, 0], M[1, 1] = amp, -amp
        return M
    if name.startswith("gen"):
        r = rng("c17gen", name, dim)
        lam = np.array(_GEN[dim][name]) + r.uniform(-0.05, 0.05, size=dim)
        Q = _rotation(dim) @ (Z.rot3(r.uniform(0.3, 1.0, size=3), r.uniform(0.4, 1.4)) if dim == 3 else
                              np.array([[np.cos(0.3), -np.sin(0.3)], [np.sin(0.3), np.cos(0.3)]]))
        return amp * (Q * lam) @ Q.T
    raise KeyError(name)


def configs() -> list[dict]:
    out = []
    for split in ALL_SPLITS:
        for simp in ("PE", "PS", "3D"):
            out.append({"split": split, "simp": simp, "mat": "iso", "dom": "strain"})
    for split in SPLITS_ANY:
        for simp in ("PE", "3D"):
            out.append({"split": split, "simp": simp, "mat": "aniso", "dom": "strain"})
    for split in SPECTRAL_DOM:
        for simp in ("PE", "3D"):
            out.append({"split": split, "simp": simp, "mat": "aniso", "dom": "spectral"})
    return out


HIST_SPLITS = ["Bourdin", "Amor", "Miehe", "He", "AnisotStress"]
LOADS = {"0": 0.0, "+a": 1.0, "+2a": 2.0, "-a": -1.0}
LOAD_A = 0.12


def _hist_depth(tier):
    return 3 if tier == "quick" else 4


def hist_configs(tier) -> list[dict]:
    """quick: full solver x regularisation x split product on 9 QUAD4, on 18 TRI3 the default configuration and every
    configuration differing from it in one factor; thorough: full product on both meshes."""
    factors = {"solver": ["HistoryDamage", "History", "BoundConstrain"], "regu": ["AT2", "AT1"],
               "split": ["Amor", "Bourdin", "Miehe", "He", "AnisotStress"]}
    out = [dict(c, elemType="QUAD4") for c in deviations(factors, None)]
    out += [dict(c, elemType="TRI3") for c in deviations(factors, 1 if tier == "quick" else None)]
    # a mesh with two element groups (triangles and quadrangles)
    out += [dict(c, elemType="TRI3+QUAD4") for c in deviations(factors, 1 if tier == "quick" else None)]
    # the staggered scheme iterated to convergence (several damage/displacement iterations per step) instead of the default
    # single pass: quick = the default configuration and its single-factor deviations, thorough = the full product, on QUAD4
    out += [dict(c, elemType="QUAD4", tolConv=1e-2) for c in deviations(factors, 1 if tier == "quick" else None)]
    # every saved step followed by Set_Iter(-1) (a restart from the step just saved: a no-op for the state, history field included)
    out += [dict(c, elemType="QUAD4", restore=True) for c in deviations(factors, 1 if tier == "quick" else None)]
    # ... or by a look at the FIRST stored iteration and a return to the last one (what every exporter loop does)
    out += [dict(c, elemType="QUAD4", restore="peek") for c in deviations(factors, 1 if tier == "quick" else None)]
    # ... or by the re-assignment of a parameter of the phase-field model to the value it already has (a notification without a change)
    out += [dict(c, elemType="QUAD4", restore="touch") for c in deviations(factors, 1 if tier == "quick" else None)]
    # ... or by Save + Load_Simu, the run being continued on the loaded object (a restart from disk)
    out += [dict(c, elemType="QUAD4", restore="saveload") for c in deviations(factors, 1 if tier == "quick" else None)]
    return out


def cases(tier, seed):
    out = []
    for cfg in configs():
        dim = 3 if cfg["simp"] == "3D" else 2
        for s1 in letters(dim):
            out.append({"kind": "split", **cfg, "s1": s1, "full": tier != "quick"})
        out.append({"kind": "amp", **cfg})
    for simp in ("PE", "3D"):
        dim = 3 if simp == "3D" else 2
        for s1 in letters(dim):
            out.append({"kind": "eigen", "simp": simp, "s1": s1})
    # E2, depth 2: the split is evaluated, the stiffness of the material is replaced through the documented API, and the split
    # is evaluated again: the parts must partition the stress and energy of the CURRENT stiffness
    for split in SPLITS_ANY:
        for simp in ("PE", "3D"):
            for how in ("Set_C", "Set_C_keepS"):
                if how == "Set_C_keepS" and split in STRESS_BASED:
                    continue  # update_S=False leaves the compliance of the previous law in place: splits built on S are undefined there
                out.append({"kind": "setC", "split": split, "simp": simp, "how": how})
    for cfg in configs():
        if cfg["dom"] == "strain":
            out.append({"kind": "dtype", **cfg})
    # ... and the constants of a live isotropic material changed through their setters (every split, every dimension mode)
    for split in ALL_SPLITS:
        for simp in ("PE", "PS", "3D"):
            out.append({"kind": "setC", "split": split, "simp": simp, "how": "setE"})
    # the mesh of a loaded simulation is replaced: nothing of the previous elements may survive (no loading -> no damage)
    for split in ("Bourdin", "Amor"):
        for regu in ("AT2",):  # (the load level of these cases stays below the AT1 threshold: nothing to inherit)
            for solver in ("History", "HistoryDamage", "BoundConstrain"):
                for other in ("same_size", "other_size"):
                    out.append({"kind": "remesh", "split": split, "regu": regu, "solver": solver, "elemType": "QUAD4", "other": other})
    for cfg in hist_configs(tier):
        for l1 in LOADS:
            out.append({"kind": "hist", **cfg, "l1": l1, "depth": _hist_depth(tier)})
    return out


def describe(tier, seed):
    depth = _hist_depth(tier)
    ntri = len([c for c in hist_configs(tier) if c["elemType"] == "TRI3"])
    return {
        "rule": "E1 splits: every (split, simplification, material, letter domain) x every letter s1: s1 alone (Ne=1,nPg=1, all three API "
                "functions), every ordered pair (s1,s2) on the two Gauss points of one element, every pair on two elements"
                + (" (quick: Calc_C only for pairs, unordered pairs across elements)" if tier == "quick" else " (all three API functions, ordered)")
                + "; every degenerate letter at 8 amplitudes; eigen: the eigenvalues/eigenprojectors routine for every ordered pair. "
                "E2 histories (unmerged): every load-letter sequence up to the depth bound on a freshly built simulation, "
                "Solve+Save_Iter per letter, invariants after every letter. non-trivial (splits) = a non-zero state whose positive and "
                "negative energies are both non-zero or a degenerate spectrum; non-trivial (hist) = irreversibility is active at some step (the "
                "driving energy seen by the damage solve is lower than the one that created the existing history/damage); "
                "distinct = fingerprint of all observed outputs",
        "exhaustive": True,
        "bound": f"splits: full product, all ordered in-element pairs; histories: all sequences of length <= {depth}; 30 configurations "
                 f"(3 solvers x 2 regularisations x 5 splits) on QUAD4, {ntri} on TRI3"
                 + (" (default HistoryDamage/AT2/Amor + all single-factor deviations)" if ntri < 30 else ""),
        "alphabet": {"splits": len(ALL_SPLITS), "simplifications": 3, "materials": 2, "letters_2D": len(letters(2)),
                     "letters_3D": len(letters(3)), "amplitudes": len(AMPS), "configs": len(configs()),
                     "solvers": 3, "regularisations": 2, "hist_splits": len(HIST_SPLITS), "hist_meshes": 2, "load_letters": len(LOADS)},
        "assumptions": [
            "the positive part of a symmetric tensor is V max(w,0) V^T (numpy.linalg.eigh); sigma+ of splits built from the "
            "fourth-order projector P+ = d(eps+)/d(eps) is compared only where that derivative is unique (distinct non-zero eigenvalues)",
            "points whose decomposed tensor has a relative eigenvalue gap in (1e-10, 1e-3) are skipped (closed-form projectors are "
            "legitimately ill-conditioned there); gaps at round-off level and exact degeneracy are NOT skipped",
            f"tolerances: partition {TOL_PART}, spectral reference {TOL_SPEC} (relative to |C||eps|, |C||eps|^2/2), histories {TOL_HIST}",
            "history field observed through Result('psiP', nodeValues=False) (element mean over the mass Gauss points) after Save_Iter, "
            "and compared with the running maximum of the reference psi+ at the Gauss-point strains of the saved displacements",
            "load letter 'back to 0' is the letter 0 after a non-zero letter (4 distinct load values)",
        ],
        "explanation": "C17: every split partitions C, stress and energy and reproduces the eigh positive parts for generic and degenerate "
                       "strain states, alone and mixed inside one element; the history field / saved damage never decreases over any load sequence.",
    }


# ------------------------------------------------------------------------------------------------
# reference model (plain numpy)
# ------------------------------------------------------------------------------------------------
S2 = np.sqrt(2.0)
_KM_IDX = {2: [(0, 0), (1, 1), (0, 1)], 3: [(0, 0), (1, 1), (2, 2), (1, 2), (0, 2), (0, 1)]}


def mat_to_km(M):
    dim = M.shape[0]
    return np.array([M[i, j] * (1.0 if i == j else S2) for i, j in _KM_IDX[dim]])


def km_to_mat(v):
    dim = 2 if len(v) == 3 else 3
    M = np.zeros((dim, dim))
    for k, (i, j) in enumerate(_KM_IDX[dim]):
        M[i, j] = M[j, i] = v[k] * (1.0 if i == j else 1.0 / S2)
    return M


def pos_part(M):
    w, V = np.linalg.eigh(M)
    return (V * np.maximum(w, 0.0)) @ V.T


def spectrum_class(M):
    """(class, regular, intermediate): class in {zero, triple/double (all equal), dmax, dmin, distinct}."""
    w = np.linalg.eigvalsh(M)
    sc = np.max(np.abs(w))
    if sc == 0:
        return "zero", False, False
    gaps = np.diff(w) / sc
    inter = bool(np.any((gaps > 1e-10) & (gaps < 1e-3)))
    eq = gaps <= 1e-10
    if np.all(eq):
        cls = "allequal"
    elif len(w) == 3 and eq[1]:
        cls = "dmax"
    elif len(w) == 3 and eq[0]:
        cls = "dmin"
    else:
        cls = "distinct"
    regular = cls == "distinct" and bool(np.all(gaps > 1e-2)) and bool(np.min(np.abs(w)) > 1e-2 * sc)
    return cls, regular, inter


def dpos_km(M):
    """Kelvin-Mandel matrix of the derivative of the positive part at M (distinct non-zero eigenvalues only)."""
    dim = M.shape[0]
    w, V = np.linalg.eigh(M)
    wp = np.maximum(w, 0.0)
    n = len(_KM_IDX[dim])
    P = np.zeros((n, n))
    for k, (a, b) in enumerate(_KM_IDX[dim]):
        B = np.zeros((dim, dim))
        if a == b:
            B[a, a] = 1.0
        else:
            B[a, b] = B[b, a] = 1.0 / S2
        T = np.zeros((dim, dim))
        for i in range(dim):
            for j in range(dim):
                th = (1.0 if w[i] > 0 else 0.0) if i == j else (wp[i] - wp[j]) / (w[i] - w[j])
                T += th * (V[:, i] @ B @ V[:, j]) * np.outer(V[:, i], V[:, j])
        P[:, k] = mat_to_km(T)
    return P


def iso_constants(simp):
    E, v = E_ISO, V_ISO
    mu = E / (2 * (1 + v))
    lam = E * v / (1 - v ** 2) if simp == "PS" else E * v / ((1 + v) * (1 - 2 * v))
    return E, v, lam, mu


def ref_C(mat, simp):
    dim = 3 if simp == "3D" else 2
    n = 6 if dim == 3 else 3
    if mat == "iso":
        _, _, lam, mu = iso_constants(simp)
        I = np.zeros(n)
        I[:dim] = 1.0
        return lam * np.outer(I, I) + 2 * mu * np.eye(n)
    r = rng("c17spd", dim)
    Q, _ = np.linalg.qr(r.normal(size=(n, n)))
    lam = (np.array([3.0, 6.0, 11.0]) if n == 3 else np.array([2.0, 3.5, 5.0, 7.0, 9.0, 12.0])) + r.uniform(-0.5, 0.5, size=n)
    C = (Q * lam) @ Q.T
    return 0.5 * (C + C.T)


def sym_sqrt(C):
    w, V = np.linalg.eigh(C)
    return (V * np.sqrt(w)) @ V.T, (V / np.sqrt(w)) @ V.T


def decomposed_tensor(split, C, e):
    """the symmetric tensor whose spectrum the split uses (None: no spectral decomposition)."""
    if split in ("Bourdin", "Amor"):
        return None
    if split in STRESS_BASED:
        return km_to_mat(C @ e)
    if split == "He":
        return km_to_mat(sym_sqrt(C)[0] @ e)
    return km_to_mat(e)


def ref_split(split, simp, mat, C, e):
    """reference (psiP, psiM, sigP or None, sigM or None) at one point; None = not uniquely defined there."""
    dim = 3 if simp == "3D" else 2
    n = len(e)
    I = np.zeros(n)
    I[:dim] = 1.0
    sig = C @ e
    psi = 0.5 * e @ sig
    T = decomposed_tensor(split, C, e)
    regular = spectrum_class(T)[1] if T is not None else True
    if split == "Bourdin":
        return psi, 0.0, sig, np.zeros(n)
    if split in ("Amor", "Miehe", "Stress"):
        assert mat == "iso"
        E, v, lam, mu = iso_constants(simp)
    if split == "Amor":
        K = lam + 2 * mu / dim
        tr = e @ I
        dev = e - tr / dim * I
        psiP = 0.5 * K * max(tr, 0.0) ** 2 + mu * dev @ dev
        sigP = K * max(tr, 0.0) * I + 2 * mu * dev
        return psiP, psi - psiP, sigP, sig - sigP
    if split == "Miehe":
        tr = e @ I
        ep = mat_to_km(pos_part(km_to_mat(e)))
        psiP = 0.5 * lam * max(tr, 0.0) ** 2 + mu * ep @ ep
        sigP = lam * max(tr, 0.0) * I + 2 * mu * ep
        return psiP, psi - psiP, sigP, sig - sigP
    if split.startswith("AnisotStrain"):
        ep = mat_to_km(pos_part(km_to_mat(e)))
        em = e - ep
        P = dpos_km(km_to_mat(e)) if regular else None
        if split == "AnisotStrain":
            psiM = 0.5 * em @ C @ em
            sigM = (np.eye(n) - P).T @ C @ em if P is not None else None
            return psi - psiM, psiM, (sig - sigM if sigM is not None else None), sigM
        if split == "AnisotStrain_PM":
            psiP = 0.5 * ep @ C @ e
            sigP = P.T @ sig if P is not None else None
        elif split == "AnisotStrain_MP":
            psiP = 0.5 * ep @ C @ e
            sigP = C @ ep
        else:
            psiP = 0.5 * ep @ C @ ep
            sigP = P.T @ C @ ep if P is not None else None
        return psiP, psi - psiP, sigP, (sig - sigP if sigP is not None else None)
    if split == "Stress":
        sp = mat_to_km(pos_part(km_to_mat(sig)))
        trp = max(sig @ I, 0.0)
        k = v * (1 + v) / E if simp == "PE" else v / E
        epsP = (1 + v) / E * sp - k * trp * I
        psiP = 0.5 * sig @ epsP
        sigP = C @ epsP
        return psiP, psi - psiP, sigP, sig - sigP
    if split == "Zhang":
        sp = mat_to_km(pos_part(km_to_mat(sig)))
        return 0.5 * e @ sp, 0.5 * e @ (sig - sp), sp, sig - sp
    if split.startswith("AnisotStress"):
        S = np.linalg.inv(C)
        sp = mat_to_km(pos_part(km_to_mat(sig)))
        sm = sig - sp
        P = dpos_km(km_to_mat(sig)) if regular else None
        if split == "AnisotStress":
            psiM = 0.5 * sm @ S @ sm
            sigM = C @ (np.eye(n) - P) @ S @ sm if P is not None else None
            return psi - psiM, psiM, (sig - sigM if sigM is not None else None), sigM
        if split == "AnisotStress_PM":
            psiP = 0.5 * sp @ S @ sig
            sigP = C @ P @ e if P is not None else None
        elif split == "AnisotStress_MP":
            psiP = 0.5 * sp @ S @ sig
            sigP = sp
        else:
            psiP = 0.5 * sp @ S @ sp
            sigP = C @ P @ S @ sp if P is not None else None
        return psiP, psi - psiP, sigP, (sig - sigP if sigP is not None else None)
    if split == "He":
        sq, _ = sym_sqrt(C)
        tp = mat_to_km(pos_part(km_to_mat(sq @ e)))
        psiP = 0.5 * tp @ tp
        sigP = sq @ tp
        return psiP, psi - psiP, sigP, sig - sigP
    raise KeyError(split)


# ------------------------------------------------------------------------------------------------
# driver: splits
# ------------------------------------------------------------------------------------------------
_MODEL_CACHE: dict = {}
_REF_CACHE: dict = {}


def _ref_cached(split, simp, mat, C, e):
    """the reference is a pure function of (split, simplification, C, eps): evaluated once per distinct state."""
    k = (split, simp, mat, C.tobytes(), e.tobytes())
    if k not in _REF_CACHE:
        if len(_REF_CACHE) > 4000:
            _REF_CACHE.clear()
        _REF_CACHE[k] = ref_split(split, simp, mat, C, e)
    return _REF_CACHE[k]


def make_model(split, simp, mat, regu="AT2", solver="History"):
    from EasyFEA import Models

    key = (split, simp, mat, regu, solver, int(__import__("os").environ.get("VERIF_SEED", "0") or 0))
    if key in _MODEL_CACHE:
        return _MODEL_CACHE[key]
    dim = 3 if simp == "3D" else 2
    C = ref_C(mat, simp)
    if mat == "iso":
        material = Models.Elastic.Isotropic(dim, E=E_ISO, v=V_ISO, planeStress=(simp == "PS"), thickness=1.0)
    else:
        material = Models.Elastic.Anisotropic(dim, C.copy(), False)
    model = Models.PhaseField(material, split, regu, 1.0, 0.5, solver)
    _MODEL_CACHE[key] = (model, C)
    return model, C


def letter_strain(cfg, C, name, amp=A0):
    """Kelvin-Mandel strain vector of a letter (letters live in the strain, or in the tensor the split decomposes)."""
    dim = 3 if cfg["simp"] == "3D" else 2
    t = mat_to_km(letter_matrix(name, dim, amp))
    if cfg["dom"] == "strain":
        return t
    if cfg["split"] == "He":
        return sym_sqrt(C)[1] @ t
    return np.linalg.solve(C, t)


def call_api(model, eps, full):
    """eps (Ne, nPg, n) -> dict of plain arrays broadcast to full shape."""
    from EasyFEA.FEM import FeArray

    Ne, nPg, n = eps.shape
    with np.errstate(all="ignore"):
        cP, cM = model.Calc_C(FeArray.asfearray(eps.copy()))
        cP = np.broadcast_to(np.asarray(cP, dtype=float), (Ne, nPg, n, n)).copy()
        cM = np.broadcast_to(np.asarray(cM, dtype=float), (Ne, nPg, n, n)).copy()
        out = {"cP": cP, "cM": cM, "calls": 1}
        if full:
            sP, sM = model.Calc_Sigma_e_pg(FeArray.asfearray(eps.copy()))
            pP, pM = model.Calc_psi_e_pg(FeArray.asfearray(eps.copy()))
            out.update(sP=np.asarray(sP, dtype=float).reshape(Ne, nPg, n), sM=np.asarray(sM, dtype=float).reshape(Ne, nPg, n),
                       pP=np.asarray(pP, dtype=float).reshape(Ne, nPg), pM=np.asarray(pM, dtype=float).reshape(Ne, nPg), calls=3)
        else:
            # documented definitions: Sigma+- = c+- . eps ; psi+- = 1/2 Sigma+- . eps
            out["sP"] = np.einsum("epij,epj->epi", cP, eps)
            out["sM"] = np.einsum("epij,epj->epi", cM, eps)
            out["pP"] = 0.5 * np.einsum("epi,epi->ep", out["sP"], eps)
            out["pM"] = 0.5 * np.einsum("epi,epi->ep", out["sM"], eps)
    return out


def check_point(cfg, C, e, got, e_idx, key):
    """all sub-checks at one Gauss point. got = api dict; e_idx = (element, gauss point)."""
    i, p = e_idx
    v = []
    split, simp, mat = cfg["split"], cfg["simp"], cfg["mat"]
    nC = np.linalg.norm(C, 2)
    ne = np.linalg.norm(e)
    s_sc = nC * ne
    p_sc = 0.5 * nC * ne ** 2
    cP, cM, sP, sM, pP, pM = (got[k][i, p] for k in ("cP", "cM", "sP", "sM", "pP", "pM"))
    arrs = {"cP": cP, "cM": cM, "sigmaP": sP, "sigmaM": sM, "psiP": pP, "psiM": pM}
    bad = [k for k, a in arrs.items() if not np.all(np.isfinite(a))]
    if bad:
        v.append(viol("nonfinite", f"{_cfgname(cfg)}: non-finite {bad} for eps={np.round(e, 6).tolist()}", **key))
        return v, "nonfinite"
    sig = C @ e
    psi = 0.5 * e @ sig
    err = np.max(np.abs(cP + cM - C)) / nC
    if err > TOL_PART:
        v.append(viol("partition_C", f"{_cfgname(cfg)}: max|cP + cM - C|/|C| = {err:.3e} for eps={np.round(e, 6).tolist()}", **key))
    err = np.max(np.abs(sP + sM - sig))
    if err > TOL_PART * s_sc:
        v.append(viol("partition_stress", f"{_cfgname(cfg)}: max|sigma+ + sigma- - C:eps| = {err:.3e} (scale {s_sc:.3e})", **key))
    err = abs(pP + pM - psi)
    if err > TOL_PART * p_sc:
        v.append(viol("partition_energy", f"{_cfgname(cfg)}: |psi+ + psi- - eps:C:eps/2| = {err:.3e} (scale {p_sc:.3e})", **key))
    rP, rM, rsP, rsM = _ref_cached(split, simp, mat, C, e)
    if abs(pP - rP) > TOL_SPEC * p_sc or abs(pM - rM) > TOL_SPEC * p_sc:
        v.append(viol("psi_reference", f"{_cfgname(cfg)}: psi+ = {pP!r} psi- = {pM!r}, reference (eigh positive parts) {rP!r} / {rM!r} "
                                       f"for eps={np.round(e, 6).tolist()}", **key))
    if rsP is not None:
        err = max(np.max(np.abs(sP - rsP)), np.max(np.abs(sM - rsM)))
        if err > TOL_SPEC * s_sc:
            v.append(viol("positive_part", f"{_cfgname(cfg)}: sigma+ differs from the reference built on the eigh positive part by {err:.3e} "
                                           f"(scale {s_sc:.3e}) for eps={np.round(e, 6).tolist()}", **key))
    return v, ("ok" if not v else "violation")


def _cfgname(cfg):
    return f"{cfg['split']}/{cfg['simp']}/{cfg['mat']}/{cfg['dom']}"


def _cls(cfg, C, e):
    T = decomposed_tensor(cfg["split"], C, e)
    if T is None:
        T = km_to_mat(e)
    return spectrum_class(T)


def _dedupe(v):
    seen, out = set(), []
    for x in v:
        k = str(sorted(x["key"].items()))
        if k not in seen:
            seen.add(k)
            out.append(x)
    return out


def _run_split(case):
    cfg = {k: case[k] for k in ("split", "simp", "mat", "dom")}
    dim = 3 if cfg["simp"] == "3D" else 2
    model, C = make_model(cfg["split"], cfg["simp"], cfg["mat"])
    L = letters(dim)
    s1 = case["s1"]
    E = {s: letter_strain(cfg, C, s) for s in L}
    CL = {s: _cls(cfg, C, E[s]) for s in L}
    base = dict(split=cfg["split"], simp=cfg["simp"], mat=cfg["mat"], dom=cfg["dom"])
    v, obs, ntr, skipped, nontriv = [], [], 0, 0, False

    def do(eps, names, place, full):
        """eps (Ne,nPg,n); names[(i,p)] = (state, other)."""
        nonlocal ntr, skipped, nontriv
        got = call_api(model, eps, full)
        ntr += got["calls"]
        for (i, p), (st, ot) in names.items():
            cls, _, inter = CL[st]
            if inter:
                skipped += 1
                continue
            key = dict(base, place=place, state=st, other=ot, cls=cls, ocls=(CL[ot][0] if ot != "-" else "-"))
            vv, _ = check_point(cfg, C, eps[i, p], got, (i, p), key)
            v.extend(vv)
            if np.isfinite(got["pP"][i, p]) and (cls != "distinct" or (got["pP"][i, p] > 1e-9 and got["pM"][i, p] > 1e-9)):
                nontriv = nontriv or st != "zero"
        obs.append(np.concatenate([got["pP"].ravel(), got["pM"].ravel(), got["sP"].ravel()]))

    # s1 alone: all three API functions
    do(E[s1].reshape(1, 1, -1), {(0, 0): (s1, "-")}, "single", True)
    for j, s2 in enumerate(L):
        # both Gauss points of ONE element
        do(np.array([[E[s1], E[s2]]]), {(0, 0): (s1, s2), (0, 1): (s2, s1)}, "in_element", case["full"])
        # one Gauss point in each of TWO elements
        if case["full"] or L.index(s1) <= j:
            do(np.array([[E[s1]], [E[s2]]]), {(0, 0): (s1, s2), (1, 0): (s2, s1)}, "two_elements", case["full"])
    v = _dedupe(v)
    return {"violations": v, "fingerprint": fp(case["split"], case["simp"], case["mat"], case["dom"], s1, np.nan_to_num(np.concatenate(obs), nan=-7.0, posinf=-8.0, neginf=-9.0)),
            "nontrivial": nontriv, "transitions": ntr,
            "outcome": ("ok" if not v else "violation") + ("+gapskip" if skipped else ""), "skipped": None}


def _run_setC(case):
    from EasyFEA import Models

    split, simp, how = case["split"], case["simp"], case["how"]
    matname = "iso" if how == "setE" else "aniso"
    cfg = {"split": split, "simp": simp, "mat": matname, "dom": "strain"}
    dim = 3 if simp == "3D" else 2
    C = ref_C(matname, simp)
    n = C.shape[0]
    r = rng("c17setC", simp)
    if how == "setE":
        # an isotropic material whose constants are changed through their setters on the live object (the model was built around it)
        E0, v0 = 1.7 * E_ISO, 0.6 * V_ISO + 0.05
        mu0 = E0 / (2 * (1 + v0))
        lam0 = E0 * v0 / (1 - v0 ** 2) if simp == "PS" else E0 * v0 / ((1 + v0) * (1 - 2 * v0))
        I = np.zeros(n)
        I[:dim] = 1.0
        C0 = lam0 * np.outer(I, I) + 2 * mu0 * np.eye(n)
        material = Models.Elastic.Isotropic(dim, E=E0, v=v0, planeStress=(simp == "PS"), thickness=1.0)
    else:
        B = r.normal(size=(n, n))
        C0 = B @ B.T + n * np.eye(n)  # the stiffness the model starts with
        material = Models.Elastic.Anisotropic(dim, C0.copy(), False)
    model = Models.PhaseField(material, split, "AT2", 1.0, 0.5, "History")
    L = letters(dim)
    base = dict(split=split, simp=simp, mat=matname, dom="strain", how=how)
    v, obs, ntr = [], [], 0
    for stage, Cs in (("initial", C0), (how, C)):
        if stage != "initial":
            if how == "setE":
                material.E = E_ISO
                material.v = V_ISO
            elif how == "Set_C":
                material.Set_C(C.copy(), False)
            else:
                material.Set_C(C.copy(), False, update_S=False)
            ntr += 1
        for st in L:
            e = letter_strain(cfg, Cs, st)
            cl = _cls(cfg, Cs, e)
            if cl[2] or (dim == 3 and cl[0] != "distinct"):
                continue  # (3D states with repeated principal values: kind "split", known findings F-C17-3d-*)
            got = call_api(model, e.reshape(1, 1, -1), True)
            ntr += got["calls"]
            key = dict(base, stage=stage, state=st)
            nC, ne = np.linalg.norm(Cs, 2), np.linalg.norm(e)
            sig = Cs @ e
            cP, cM, sP, sM, pP, pM = (got[k][0, 0] for k in ("cP", "cM", "sP", "sM", "pP", "pM"))
            obs.append(np.concatenate([sP, sM, [pP, pM]]))
            if not all(np.all(np.isfinite(a)) for a in (cP, cM, sP, sM, pP, pM)):
                v.append(viol("nonfinite", f"{_cfgname(cfg)} after {stage}: non-finite parts for eps={np.round(e, 6).tolist()}", **key))
                continue
            if np.max(np.abs(cP + cM - Cs)) > TOL_PART * 10 * nC:
                v.append(viol("partition_C", f"{_cfgname(cfg)} after {stage}: max|cP + cM - C|/|C| = {np.max(np.abs(cP + cM - Cs)) / nC:.3e} "
                                             f"(C = the stiffness currently set)", **key))
            if np.max(np.abs(sP + sM - sig)) > TOL_PART * 10 * nC * ne:
                v.append(viol("partition_stress", f"{_cfgname(cfg)} after {stage}: max|sigma+ + sigma- - C:eps| = {np.max(np.abs(sP + sM - sig)):.3e} "
                                                  f"(scale {nC * ne:.3e})", **key))
            if abs(pP + pM - 0.5 * e @ sig) > TOL_PART * 10 * 0.5 * nC * ne ** 2:
                v.append(viol("partition_energy", f"{_cfgname(cfg)} after {stage}: |psi+ + psi- - eps:C:eps/2| = {abs(pP + pM - 0.5 * e @ sig):.3e}", **key))
            if how == "setE" and stage != "initial":
                vv, _ = check_point(cfg, Cs, e, got, (0, 0), key)  # the reference split of the law now in force
                v.extend(x for x in vv if x["key"]["check"] in ("psi_reference", "positive_part"))
    v = _dedupe(v)[:12]
    return {"violations": v, "fingerprint": fp("setC", split, simp, how, np.nan_to_num(np.concatenate(obs))), "nontrivial": True,
            "transitions": ntr, "outcome": "ok" if not v else "violation"}


def _run_amp(case):
    """every degenerate letter at every amplitude: one element each (Ne = letters x amplitudes, nPg = 1)."""
    cfg = {k: case[k] for k in ("split", "simp", "mat", "dom")}
    dim = 3 if cfg["simp"] == "3D" else 2
    model, C = make_model(cfg["split"], cfg["simp"], cfg["mat"])
    names, rows = [], []
    for s in degenerate_letters(dim):
        for a in AMPS:
            names.append((s, a))
            rows.append(letter_strain(cfg, C, s, float(a)))
    # generic states (distinct principal values) in other unit systems / at the first increment of a ramp: the splits are
    # positively homogeneous, so the class of a state cannot depend on its magnitude
    for s in [x for x in letters(dim) if x.startswith("gen")]:
        for a in GEN_AMPS:
            names.append((s, a))
            rows.append(letter_strain(cfg, C, s, float(a)))
    eps = np.array(rows).reshape(len(rows), 1, -1)
    got = call_api(model, eps, True)
    base = dict(split=cfg["split"], simp=cfg["simp"], mat=cfg["mat"], dom=cfg["dom"])
    v = []
    nskip = 0
    for i, (s, a) in enumerate(names):
        cls, _, inter = _cls(cfg, C, eps[i, 0])
        if inter:
            nskip += 1
            continue
        vv, _ = check_point(cfg, C, eps[i, 0], got, (i, 0), dict(base, place="amplitude", state=s, amp=a, cls=cls))
        v.extend(vv)
    v = _dedupe(v)
    obs = np.concatenate([got["pP"].ravel(), got["pM"].ravel(), got["sP"].ravel()])
    return {"violations": v, "fingerprint": fp("amp", _cfgname(cfg), np.nan_to_num(obs, nan=-7.0, posinf=-8.0, neginf=-9.0)), "nontrivial": True,
            "transitions": got["calls"], "outcome": "ok" if not v else "violation",
            "skipped": "intermediate_gap" if nskip == len(names) else None}


def _run_eigen(case):
    """eigenvalues and eigenprojectors of the closed-form routine vs numpy.linalg.eigh, clusters of equal eigenvalues compared
    through the sum of their projectors (unique also for repeated eigenvalues)."""
    from EasyFEA.FEM import FeArray

    simp = case["simp"]
    dim = 3 if simp == "3D" else 2
    model, C = make_model("Miehe", simp, "iso")
    cfg = {"split": "Miehe", "simp": simp, "mat": "iso", "dom": "strain"}
    L = letters(dim)
    s1 = case["s1"]
    E = {s: letter_strain(cfg, C, s) for s in L}
    v, obs, ntr = [], [], 0

    def check(eps, names, place):
        nonlocal ntr
        with np.errstate(all="ignore"):
            vals, lm, lM = model._Eigen_values_vectors_projectors(FeArray.asfearray(eps.copy()))
        ntr += 1
        vals = np.asarray(vals, dtype=float)
        lM = [np.asarray(M, dtype=float) for M in lM]
        lm = [np.asarray(m, dtype=float) for m in lm]
        obs.append(vals.ravel())
        for (i, p), (st, ot) in names.items():
            M = km_to_mat(eps[i, p])
            cls = spectrum_class(M)[0]
            key = dict(simp=simp, place=place, state=st, other=ot, cls=cls, ocls=(spectrum_class(km_to_mat(E[ot]))[0] if ot != "-" else "-"))
            got_M = [x[i, p] for x in lM]
            if not (np.all(np.isfinite(vals[i, p])) and all(np.all(np.isfinite(x)) for x in got_M)):
                v.append(viol("eigen_nonfinite", f"{simp}: eigenvalues/projectors not finite for eps={np.round(eps[i, p], 6).tolist()}", **key))
                continue
            w, V = np.linalg.eigh(M)
            sc = max(np.max(np.abs(w)), 1e-300)
            if np.max(np.abs(vals[i, p] - w)) > TOL_SPEC * sc:
                v.append(viol("eigenvalues", f"{simp}: eigenvalues {vals[i, p].tolist()} vs eigh {w.tolist()}", **key))
                continue
            # clusters
            start = 0
            bad = 0.0
            for k in range(1, dim + 1):
                if k == dim or (w[k] - w[k - 1]) > 1e-10 * sc:
                    Pref = V[:, start:k] @ V[:, start:k].T
                    Pgot = sum(got_M[j] for j in range(start, k))
                    bad = max(bad, np.max(np.abs(Pgot - Pref)))
                    start = k
            if np.max(np.abs(w)) == 0:
                bad = np.max(np.abs(sum(got_M) - np.eye(dim)))
            if bad > TOL_SPEC:
                v.append(viol("eigenprojectors", f"{simp}: eigenprojectors differ from eigh by {bad:.3e} for eps={np.round(eps[i, p], 6).tolist()}", **key))
            for j in range(dim):
                if np.max(np.abs(lm[j][i, p] - mat_to_km(got_M[j]))) > 1e-13:
                    v.append(viol("eigen_km", f"{simp}: vector form of projector {j} is not the Kelvin-Mandel image of its matrix", **key))

    check(E[s1].reshape(1, 1, -1), {(0, 0): (s1, "-")}, "single")
    for s2 in L:
        check(np.array([[E[s1], E[s2]]]), {(0, 0): (s1, s2), (0, 1): (s2, s1)}, "in_element")
        check(np.array([[E[s1]], [E[s2]]]), {(0, 0): (s1, s2), (1, 0): (s2, s1)}, "two_elements")
    v = _dedupe(v)
    return {"violations": v, "fingerprint": fp("eigen", simp, s1, np.nan_to_num(np.concatenate(obs), nan=-7.0, posinf=-8.0, neginf=-9.0)), "nontrivial": s1 != "zero",
            "transitions": ntr, "outcome": "ok" if not v else "violation"}


# ------------------------------------------------------------------------------------------------
# driver: histories
# ------------------------------------------------------------------------------------------------
def build_simu(case):
    from EasyFEA import Models, Simulations

    et = case["elemType"]
    mesh = Z.template_2d(tuple(et.split("+")) if "+" in et else et, 3).build()
    material = Models.Elastic.Isotropic(2, E=100.0, v=0.3, planeStress=True, thickness=1.0)
    model = Models.PhaseField(material, case["split"], case["regu"], 1.0, 0.5, case["solver"])
    simu = Simulations.PhaseField(mesh, model)
    x = mesh.coord[:, 0]
    n0 = np.where(np.abs(x - x.min()) < 1e-12)[0]
    n1 = np.where(np.abs(x - x.max()) < 1e-12)[0]
    return simu, mesh, n0, n1


def _hist_ref_C():
    E, v = 100.0, 0.3
    mu = E / (2 * (1 + v))
    lam = E * v / (1 - v ** 2)
    I = np.array([1.0, 1.0, 0.0])
    return lam * np.outer(I, I) + 2 * mu * np.eye(3), lam, mu


def ref_psiP_hist(split, e):
    """reference psi+ for the history splits (2D plane stress isotropic E=100, v=0.3)."""
    C, lam, mu = _hist_ref_C()
    I = np.array([1.0, 1.0, 0.0])
    sig = C @ e
    if split == "Bourdin":
        return 0.5 * e @ sig
    if split == "Amor":
        tr = e @ I
        dev = e - tr / 2 * I
        return 0.5 * (lam + mu) * max(tr, 0.0) ** 2 + mu * dev @ dev
    if split == "Miehe":
        ep = mat_to_km(pos_part(km_to_mat(e)))
        return 0.5 * lam * max(e @ I, 0.0) ** 2 + mu * ep @ ep
    if split == "He":
        tp = mat_to_km(pos_part(km_to_mat(sym_sqrt(C)[0] @ e)))
        return 0.5 * tp @ tp
    if split == "AnisotStress":
        sm = sig - mat_to_km(pos_part(km_to_mat(sig)))
        return 0.5 * e @ sig - 0.5 * sm @ np.linalg.solve(C, sm)
    raise KeyError(split)


def _save_load(simu, tmpdirs):
    import contextlib
    import io
    import tempfile

    from EasyFEA.Simulations import Load_Simu

    # (the loaded object reads its meshes from the folder when they are first needed: the folder lives as long as the run)
    tmp = tempfile.mkdtemp(prefix="c17_")
    tmpdirs.append(tmp)
    with contextlib.redirect_stdout(io.StringIO()):
        simu.Save(tmp)
        return Load_Simu(tmp)


def run_sequence(case, seq):
    import shutil

    tmpdirs = []
    try:
        return _run_sequence(case, seq, tmpdirs)
    finally:
        for t in tmpdirs:
            shutil.rmtree(t, ignore_errors=True)


def _run_sequence(case, seq, tmpdirs):
    """replays one letter sequence on a fresh simulation; returns (violations, observables, transitions, nontrivial)."""
    from EasyFEA.FEM import MatrixType

    simu, mesh, n0, n1 = build_simu(case)
    solver, split = case["solver"], case["split"]
    base = dict(solver=solver, regu=case["regu"], split=split, elemType=case["elemType"])
    if "tolConv" in case:
        base["staggered"] = "converged"
    if case.get("restore"):
        base["restore"] = case["restore"]
    v, obs = [], []
    d_prev = np.zeros(mesh.Nn)
    H_prev = None
    Href = None
    damaged = nontriv = False
    groups = list(mesh.Get_list_groupElem())
    for k, L in enumerate(seq):
        pre = ",".join(seq[: k + 1])
        key = dict(base, seq=pre)
        simu.Bc_Init()
        simu.add_dirichlet(n0, [0.0, 0.0], ["x", "y"])
        simu.add_dirichlet(n1, [LOADS[L] * LOAD_A], ["x"])
        with np.errstate(all="ignore"):
            if "tolConv" in case:
                simu.Solve(tolConv=case["tolConv"], maxIter=40)
            else:
                simu.Solve()
        simu.Save_Iter()
        if case.get("restore") == "peek":
            simu.Set_Iter(0)
            simu.Set_Iter(-1)
        elif case.get("restore") == "touch":
            pfm = simu.phaseFieldModel
            pfm.Gc = pfm.Gc
            pfm.l0 = pfm.l0
        elif case.get("restore") == "saveload":
            simu = _save_load(simu, tmpdirs)
            groups = list(simu.mesh.Get_list_groupElem())
        elif case.get("restore"):
            simu.Set_Iter(-1)
        d_saved = np.array(simu.Get_results(-1)["damage"], dtype=float)
        d_live = np.array(simu.damage, dtype=float)
        u = np.array(simu.displacement, dtype=float)
        obs.append(d_saved)
        if not (np.all(np.isfinite(d_saved)) and np.all(np.isfinite(u))):
            v.append(viol("hist_nonfinite", f"after [{pre}]: damage/displacement not finite", **key))
            break
        if np.max(np.abs(d_saved - d_live)) > 0:
            v.append(viol("saved_vs_live", f"after [{pre}]: saved damage differs from simu.damage", **key))
        if all(LOADS[x] == 0.0 for x in seq[: k + 1]):
            if np.max(np.abs(d_saved)) > 1e-14 or np.max(np.abs(u)) > 1e-14:
                v.append(viol("zero_load_damage", f"after [{pre}] (no load): max|d| = {np.max(np.abs(d_saved)):.3e}, max|u| = {np.max(np.abs(u)):.3e}", **key))
        if solver in ("HistoryDamage", "BoundConstrain"):
            drop = np.max(d_prev - d_saved)
            if drop > TOL_HIST:
                i = int(np.argmax(d_prev - d_saved))
                v.append(viol("damage_decrease", f"after [{pre}]: saved nodal damage fell at node {i}: {d_prev[i]:.6f} -> {d_saved[i]:.6f}", **key))
        else:
            H = np.array(simu.Result("psiP", nodeValues=False), dtype=float).ravel()
            # reference: running maximum over the saved steps of psi+ at the mass Gauss points
            cur = []
            for g in groups:
                eps = np.asarray(simu._Calc_Epsilon_e_pg(u, g, MatrixType.mass), dtype=float)
                cur.append(np.array([[ref_psiP_hist(split, eps[e, p]) for p in range(eps.shape[1])] for e in range(eps.shape[0])]))
            Href = cur if Href is None else [np.maximum(a, b) for a, b in zip(Href, cur)]
            Hmean = np.concatenate([h.mean(1) for h in Href])
            sc = max(np.max(Hmean), 1e-300)
            obs.append(H)
            if not np.all(np.isfinite(H)) or H.shape != Hmean.shape:
                v.append(viol("hist_nonfinite", f"after [{pre}]: Result('psiP') not finite / wrong shape {H.shape}", **key))
                break
            if H_prev is not None and np.max(H_prev - H) > TOL_HIST * sc:
                e = int(np.argmax(H_prev - H))
                v.append(viol("history_decrease", f"after [{pre}]: history field of element {e} fell {H_prev[e]:.6e} -> {H[e]:.6e}", **key))
            if np.max(np.abs(H - Hmean)) > TOL_HIST * sc:
                e = int(np.argmax(np.abs(H - Hmean)))
                v.append(viol("history_value", f"after [{pre}]: history field of element {e} is {H[e]:.6e}, running max of psi+ over the saved steps is {Hmean[e]:.6e}", **key))
            H_prev = H
        # irreversibility active: History compares psi+(u_k) with H_(k-1); the damage solve of step k sees u_(k-1)
        if solver == "History":
            if k >= 1 and damaged and abs(LOADS[L]) < abs(LOADS[seq[k - 1]]):
                nontriv = True
            damaged = damaged or (H_prev is not None and np.max(H_prev) > 1e-3)
        else:
            if k >= 2 and np.max(d_prev) > 0.05 and abs(LOADS[seq[k - 1]]) < abs(LOADS[seq[k - 2]]):
                nontriv = True
        d_prev = d_saved
    return v, obs, len(obs), nontriv


def _run_hist(case):
    depth = case["depth"]
    names = list(LOADS)
    v, fps, ntr, nontriv = [], [], 0, False
    # every maximal sequence starting with l1; each visits all its prefixes (invariants are evaluated after every letter)
    for tail in itertools.product(names, repeat=depth - 1):
        seq = [case["l1"], *tail]
        vv, obs, n, nt = run_sequence(case, seq)
        v.extend(vv)
        ntr += len(seq)
        nontriv = nontriv or nt
        fps.append(fp(*obs))
    v = _dedupe(v)
    return {"violations": v, "fingerprint": fp(case["solver"], case["regu"], case["split"], case["elemType"], case["l1"], fps),
            "nontrivial": nontriv, "transitions": ntr, "states": len(set(fps)), "outcome": "ok" if not v else "violation"}


def _run_dtype(case):
    """the strain handed in as an integer-typed (and single-precision) array with integer values: same parts as for the float64 copy"""
    cfg = {k: case[k] for k in ("split", "simp", "mat", "dom")}
    dim = 3 if cfg["simp"] == "3D" else 2
    model, C = make_model(cfg["split"], cfg["simp"], cfg["mat"])
    states = [[2, -1, 3], [-3, 1, 2], [1, 2, -1]] if dim == 2 else [[2, -1, 1, 3, -2, 1], [-3, 2, 1, 1, 2, -1], [1, -2, 4, -1, 1, 3]]
    base = dict(split=cfg["split"], simp=cfg["simp"], mat=cfg["mat"], dom=cfg["dom"], kind="dtype")
    v, obs, ntr = [], [], 0
    ei = np.array(states, dtype=np.int64).reshape(len(states), 1, -1)
    ref = call_api(model, ei.astype(float), True)
    ntr += ref["calls"]
    for dt in (np.int64, np.int32, np.float32):
        try:
            got = call_api(model, ei.astype(dt), True)
        except Exception as err:
            v.append(viol("dtype_raises", f"{_cfgname(cfg)}: strain given as {np.dtype(dt).name} raised {type(err).__name__}: {str(err)[:120]}", dtype=np.dtype(dt).name, **base))
            continue
        ntr += got["calls"]
        for k in ("cP", "cM", "sP", "sM", "pP", "pM"):
            a, b = got[k], ref[k]
            fin = np.isfinite(b)
            sc = max(np.abs(b[fin]).max() if fin.any() else 0.0, 1e-300)
            e = np.abs(np.where(fin, a - b, 0.0)).max() / sc
            if e > (1e-5 if dt is np.float32 else 1e-12) or not np.array_equal(np.isfinite(a), fin):
                v.append(viol("dtype_value", f"{_cfgname(cfg)}: {k} for the strain given as {np.dtype(dt).name} differs from the float64 copy of the same values by {e:.3e}",
                              dtype=np.dtype(dt).name, quantity=k, **base))
                break
    obs = np.nan_to_num(np.concatenate([ref["pP"].ravel(), ref["pM"].ravel()]))
    return {"violations": _dedupe(v), "fingerprint": fp("dtype", cfg, obs), "nontrivial": True, "transitions": ntr, "outcome": "ok" if not v else "violation"}


def _run_remesh(case):
    """loading on one mesh, then `simu.mesh = another mesh` (same number of elements, other geometry; or another number of elements), then a
    solve with NO loading: the damage stays zero, as on a freshly built simulation"""
    import contextlib
    import io

    simu, mesh, n0, n1 = build_simu(case)
    key = dict(kind="remesh", split=case["split"], regu=case["regu"], solver=case["solver"], elemType=case["elemType"], other=case["other"])
    v, ntr = [], 0
    with contextlib.redirect_stdout(io.StringIO()):
        for lvl in (0.5, 1.0):
            simu.Bc_Init()
            simu.add_dirichlet(n0, [0.0, 0.0], ["x", "y"])
            simu.add_dirichlet(n1, [LOAD_A * lvl], ["x"])
            simu.Solve()
            simu.Save_Iter()
            ntr += 2
        dmax0 = float(np.max(simu.damage))
        zm = Z.template_2d(case["elemType"], 3 if case["other"] == "same_size" else 2, distort=True)
        new = zm.build()
        simu.mesh = new
        x = new.coord[:, 0]
        m0 = np.where(np.abs(x - x.min()) < 1e-12)[0]
        simu.add_dirichlet(m0, [0.0, 0.0], ["x", "y"])
        simu.Solve()
        ntr += 2
    d = float(np.max(np.abs(simu.damage)))
    if not np.isfinite(d) or d > 1e-12:
        v.append(viol("damage_without_loading", f"{case['split']}/{case['regu']}/{case['solver']}: after the mesh was replaced ({case['other']}) an unloaded solve gives max damage "
                                                f"{d:.3e} (damage reached on the previous mesh {dmax0:.3e})", **key))
    return {"violations": v, "fingerprint": fp("remesh", case, dmax0), "nontrivial": dmax0 > 1e-3, "transitions": ntr, "outcome": "ok" if not v else "violation"}


def run_case(case):
    if case["kind"] == "remesh":
        return _run_remesh(case)
    if case["kind"] == "dtype":
        return _run_dtype(case)
    return globals()["_run_" + case["kind"]](case)
