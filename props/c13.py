"""C13 — user-written weak forms assemble the same matrices as the built-in operators.

Exhaustive enumeration of PROGRAMS (weak forms) over a small grammar (DESIGN §4 C13):

  scalar field   T ::= c*u*v | c*grad(u).grad(v) | grad(u).A.grad(v)
  vector field   T ::= c*u.v | lambda tr eps(u) tr eps(v) | 2 mu eps(u):eps(v) | eps(u):C:eps(v)
  linear forms   T ::= c*v (scalar field) | f.v (vector field)
  program        ::= T | T + T        (unordered pairs of distinct terms)
  coefficients   c, A, C, f in {constant, one value per element, function of the Gauss-point coordinates}

crossed with element type x matrixType (the same for the Field and for the operator) x mesh in {affine, general
straight-sided quad/hexa}.  Every program is written the way the library's own examples write forms
(`u.dot(v)`, `u.grad.dot(v.grad)`, `Sym_Grad`, `Trace`, `ddot`, `f * v`, `v.Get_coords()`), integrated with
`BiLinearForm/LinearForm.Integrate_e(field)` and compared (1e-12 relative) with the matching combination of the
built-in operators `Bilinear.UV / GradUGradV / GradU_A_GradV / LinearizedElasticity` and `Linear.V`.  Only symmetric
forms are compared (the built-ins are symmetric: the trial/test index convention has no oracle in the code base).

Further case kinds
  assemble : form.Assemble(field) == dense scatter-add (plain Python loops) of form.Integrate_e(field), on renumbered
             meshes, for a NON symmetric bilinear form (rows/columns convention of the form itself) and a linear form;
  simu     : Simulations.WeakForms versus Simulations.Thermal / Simulations.Elastic: assembled K, C, M and the solution
             of a static solve, one parabolic step and one Newmark step.
"""
from __future__ import annotations

import itertools

import numpy as np

from mc.util import deviations, fp, relerr, rng, todense, viol
from zoo import meshes as Z

PROPERTY = "C13"
TOL = 1e-12          # element arrays / assembled matrices, relative to the largest entry of the oracle
TOL_SOLVE = 1e-9     # solutions of direct solves on <= 300 dofs (DESIGN §2.7)

KINDS = ["const", "elem", "fun"]
SCALAR_TERMS = [f"{t}[{k}]" for t in ("M", "G", "A") for k in KINDS]
VECTOR_TERMS = [f"{t}[{k}]" for t in ("Mv", "L", "Gs", "E") for k in KINDS]
LINEAR_TERMS = {"scalar": [f"V[{k}]" for k in KINDS], "vector": [f"FV[{k}]" for k in KINDS]}
MATRIX_TYPES = ["mass", "rigi"]

# pairs are enumerated on the cheap element types (cost of a program = (nPe*dof_n)^2 Python-level form evaluations)
PAIR_TYPES = {
    "quick": {"scalar": ["SEG2", "TRI3", "QUAD4", "TETRA4"], "vector": ["TRI3", "QUAD4"]},
    "thorough": {"scalar": ["SEG2", "SEG3", "TRI3", "TRI6", "QUAD4", "QUAD8", "QUAD9", "TETRA4", "HEXA8", "PRISM6"],
                 "vector": ["TRI3", "TRI6", "QUAD4", "QUAD8", "QUAD9", "TETRA4", "HEXA8", "PRISM6"]},
}


GMSH_TYPES_QUICK = ["TRI3", "TRI6", "QUAD4", "TETRA4", "PRISM6", "HEXA8"]


def _nPe(et: str) -> int:
    return int("".join(c for c in et if c.isdigit()))


def _types(field: str) -> list[str]:
    return [et for et in Z.ALL_TYPES if field == "scalar" or Z.dim_of(et) >= 2]


def _meshkinds(et: str) -> list[str]:
    return ["affine", "general"] if Z.topo(et) in ("QUAD", "HEXA") else ["affine"]


def _uses_value(term: str) -> bool:
    """terms that evaluate the field itself (Field.__call__ -> Get_N_pg, not cached by the library: slow)."""
    return term.split("[")[0] in ("M", "Mv")


def _cost(field: str, term: str, et: str, coef: str | None = None) -> float:
    """rough seconds of one Integrate_e of a one-term program.  Measured: the library re-evaluates the shape-function
    table (~6e-5 s * nPe) at every Field() and every Field.Get_coords() call, i.e. 2 per dof pair for value terms and
    1 more for a coefficient that is a function of the Gauss coordinates; ~2.5e-4 s per dof pair for the tensor algebra."""
    nPe = _nPe(et)
    ndof = nPe * (Z.dim_of(et) if field == "vector" else 1)
    if coef is None:
        coef = term[:-1].split("[")[1] if "[" in term else "const"
    nN = (2 if _uses_value(term) else 0) + (1 if coef == "fun" else 0)
    return ndof * ndof * (nN * 6e-5 * nPe + 2.5e-4)


def _est(case) -> float:
    k = case["kind"]
    if k == "nonsym":
        return 1.0
    if k == "bilinear":
        return sum(_cost(case["field"], t, case["elemType"]) for t in case["program"])
    if k == "simu":
        f = "scalar" if case["problem"] == "thermal" else "vector"
        return _cost(f, "G", case["elemType"]) + (0 if case["algo"] == "static" else _cost(f, "M", case["elemType"]))
    if k == "assemble":
        return 2 * _cost(case["field"], "G", case["elemType"]) if case["form"] == "bilinear" else 0.01
    return 0.01


# ------------------------------------------------------------------------------------------------
# enumeration
# ------------------------------------------------------------------------------------------------
def _single_cases(tier):
    out = []
    for field, terms in (("scalar", SCALAR_TERMS), ("vector", VECTOR_TERMS)):
        bases = list(dict.fromkeys(t.split("[")[0] for t in terms))
        for et in _types(field):
            for base in bases:
                factors = {"coef": KINDS, "matrixType": MATRIX_TYPES, "mesh": _meshkinds(et)}
                cost = _cost(field, base, et, "fun")  # the most expensive configuration of this (term, element type)
                if tier == "thorough" or cost < 0.6:
                    bound = None
                elif cost < 6.0:
                    bound = 1
                else:
                    bound = 0
                for cfg in deviations(factors, bound):
                    out.append({"kind": "bilinear", "field": field, "program": [f"{base}[{cfg['coef']}]"], "elemType": et,
                                "matrixType": cfg["matrixType"], "mesh": cfg["mesh"]})
    return out


def _pair_cases(tier):
    out = []
    for field, terms in (("scalar", SCALAR_TERMS), ("vector", VECTOR_TERMS)):
        for et in PAIR_TYPES[tier][field]:
            for a, b in itertools.combinations(terms, 2):
                for mt in MATRIX_TYPES:
                    for mk in _meshkinds(et):
                        out.append({"kind": "bilinear", "field": field, "program": [a, b], "elemType": et,
                                    "matrixType": mt, "mesh": mk})
    return out


def _linear_cases(tier):
    out = []
    for field in ("scalar", "vector"):
        terms = LINEAR_TERMS[field]
        programs = [[t] for t in terms] + [list(p) for p in itertools.combinations(terms, 2)]
        for et in _types(field):
            for prog in programs:
                for mt in MATRIX_TYPES:
                    for mk in _meshkinds(et):
                        out.append({"kind": "linear", "field": field, "program": prog, "elemType": et,
                                    "matrixType": mt, "mesh": mk})
    return out


def _assemble_cases(tier):
    out = []
    nums = ["identity", "seeded"] if tier == "quick" else ["identity", "reversal", "seeded"]
    for field in ("scalar", "vector"):
        for et in _types(field):
            if tier == "quick" and _cost(field, "G", et) > 1.5:
                continue
            for num in nums:
                out.append({"kind": "assemble", "form": "bilinear", "field": field, "elemType": et, "numbering": num})
            # forms in other unit systems (entries of magnitude 1e-15 / 1e12): nothing may be dropped by an absolute threshold
            for sc in ASSEMBLE_SCALES:
                out.append({"kind": "assemble", "form": "bilinear", "field": field, "elemType": et, "numbering": "seeded", "scale": sc})
    for et in _types("scalar"):
        for num in nums:
            out.append({"kind": "assemble", "form": "linear", "field": "scalar", "elemType": et, "numbering": num})
        for sc in ASSEMBLE_SCALES:
            out.append({"kind": "assemble", "form": "linear", "field": "scalar", "elemType": et, "numbering": "seeded", "scale": sc})
    return out


ASSEMBLE_SCALES = [1e-15, 1e12]
# "evaluate": no motion; the Field is used for post-processing (Evaluate_e with and without element means, Evaluate_n) between two integrations
# "lift": a plane mesh translated out of the plane z = 0 (a plate modelled at its real height)
MOVES = ["translate", "rotate", "symmetry", "setcoord", "evaluate", "lift"]


def _moved_cases(tier):
    """E2, depth 2: the same Field and the same form objects are evaluated, the mesh is moved through the public API, and they are
    evaluated again: the element arrays must follow the current mesh (coefficients sampled at the current Gauss points)."""
    out = []
    ets = ["SEG2", "TRI3", "QUAD4", "QUAD8", "TETRA4"] if tier == "quick" else list(Z.ALL_TYPES)
    for et in ets:
        for prog in ("M[fun]", "G[fun]", "V[fun]") + (("Gs[fun]",) if Z.dim_of(et) >= 2 else ()):
            for mv in MOVES:
                for first in ((True,) if tier == "quick" else (True, False)):
                    out.append({"kind": "moved", "elemType": et, "program": prog, "move": mv, "evaluate_first": first})
    for mv in MOVES:
        out.append({"kind": "moved", "elemType": "TRI3", "program": "simu", "move": mv, "evaluate_first": True})
    return out


def _simu_cases(tier):
    out = []
    for et in Z.ALL_TYPES:
        d = Z.dim_of(et)
        for mk in _meshkinds(et):
            out.append({"kind": "simu", "problem": "thermal", "algo": "static", "elemType": et, "mesh": mk, "thick": False})
        for thick in ([False, True] if d == 2 else [False]):  # thickness != 1 only means something on 2D meshes
            out.append({"kind": "simu", "problem": "thermal", "algo": "parabolic", "elemType": et, "mesh": "affine", "thick": thick})
        if d >= 2:
            for mk in _meshkinds(et):
                if tier == "quick" and mk == "general" and _cost("vector", "Gs", et) > 1.0:
                    continue
                out.append({"kind": "simu", "problem": "elastic", "algo": "static", "elemType": et, "mesh": mk, "thick": d == 2})
            if tier == "thorough" or _cost("vector", "Mv", et) < 4.0:
                out.append({"kind": "simu", "problem": "elastic", "algo": "hyperbolic", "elemType": et, "mesh": "affine", "thick": d == 2})
    # unstructured gmsh meshes of the unit square / its extrusion (the numbering and orientations users actually get);
    # simplices are affine there, so the time steps are compared on them as well
    gm = GMSH_TYPES_QUICK if tier == "quick" else [et for et in Z.ALL_TYPES if Z.dim_of(et) >= 2]
    for et in gm:
        d = Z.dim_of(et)
        simplex = Z.topo(et) in ("TRI", "TETRA")
        for problem in ("thermal", "elastic"):
            out.append({"kind": "simu", "problem": problem, "algo": "static", "elemType": et, "mesh": "gmsh", "thick": d == 2 and problem == "elastic"})
            if simplex:
                out.append({"kind": "simu", "problem": problem, "algo": "parabolic" if problem == "thermal" else "hyperbolic", "elemType": et,
                            "mesh": "gmsh", "thick": d == 2 and problem == "elastic"})
    return out


def _nonsym_cases(tier):
    """forms that are NOT symmetric in (u, v): grad(u).A.grad(v) with a non-symmetric A, and the vector coupling (u@R).v with a
    non-symmetric R.  Entry (i, j) of Integrate_e is the form evaluated on (u = shape function i, v = shape function j); which of the
    two indexes the rows is a convention, so the oracle is {M, M^T}: the element array must equal the directly integrated array or its
    transpose (consistently over all elements) - a symmetrised or half-evaluated array is neither."""
    out = []
    ets = ["TRI3", "QUAD4", "TRI6", "QUAD8", "TETRA4", "HEXA8"] if tier == "quick" else list(Z.TYPES_2D + Z.TYPES_3D)
    for et in ets:
        for form in ("gradAgrad", "uRv", "Ru_v"):
            for mk in _meshkinds(et):
                out.append({"kind": "nonsym", "form": form, "elemType": et, "mesh": mk})
    return out


def _run_nonsym(case):
    from EasyFEA.FEM import BiLinearForm, Field, MatrixType

    et, form = case["elemType"], case["form"]
    mesh = _zoo(et, case["mesh"]).build()
    g = mesh.groupElem
    d = g.dim
    r = rng("c13nonsym", et, form)
    key = dict(form=form, elemType=et, mesh=case["mesh"])
    mt = MatrixType.mass
    wJ = np.asarray(g.Get_weightedJacobian_e_pg(mt))
    if form == "gradAgrad":
        A = r.normal(size=(d, d))
        A = A + 2.0 * np.triu(np.abs(A), 1)  # clearly non-symmetric
        field = Field(g, 1, mt)
        data = np.asarray(BiLinearForm(lambda u, v: (u.grad @ A).dot(v.grad)).Integrate_e(field))
        dN = np.asarray(g.Get_dN_e_pg(mt))  # (Ne, nPg, dim, nPe)
        M = np.einsum("ep,epki,kl,eplj->eij", wJ, dN, A, dN)
        # the built-in anisotropic-diffusion operator with the SAME non-symmetric tensor: same array as the user form (not its transpose)
        from EasyFEA.FEM import Operators

        op = np.asarray(Operators.Bilinear.GradU_A_GradV(g, A, 1.0, mt), dtype=float)
    else:
        R = r.normal(size=(d, d))
        R = R + 2.0 * np.triu(np.abs(R), 1)
        field = Field(g, d, mt)
        if form == "Ru_v":
            # the constant tensor written on the LEFT of the bare field: (R u) . v = (u R^T) . v; the three spellings of the same form
            # must give the same array (no freedom of transposition between them)
            data = np.asarray(BiLinearForm(lambda u, v: (R @ u).dot(v)).Integrate_e(field))
            alt = {"(u() @ R.T).dot(v())": np.asarray(BiLinearForm(lambda u, v: (u() @ R.T).dot(v())).Integrate_e(field)),
                   "(R @ u()).dot(v())": np.asarray(BiLinearForm(lambda u, v: (R @ u()).dot(v())).Integrate_e(field))}
            R = R.T
        else:
            data = np.asarray(BiLinearForm(lambda u, v: (u() @ R).dot(v())).Integrate_e(field))
            alt = {}
        N = np.asarray(g.Get_N_pg(mt))[:, 0, :]  # (nPg, nPe)
        Ms = np.einsum("ep,pi,pj->eij", wJ, N, N)
        nPe = g.nPe
        M = np.zeros((g.Ne, nPe * d, nPe * d))
        for a in range(d):
            for b in range(d):
                M[:, a::d, b::d] = Ms * R[a, b]
    v = []
    sc = max(np.abs(M).max(), 1e-300)
    asym = np.abs(M - np.swapaxes(M, 1, 2)).max() / sc
    e1 = np.abs(data - M).max() / sc if data.shape == M.shape else np.inf
    e2 = np.abs(data - np.swapaxes(M, 1, 2)).max() / sc if data.shape == M.shape else np.inf
    if asym < 1e-3:
        return {"violations": [], "skipped": "reference turned out symmetric", "fingerprint": "sym", "nontrivial": False}
    if form == "gradAgrad" and (op.shape != data.shape or np.abs(op - data).max() / sc > 1e-11):
        eo = np.abs(op - data).max() / sc if op.shape == data.shape else np.inf
        et_ = np.abs(op - np.swapaxes(data, 1, 2)).max() / sc if op.shape == data.shape else np.inf
        v.append(viol("nonsymmetric_operator", f"gradAgrad on {et}/{case['mesh']}: Operators.Bilinear.GradU_A_GradV with a non-symmetric A differs from the user form "
                                               f"grad(u).A.grad(v) by {eo:.2e} (from its transpose by {et_:.2e})", **key))
    if form == "Ru_v":
        for txt, arr in alt.items():
            ea = np.abs(arr - data).max() / sc if arr.shape == data.shape else np.inf
            if ea > 1e-11:
                v.append(viol("spellings_differ", f"Ru_v on {et}/{case['mesh']}: the form (R @ u).dot(v) integrates to another array than its spelling {txt} (rel diff {ea:.2e})", spelling=txt, **key))
    if min(e1, e2) > 1e-11:
        v.append(viol("nonsymmetric_form", f"{form} on {et}/{case['mesh']}: Integrate_e is neither the directly integrated array (rel err {e1:.2e}) nor its transpose ({e2:.2e}); "
                                           f"asymmetry of the reference {asym:.2f}", **key))
    return {"violations": v, "fingerprint": fp(form, et, case["mesh"], data), "nontrivial": True, "transitions": 1,
            "outcome": "agree" if not v else "violation"}


def _apply_move(mesh, mv, r):
    d = mesh.dim
    if mv == "evaluate":
        return
    if mv == "lift":
        if d == 2:
            mesh.Translate(0.0, 0.0, 0.7)
        return
    if mv == "translate":
        t = np.zeros(3)
        t[:d] = r.uniform(0.4, 0.9, size=d)
        mesh.Translate(*t)
    elif mv == "rotate":
        direction = (0, 0, 1) if d < 3 else tuple(r.normal(size=3))
        mesh.Rotate(float(r.uniform(25, 70)), (0.1, -0.2, 0.0) if d < 3 else (0.1, -0.2, 0.3), direction)
    elif mv == "symmetry":
        n = np.zeros(3)
        n[:d] = r.normal(size=d)
        mesh.Symmetry((0.3, 0.1, 0.0), tuple(n))
    else:
        X = np.array(mesh.coord, dtype=float)
        A = np.eye(3)
        A[:d, :d] += r.uniform(-0.25, 0.25, size=(d, d))
        Y = X @ A.T
        Y[:, :d] += r.uniform(0.2, 0.5, size=d)
        mesh.coord = Y


def _run_moved(case):
    from EasyFEA import Models, Simulations
    from EasyFEA.FEM import Field

    et, prog, mv, first = case["elemType"], case["program"], case["move"], case["evaluate_first"]
    key = dict(kind="moved", elemType=et, program=prog, move=mv, evaluate_first=first)
    r = rng("c13moved", et, mv)
    mesh = _zoo(et, "affine").build(with_boundary=False)
    g = mesh.groupElem
    v = []
    if prog == "simu":
        # a WeakForms simulation whose forms sample a coefficient at the Gauss points: K and F before and after the move
        cK, cF = _Scal("fun", "movedK", g.Ne), _Scal("fun", "movedF", g.Ne)
        from EasyFEA.FEM import BiLinearForm, LinearForm, MatrixType

        fld = Field(g, 1, MatrixType.rigi)
        wf = Models.WeakForms(fld, BiLinearForm(lambda u, w: cK.user(u) * u.grad.dot(w.grad)), computeF=LinearForm(lambda w: cF.user(w) * w))
        simu = Simulations.WeakForms(mesh, wf)

        def observe():
            K, C, M, F = simu.Get_K_C_M_F()
            return todense(K), np.asarray(todense(F)).ravel()

        def reference():
            from EasyFEA.FEM import Operators

            Ke = np.asarray(Operators.Bilinear.GradUGradV(g, cK.oper(g, MatrixType.rigi), MatrixType.rigi))
            Fe = np.asarray(Operators.Linear.V(g, cF.oper(g, MatrixType.rigi), 1, MatrixType.rigi))
            conn = np.asarray(g.connect, dtype=int)
            return _scatter(Ke, conn, 1, g.Ncoords, True), _scatter(Fe.reshape(g.Ne, g.nPe, 1), conn, 1, g.Ncoords, False).ravel()

        stages = ["initial", mv, "thickness"]
        obs = []
        th = 1.0
        for st in stages:
            if st == mv:
                _apply_move(mesh, mv, r)
            elif st == "thickness":
                th = 1.7
                wf.thickness = th  # the model is observed by the simulation: K and F follow
            K, F = observe()
            Kr, Fr = reference()
            Kr, Fr = Kr * th, Fr * th
            obs += [Kr, Fr]
            for nm, a, b in (("K", K, Kr), ("F", F, Fr)):
                err = relerr(a, b)
                if err > TOL_SOLVE:
                    v.append(viol("moved_mesh", f"WeakForms simulation on {et}, stage {st}: assembled {nm} differs from the built-in operator with the "
                                                f"coefficient sampled at the current Gauss points, rel err {err:.2e}", stage=st, what=nm, **key))
        return {"violations": v, "fingerprint": fp("moved", case, *obs), "nontrivial": True, "outcome": "agree" if not v else "violation", "transitions": 2}
    base = prog[:-1].split("[")[0]
    bilinear = base != "V"
    mt = _matrix_type("mass" if base in ("M", "V") else "rigi")
    vector = base in ("Mv", "L", "Gs", "E", "FV")
    terms = [_Term(prog, "vector" if vector else "scalar", g)]
    form = _form_of(terms, bilinear=bilinear)
    fld = Field(g, g.dim if vector else 1, mt)
    obs = []
    for st in (["initial", mv] if first else [mv]):
        if st != "initial":
            _apply_move(mesh, mv, r)
            if mv == "evaluate":
                # post-processing with the same Field: values and gradients of a nodal solution, per element, per Gauss point, per node
                vals = r.normal(size=g.Ncoords * fld.dof_n)
                try:
                    fld.Evaluate_e(lambda f: f.grad, vals)
                    fld.Evaluate_e(lambda f: f.grad, vals, returnMeanValues=False)
                    fld.Evaluate_n((lambda f: f.grad.ddot(f.grad)) if vector else (lambda f: f.grad.dot(f.grad)), vals)  # a scalar per point
                except Exception as e:
                    v.append(viol("evaluate_raises", f"{prog} on {et}: Field.Evaluate_e / Evaluate_n of the gradient raised {type(e).__name__}: {str(e)[:120]}", **key))
                    break
        oracle = np.asarray(terms[0].oper(g, mt), dtype=float)
        try:
            got = np.asarray(form.Integrate_e(fld), dtype=float)
        except Exception as e:
            v.append(viol("integrate_raises", f"{prog} on {et}, stage {st}: Integrate_e with the same Field raised {type(e).__name__}: {str(e)[:120]}", stage=st, **key))
            break
        got = got.reshape(oracle.shape) if got.size == oracle.size else got
        obs.append(oracle)
        err = relerr(got, oracle) if got.shape == oracle.shape else np.inf
        if err > 1e-11:
            v.append(viol("moved_mesh", f"{prog} on {et}, stage {st}: Integrate_e with the same Field differs from the operator evaluated on the current mesh, "
                                        f"rel err {err:.2e}", stage=st, **key))
    moved = relerr(obs[-1], obs[0]) if len(obs) > 1 else 1.0
    return {"violations": v, "fingerprint": fp("moved", case, *obs), "nontrivial": bool(g.Ne > 1 and (moved > 1e-6 or mv == "evaluate")),
            "outcome": "agree" if not v else "violation", "transitions": len(obs)}


def _vec2_cases(tier):
    """a vector field with FEWER components than the space dimension (2 components on 3D elements): u.v and grad(u):grad(v)"""
    ets = ["TETRA4", "HEXA8", "PRISM6"] if tier == "quick" else list(Z.TYPES_3D)
    return [{"kind": "vec2", "elemType": et, "term": term} for et in ets for term in ("mass", "grad")]


def _run_vec2(case):
    from EasyFEA.FEM import BiLinearForm, Field, Operators

    et, term = case["elemType"], case["term"]
    key = dict(kind="vec2", elemType=et, term=term)
    mesh = _zoo(et, "affine").build(with_boundary=False)
    g = mesh.groupElem
    mt = _matrix_type("mass" if term == "mass" else "rigi")
    fld = Field(g, 2, mt)
    if term == "mass":
        form, scal = BiLinearForm(lambda u, w: 1.3 * u.dot(w)), 1.3 * np.asarray(Operators.Bilinear.UV(g, 1.0, 1, mt), dtype=float)
    else:
        form, scal = BiLinearForm(lambda u, w: 0.7 * u.grad.ddot(w.grad)), 0.7 * np.asarray(Operators.Bilinear.GradUGradV(g, 1.0, mt), dtype=float)
    v = []
    try:
        got = np.asarray(form.Integrate_e(fld), dtype=float)
    except Exception as err:
        return {"violations": [viol("form_raises", f"2-component field on {et}, {term}: Integrate_e raised {type(err).__name__}: {str(err)[:160]}", error=type(err).__name__, **key)],
                "fingerprint": fp("vec2raise", et, term), "nontrivial": True, "outcome": "raises", "transitions": 1}
    nPe = g.nPe
    want = np.zeros((g.Ne, 2 * nPe, 2 * nPe))
    for a in range(2):
        want[:, a::2, a::2] = scal  # kron(scalar operator, I_2): component a of node i is local dof 2 i + a
    sc = float(np.abs(want).max())
    err = np.abs(got - want).max() / sc if got.shape == want.shape else np.inf
    if err > TOL:
        v.append(viol("element_arrays", f"2-component field on {et} ({g.dim}D elements), {term}: Integrate_e differs from kron(scalar operator, I_2), rel err {err:.2e}", **key))
    return {"violations": v, "fingerprint": fp("vec2", et, term, want), "nontrivial": True, "outcome": "agree" if not v else "violation", "transitions": 1}


def _interp_cases(tier):
    """coefficients brought to the Gauss points with Field.Interpolate(nodal values): nodal data with 1, 2, 3 components per node (node-major,
    the layout of every solution vector of the library) on renumbered meshes, used as the density of a linear form"""
    ets = ["SEG3", "TRI3", "TRI6", "QUAD4", "QUAD8", "TETRA4", "HEXA8", "PRISM6"] if tier == "quick" else list(Z.ALL_TYPES)
    return [{"kind": "interp", "elemType": et, "ncomp": n, "matrixType": mtn} for et in ets for n in (1, 2, 3) for mtn in MATRIX_TYPES]


def _run_interp(case):
    from EasyFEA.FEM import Field, LinearForm, Operators

    et, ncomp, mtn = case["elemType"], case["ncomp"], case["matrixType"]
    key = dict(kind="interp", elemType=et, ncomp=ncomp, matrixType=mtn)
    zm = _zoo(et, "affine")
    zm = zm.renumbered(rng("c13interp", et).permutation(zm.Nn))
    mesh = zm.build(with_boundary=False)
    g = mesh.groupElem
    mt = _matrix_type(mtn)
    r = rng("c13interp", et, ncomp)
    A = r.uniform(-1.0, 1.0, size=(ncomp, 3))
    c = r.uniform(0.5, 1.5, size=ncomp)
    X = np.asarray(mesh.coord, dtype=float)
    nodal = X @ A.T + c                               # (Nn, ncomp): a different affine function per component
    fld = Field(g, 1, mt)
    v = []
    got = np.asarray(fld.Interpolate(nodal.ravel()), dtype=float)   # node-major vector, as Solve() returns and add_* accept
    gx = np.asarray(g.Get_GaussCoordinates_e_pg(mt), dtype=float)
    want = gx @ A.T + c                               # isoparametric interpolation reproduces affine functions
    nops = 2
    if got.shape != want.shape:
        v.append(viol("interpolate_shape", f"Field.Interpolate of {ncomp}-component nodal data on {et}/{mtn}: shape {got.shape}, expected {want.shape}", **key))
    else:
        err = float(np.abs(got - want).max() / np.abs(want).max())
        if err > 1e-11:
            v.append(viol("interpolate_value", f"Field.Interpolate of {ncomp}-component nodal data (node-major) on {et}/{mtn}: values at the Gauss points differ "
                                               f"from the affine functions the data samples, rel err {err:.2e}", **key))
    # the interpolated data as the density of a linear form on a field with as many components, against the built-in Linear.V
    if not v and ncomp <= max(1, g.dim):   # Field(g, dof_n) demands dof_n <= inDim
        fv = Field(g, ncomp, mt)
        try:
            form = LinearForm(lambda w: w.dot(fv.Interpolate(nodal.ravel())) if ncomp > 1 else fv.Interpolate(nodal.ravel()) * w)
            L = np.asarray(form.Integrate_e(fv), dtype=float)[:, :, 0]
            if ncomp == 1:
                oracle = np.asarray(Operators.Linear.V(g, want[..., 0], 1, mt), dtype=float).reshape(L.shape)
            else:
                oracle = sum(np.asarray(Operators.Linear.V(g, want[..., d], ncomp, mt), dtype=float)[:, :, d] for d in range(ncomp))
            nops += 2
            e2 = relerr(L, oracle)
            if e2 > TOL:
                v.append(viol("interpolate_form", f"linear form with an interpolated {ncomp}-component density on {et}/{mtn} differs from Linear.V of the same "
                                                  f"density, rel err {e2:.2e}", **key))
        except Exception as err:
            v.append(viol("form_raises", f"linear form with an interpolated {ncomp}-component density on {et}/{mtn}: {type(err).__name__}: {str(err)[:200]}",
                          error=type(err).__name__, **key))
    return {"violations": v, "fingerprint": fp("interp", et, ncomp, mtn, want), "nontrivial": True, "outcome": "agree" if not v else v[0]["check"],
            "transitions": nops}


def _normalmass_cases(tier):
    """built-in MassAlongNormal on CURVED faces (the normal varies inside an element) against the user form coef (u.n)(v.n)"""
    return [{"kind": "normalmass", "elemType": et, "coef": ck} for et in ("QUAD8", "QUAD9", "TRI6", "QUAD4") for ck in ("const", "elem")]


def _cyl_patch(et):
    """elements on a cylinder of radius 1.3 (axis z): angle x height grid, mid nodes ON the surface (curved quadratic faces; QUAD4: warped)."""
    R_ = 1.3
    nth, nz = 3, 2
    th = np.linspace(0.2, 1.5, 2 * nth + 1)
    zz = np.linspace(0.0, 1.0, 2 * nz + 1)
    pid = {}
    pts = []

    def node(i, j, twist=0.0):
        if (i, j) not in pid:
            pid[(i, j)] = len(pts)
            t = th[i] + twist * zz[j]
            pts.append([R_ * np.cos(t), R_ * np.sin(t), zz[j]])
        return pid[(i, j)]

    con = []
    tw = 0.35 if et == "QUAD4" else 0.0  # QUAD4: a helicoidal twist makes the bilinear faces non-planar
    for a in range(nth):
        for b in range(nz):
            i0, j0 = 2 * a, 2 * b
            c = [node(i0, j0, tw), node(i0 + 2, j0, tw), node(i0 + 2, j0 + 2, tw), node(i0, j0 + 2, tw)]
            if et == "QUAD4":
                con.append(c)
                continue
            m = [node(i0 + 1, j0), node(i0 + 2, j0 + 1), node(i0 + 1, j0 + 2), node(i0, j0 + 1)]
            if et == "QUAD8":
                con.append(c + m)
            elif et == "QUAD9":
                con.append(c + m + [node(i0 + 1, j0 + 1)])
            else:  # two TRI6 per cell: (c0, c1, c2) and (c0, c2, c3) with the cell centre as the mid node of the diagonal
                ctr = node(i0 + 1, j0 + 1)
                con.append([c[0], c[1], c[2], m[0], m[1], ctr])
                con.append([c[0], c[2], c[3], ctr, m[2], m[3]])
    return np.array(pts, dtype=float), np.array(con, dtype=int)


def _run_normalmass(case):
    from EasyFEA import ElemType
    from EasyFEA.FEM import BiLinearForm, FeArray, Field, MatrixType, Operators
    from EasyFEA.FEM._group_elem import GroupElemFactory

    et, ck = case["elemType"], case["coef"]
    key = dict(kind="normalmass", elemType=et, coef=ck)
    co, con = _cyl_patch(et)
    g = GroupElemFactory.Create(ElemType[et], con, co)
    mt = MatrixType.mass
    coef = 1.7 if ck == "const" else np.linspace(0.8, 2.1, g.Ne)
    n_e_pg = g.Get_normals_e_pg(mt)
    nn = np.asarray(n_e_pg, dtype=float)
    spread = float(np.abs(nn - nn.mean(axis=1, keepdims=True)).max())
    op = np.asarray(Operators.Bilinear.MassAlongNormal(g, coef, mt), dtype=float)
    cu = coef if ck == "const" else FeArray.asfearray(np.asarray(coef).reshape(-1, 1))
    fld = Field(g, 3, mt)
    v = []
    try:
        data = np.asarray(BiLinearForm(lambda u, w: cu * u.dot(n_e_pg) * w.dot(n_e_pg)).Integrate_e(fld), dtype=float)
    except Exception as err:
        return {"violations": [viol("form_raises", f"(u.n)(v.n) on {et}: Integrate_e raised {type(err).__name__}: {str(err)[:160]}", error=type(err).__name__, **key)],
                "fingerprint": fp("nmraise", et, ck), "nontrivial": True, "outcome": "raises", "transitions": 1}
    # independent reference: sum_p wJ coef (N_i n_a)(N_j n_b)
    wJ = np.asarray(g.Get_weightedJacobian_e_pg(mt), dtype=float)
    N = np.asarray(g.Get_N_pg(mt), dtype=float)[:, 0, :]
    ce = np.full(g.Ne, coef) if ck == "const" else np.asarray(coef)
    ref = np.einsum("e,ep,pi,epa,pj,epb->eiajb", ce, wJ, N, nn, N, nn).reshape(g.Ne, 3 * g.nPe, 3 * g.nPe)
    sc = float(np.abs(ref).max())
    for nm, arr in (("MassAlongNormal", op), ("user form (u.n)(v.n)", data)):
        err = float(np.abs(arr - ref).max()) / sc if arr.shape == ref.shape else np.inf
        if err > 1e-11:
            v.append(viol("element_arrays", f"{nm} on curved {et} faces (normal varies by {spread:.2f} inside an element): differs from sum_p wJ coef (N_i n_a)(N_j n_b) "
                                            f"by {err:.2e}", which=nm.split()[0], **key))
    return {"violations": v, "fingerprint": fp("normalmass", et, ck, ref), "nontrivial": bool(spread > 1e-3), "outcome": "agree" if not v else "violation", "transitions": 2}


def cases(tier, seed):
    out = (_single_cases(tier) + _pair_cases(tier) + _linear_cases(tier) + _assemble_cases(tier) + _simu_cases(tier) + _nonsym_cases(tier)
           + _moved_cases(tier) + _vec2_cases(tier) + _normalmass_cases(tier) + _interp_cases(tier))
    # ordering only (the set is unchanged): the runner hands out chunks of 8 consecutive cases; deal the cases, longest first,
    # round-robin into the chunks so that every chunk costs about the same, and put the cheap ones first inside a chunk
    out.sort(key=lambda c: -_est(c))
    m = max(1, -(-len(out) // 8))
    chunks = [out[i::m][::-1] for i in range(m)]
    return [c for ch in chunks for c in ch]


def describe(tier, seed):
    return {
        "rule": "one case per (field kind, program, element type, matrixType, mesh); a program is a sum of <= 2 terms of the "
                "grammar with every coefficient kind; non-trivial = mesh with >= 2 elements and a non-zero oracle array; "
                "distinct = fingerprint of the oracle element arrays / assembled matrices / solutions",
        "exhaustive": True,
        "bound": "programs: all single terms on every element type (19 scalar, 15 vector), all unordered pairs of distinct terms on "
                 + ("SEG2/TRI3/QUAD4/TETRA4 (scalar), TRI3/QUAD4 (vector)" if tier == "quick" else
                    "10 scalar / 8 vector low-order element types")
                 + "; coefficient kinds {constant, per element, function of Gauss coordinates} x matrixType {mass, rigi} x mesh "
                   "{affine image of a 2-6 element template, general straight-sided quad/hexa}: full product"
                 + (" except expensive (element type, term) pairs: deviation bound 1 (est. 0.6-6 s) or default only (> 6 s)"
                    if tier == "quick" else "")
                 + "; linear forms: all programs x all element types x matrixType x mesh; assemble: every element type x numberings "
                   "identity/seeded" + (" (vector HEXA27 in thorough only)" if tier == "quick" else "/reversal")
                 + "; simulations: thermal and elastic static solve on affine+general meshes, one parabolic step (thickness 1 and, in 2D, 0.7), "
                   "one Newmark step on affine meshes, every element type; plus unstructured gmsh meshes of the unit square / its extrusion ("
                 + ("TRI3, TRI6, QUAD4, TETRA4, PRISM6, HEXA8" if tier == "quick" else "all 2D/3D types") + "; time steps on simplices)"
                 + (" (elastic: HEXA27 general mesh and the Newmark step on HEXA20/HEXA27/PRISM15/PRISM18 in thorough only)"
                    if tier == "quick" else ""),
        "alphabet": {"scalar_terms": len(SCALAR_TERMS), "vector_terms": len(VECTOR_TERMS), "linear_terms": 6,
                     "coefficient_kinds": 3, "element_types": len(Z.ALL_TYPES), "matrix_types": 2, "mesh_kinds": 2},
        "assumptions": [
            "oracle = built-in operators (the property is the agreement of the two implementations); tensors are converted to "
            "Kelvin-Mandel by plain numpy written here",
            "only symmetric forms are compared with the operators; Assemble is compared with the scatter-add of the form's own "
            "Integrate_e (non-symmetric form allowed there)",
            "the seed only picks the generic constants (coefficients, SPD tensors, affine map, permutation)",
            "parabolic / hyperbolic comparison needs one quadrature for K and C/M on the weak-form side: skipped (counted) where the "
            "library's stiffness rule differs from its mass rule on the mesh (QUAD8 reduced rule)",
            "tolerances: 1e-12 relative for element arrays and assembled matrices, 1e-9 for solutions of direct solves",
        ],
        "explanation": "every program of the bounded grammar is executed on the real implementation; no sampling",
    }


# ------------------------------------------------------------------------------------------------
# meshes
# ------------------------------------------------------------------------------------------------
def _zoo(et: str, meshkind: str, mapped: bool = True):
    d = Z.dim_of(et)
    dist = meshkind == "general"
    if d == 1:
        zm = Z.template_1d(et, n=2, graded=True, L=1.3)
    elif d == 2:
        zm = Z.template_2d(et, k=(2, 1), distort=dist)
    else:
        zm = Z.template_3d(et, k=(2, 1, 1) if Z.topo(et) == "HEXA" else 1, distort=dist)
    if mapped:
        r = rng("c13map", d)
        A = Z.generic_affine(r, d)
        b = np.zeros(3)
        b[:d] = r.uniform(-0.5, 0.5, size=d)
        zm = zm.mapped(A, b)
    return zm


def _poly(p, x, y, z):
    return 1.3 + p[0] * x + p[1] * y + p[2] * z + p[3] * x * y + p[4] * y * y + p[5] * x * z


def _gauss_xyz(g, mt):
    co = np.asarray(g.Get_GaussCoordinates_e_pg(mt), dtype=float)
    return co[..., 0], co[..., 1], co[..., 2]


# ------------------------------------------------------------------------------------------------
# Kelvin-Mandel conversion (plain numpy; order documented in _GroupElem.Get_B_e_pg)
# ------------------------------------------------------------------------------------------------
def _mandel_pairs(dim):
    if dim == 2:
        return [(0, 0), (1, 1), (0, 1)]
    return [(0, 0), (1, 1), (2, 2), (1, 2), (0, 2), (0, 1)]


def c4_to_mandel(C4):
    """(..., d, d, d, d) with minor symmetries -> (..., n, n) Kelvin-Mandel matrix."""
    dim = C4.shape[-1]
    pairs = _mandel_pairs(dim)
    n = len(pairs)
    out = np.zeros(C4.shape[:-4] + (n, n))
    for I, (i, j) in enumerate(pairs):
        for J, (k, l) in enumerate(pairs):
            w = (1.0 if i == j else np.sqrt(2.0)) * (1.0 if k == l else np.sqrt(2.0))
            out[..., I, J] = w * C4[..., i, j, k, l]
    return out


def _sym_c4(r, dim):
    T = r.normal(size=(dim,) * 4)
    T = T + T.transpose(1, 0, 2, 3)
    T = T + T.transpose(0, 1, 3, 2)
    T = T + T.transpose(2, 3, 0, 1)
    T = T / 8.0
    eye = np.eye(dim)
    Isym = 0.5 * (np.einsum("ik,jl->ijkl", eye, eye) + np.einsum("il,jk->ijkl", eye, eye))
    return T + 1.5 * Isym + 0.7 * np.einsum("ij,kl->ijkl", eye, eye)


# ------------------------------------------------------------------------------------------------
# coefficients: the value the USER writes inside the form, and the value passed to the operator
# ------------------------------------------------------------------------------------------------
class _Scal:
    def __init__(self, kind, salt, Ne):
        r = rng("c13coef", salt)
        self.kind = kind
        self.c = float(r.uniform(0.5, 2.0))
        self.c_e = r.uniform(0.5, 2.0, size=64)[:Ne].copy()
        self.p = r.uniform(-0.4, 0.4, size=6)

    def user(self, field):
        from EasyFEA.FEM import FeArray

        if self.kind == "const":
            return self.c
        if self.kind == "elem":
            return FeArray.asfearray(self.c_e.reshape(-1, 1))
        x, y, z = field.Get_coords()
        return _poly(self.p, x, y, z)

    def oper(self, g, mt):
        if self.kind == "const":
            return self.c
        if self.kind == "elem":
            return self.c_e.copy()
        return _poly(self.p, *_gauss_xyz(g, mt))


class _Tens:
    """symmetric tensor coefficient T = s1 * T1 + s2 * T2 with scalar weights of the three kinds (T1, T2 constant)."""

    def __init__(self, kind, salt, Ne, T1, T2):
        self.kind = kind
        self.T1, self.T2 = T1, T2
        self.s1 = _Scal(kind, salt + "/s1", Ne)
        self.s2 = _Scal(kind, salt + "/s2", Ne)
        self.rank = T1.ndim

    def user(self, field):
        from EasyFEA.FEM import FeArray

        if self.kind == "const":
            return self.s1.c * self.T1 + self.s2.c * self.T2
        ex = (Ellipsis,) + (None,) * self.rank
        if self.kind == "elem":
            arr = self.s1.c_e[ex] * self.T1 + self.s2.c_e[ex] * self.T2  # (Ne, ...)
            return FeArray.asfearray(arr[:, None])  # (Ne, 1, ...): the same tensor at every Gauss point
        x, y, z = field.Get_coords()
        a = np.asarray(_poly(self.s1.p, x, y, z))
        b = np.asarray(_poly(self.s2.p, x, y, z))
        return FeArray.asfearray(a[ex] * self.T1 + b[ex] * self.T2)  # (Ne, nPg, ...)

    def plain(self, g, mt):
        """plain ndarray with leading dims (), (Ne,), (Ne, nPg)."""
        if self.kind == "const":
            return self.s1.c * self.T1 + self.s2.c * self.T2
        ex = (Ellipsis,) + (None,) * self.rank
        if self.kind == "elem":
            return self.s1.c_e[ex] * self.T1 + self.s2.c_e[ex] * self.T2
        xyz = _gauss_xyz(g, mt)
        return _poly(self.s1.p, *xyz)[ex] * self.T1 + _poly(self.s2.p, *xyz)[ex] * self.T2


def _spd(r, dim):
    R = r.normal(size=(dim, dim))
    return R @ R.T / dim + np.eye(dim)


def _symm(r, dim):
    R = r.normal(size=(dim, dim))
    return 0.3 * (R + R.T)


# ------------------------------------------------------------------------------------------------
# terms: .user(u, v) is the text of the form; .oper(g, mt) the matching built-in operator
# ------------------------------------------------------------------------------------------------
class _Term:
    def __init__(self, name, field, g):
        self.name = name
        self.base, kind = name[:-1].split("[")
        self.kind = kind
        dim = g.dim
        Ne = g.Ne
        salt = f"{field}/{name}"
        r = rng("c13tens", salt)
        if self.base in ("M", "G", "Mv", "L", "Gs", "V"):
            self.coef = _Scal(kind, salt, Ne)
        elif self.base == "A":
            self.coef = _Tens(kind, salt, Ne, _spd(r, dim), _symm(r, dim))
        elif self.base == "E":
            self.coef = _Tens(kind, salt, Ne, _sym_c4(r, dim), _sym_c4(r, dim))
        elif self.base == "FV":
            self.coef = _Tens(kind, salt, Ne, r.uniform(0.5, 1.5, size=dim), r.uniform(-1, 1, size=dim))
        else:
            raise KeyError(name)
        self.dim = dim

    # -- what the user writes
    def user(self, u, v=None):
        from EasyFEA.FEM import Sym_Grad, Trace

        b = self.base
        if b in ("M", "Mv"):
            return self.coef.user(u) * u.dot(v)
        if b == "G":
            return self.coef.user(u) * u.grad.dot(v.grad)
        if b == "A":
            return (u.grad @ self.coef.user(u)).dot(v.grad)
        if b == "L":
            return self.coef.user(u) * Trace(Sym_Grad(u)) * Trace(Sym_Grad(v))
        if b == "Gs":
            return 2 * self.coef.user(u) * Sym_Grad(u).ddot(Sym_Grad(v))
        if b == "E":
            return Sym_Grad(u).ddot(self.coef.user(u)).ddot(Sym_Grad(v))
        if b == "V":  # linear, scalar field (the spelling of examples/WeakForms/Poisson*.py)
            return self.coef.user(u) * u
        if b == "FV":  # linear, vector field: body force f . v
            return u.dot(self.coef.user(u))
        raise KeyError(b)

    # -- the built-in operator
    def oper(self, g, mt):
        from EasyFEA.FEM import Operators

        b = self.base
        dim = self.dim
        if b == "M":
            return Operators.Bilinear.UV(g, self.coef.oper(g, mt), 1, mt)
        if b == "Mv":
            return Operators.Bilinear.UV(g, self.coef.oper(g, mt), dim, mt)
        if b == "G":
            return Operators.Bilinear.GradUGradV(g, self.coef.oper(g, mt), mt)
        if b == "A":
            return Operators.Bilinear.GradU_A_GradV(g, self.coef.plain(g, mt), 1.0, mt)
        if b in ("L", "Gs"):
            n = len(_mandel_pairs(dim))
            if b == "L":
                m = np.array([1.0] * dim + [0.0] * (n - dim))
                base = np.outer(m, m)
            else:
                base = 2.0 * np.eye(n)
            c = np.asarray(self.coef.oper(g, mt), dtype=float)
            return Operators.Bilinear.LinearizedElasticity(g, c[..., None, None] * base, mt)
        if b == "E":
            return Operators.Bilinear.LinearizedElasticity(g, c4_to_mandel(self.coef.plain(g, mt)), mt)
        if b == "V":
            return np.asarray(Operators.Linear.V(g, self.coef.oper(g, mt), 1, mt)).reshape(g.Ne, g.nPe)
        if b == "FV":
            f = self.coef.plain(g, mt)  # (..., dim)
            tot = 0.0
            for d in range(dim):
                fd = f[..., d]
                fd = float(fd) if np.ndim(fd) == 0 else fd
                tot = tot + np.asarray(Operators.Linear.V(g, fd, dim, mt))[:, :, d]
            return tot
        raise KeyError(b)


def _matrix_type(name):
    from EasyFEA.FEM import MatrixType

    return MatrixType[name]


def _form_of(terms, bilinear=True):
    from EasyFEA.FEM import BiLinearForm, LinearForm

    if bilinear:
        def form(u, v):
            tot = terms[0].user(u, v)
            for t in terms[1:]:
                tot = tot + t.user(u, v)
            return tot

        return BiLinearForm(form)

    def lform(v):
        tot = terms[0].user(v)
        for t in terms[1:]:
            tot = tot + t.user(v)
        return tot

    return LinearForm(lform)


def _same_dof_mask(ndof, dof_n):
    d = np.arange(ndof) % dof_n
    return d[:, None] == d[None, :]


# ------------------------------------------------------------------------------------------------
# kind: bilinear / linear  (element arrays against the operators)
# ------------------------------------------------------------------------------------------------
def _run_bilinear(case):
    from EasyFEA.FEM import Field

    field, prog, et, mtn, mk = case["field"], case["program"], case["elemType"], case["matrixType"], case["mesh"]
    pname = "+".join(prog)
    key = dict(field=field, form="bilinear", program=pname, elemType=et, matrixType=mtn, mesh=mk)
    mesh = _zoo(et, mk).build(with_boundary=False)
    g = mesh.groupElem
    mt = _matrix_type(mtn)
    dof_n = 1 if field == "scalar" else g.dim
    terms = [_Term(t, field, g) for t in prog]
    oracle = sum(np.asarray(t.oper(g, mt), dtype=float) for t in terms)
    fld = Field(g, dof_n, mt)
    ndof = g.nPe * dof_n
    ntrans = ndof * ndof * len(terms)
    v = []
    try:
        got = np.asarray(_form_of(terms).Integrate_e(fld), dtype=float)
    except Exception as err:  # the property promises a matrix for every program of the grammar
        v.append(viol("form_raises", f"{pname} on {et}/{mtn}/{mk}: Integrate_e raised {type(err).__name__}: {err}",
                      error=type(err).__name__, **key))
        return {"violations": v, "fingerprint": fp("raise", pname, et, mtn, mk), "nontrivial": g.Ne > 1, "outcome": "raises",
                "transitions": ntrans}
    scale = float(np.max(np.abs(oracle)))
    if got.shape != oracle.shape:
        v.append(viol("element_arrays", f"{pname} on {et}: Integrate_e shape {got.shape}, operator {oracle.shape}", **key))
    else:
        err = relerr(got, oracle, scale)
        asym = relerr(got, np.swapaxes(got, 1, 2), scale)
        if err > TOL:
            same = _same_dof_mask(ndof, dof_n)
            err_same = float(np.max(np.abs(got - oracle)[:, same]) / scale)
            has_value = any(t.base == "Mv" for t in terms)
            if dof_n > 1 and has_value and err_same <= TOL:
                e, i, j = np.unravel_index(np.argmax(np.abs(got - oracle)), got.shape)
                v.append(viol("vector_value_ignores_dof",
                              f"{pname} on {et}/{mtn}/{mk}: entries coupling the same component agree with the operator "
                              f"(err {err_same:.1e}) but entries coupling DIFFERENT components differ: element {e} "
                              f"[{i},{j}] (components {i % dof_n},{j % dof_n}) form {got[e, i, j]:.6g} operator {oracle[e, i, j]:.6g} "
                              f"(rel err {err:.2e}): the value of a vector Field does not depend on the active dof", **key))
            else:
                e, i, j = np.unravel_index(np.argmax(np.abs(got - oracle)), got.shape)
                v.append(viol("element_arrays", f"{pname} on {et}/{mtn}/{mk}: Integrate_e differs from the operator(s), rel err {err:.2e}; "
                                                f"element {e} [{i},{j}]: form {got[e, i, j]:.12g} operator {oracle[e, i, j]:.12g}", **key))
        elif asym > TOL:
            v.append(viol("symmetry", f"{pname} on {et}: symmetric program integrates to a non symmetric array ({asym:.1e})", **key))
    return {"violations": v, "fingerprint": fp(field, pname, et, mtn, mk, oracle), "nontrivial": bool(g.Ne > 1 and scale > 0),
            "outcome": "agree" if not v else v[0]["check"], "transitions": ntrans}


def _run_linear(case):
    from EasyFEA.FEM import Field

    field, prog, et, mtn, mk = case["field"], case["program"], case["elemType"], case["matrixType"], case["mesh"]
    pname = "+".join(prog)
    key = dict(field=field, form="linear", program=pname, elemType=et, matrixType=mtn, mesh=mk)
    mesh = _zoo(et, mk).build(with_boundary=False)
    g = mesh.groupElem
    mt = _matrix_type(mtn)
    dof_n = 1 if field == "scalar" else g.dim
    terms = [_Term(t, field, g) for t in prog]
    oracle = sum(np.asarray(t.oper(g, mt), dtype=float) for t in terms)  # (Ne, nPe*dof_n)
    fld = Field(g, dof_n, mt)
    ndof = g.nPe * dof_n
    v = []
    try:
        got = np.asarray(_form_of(terms, bilinear=False).Integrate_e(fld), dtype=float)
    except Exception as err:
        chk = "form_raises"
        if field == "vector":
            # f.v is a scalar integrand; is that (and nothing else) what LinearForm.Integrate_e cannot store?
            try:
                val = np.asarray(_form_of(terms, bilinear=False)(Field(g, dof_n, mt)))  # the integrand itself evaluates ...
                if val.ndim == 2 and val.shape[1] == g.Get_gauss(mt).nPg and isinstance(err, ValueError):
                    chk = "linear_vector_form"
            except Exception:
                pass
        v.append(viol(chk, f"{pname} on {et}/{mtn}/{mk}: LinearForm.Integrate_e raised {type(err).__name__}: {err}"
                           + ("; the integrand f.v evaluates to a scalar (Ne|1, nPg) field, which LinearForm.Integrate_e cannot store"
                              if chk == "linear_vector_form" else ""),
                      error=type(err).__name__, **key))
        return {"violations": v, "fingerprint": fp("raise", pname, et, mtn, mk), "nontrivial": g.Ne > 1, "outcome": "raises",
                "transitions": ndof * len(terms)}
    scale = float(np.max(np.abs(oracle)))
    if got.shape != (g.Ne, ndof, 1):
        v.append(viol("element_arrays", f"{pname} on {et}: LinearForm.Integrate_e shape {got.shape}, expected {(g.Ne, ndof, 1)}", **key))
    else:
        err = relerr(got[:, :, 0], oracle, scale)
        if err > TOL:
            e, i = np.unravel_index(np.argmax(np.abs(got[:, :, 0] - oracle)), oracle.shape)
            chk = "linear_vector_form" if field == "vector" else "element_arrays"
            v.append(viol(chk, f"{pname} on {et}/{mtn}/{mk}: LinearForm.Integrate_e differs from Linear.V, rel err {err:.2e}; "
                               f"element {e} [{i}]: form {got[e, i, 0]:.12g} operator {oracle[e, i]:.12g}", **key))
    return {"violations": v, "fingerprint": fp(field, pname, et, mtn, mk, oracle), "nontrivial": bool(g.Ne > 1 and scale > 0),
            "outcome": "agree" if not v else v[0]["check"], "transitions": ndof * len(terms)}


# ------------------------------------------------------------------------------------------------
# kind: assemble  (form.Assemble == dense scatter-add of form.Integrate_e)
# ------------------------------------------------------------------------------------------------
def _scatter(data, connect, dof_n, Nn, bilinear):
    """documented layout: local dof i = (local node i // dof_n, component i % dof_n); global dof = node * dof_n + component."""
    Ne, nPe = connect.shape
    ndof = nPe * dof_n
    gd = np.empty((Ne, ndof), dtype=int)
    for e in range(Ne):
        for i in range(ndof):
            gd[e, i] = connect[e, i // dof_n] * dof_n + i % dof_n
    if bilinear:
        out = np.zeros((Nn * dof_n, Nn * dof_n))
        for e in range(Ne):
            for i in range(ndof):
                for j in range(ndof):
                    out[gd[e, i], gd[e, j]] += data[e, i, j]
    else:
        out = np.zeros((Nn * dof_n, 1))
        for e in range(Ne):
            for i in range(ndof):
                out[gd[e, i], 0] += data[e, i, 0]
    return out


def _run_assemble(case):
    from EasyFEA.FEM import BiLinearForm, Field, LinearForm

    form, field, et, num = case["form"], case["field"], case["elemType"], case["numbering"]
    key = dict(form=form, field=field, elemType=et, numbering=num)
    sc = float(case.get("scale", 1.0))
    if sc != 1.0:
        key["scale"] = sc
    mk = "general" if Z.topo(et) in ("QUAD", "HEXA") else "affine"
    zm = _zoo(et, mk)
    if num != "identity":
        perm = Z.numberings(zm.Nn, rng("c13perm", et))[num]
        zm = zm.renumbered(perm)
    mesh = zm.build(with_boundary=False)
    g = mesh.groupElem
    mt = _matrix_type("mass")
    dof_n = 1 if field == "scalar" else g.dim
    fld = Field(g, dof_n, mt)
    r = rng("c13asm", field)
    dim = g.dim
    ndof = g.nPe * dof_n
    if form == "bilinear":
        B = r.uniform(-1, 1, size=(dim, dim)) + 2 * np.eye(dim)  # NOT symmetric: fixes the rows/columns convention
        if field == "scalar":
            f = BiLinearForm(lambda u, v: sc * (u.grad @ B).dot(v.grad))
        else:
            f = BiLinearForm(lambda u, v: sc * (u.grad @ B).ddot(v.grad))
        ntrans = 2 * ndof * ndof
    else:
        cf = _Scal("fun", "asm", g.Ne)
        f = LinearForm(lambda v: sc * cf.user(v) * v)
        ntrans = 2 * ndof
    data = np.asarray(f.Integrate_e(fld), dtype=float)
    ref = _scatter(data, np.asarray(g.connect, dtype=int), dof_n, g.Ncoords, form == "bilinear")
    v = []
    asym = relerr(data, np.swapaxes(data, 1, 2)) if form == "bilinear" else 1.0
    try:
        got = todense(f.Assemble(fld))
    except AssertionError as err:
        v.append(viol(f"assemble_{form}", f"{type(f).__name__}.Assemble({field} field on {et}, {g.Ne} elements) fails its own assertion: {err}",
                      error="AssertionError", **key))
        return {"violations": v, "fingerprint": fp("assert", form, field, et, num), "nontrivial": True, "outcome": "assertion",
                "transitions": ntrans}
    got = np.asarray(got, dtype=float)
    if got.shape != ref.shape:
        v.append(viol(f"assemble_{form}", f"Assemble shape {got.shape}, scatter-add {ref.shape}", **key))
    else:
        err = relerr(got, ref)
        if err > TOL:
            idx = np.unravel_index(np.argmax(np.abs(got - ref)), ref.shape)
            v.append(viol(f"assemble_{form}", f"{type(f).__name__}.Assemble on {et} ({num} numbering): differs from the scatter-add of its own "
                                              f"Integrate_e, rel err {err:.2e} at {tuple(int(i) for i in idx)}: {got[idx]:.12g} vs {ref[idx]:.12g}", **key))
    return {"violations": v, "fingerprint": fp(form, field, et, num, sc, ref), "nontrivial": bool(g.Ne > 1 and asym > 1e-3),
            "outcome": "agree" if not v else "violation", "transitions": ntrans}


# ------------------------------------------------------------------------------------------------
# kind: simu  (Simulations.WeakForms against Simulations.Thermal / Simulations.Elastic)
# ------------------------------------------------------------------------------------------------
def _smooth(r, X, ncomp):
    """smooth generic nodal field (Nn*ncomp,) from the template coordinates."""
    out = np.zeros((X.shape[0], ncomp))
    for c in range(ncomp):
        a = r.uniform(-1, 1, size=4)
        out[:, c] = 0.1 * (a[0] * X[:, 0] + a[1] * X[:, 1] + a[2] * X[:, 2] + a[3] * X[:, 0] * (X[:, 1] + 0.5))
    return out.ravel()


def _run_simu(case):
    from EasyFEA import Models, Simulations, SolverType
    from EasyFEA.FEM import BiLinearForm, Field, LinearForm, Operators, Sym_Grad, Trace

    problem, algo, et, mk = case["problem"], case["algo"], case["elemType"], case["mesh"]
    thick = bool(case.get("thick", False))
    key = dict(problem=problem, algo=algo, elemType=et, mesh=mk, thick=thick)
    d = Z.dim_of(et)
    if mk == "gmsh":
        mesh = Z.gmsh_2d(et, "square", h=0.5)[0] if d == 2 else Z.gmsh_3d(et, "square", h=0.6, height=0.8, layers=2)[0]
        X = np.array(mesh.coord, dtype=float)
    else:
        X = _zoo(et, mk, mapped=False).coords  # template coordinates: used to select the boundary nodes
        mesh = _zoo(et, mk).build()
    n0 = np.where(np.abs(X[:, 0] - X[:, 0].min()) < 1e-9)[0]
    n1 = np.where(np.abs(X[:, 0] - X[:, 0].max()) < 1e-9)[0]
    g = mesh.groupElem
    mtn = "rigi" if algo == "static" else "mass"
    mt = _matrix_type(mtn)
    r = rng("c13simu", problem, algo)
    thickness = 0.7 if (thick and d == 2) else 1.0
    rho = 1.7
    dt = 0.1
    v = []
    skipped = None
    # one quadrature on the weak-form side: the dedicated simulations integrate K with `rigi` and C/M with `mass`
    if algo != "static":
        Kr = Operators.Bilinear.GradUGradV(g, 1.0, _matrix_type("rigi"))
        Km = Operators.Bilinear.GradUGradV(g, 1.0, _matrix_type("mass"))
        if relerr(Kr, Km) > TOL:
            skipped = "stiffness_rule_differs_from_mass_rule"

    if problem == "thermal":
        k, c, q = 1.3, 0.9, 0.8
        ref = Simulations.Thermal(mesh, Models.Thermal(k=k, c=c, thickness=thickness))
        ref.rho = rho
        fld = Field(g, 1, mt)
        formK = BiLinearForm(lambda u, w: k * u.grad.dot(w.grad))
        formC = BiLinearForm(lambda u, w: rho * c * u.dot(w)) if algo == "parabolic" else None
        withF = algo == "parabolic" and d >= 2
        formF = LinearForm(lambda w: q * w) if withF else None
        wf = Simulations.WeakForms(mesh, Models.WeakForms(fld, formK, computeC=formC, computeF=formF, thickness=thickness))
        unk_ref, unk_wf = ["t"], ["u"]
        ncomp = 1
        if withF:
            ref.add_volumeLoad(mesh.nodes, [q], ["t"])
    else:
        E, nu = 2.5, 0.3
        mat = Models.Elastic.Isotropic(d, E=E, v=nu, planeStress=False, thickness=thickness)
        lmbda, mu = mat.get_lambda(), mat.get_mu()
        ref = Simulations.Elastic(mesh, mat)
        ref.rho = rho
        fld = Field(g, d, mt)
        eye = np.eye(d)

        def S(u):
            eps = Sym_Grad(u)
            return 2 * mu * eps + lmbda * Trace(eps) * eye

        formK = BiLinearForm(lambda u, w: S(u).ddot(Sym_Grad(w)))
        formM = BiLinearForm(lambda u, w: rho * u.dot(w)) if algo == "hyperbolic" else None
        formCd = None
        if algo == "hyperbolic":
            # Rayleigh damping C = coefK K + coefM M (documented), with two DIFFERENT coefficients
            cM, cK = 0.13, 0.07
            ref.Set_Rayleigh_Damping_Coefs(coefM=cM, coefK=cK)
            formCd = BiLinearForm(lambda u, w: cK * S(u).ddot(Sym_Grad(w)) + cM * rho * u.dot(w))
        wf = Simulations.WeakForms(mesh, Models.WeakForms(fld, formK, computeC=formCd, computeM=formM, thickness=thickness))
        unk_ref = unk_wf = ["x", "y", "z"][:d]
        ncomp = d

    ntrans = 0
    u0 = _smooth(r, X, ncomp)
    v0 = _smooth(r, X, ncomp)
    a0 = _smooth(r, X, ncomp)
    sols = {}
    mats = {}
    for name, simu, unk in (("ref", ref, unk_ref), ("weak", wf, unk_wf)):
        simu.solver = SolverType.scipy
        simu.add_dirichlet(n0, [0.0] * ncomp, unk)
        if algo == "static":
            simu.add_dirichlet(n1, [0.1], unk[:1])
        elif algo == "parabolic":
            simu.Solver_Set_Parabolic_Algorithm(dt, 0.5)
            simu._Set_solutions(simu.problemType, u0.copy(), v0.copy())
        else:
            simu.Solver_Set_Hyperbolic_Algorithm(dt)
            simu._Set_solutions(simu.problemType, u0.copy(), v0.copy(), a0.copy())
        K, C, M, F = simu.Get_K_C_M_F()
        mats[name] = {"K": todense(K), "C": todense(C), "M": todense(M), "F": todense(F)}
        ntrans += 1
    ndof = g.nPe * ncomp
    ntrans += ndof * ndof * (1 + (algo != "static"))
    bad = False
    compared = {"static": ("K",), "parabolic": ("K", "C"), "hyperbolic": ("K", "C", "M")}[algo]  # the forms the weak-form model defines
    for which in compared:
        A, B = np.asarray(mats["weak"][which], dtype=float), np.asarray(mats["ref"][which], dtype=float)
        if (which == "K" or (which == "C" and algo == "hyperbolic")) and skipped:
            continue  # two different quadratures (the Rayleigh C contains K): nothing is promised
        sc = max(float(np.max(np.abs(B))), 1e-300) if B.size else 1.0
        err = relerr(A, B, sc)
        if err > TOL:
            bad = True
            chk = "simu_matrices"
            if which == "M" and ncomp > 1 and A.shape == B.shape:
                same = _same_dof_mask(A.shape[0], ncomp)
                if float(np.max(np.abs(A - B)[same])) / sc <= TOL:
                    chk = "vector_value_ignores_dof"
            v.append(viol(chk, f"{problem}/{algo} on {et}/{mk}: assembled {which} of Simulations.WeakForms differs from "
                               f"Simulations.{'Thermal' if problem == 'thermal' else 'Elastic'} (rel err {err:.2e})"
                               + ("; only entries coupling different components differ" if chk != "simu_matrices" else ""),
                          which=which, level="simulation", **key))
    if not bad and not skipped:
        for name, simu in (("ref", ref), ("weak", wf)):
            simu.Solve()
            pt = simu.problemType
            sols[name] = [np.asarray(simu._Get_u_n(pt), dtype=float)]
            if algo != "static":
                sols[name].append(np.asarray(simu._Get_v_n(pt), dtype=float))
            if algo == "hyperbolic":
                sols[name].append(np.asarray(simu._Get_a_n(pt), dtype=float))
            ntrans += 1
        for nm, a, b in zip("uva", sols["weak"], sols["ref"]):
            err = relerr(a, b)
            if err > TOL_SOLVE:
                v.append(viol("simu_solution", f"{problem}/{algo} on {et}/{mk}: solution field {nm} of Simulations.WeakForms differs from the "
                                               f"dedicated simulation (rel err {err:.2e}) although K, C, M agree", which=nm, **key))
        moved = max(float(np.max(np.abs(s))) for s in sols["ref"])
    else:
        moved = 1.0
    fps = [mats["ref"]["K"]] + (sols.get("ref") or [])
    return {"violations": v, "fingerprint": fp(problem, algo, et, mk, *fps), "nontrivial": bool(mesh.Ne > 1 and moved > 0),
            "outcome": ("skipped" if skipped else "agree") if not v else v[0]["check"], "transitions": ntrans, "skipped": skipped}


def run_case(case):
    try:
        return globals()["_run_" + case["kind"]](case)
    except Exception as err:  # every case of the bounded space is promised a result
        import traceback

        key = {k: ("+".join(x) if isinstance(x, list) else x) for k, x in case.items()}
        return {"violations": [viol("exception", f"{type(err).__name__}: {err}\n{traceback.format_exc(limit=8)}",
                                    error=type(err).__name__, **key)],
                "fingerprint": fp("exception", case), "nontrivial": False, "outcome": "exception", "transitions": 1}
