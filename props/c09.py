"""C09 — distributed loads integrate to the correct resultant force and moment.

E1 exploration: simulation x mesh x element type x load x node selection x intensity form x thickness, observed at
`simu.Bc_vector_Neumann()`.  The oracle is linear in the density, so the monomial basis (as a function of position,
as a nodal array, as a constant) decides every polynomial load up to the order of the load quadrature:

  resultant   sum_a F_a[u]                      == thickness_factor * int_region g_u
  moment      sum_a (x_a - c) x F_a (+ sum M_a) == thickness_factor * int_region (x - c) x g   (c = origin and a 2nd point)
  point load  sum_a F_a[u]                      == entered total
  pressure    |R| == |p| * area * thickness_factor,  R parallel to the face normal (sign not demanded)
  strays      nodes that bound no loaded element carry no load and change nothing

Reference integrals come from the template geometry (zoo.c09_geom: vertex grids / polygon vertex lists, numpy
Gauss-Legendre), never from EasyFEA's shape functions or quadrature tables."""
from __future__ import annotations

import itertools

import numpy as np

from mc.util import fp, rng, viol
from zoo import c09_geom as G
from zoo import meshes as Z
from zoo.refint import REF_MEASURE

PROPERTY = "C09"
TOL = 1e-10

# order of the rule the load integration documents using (MatrixType.mass) per loaded element type: total degree in
# physical coordinates on an affine element (tensor rules: also per variable).  Written down here (not read from the
# implementation) so that a weakened rule is a violation, a richer one is not.
LOAD_DEGREE = {
    "SEG2": 3, "SEG3": 5, "SEG4": 7, "SEG5": 9,
    "TRI3": 2, "TRI6": 4, "TRI10": 4, "TRI15": 6, "QUAD4": 3, "QUAD8": 5, "QUAD9": 5,
    "TETRA4": 2, "TETRA10": 2, "HEXA8": 3, "HEXA20": 5, "HEXA27": 5, "PRISM6": 2, "PRISM15": 5, "PRISM18": 5,
}
# Hermitian line loads of Euler-Bernoulli members use MatrixType.beam
HERMITE_DEGREE = {"SEG2": 3, "SEG3": 7, "SEG4": 11, "SEG5": 15}
ORDER = {"SEG2": 1, "SEG3": 2, "SEG4": 3, "SEG5": 4, "TRI3": 1, "TRI6": 2, "TRI10": 3, "TRI15": 4, "QUAD4": 1, "QUAD8": 2,
         "QUAD9": 2, "TETRA4": 1, "TETRA10": 2, "HEXA8": 1, "HEXA20": 2, "HEXA27": 2, "PRISM6": 1, "PRISM15": 2, "PRISM18": 2}
NONAFFINE_JDEG = {"QUAD": 1, "HEXA": 2}  # per-variable degree of the Jacobian of a straight-sided (multi)linear cell

LOADS = ["neumann", "lineLoad", "surfLoad", "volumeLoad", "pressureLoad"]
SIMS = ["elastic", "thermal", "weakforms1", "weakformsV", "phasefield_u", "phasefield_d"]
VECTOR_SIMS = {"elastic", "weakformsV", "phasefield_u"}
C2 = np.array([0.3, -0.7, 0.45])  # second reference point of the moment balance
COEF = [1.0, -0.5, 2.0, 0.75, -1.5, 0.4]
CONSTS = {"const": [2.5, -1.25, 0.75, 1.5, -0.5, 2.0], "const_int": [2, -3, 1, 4, -1, 2]}
BEAM_DEG_CAP = {"quick": {1: 5, 2: 3, 3: 2}, "thorough": {1: 9, 2: 6, 3: 4}}  # by beam dimension
SEL_DEG_CAP = {"quick": 2, "thorough": None}  # cap of the function-form degree on selections other than face / face_b / all
# map "skew": the template with cells of size 12 (every node of every element of order <= 4 then has whole-number coordinates) under an
# integer-valued affine map that leaves no side / face parallel to a coordinate axis or plane.  The node coordinates are whole numbers,
# so the SAME mesh can be handed to the library as a float array or as an integer array (a mesh typed by hand without decimal points);
# the letter below is the dtype of the coordinate array given to GroupElemFactory.Create
SKEW_CELL = 12
SKEW_DTYPES = ["int64", "float64"]
SKEW_SIMS = ["elastic", "thermal"]


# ------------------------------------------------------------------------------------------------
# enumeration
# ------------------------------------------------------------------------------------------------
def _load_dim(load, d):
    """dimension of the elements the load is integrated on (None: the load is not accepted in that dimension)."""
    if load == "neumann":
        return 0
    if load == "lineLoad":
        return 1
    if load == "surfLoad":
        return d - 1 if d in (2, 3) else None
    if load == "volumeLoad":
        return d if d in (2, 3) else None
    if load == "pressureLoad":
        return d - 1 if d in (2, 3) else None
    raise KeyError(load)


def _loads_for(sim, d, src):
    out = []
    for ld in LOADS:
        k = _load_dim(ld, d)
        if k is None:
            continue
        if ld == "pressureLoad" and sim not in VECTOR_SIMS:
            continue  # a pressure needs a vector unknown
        if ld == "lineLoad" and d == 3 and src != "G":
            continue  # template 3D meshes carry no 1D groups: nothing to load
        out.append(ld)
    return out


def _mesh_variants(et, d, tier):
    """(src, k, distort, diag, poly, map) of the meshes an element type is explored on."""
    mixed = isinstance(et, (list, tuple))
    tp = Z.topo(et[0] if mixed else et)
    if d == 1:
        return [("T", 3, True, 0, "", "identity"), ("T", 3, False, 0, "", "skew")]
    v = [("T", 2, False, 0, "", "identity"), ("T", 2, False, 0, "", "generic"), ("T", 2, False, 0, "", "reflection")]
    v.append(("T", 2, False, 0, "", "skew"))              # whole-number coordinates, no side parallel to an axis (see SKEW_DTYPES)
    if d == 2:
        v.append(("T", 2, True, 0, "", "identity"))       # interior vertex displaced: general quadrangles
        v.append(("T", 1, True, 0, "", "identity"))       # one corner displaced: slanted edges
        if tp == "TRI" and not mixed:
            v.append(("T", 2, False, 1, "", "identity"))  # other diagonal
        v.append(("T", 2, False, 0, "", "lifted"))        # (simulations that accept a plane mesh anywhere in space)
    else:
        if tp in ("HEXA", "TETRA") and not mixed:
            v.append(("T", 2, True, 0, "", "identity"))   # volume loads only
        if tp == "HEXA" and not mixed:
            v.append(("T", 1, True, 0, "", "identity"))
    if not mixed:
        v.append(("G", 0, False, 0, "quad", "identity"))
        if tier == "thorough":
            v.append(("G", 0, False, 0, "L", "identity"))
            v.append(("G", 0, False, 0, "pent", "identity"))
            v.append(("T", 1, False, 0, "", "identity"))
    return v


def _types(d):
    if d == 1:
        return list(Z.TYPES_1D)
    if d == 2:
        return list(Z.TYPES_2D) + [list(m) for m in Z.MIXED_2D]
    return list(Z.TYPES_3D) + [list(m) for m in Z.MIXED_3D]


def _case(sim, et, var, load, t):
    src, k, dist, diag, poly, mp = var
    return {"kind": "continuum", "sim": sim, "elemType": et, "src": src, "k": k, "distort": dist, "diag": diag, "poly": poly,
            "map": mp, "load": load, "t": t, "every_direction": False, "sel_degree_cap": None}


def cases(tier, seed):
    out = []
    seen = set()

    def add(c):
        key = repr(sorted(c.items(), key=lambda kv: kv[0]))
        if key not in seen:
            seen.add(key)
            out.append(c)

    for d in (1, 2, 3):
        sims = ["thermal", "weakforms1"] if d == 1 else SIMS
        for et in _types(d):
            mixed = isinstance(et, list)
            variants = _mesh_variants(et, d, tier)
            for sim in sims:
                if mixed and sim.startswith("weakforms"):
                    continue  # a Field lives on one element group
                for vi, var in enumerate(variants):
                    if var[5] == "lifted" and sim not in ("thermal", "weakforms1"):
                        continue
                    if var[5] == "skew" and sim not in SKEW_SIMS:
                        continue
                    for t in ([1.0, 0.7] if d == 2 else ([1.0] if d == 1 else [1.0, 0.7])):
                        if d == 3 and t != 1.0 and sim not in ("elastic", "thermal"):
                            continue  # 3D: the thickness must not enter; two models accept the parameter
                        if tier == "quick":
                            # complete in (element type x load x selection x form) for the elastic simulation on every mesh
                            # variant; every other simulation on the default template and on the gmsh mesh, thickness 0.7
                            if sim != "elastic":
                                if not (vi == 0 or var[0] == "G" or var[5] in ("lifted", "skew")) or t != (0.7 if d == 2 else 1.0):
                                    continue
                                if var[0] == "G" and d == 3 and sim not in ("thermal", "phasefield_u"):
                                    continue
                            elif vi != 0 and t != (0.7 if d == 2 else 1.0):
                                continue
                        for load in _loads_for(sim, d, var[0]):
                            if var[0] == "T" and d == 3 and var[2] and load != "volumeLoad":
                                continue
                            c = _case(sim, et, var, load, t)
                            c["every_direction"] = tier == "thorough"
                            c["sel_degree_cap"] = SEL_DEG_CAP[tier]
                            if var[5] == "skew":
                                # quick: the float-typed twin of the mesh (control) with the first simulation of the dimension only, and
                                # no second simulation in 3D
                                first = sim == ("thermal" if d == 1 else "elastic")
                                if tier == "quick" and d == 3 and not first:
                                    continue
                                for cdtype in (SKEW_DTYPES if (first or tier == "thorough") else SKEW_DTYPES[:1]):
                                    add(dict(c, cdtype=cdtype))
                                continue
                            add(c)
                            if sim == "elastic" and (vi == 0 or var[5] == "reflection") and not mixed:
                                # the same loads entered AFTER read-only queries (displaced-configuration coordinates and normals, point
                                # location) that warm the geometric caches in another order
                                add(dict(c, prequery=True))
                            if sim == "elastic" and var[0] == "T" and var[5] == "generic" and not mixed:
                                # the loads are entered, the nodes are then re-coordinated (non-isometric affine map) and the loads entered again:
                                # every integral is taken on the current geometry
                                add(dict(c, restretch=True))
    # body loads on elements with CURVED interior edges / faces (ZooMesh.curved; the domain is unchanged): resultant of a constant density
    for et in Z.TYPES_1D + Z.TYPES_2D + Z.TYPES_3D:
        if Z.proto(et).order >= 2:
            for sim in (["thermal", "weakforms1"] if Z.dim_of(et) == 1 else ["elastic", "thermal", "weakformsV", "phasefield_d"]):
                add({"kind": "curved", "sim": sim, "elemType": et, "t": 0.7 if Z.dim_of(et) == 2 else 1.0})
    # beams
    for bsim in ("beam_eb", "beam_timo"):
        for et in Z.TYPES_1D:
            for bd, orients in ((1, ["x"]), (2, ["x", "y", "generic"]), (3, ["x", "z", "generic"])):
                for orient in orients:
                    for load in ("lineLoad", "neumann"):
                        add({"kind": "beam", "sim": bsim, "elemType": et, "beamDim": bd, "orient": orient, "load": load,
                             "degree_cap": BEAM_DEG_CAP[tier][bd], "sel_degree_cap": SEL_DEG_CAP[tier]})
    return out


def describe(tier, seed):
    return {
        "rule": "one case = (simulation, element type, mesh variant, load kind, thickness); inside a case every node selection "
                "{face, second face, two adjacent faces, proper sub-part, face+strays, sub-part+strays, all nodes} x every intensity form "
                "{float, int, numpy scalars, nodal array of every monomial the element interpolates, function = every monomial up to the "
                "order of the load quadrature} is applied to the real simulation and Bc_vector_Neumann() is compared with the reference "
                "integrals; non-trivial = at least two loaded elements and a non-zero resultant; distinct = fingerprint of all observed resultants",
        "exhaustive": True,
        "bound": ("quick: full product for Elastic (all 19 element types + 6 mixed meshes, all mesh variants, thickness {1,0.7} on the default "
                  "template), other simulations on the default template (+ gmsh mesh) with thickness 0.7; monomials packed one per direction. "
                  if tier == "quick" else
                  "thorough: full product simulation x element type x mesh variant x load x thickness; every monomial in every direction. ")
                 + f"meshes: 2x2(x2) templates (plain, seeded affine image, distorted, other diagonal, 'skew' = whole-number node coordinates "
                   f"under an integer affine map with no side parallel to an axis, handed to the library as {SKEW_DTYPES} arrays: "
                   f"{SKEW_SIMS}, in 1D a line mesh lying obliquely in the plane; quick: float64 twin with the first simulation of each "
                   f"dimension, no second simulation in 3D), gmsh polygons and extrusions; "
                   f"beams: 3 elements, dims 1-3, members along x / y|z / seeded direction, monomials up to min(rule order, {BEAM_DEG_CAP[tier]} by beam dimension)"
                   + ("; on the selections two_faces / sub-part(+strays) the function-form monomials stop at degree 2" if tier == "quick" else ""),
        "alphabet": {"simulations": len(SIMS) + 2, "element_types": 19, "mixed_meshes": 6, "loads": len(LOADS), "selections": 7,
                     "forms": 5, "thickness": 2, "coordinate_dtypes": len(SKEW_DTYPES)},
        "assumptions": [
            "order of the load quadrature = order of the MatrixType.mass rule of the loaded element type (MatrixType.beam for Hermitian "
            "line loads), tabulated in LOAD_DEGREE / HERMITE_DEGREE; on straight-sided non-affine QUAD/HEXA cells the budget is reduced "
            "by the degree of the Jacobian (1 resp. 2 per variable)",
            "moment demanded for densities of degree <= order - 1 (the integrand x*g must itself be within the order of the rule)",
            "nodal arrays: monomials up to the interpolation order of the loaded element (1 on non-affine cells), i.e. fields the nodal "
            "interpolant reproduces",
            "scalar problems: 'moment' = first moments sum_a x_a F_a = int x g",
            "pressure: planar selections only (one face / sub-part / face + strays); pressure on scalar problems is not accepted",
            "point load: constants only (the 'entered total' of a nodal array or function is not defined by the documentation)",
            "tolerance 1e-10 x (thickness factor x |coef| x measure x max|g| on the region) (x reach of the region for moments)",
            "beams: nodal forces AND nodal moments enter the moment balance; loads are global components (the dofs are global)",
        ],
        "explanation": "resultant and moment are linear in the density: the monomial basis up to the quadrature order decides all polynomial loads",
    }


# ------------------------------------------------------------------------------------------------
# helpers
# ------------------------------------------------------------------------------------------------
def _monos(nvar, D):
    out = [e for e in itertools.product(range(D + 1), repeat=nvar) if sum(e) <= D]
    out.sort(key=lambda e: (sum(e), e))
    return [tuple(e) + (0,) * (3 - nvar) for e in out]


def _mono_vals(e, X, coef=1.0):
    return coef * X[:, 0] ** e[0] * X[:, 1] ** e[1] * X[:, 2] ** e[2]


def _affine_map(name, d):
    if name == "identity":
        return np.eye(3), np.zeros(3)
    if name == "skew":
        # integer entries, positive determinant (2D: 1, 3D: 3); images of the axes (2,1,0), (1,1,0) / (1,0,1), (1,1,0), (0,1,2): no side of
        # the mapped template is parallel to an axis, no face to a coordinate plane, and no edge has a whole-number length
        A = np.array([[2.0, 1.0, 0.0], [1.0, 1.0, 0.0], [0.0, 0.0, 1.0]]) if d <= 2 else np.array([[1.0, 1.0, 0.0], [0.0, 1.0, 1.0], [1.0, 0.0, 2.0]])
        b = np.zeros(3)
        b[:max(d, 2)] = [1.0, 2.0, 3.0][:max(d, 2)]
        return A, b
    r = rng("c09map", name, d)
    A = Z.generic_affine(r, d)
    b = np.zeros(3)
    b[:d] = r.uniform(-0.5, 0.5, size=d)
    if name == "lifted":
        # a plane mesh that does not lie in z = 0 (a plate at the height z = 1.1): element dimension 2, embedding dimension 3
        b[2] = 1.1
    if name == "reflection":
        # generic affine map composed with a mirror: every element of the mesh is numbered clockwise (negative jacobians)
        M = np.eye(3)
        M[0, 0] = -1.0
        A = A @ M
        b[0] += 1.0
    return A, b


def _element_measure(tp, X, xi):
    """measure of a straight-sided element from its nodes X (nPe,3) and reference nodes xi (nPe,d): affine fit, or the
    (multi)linear fit for QUAD / HEXA."""
    d = xi.shape[1]
    if G.affine_residual(X, xi) < 1e-9:
        A = np.hstack([xi, np.ones((xi.shape[0], 1))])
        sol, *_ = np.linalg.lstsq(A, X, rcond=None)
        Jm = sol[:d]  # (d,3)
        return REF_MEASURE[tp] * float(np.sqrt(max(np.linalg.det(Jm @ Jm.T), 0.0))), True
    if tp not in NONAFFINE_JDEG:
        raise AssertionError(f"harness: curved {tp} element in a straight-sided mesh")
    gx, gw = np.polynomial.legendre.leggauss(3)
    if tp == "QUAD":
        B = np.stack([np.ones(len(xi)), xi[:, 0], xi[:, 1], xi[:, 0] * xi[:, 1]], axis=1)
        C, *_ = np.linalg.lstsq(B, X, rcond=None)
        if np.abs(B @ C - X).max() > 1e-9:
            raise AssertionError("harness: QUAD element is not bilinear")
        tot = 0.0
        for (r, wr), (s, ws) in itertools.product(zip(gx, gw), repeat=2):
            Xr = C[1] + s * C[3]
            Xs = C[2] + r * C[3]
            tot += wr * ws * np.linalg.norm(np.cross(Xr, Xs))
        return float(tot), False
    B = np.stack([np.ones(len(xi)), xi[:, 0], xi[:, 1], xi[:, 2], xi[:, 0] * xi[:, 1], xi[:, 0] * xi[:, 2], xi[:, 1] * xi[:, 2],
                  xi[:, 0] * xi[:, 1] * xi[:, 2]], axis=1)
    C, *_ = np.linalg.lstsq(B, X, rcond=None)
    if np.abs(B @ C - X).max() > 1e-9:
        raise AssertionError("harness: HEXA element is not trilinear")
    tot = 0.0
    for (r, wr), (s, ws), (t, wt) in itertools.product(zip(gx, gw), repeat=3):
        Xr = C[1] + s * C[4] + t * C[5] + s * t * C[7]
        Xs = C[2] + r * C[4] + t * C[6] + r * t * C[7]
        Xt = C[3] + r * C[5] + s * C[6] + r * s * C[7]
        tot += wr * ws * wt * abs(np.cross(Xr, Xs) @ Xt)
    return float(tot), False


class Ctx:
    pass


def _make_sim(sim, mesh, d, t):
    """-> (simu, unknowns, {load name or '*': extra kwargs of the add_* call}, problemType for Bc_vector_Neumann or None)"""
    from EasyFEA import Models, Simulations

    if sim == "elastic":
        s = Simulations.Elastic(mesh, Models.Elastic.Isotropic(d, E=1.0, v=0.3, planeStress=True, thickness=t))
        return s, ["x", "y", "z"][:d], {}, None
    if sim == "thermal":
        s = Simulations.Thermal(mesh, Models.Thermal(k=1.0, c=1.0, thickness=t))
        return s, ["t"], {}, None
    if sim in ("weakforms1", "weakformsV"):
        from EasyFEA.FEM import BiLinearForm, Field

        dof_n = 1 if sim == "weakforms1" else d
        field = Field(mesh.groupElem, dof_n)

        @BiLinearForm
        def form(u, v):
            return u.grad.dot(v.grad)

        s = Simulations.WeakForms(mesh, Models.WeakForms(field, form, thickness=t))
        return s, (["u"] if dof_n == 1 else ["x", "y", "z"][:d]), {}, None
    if sim in ("phasefield_u", "phasefield_d"):
        mat = Models.Elastic.Isotropic(d, E=1.0, v=0.3, planeStress=True, thickness=t)
        pfm = Models.PhaseField(mat, "Bourdin", "AT2", Gc=1.0, l0=0.1)
        s = Simulations.PhaseField(mesh, pfm)
        if sim == "phasefield_u":
            # the elastic problem is the default of every add_* the class overrides; add_volumeLoad is inherited and needs it named
            return s, ["x", "y", "z"][:d], {"volumeLoad": {"problemType": "elastic"}}, "elastic"
        return s, ["d"], {"*": {"problemType": "damage"}}, "damage"
    raise KeyError(sim)


def _build_continuum(case):
    """-> (EasyFEA mesh, regions {ldim: {name: Region}}, mesh dimension)"""
    et = case["elemType"]
    ets = tuple(et) if isinstance(et, list) else et
    d = Z.dim_of(ets[0] if isinstance(ets, tuple) else ets)
    if case["src"] == "T":
        A, b = _affine_map(case["map"], d)
        k, dist = case["k"], case["distort"]
        cell = float(SKEW_CELL) if case["map"] == "skew" else None  # size of a template cell (default: the template tiles the unit square / cube)
        if d == 1:
            L = 1.3 if cell is None else cell * k
            zm = Z.template_1d(ets, n=k, graded=dist, L=L)
            xs = np.linspace(0, 1, k + 1)
            xs = (xs ** 1.7 if dist else xs) * L
            regs = G.regions_T1(xs, A, b)
        elif d == 2:
            size = (1.0, 1.0) if cell is None else (cell * k, cell * k)
            zm = Z.template_2d(ets, k=k, distort=dist, diag=case["diag"], size=size)
            P = Z._grid_vertices_2d(k, dist, size) @ A.T + b
            regs = G.regions_T2(P)
        else:
            size = (1.0, 1.0, 1.0) if cell is None else (cell * k, cell * k, cell * k)
            zm = Z.template_3d(ets, k=k, distort=dist, size=size)
            P = Z._hexa_vertices_3d(k, dist, size) @ A.T + b
            regs = G.regions_T3(P, distort=dist)
        if case["map"] != "identity":
            zm = zm.mapped(A, b)
        return zm.build(coord_dtype=case.get("cdtype")), regs, d
    if d == 2:
        mesh, ex = Z.gmsh_2d(ets, case["poly"], h=0.6)
        segs = [np.asarray(g.connect) for g in mesh.Get_list_groupElem(1)]
        return mesh, G.regions_G2(ex["polygon"], np.asarray(mesh.coord, float), segs), d
    mesh, ex = Z.gmsh_3d(ets, case["poly"], h=0.7, height=0.8, layers=2)
    segs = [np.asarray(g.connect) for g in mesh.Get_list_groupElem(1)]
    return mesh, G.regions_G3(ex["polygon"], ex["height"], np.asarray(mesh.coord, float), segs, layers=2), d


def _loaded_info(mesh, ldim, mask, X):
    """own determination of the elements a node selection loads (all nodes selected), with the polynomial budget they allow."""
    info = {"n": 0, "measure": 0.0, "q": None, "p": None, "types": [], "connects": []}
    for g in mesh.Get_list_groupElem(ldim):
        name = g.elemType.name
        con = np.asarray(g.connect, dtype=int)
        info["connects"].append(con)
        el = G.elements_inside(mask, con)
        if el.size == 0:
            continue
        xi = Z.local_coords(name)
        tp = Z.topo(name)
        allaff = True
        for e in el:
            m, aff = _element_measure(tp, X[con[e]], xi)
            info["measure"] += m
            allaff &= aff
        q = LOAD_DEGREE[name] - (0 if allaff else NONAFFINE_JDEG[tp])
        p = ORDER[name] if allaff else 1
        info["q"] = q if info["q"] is None else min(info["q"], q)
        info["p"] = p if info["p"] is None else min(info["p"], p)
        info["n"] += int(el.size)
        info["types"].append(name)
    return info


def _with_corner_elements(region, mesh, ldim, mask, X):
    """A node selection loads every element whose nodes are ALL selected.  On unstructured meshes the nodes of two adjacent
    faces also complete elements of a third face that cut the corner; those belong to the loaded set by the documented
    meaning of a selection, so they are added to the region (straight-sided pieces from the mesh vertices)."""
    extra = []
    for g in mesh.Get_list_groupElem(ldim):
        name = g.elemType.name
        con = np.asarray(g.connect, dtype=int)
        xi = Z.local_coords(name)
        tp = Z.topo(name)
        if tp == "SEG":
            corners = [int(i) for i in range(len(xi)) if abs(abs(xi[i, 0]) - 1) < 1e-12]
            corners.sort(key=lambda i: xi[i, 0])
        elif tp == "TRI":
            corners = [int(i) for i in range(len(xi)) if any(np.allclose(xi[i], v) for v in ((0, 0), (1, 0), (0, 1)))]
        else:
            corners = [int(i) for i in range(len(xi)) if np.allclose(np.abs(xi[i]), 1)]
            corners.sort(key=lambda i: np.arctan2(xi[i, 1], xi[i, 0]))
        for e in G.elements_inside(mask, con):
            cen = X[con[e]].mean(0)[None, :]
            if any(p.contains(cen)[0] for p in region.pieces):
                continue
            V = X[con[e][corners]]
            extra.append(G.Seg(V[0], V[1]) if tp == "SEG" else G.Flat(V))
    if not extra:
        return region
    return G.Region(region.name, region.pieces + extra, select=region.select, normal=None, everything=region.everything)


def _apply(cx, load, nodes, values, unknowns):
    s = cx.simu
    s.Bc_Init()
    kw = dict(cx.kw.get("*", {}))
    kw.update(cx.kw.get(load, {}))
    if load == "pressureLoad":
        s.add_pressureLoad(nodes, values, **kw)
    else:
        getattr(s, "add_" + load)(nodes, values, unknowns, **kw)
    cx.ops += 1
    vec = np.asarray(s.Bc_vector_Neumann(cx.pt_obs) if cx.pt_obs is not None else s.Bc_vector_Neumann(), dtype=float)
    return vec


def _comp(cx, vec, u):
    return vec[cx.dofs[u]]


def _check_distributed(cx, vec, region, spec, support, sel, form, tag):
    """spec: {unknown: (coef, exponent)} density coef * x^e in direction `unknown` (all other directions unloaded)."""
    X, f = cx.X, cx.factor
    vio = []
    key = dict(cx.key, sel=sel, form=form)
    meas = region.measure() if region.pieces else 0.0
    gscale = 0.0
    for u in cx.unknowns:
        Fu = _comp(cx, vec, u)
        if u not in spec:
            if np.abs(Fu).max(initial=0.0) != 0.0:
                vio.append(viol("unloaded_direction", f"{tag}: direction {u} was not loaded but carries {np.abs(Fu).max():.3e}", unknown=u, **key))
            continue
        coef, e = spec[u]
        deg = sum(e)
        if region.pieces:
            # natural scale: thickness factor x int |g| (floor: 1e-12 of measure x reach^degree, for densities vanishing on the region)
            rmax = max(1.0, float(np.abs(X[support]).max())) if support.any() else 1.0
            scale = f * abs(coef) * max(region.abs_mono(e), 1e-12 * meas * rmax ** deg)
        else:
            scale = abs(coef) * f
        gscale = max(gscale, scale)
        Rn = float(Fu.sum())
        Rex = f * coef * region.mono(e) if region.pieces else 0.0
        cx.obs.append(Rn)
        if abs(Rn - Rex) > TOL * scale:
            vio.append(viol("resultant", f"{tag}: direction {u}, density {coef}*x^{e}: sum of nodal loads {Rn!r}, exact integral x thickness "
                                          f"factor {Rex!r} (rel err {abs(Rn - Rex) / scale:.2e}, factor {f})", unknown=u, mono=str(e), **key))
        if region.pieces and deg <= cx.q_mom:
            Tn = X.T @ Fu  # first moments (3,)
            Tex = np.array([f * coef * region.mono(tuple(e[j] + (1 if j == i else 0) for j in range(3))) for i in range(3)])
            if cx.vector:
                k = ["x", "y", "z"].index(u)
                ek = np.eye(3)[k]
                for cname, c in (("origin", np.zeros(3)), ("c2", C2)):
                    Mn = np.cross(Tn - c * Rn, ek)
                    Mex = np.cross(Tex - c * Rex, ek)
                    if cx.inDim == 2:
                        Mn, Mex = Mn[2:], Mex[2:]
                    reach = max(1.0, float(np.abs(X[support] - c).max()))
                    if np.abs(Mn - Mex).max() > TOL * scale * reach:
                        vio.append(viol("moment", f"{tag}: direction {u}, density {coef}*x^{e}: moment about {cname} {Mn.tolist()}, exact "
                                                  f"{Mex.tolist()}", unknown=u, mono=str(e), about=cname, **key))
            else:
                reach = max(1.0, float(np.abs(X[support]).max()))
                if np.abs(Tn - Tex)[: cx.inDim].max() > TOL * scale * reach:
                    vio.append(viol("first_moment", f"{tag}: density {coef}*x^{e}: first moments {Tn.tolist()}, exact {Tex.tolist()}",
                                    unknown=u, mono=str(e), **key))
    # nothing outside the closure of the loaded region
    out = ~support
    if out.any():
        worst = max(float(np.abs(_comp(cx, vec, u)[out]).max()) for u in cx.unknowns)
        if worst > 1e-13 * max(gscale, 1e-300) and worst > 0.0:
            vio.append(viol("outside_zero", f"{tag}: nodes outside the loaded region carry a load of {worst:.3e}", **key))
    return vio


def _spec_values(cx, spec, form, nodes, strays):
    """turn {unknown: (coef, e)} into the `values` list of the API in the order of `unknowns`."""
    unknowns = list(spec)
    vals = []
    for i, u in enumerate(unknowns):
        coef, e = spec[u]
        if form == "func":
            vals.append(G.mono_fun(e, coef))
        elif form == "nodal":
            a = _mono_vals(e, cx.X[nodes], coef)
            if strays is not None and strays.size:
                a = np.where(np.isin(nodes, strays), 7.0, a)  # junk on the strays: must not matter
            vals.append(a)
        elif form == "const":
            vals.append(float(coef))
        elif form == "const_int":
            vals.append(int(coef))
        elif form == "const_np":
            vals.append([np.float64, np.float32, np.int64][i % 3](coef) if float(coef).is_integer() else np.float64(coef))
        else:
            raise KeyError(form)
    return vals, unknowns


def _trials(cx, nvar, q_res, p_nodal, stride_one):
    """list of (form, spec) for distributed loads: spec {unknown: (coef, e)}."""
    U = cx.unknowns
    n = len(U)
    out = []
    for form in ("const", "const_int"):
        out.append((form, {u: (CONSTS[form][i], (0, 0, 0)) for i, u in enumerate(U)}))
    out.append(("const_np", {u: ([3.0, 1.5, -2.0, 4.0, 2.5, -1.0][i], (0, 0, 0)) for i, u in enumerate(U)}))
    for form, D in (("func", q_res), ("nodal", min(p_nodal, q_res))):
        ms = _monos(nvar, D)
        if stride_one:  # every monomial in every direction
            for i in range(len(ms)):
                order = U[i % n:] + U[: i % n]  # the order of `unknowns` rotates: `values` must follow it
                out.append((form, {u: (COEF[(i + j) % len(COEF)], ms[(i + j) % len(ms)]) for j, u in enumerate(order)}))
        else:  # every monomial once, a different one in each direction of a call
            for c, i in enumerate(range(0, len(ms), n)):
                chunk = ms[i:i + n]
                order = U[c % n:] + U[: c % n]
                out.append((form, {order[j]: (COEF[(i + j) % len(COEF)], e) for j, e in enumerate(chunk)}))
    return out


# ------------------------------------------------------------------------------------------------
# continuum cases
# ------------------------------------------------------------------------------------------------
def _run_continuum(case):
    sim, load, t = case["sim"], case["load"], case["t"]
    if case.get("restretch"):
        mesh, _, d = _build_continuum(dict(case, map="identity"))
        simu, unknowns, kw, pt_obs = _make_sim(sim, mesh, d, t)
        mesh = simu.mesh
        every = np.arange(mesh.Nn)
        # first use on the unmapped template: one load of each kind the mesh can carry (warms whatever the library keeps per element group)
        for nm in ("lineLoad", "surfLoad", "volumeLoad"):
            if _load_dim(nm, d) <= d and mesh.Get_list_groupElem(_load_dim(nm, d)):
                getattr(simu, "add_" + nm)(every, [1.0] * len(unknowns), list(unknowns))
        simu.Bc_Init()
        mesh2, regs, _ = _build_continuum(case)
        mesh.coord = np.array(mesh2.coord, dtype=float)
    else:
        mesh, regs, d = _build_continuum(case)
        simu, unknowns, kw, pt_obs = _make_sim(sim, mesh, d, t)
        mesh = simu.mesh
    if case.get("prequery"):
        from EasyFEA.FEM._utils import MatrixType

        X0 = np.asarray(mesh.coord, dtype=float)
        U = rng("c09prequery", X0.shape[0]).normal(size=X0.shape) * 0.07
        if d == 2:
            U[:, 2] = 0.0
        pts = []
        for g in mesh.dict_groupElem.values():
            if g.dim == 0:
                continue
            g.Get_GaussCoordinates_e_pg(MatrixType.mass, displacementMatrix=U)
            if g.dim in (1, 2) and g.dim == d - 1:
                g.Get_normals_e_pg(MatrixType.mass, displacementMatrix=U)
            if g.dim == d:
                pts.append(X0[np.asarray(g.connect, dtype=int)].mean(axis=1))
        if d > 1:
            mesh.Evaluate_dofsValues_at_coordinates(np.vstack(pts), X0[:, 0].copy())
        moved = float(np.abs(np.asarray(mesh.coord, dtype=float) - X0).max())
        if moved > 0.0:
            et_ = case["elemType"]
            return {"violations": [viol("geometry_after_query", f"read-only queries on a displaced configuration moved the nodes of the mesh by {moved:.3e}: every "
                                        f"load entered afterwards is integrated on another geometry", sim=sim, elemType="+".join(et_) if isinstance(et_, list) else et_,
                                        load=load, prequery=True)],
                    "fingerprint": fp("moved", case), "nontrivial": True, "outcome": "violation", "transitions": 1}
    cx = Ctx()
    cx.simu, cx.unknowns, cx.kw, cx.pt_obs = simu, unknowns, kw, pt_obs
    cx.X = np.asarray(mesh.coord, dtype=float)
    cx.inDim = d if d > 1 else 1
    cx.vector = sim in VECTOR_SIMS
    cx.ops, cx.obs = 0, []
    allnodes = np.arange(cx.X.shape[0])
    cx.dofs = {u: np.asarray(simu.Bc_dofs_nodes(allnodes, [u], pt_obs) if pt_obs else simu.Bc_dofs_nodes(allnodes, [u]), dtype=int)
               for u in unknowns}
    ldim = _load_dim(load, d)
    cx.factor = t if (d == 2 and load in ("surfLoad", "volumeLoad", "pressureLoad")) else 1.0
    et = case["elemType"]
    cx.key = dict(sim=sim, elemType="+".join(et) if isinstance(et, list) else et, load=load, src=case["src"],
                  mesh=f"{case['src']}{case['poly']}k{case['k']}d{int(case['distort'])}g{case['diag']}{case['map'][0]}", thick=(t != 1.0))
    if case.get("prequery"):
        cx.key["prequery"] = True
    if case.get("restretch"):
        cx.key["restretch"] = True
    if case.get("cdtype"):
        cx.key["coord"] = case["cdtype"]
    stride_one = bool(case.get("every_direction", False))
    vio = []
    nontrivial = False
    nvar = d

    rset = regs[ldim if ldim > 0 else (d - 1 if d > 1 else 1)]
    order = ["face", "face_b", "two_faces", "subpart", "subpart_b", "all"]
    r = rng("c09perm", cx.key["elemType"], cx.key["mesh"])
    for sel in [s for s in order if s in rset]:
        region = rset[sel]
        mask = region.mask(cx.X)
        nodes = np.where(mask)[0]
        tag = f"{sim}/{cx.key['elemType']}/{cx.key['mesh']}/{load}/{sel}/t={t}"
        if nodes.size == 0:
            raise AssertionError(f"harness: selection {sel} is empty on {tag}")
        # ---------------- point load
        if load == "neumann":
            variants = [(sel, nodes)]
            if sel == "face":
                far = G.choose_strays(mask, cx.X, [], how_many=1)
                variants.append((sel + "_stray", np.concatenate([nodes, far])))
                variants.append(("single_node", nodes[:1]))
                # a selection listing a node twice (union of two selections sharing a corner): the total is still the entered total
                variants.append((sel + "_repeated", np.concatenate([nodes, nodes[: max(1, nodes.size // 3)]])))
            for sname, nn in variants:
                for form in ("const", "const_int"):
                    totals = CONSTS[form][: len(unknowns)]
                    uo = unknowns[::-1]
                    vals = [type(totals[0])(totals[unknowns.index(u)]) for u in uo]
                    vec = _apply(cx, load, nn, vals, uo)
                    selmask = np.zeros(cx.X.shape[0], dtype=bool)
                    selmask[nn] = True
                    for u in unknowns:
                        Fu = _comp(cx, vec, u)
                        tot = totals[unknowns.index(u)]
                        cx.obs.append(float(Fu.sum()))
                        if abs(Fu.sum() - tot) > 1e-12 * abs(tot):
                            vio.append(viol("point_total", f"{tag}: {nn.size} nodes, entered total {tot} in {u}, nodal loads sum to {Fu.sum()!r}",
                                            unknown=u, **dict(cx.key, sel=sname, form=form)))
                        if np.abs(Fu[~selmask]).max(initial=0.0) != 0.0:
                            vio.append(viol("outside_zero", f"{tag}: point load reaches nodes that were not selected", **dict(cx.key, sel=sname, form=form)))
                    nontrivial |= nn.size > 1
            # per-node float array given by the caller and used for several components / re-applied in a load history:
            # the same array object must keep its values and give the same nodal loads every time
            if len(unknowns) >= 2 and nodes.size >= 2 and sel in ("face", "all"):
                w = 2.0 * (1.0 + 0.1 * np.arange(nodes.size, dtype=float))
                w0 = w.copy()
                vec1 = _apply(cx, load, nodes, [w, w], unknowns[:2])
                vec2 = _apply(cx, load, nodes, [w, w], unknowns[:2])
                kk = dict(cx.key, sel=sel, form="array_reused")
                Fa, Fb = _comp(cx, vec1, unknowns[0]), _comp(cx, vec1, unknowns[1])
                cx.obs.append(float(Fa.sum()))
                if not np.array_equal(w, w0):
                    vio.append(viol("input_modified", f"{tag}: add_neumann modified the caller's value array in place", **kk))
                if np.abs(Fa - Fb).max() > 1e-13 * max(np.abs(Fa).max(), 1e-300):
                    vio.append(viol("point_components", f"{tag}: the same per-node array entered for {unknowns[0]} and {unknowns[1]} gives different nodal loads "
                                                        f"(sums {Fa.sum()!r} / {Fb.sum()!r})", **kk))
                if np.abs(vec1 - vec2).max() > 1e-13 * max(np.abs(vec1).max(), 1e-300):
                    vio.append(viol("point_repeat", f"{tag}: re-entering the same point load after Bc_Init() gives a different load vector", **kk))
            continue
        # ---------------- distributed loads
        info = _loaded_info(mesh, ldim, mask, cx.X)
        if region.pieces and ldim < d:
            region = _with_corner_elements(region, mesh, ldim, mask, cx.X)
        support = region.support_mask(cx.X) if region.pieces else np.zeros(cx.X.shape[0], dtype=bool)
        meas = region.measure() if region.pieces else 0.0
        if abs(info["measure"] - meas) > 1e-9 * max(meas, 1.0):
            raise AssertionError(f"harness: elements inside selection {sel} measure {info['measure']!r}, region {meas!r} on {tag}")
        q_res = info["q"] if info["q"] is not None else 1
        p_nod = info["p"] if info["p"] is not None else 1
        if q_res < 0:
            raise AssertionError("harness: negative polynomial budget")
        cx.q_mom = q_res - 1
        strays = G.choose_strays(mask, cx.X, info["connects"], how_many=2) if sel in ("face", "subpart") else np.array([], dtype=int)
        if load == "pressureLoad":
            if region.normal is None or not region.pieces:
                continue  # the property speaks of a planar face
            A = meas
            for p in (3.0, -2):
                for sname, nn in ((sel, nodes), (sel + "_stray", np.concatenate([nodes, strays]))):
                    if nn.size == nodes.size and sname != sel:
                        continue
                    vec = _apply(cx, load, nn, p, None)
                    R = np.zeros(3)
                    for i, u in enumerate(unknowns):
                        R[i] = _comp(cx, vec, u).sum()
                    scale = abs(p) * A * cx.factor
                    kk = dict(cx.key, sel=sname, form=type(p).__name__)
                    cx.obs.extend(R.tolist())
                    if abs(np.linalg.norm(R) - scale) > TOL * scale:
                        vio.append(viol("pressure_magnitude", f"{tag}: p={p}: |resultant| = {np.linalg.norm(R)!r}, p*area*thickness factor = {scale!r} "
                                                              f"(R={R.tolist()})", **kk))
                    if np.linalg.norm(np.cross(R, region.normal)) > TOL * scale:
                        vio.append(viol("pressure_direction", f"{tag}: p={p}: resultant {R.tolist()} is not parallel to the face normal "
                                                              f"{region.normal.tolist()}", **kk))
                    worst = max(float(np.abs(_comp(cx, vec, u)[~support]).max(initial=0.0)) for u in unknowns)
                    if worst > 1e-13 * scale:
                        vio.append(viol("outside_zero", f"{tag}: pressure reaches nodes outside the face ({worst:.3e})", **kk))
                    nontrivial |= info["n"] >= 2
            # a pressure on nodes that bound no complete boundary element (one node of the face) contributes nothing
            try:
                vec = _apply(cx, load, nodes[:1], 3.0, None)
                if np.abs(vec).max(initial=0.0) != 0.0:
                    vio.append(viol("outside_zero", f"{tag}: one node of the face bounds no boundary element but the pressure vector is not zero",
                                    **dict(cx.key, sel="single_node", form="const")))
            except (ZeroDivisionError, ValueError, IndexError, AssertionError) as err:
                cx.ops += 1
                vio.append(viol("nothing_selected_raises", f"{tag}: one selected node bounds no boundary element; instead of contributing nothing add_{load} raised "
                                                           f"{type(err).__name__}: {err}", **dict(cx.key, sel="single_node", error=type(err).__name__)))
            continue
        if not region.pieces:
            # the selected nodes bound no element of the loaded dimension: "contribute nothing" (a result is promised)
            try:
                vec = _apply(cx, load, nodes, [1.5] * len(unknowns), unknowns)
                if np.abs(vec).max(initial=0.0) != 0.0:
                    vio.append(viol("outside_zero", f"{tag}: no element is bounded by the selection but the load vector is not zero",
                                    **dict(cx.key, sel=sel + "_nothing", form="const")))
            except (ZeroDivisionError, ValueError, IndexError, AssertionError) as err:
                cx.ops += 1
                vio.append(viol("nothing_selected_raises", f"{tag}: the {nodes.size} selected nodes bound no {ldim}D element; instead of contributing "
                                                           f"nothing add_{load} raised {type(err).__name__}: {err}",
                                **dict(cx.key, sel=sel + "_nothing", error=type(err).__name__)))
            continue
        q_fun = q_res
        if case.get("sel_degree_cap") is not None and sel not in ("face", "face_b", "all"):
            q_fun = min(q_res, int(case["sel_degree_cap"]))
        for form, spec in _trials(cx, nvar, q_fun, p_nod, stride_one):
            nn = nodes if form != "nodal" else r.permutation(nodes)
            vals, uo = _spec_values(cx, spec, form, nn, None)
            vec = _apply(cx, load, nn, vals, uo)
            vio += _check_distributed(cx, vec, region, spec, support, sel, form, tag)
            if info["n"] >= 2 and np.abs(vec).max(initial=0.0) > 0:
                nontrivial = True
            if form == "const" and nodes.size >= 2:
                # a node LIST with repeated entries (e.g. the concatenated node lists of two adjacent faces) selects the same node SET
                for dname, nd in (("dup_half", np.concatenate([nodes, nodes[: max(1, nodes.size // 2)]])),
                                  ("dup_other_half", np.concatenate([nodes[nodes.size // 2:], nodes]))):
                    vals_d, uo_d = _spec_values(cx, spec, form, nd, None)
                    vec_d = _apply(cx, load, nd, vals_d, uo_d)
                    if np.abs(vec_d - vec).max(initial=0.0) > 1e-13 * max(np.abs(vec).max(initial=0.0), 1e-300):
                        vio.append(viol("duplicate_nodes_effect", f"{tag}: repeating node ids in the selection list changes the load vector by "
                                                                  f"{np.abs(vec_d - vec).max():.3e}", **dict(cx.key, sel=sel + "_" + dname, form=form)))
            if strays.size and (form in ("const", "nodal") or sum(sum(e) for _, e in spec.values()) <= 1):
                nn2 = np.concatenate([nn, strays])
                if form == "nodal":
                    nn2 = r.permutation(nn2)
                vals2, uo2 = _spec_values(cx, spec, form, nn2, strays)
                vec2 = _apply(cx, load, nn2, vals2, uo2)
                vio += _check_distributed(cx, vec2, region, spec, support, sel + "_stray", form, tag + "+strays")
                if np.abs(vec2 - vec).max(initial=0.0) > 1e-13 * max(np.abs(vec).max(initial=0.0), 1e-300):
                    vio.append(viol("stray_effect", f"{tag}: adding the nodes {strays.tolist()} (they bound no loaded element) changes the load vector by "
                                                    f"{np.abs(vec2 - vec).max():.3e}", **dict(cx.key, sel=sel + "_stray", form=form)))
    return {"violations": _dedupe(vio)[:16], "fingerprint": fp(cx.key, np.array(cx.obs)), "nontrivial": bool(nontrivial), "transitions": cx.ops,
            "outcome": "ok" if not vio else "violation"}


def _dedupe(vio):
    seen, out = set(), []
    for v in vio:
        k = repr(sorted(v["key"].items()))
        if k not in seen:
            seen.add(k)
            out.append(v)
    return out


# ------------------------------------------------------------------------------------------------
# beams
# ------------------------------------------------------------------------------------------------
_SECTION = {}


def _beam_setup(case):
    from EasyFEA import ElemType, Mesher, Models, Simulations
    from EasyFEA.Geoms import Domain, Line, Point

    bd, orient, et = case["beamDim"], case["orient"], case["elemType"]
    if "s" not in _SECTION:
        _SECTION["s"] = Mesher().Mesh_2D(Domain(Point(-0.05, -0.05), Point(0.05, 0.05)))
    L = 1.8
    if orient == "x":
        u = np.array([1.0, 0, 0])
    elif orient == "y":
        u = np.array([0, 1.0, 0])
    elif orient == "z":
        u = np.array([0, 0, 1.0])
    else:
        r = rng("c09beam", bd)
        if bd == 2:
            a = r.uniform(0.35, 1.2)
            u = np.array([np.cos(a), np.sin(a), 0.0])
        else:
            u = r.uniform(0.3, 1.0, size=3)
            u /= np.linalg.norm(u)
    p0 = np.array([0.3, 0.0, 0.0]) if bd == 1 else (np.array([0.3, 0.2, 0.0]) if bd == 2 else np.array([0.3, 0.2, -0.4]))
    p1 = p0 + L * u
    line = Line(Point(*p0), Point(*p1), L / 3)
    beam = Models.Beam.Isotropic(bd, line, _SECTION["s"], 210e9, 0.3)
    mesh = Mesher().Mesh_Beams([beam], elemType=ElemType[et])
    simu = Simulations.Beam(mesh, Models.Beam.BeamStructure([beam]), useTimoshenko=(case["sim"] == "beam_timo"))
    return simu, p0, p1


def _run_beam(case):
    import contextlib
    import io

    bd, et, load, bsim = case["beamDim"], case["elemType"], case["load"], case["sim"]
    with contextlib.redirect_stdout(io.StringIO()):
        simu, p0, p1 = _beam_setup(case)
    mesh = simu.mesh
    X = np.asarray(mesh.coord, dtype=float)
    Nn = X.shape[0]
    unknowns = list(simu.Get_unknowns())
    trans = [u for u in unknowns if u in ("x", "y", "z")]
    rots = [u for u in unknowns if u.startswith("r")]
    allnodes = np.arange(Nn)
    dofs = {u: np.asarray(simu.Bc_dofs_nodes(allnodes, [u]), dtype=int) for u in unknowns}
    key0 = dict(sim=bsim, elemType=et, beamDim=bd, orient=case["orient"], load=load)
    cap = int(case.get("degree_cap", 2))
    selcap = case.get("sel_degree_cap", None)
    vio, obs, ops = [], [], 0
    nontrivial = False
    p = ORDER[et]
    segs = [np.asarray(g.connect, dtype=int) for g in mesh.Get_list_groupElem(1)]
    regs = G.regions_line(p0, p1, X, segs)[1]
    nvar = 1 if bd == 1 else (2 if bd == 2 else 3)

    def vecF(vec):
        F = np.zeros((Nn, 3))
        M = np.zeros((Nn, 3))
        for u in trans:
            F[:, "xyz".index(u)] = vec[dofs[u]]
        for u in rots:
            M[:, "xyz".index(u[1])] = vec[dofs[u]]
        return F, M

    for sel in [s for s in ("all", "subpart") if s in regs]:
        region = regs[sel]
        mask = region.mask(X)
        nodes = np.where(mask)[0]
        support = region.support_mask(X)
        strays = G.choose_strays(mask, X, segs, how_many=1) if sel == "subpart" else np.array([], dtype=int)
        n_el = sum(int(G.elements_inside(mask, c).size) for c in segs)
        Lr = region.measure()
        if load == "neumann":
            for form in ("const", "const_int"):
                totals = CONSTS[form][: len(unknowns)]
                simu.Bc_Init()
                simu.add_neumann(nodes, list(totals), unknowns)
                ops += 1
                vec = np.asarray(simu.Bc_vector_Neumann(), dtype=float)
                for u, tot in zip(unknowns, totals):
                    s = float(vec[dofs[u]].sum())
                    obs.append(s)
                    if abs(s - tot) > 1e-12 * abs(tot):
                        vio.append(viol("point_total", f"beam {key0}: entered total {tot} in {u} on {nodes.size} nodes, nodal loads sum to {s!r}",
                                        unknown=u, sel=sel, form=form, **key0))
                    if np.abs(vec[dofs[u]][~mask]).max(initial=0.0) != 0.0:
                        vio.append(viol("outside_zero", f"beam {key0}: point load reaches unselected nodes", sel=sel, form=form, **key0))
                nontrivial |= nodes.size > 1
            continue
        for u in unknowns:
            hermit = (bsim == "beam_eb") and bd > 1 and u not in ("x", "rx")
            Q = min(HERMITE_DEGREE[et] if hermit else LOAD_DEGREE[et], cap)
            if sel != "all" and selcap is not None:
                Q = min(Q, selcap)
            is_rot = u.startswith("r")
            k = "xyz".index(u[1] if is_rot else u)
            ek = np.eye(3)[k]
            trials = [("const", 2.5, (0, 0, 0)), ("const_int", -3, (0, 0, 0))]
            trials += [("func", COEF[i % len(COEF)], e) for i, e in enumerate(_monos(nvar, Q))]
            trials += [("nodal", COEF[(i + 1) % len(COEF)], e) for i, e in enumerate(_monos(nvar, min(p, Q)))]
            for form, coef, e in trials:
                variants = [(sel, nodes, None)]
                if strays.size and (form in ("const", "nodal") or sum(e) <= 1):
                    variants.append((sel + "_stray", np.concatenate([nodes, strays]), strays))
                base = None
                for sname, nn, st in variants:
                    if form == "func":
                        val = G.mono_fun(e, coef)
                    elif form == "nodal":
                        val = _mono_vals(e, X[nn], coef)
                        if st is not None:
                            val = np.where(np.isin(nn, st), 7.0, val)
                    else:
                        val = coef
                    simu.Bc_Init()
                    simu.add_lineLoad(nn, [val], [u])
                    ops += 1
                    vec = np.asarray(simu.Bc_vector_Neumann(), dtype=float)
                    if base is None:
                        base = vec
                    elif np.abs(vec - base).max(initial=0.0) > 1e-13 * max(np.abs(base).max(initial=0.0), 1e-300):
                        vio.append(viol("stray_effect", f"beam {key0}: a stray node changes the load vector by {np.abs(vec - base).max():.3e}",
                                        unknown=u, sel=sname, form=form, **key0))
                    F, M = vecF(vec)
                    rmax = max(1.0, float(np.abs(X[support]).max()))
                    scale = abs(coef) * max(region.abs_mono(e), 1e-12 * Lr * rmax ** sum(e))
                    I0 = coef * region.mono(e)
                    kk = dict(key0, unknown=u, sel=sname, form=form, mono=str(e), path="hermite" if hermit else "lagrange")
                    Rn = F.sum(0)
                    Rex = np.zeros(3) if is_rot else I0 * ek
                    obs.extend(Rn.tolist())
                    if np.abs(Rn - Rex).max() > TOL * scale:
                        vio.append(viol("resultant", f"beam {key0}: line load {coef}*x^{e} on '{u}' ({sname}): nodal forces sum to {Rn.tolist()}, "
                                                     f"exact {Rex.tolist()}", **kk))
                    if bd > 1 and (sum(e) <= Q - 1 or is_rot):
                        T1 = np.array([coef * region.mono(tuple(e[j] + (1 if j == i else 0) for j in range(3))) for i in range(3)])
                        for cname, c in (("origin", np.zeros(3)), ("c2", C2)):
                            Mn = np.cross(X - c, F).sum(0) + M.sum(0)
                            Mex = I0 * ek if is_rot else np.cross(T1 - c * I0, ek)
                            if bd == 2:
                                Mn, Mex = Mn[2:], Mex[2:]
                            reach = max(1.0, float(np.abs(X - c).max()))
                            obs.extend(Mn.tolist())
                            if np.abs(Mn - Mex).max() > TOL * scale * reach:
                                vio.append(viol("moment", f"beam {key0}: line load {coef}*x^{e} on '{u}' ({sname}): moment of nodal forces and nodal "
                                                          f"moments about {cname} {Mn.tolist()}, exact {Mex.tolist()}", about=cname, **kk))
                    worst = float(np.abs(np.hstack([F, M])[~support]).max(initial=0.0))
                    if worst > 1e-13 * scale:
                        vio.append(viol("outside_zero", f"beam {key0}: nodes outside the loaded part carry {worst:.3e}", **kk))
                    nontrivial |= n_el >= 2
    return {"violations": _dedupe(vio)[:16], "fingerprint": fp(key0, np.array(obs)), "nontrivial": bool(nontrivial), "transitions": ops,
            "outcome": "ok" if not vio else "violation"}


def _run_curved(case):
    """The load over the whole body (line load in 1D, volume load in 2D / 3D) of a constant density on a mesh whose interior element
    edges / faces are curved: sum_a F_a[u] == density_u x measure x thickness (sum_a N_a = 1; det J has degree <= the degree of the load
    rule for every element type, so the statement is exact), and the moment of the nodal forces of the types whose rule also covers
    x det J.  The boundary is straight and the tiled domain is the unit segment / square / cube."""
    from types import SimpleNamespace

    et, sim, t = case["elemType"], case["sim"], case["t"]
    d = Z.dim_of(et)
    zm = (Z.template_1d(et, 2) if d == 1 else Z.template_2d(et, k=2, diag=1) if d == 2 else Z.template_3d(et, k=2)).curved()
    mesh = zm.build()
    simu, unknowns, kw, pt = _make_sim(sim, mesh, d, t)
    cx = SimpleNamespace(simu=simu, kw=kw, pt_obs=pt, ops=0)
    load = {1: "lineLoad", 2: "volumeLoad", 3: "volumeLoad"}[d]   # 2D: the body load is the 'volume' load (area x thickness)
    vals = [2.5, -1.25, 0.75][:len(unknowns)]
    nodes = np.arange(zm.Nn)
    tf = t if d == 2 else 1.0
    v = []
    key = dict(kind="curved", sim=sim, elemType=et, load=load)
    obs = []
    for form in ("const", "function", "array"):
        values = {"const": list(vals), "function": [(lambda x, y, z, c=c: c + 0 * x) for c in vals],
                  "array": [np.full(zm.Nn, c) for c in vals]}[form]
        vec = _apply(cx, load, nodes, values, unknowns)
        ndof = len(unknowns)
        F = vec.reshape(zm.Nn, ndof) if vec.size == zm.Nn * ndof else None
        if F is None:
            # two-problem simulation: the observed vector belongs to the problem named in pt
            F = vec.reshape(zm.Nn, -1)[:, :ndof]
        R = F.sum(axis=0)
        want = np.array(vals) * zm.exact["measure"] * tf
        err = float(np.abs(R - want).max() / np.abs(want).max())
        obs.append(np.round(R, 9))
        if err > TOL:
            v.append(viol("resultant", f"{sim}/{et}/{zm.name}: {load} of the constant density {vals} over the whole body entered as '{form}': resultant "
                                       f"{R.tolist()}, expected density x measure x thickness = {want.tolist()} (rel. err {err:.2e}; {zm.n_moved} displaced nodes)",
                          form=form, **key))
        if et in ("SEG3", "SEG4", "SEG5", "TRI6", "QUAD8", "QUAD9") and form == "const":
            # first moment sum_a x_a F_a[u0] == density x measure x centroid (x det J within the rule: TRI6 2+2 <= 4, tensor cells 2+3 <= 5 per variable)
            M1 = zm.coords[:, :d].T @ F[:, 0]
            wantM = vals[0] * zm.exact["measure"] * tf * np.asarray(zm.exact["centroid"])[:d]
            errM = float(np.abs(M1 - wantM).max() / np.abs(wantM).max())
            if errM > TOL:
                v.append(viol("first_moment", f"{sim}/{et}/{zm.name}: sum_a x_a F_a = {M1.tolist()}, expected {wantM.tolist()} (rel. err {errM:.2e})", form=form, **key))
    return {"violations": v, "fingerprint": fp(sim, et, *obs), "nontrivial": zm.n_moved > 0, "transitions": cx.ops,
            "outcome": "ok" if not v else "violation:" + "+".join(sorted({x["check"] for x in v}))}


def run_case(case):
    if case["kind"] == "beam":
        return _run_beam(case)
    if case["kind"] == "curved":
        return _run_curved(case)
    return _run_continuum(case)
