"""C18 — hyperelastic stress, tangents and discrete energy balance are consistent.

Three explorations on the real implementation (all E1, exhaustive over stated alphabets; the energy runs are histories of
20 / 200 real time steps):

material  law x element type x deformation alphabet x EVERY element dof as perturbation direction.  The implementation's
          own Compute_W is differentiated along delta-u by Richardson-extrapolated central differences (three fixed step
          sizes h, 2h, 4h -> extrapolate + truncation estimate) and compared with S : dE and D : dE, where
          dE = sym(F^T grad(delta u)) is computed by the harness in Kelvin-Mandel form
          [xx, yy, zz, sqrt2 yz, sqrt2 xz, sqrt2 xy] (2D: [xx, yy, sqrt2 xy]).  Objectivity W(QF)=W(F) (also S, D),
          W = 0 and S = 0 at u = 0, and the kinematic quantities F, J, C, E, I1..I3, De against plain numpy.
          All perturbed configurations of an element are evaluated in ONE call of the implementation on a group of
          disjoint copies of the element (copy c carries the perturbation c), which is what makes "every dof" affordable.
operator  for every nonlinear element operator the returned tangent is compared with the Richardson difference quotient of
          the returned residual with respect to the step unknown, for every element dof.
retype    law x element type (those whose 'rigi' and 'mass' rules differ) x every history  read . state.matrixType = other rule . read :
          the second read gives what a state constructed with the new rule gives.
energy    Simulations.HyperElastic, midpoint + 'gonzalez' / 'quadrature(energyTol)': free motion, |KE + W - E0| <= 1e-8 E0
          at every saved step; runs whose Newton iteration does not converge are skipped and counted.
"""
from __future__ import annotations

import contextlib
import io
import itertools
import os

import numpy as np

from mc.util import fp, rng, viol
from zoo import meshes as Z

PROPERTY = "C18"

LAWS = ["NeoHookean", "MooneyRivlin", "CiarletGeymonat", "SaintVenantKirchhoff", "HolzapfelOgden", "AutoDiff"]
DEFAULT_LAW = "MooneyRivlin"
DEFAULT_ET = {2: "QUAD4", 3: "HEXA8"}
BULK_TYPES = Z.TYPES_2D + Z.TYPES_3D
SURF_TYPES = ["TRI3", "TRI6", "TRI10", "TRI15", "QUAD4", "QUAD8", "QUAD9"]
SEG_TYPES = ["SEG2", "SEG3", "SEG4", "SEG5"]
NPE = {"TRI3": 3, "TRI6": 6, "TRI10": 10, "TRI15": 15, "QUAD4": 4, "QUAD8": 8, "QUAD9": 9, "TETRA4": 4, "TETRA10": 10,
       "HEXA8": 8, "HEXA20": 20, "HEXA27": 27, "PRISM6": 6, "PRISM15": 15, "PRISM18": 18}
BULK_OPS_LAW = ["SecondPiolaKirchhoffStressTensor", "GonzalezStressTensor", "TimeQuadratureStressTensor"]
BULK_OPS_NOLAW = ["ActiveStressTensor", "KelvinVoigtDamping"]
SURF_OPS = ["FollowingPressure", "PenaltyContact"]

H0 = 2.0e-6  # fixed finite-difference step (unit-size elements); levels H0, 2 H0, 4 H0
LEVELS = (1, 2, 4)
EPS = 2.3e-16
TOL_FD = 1e-6
THICKNESS = 0.7
J_MIN = 0.05  # assumption guard: states with det F below this at a Gauss point are skipped and counted

STRETCHES = (0.8, 1.0, 1.3)
ROTS = ["R0", "R90", "Rgen", "R180"]

# T6x2 / Q8x2: second-order types whose stiffness and mass rules differ and whose strain varies inside an element (the energy a simulation
# reports must be the potential of the internal forces it assembles: same rule)
ENERGY_MESHES = {"Q4x2": ("QUAD4", [2, 1]), "T3x2": ("TRI3", 1), "H8x2": ("HEXA8", [2, 1, 1]), "TET4x6": ("TETRA4", 1), "T6x2": ("TRI6", 1),
                 "Q8x2": ("QUAD8", [2, 1])}
ENERGY_V0 = ["generic", "stretch", "spin"]
ENERGY_DT = [0.01, 0.2]
ENERGY_STRESS = ["gonzalez", "quadrature"]
ENERGY_TOL = 1e-8
QUAD_ENERGY_TOL = 1e-10  # energyTol handed to the 'quadrature' stress
SLOW_LAWS = ("HolzapfelOgden", "AutoDiff")


def energy_steps(tier, law, dt, stress):
    """20 steps (quick) / 200 steps (thorough); the two laws whose step costs 0.1 - 0.8 CPU-s run 100 steps, and the one combination
    whose adaptive path quadrature needs its full 33 points at every Gauss point (HolzapfelOgden's ks = 100 switch, large step) 40."""
    if tier != "thorough":
        return 20
    if law == "HolzapfelOgden" and stress == "quadrature" and dt == max(ENERGY_DT):
        return 40
    return 100 if law in SLOW_LAWS else 200


# ------------------------------------------------------------------------------------------------
# alphabets
# ------------------------------------------------------------------------------------------------
def base_letters(dim):
    out = ["diag:" + ",".join(str(s) for s in st) for st in itertools.product(STRETCHES, repeat=dim)]
    return out + ["shear+", "shear-", "gen0", "gen1", "gen2"]


def full_letters(dim):
    return [(b, r) for b in base_letters(dim) for r in ROTS] + [("inhom", "R0")]


def reduced_letters(dim):
    one = "diag:" + ",".join(["1.0"] * dim)
    mix = "diag:0.8,1.3" if dim == 2 else "diag:0.8,1.0,1.3"
    return [(one, "R0"), (mix, "R0"), ("shear+", "R0"), ("gen0", "R0"), ("gen1", "R0"), ("gen1", "Rgen"), ("inhom", "R0")]


def base_matrix(dim, name):
    """dim x dim deformation gradient of a letter (det > 0)."""
    if name.startswith("diag:"):
        return np.diag([float(x) for x in name[5:].split(",")])
    if name in ("shear+", "shear-"):
        F = np.eye(dim)
        F[0, 1] = 0.35 if name == "shear+" else -0.35
        return F
    if name.startswith("gen"):
        r = rng("c18F", name, dim)
        return Z.generic_affine(r, dim)[:dim, :dim]
    raise KeyError(name)


def rot_matrix(dim, name):
    if name == "R0":
        return np.eye(dim)
    if dim == 2:
        t = {"R90": np.pi / 2, "R180": np.pi, "Rgen": rng("c18R", 2).uniform(0.3, 1.3)}[name]
        return np.array([[np.cos(t), -np.sin(t)], [np.sin(t), np.cos(t)]])
    if name == "R90":
        return Z.rot3([0, 0, 1], np.pi / 2)
    if name == "R180":
        return Z.rot3([1, 0, 0], np.pi)
    r = rng("c18R", 3)
    return Z.rot3(r.normal(size=3), r.uniform(0.4, 2.6))


def letter_name(letter):
    return f"{letter[0]}|{letter[1]}"


def inhom_field(dim, X, salt, amp=1.0):
    """seeded smooth inhomogeneous nodal field u(x) = G x + 1/2 H : x x  (X: (..., 3) node coordinates) -> (..., dim)."""
    r = rng("c18inhom", dim, salt)
    G = r.uniform(-0.12, 0.12, size=(dim, dim)) * amp
    H = r.uniform(-0.15, 0.15, size=(dim, dim, dim)) * amp
    H = (H + H.transpose(0, 2, 1)) / 2
    x = X[..., :dim]
    return np.einsum("ij,...j->...i", G, x) + 0.5 * np.einsum("ijk,...j,...k->...i", H, x, x)


def homog_field(dim, X, F):
    return np.einsum("ij,...j->...i", F - np.eye(dim), X[..., :dim])


def letter_field(dim, X, letter):
    b, r = letter
    if b == "inhom":
        return inhom_field(dim, X, "state"), None
    F = rot_matrix(dim, r) @ base_matrix(dim, b)
    return homog_field(dim, X, F), F


# ------------------------------------------------------------------------------------------------
# laws
# ------------------------------------------------------------------------------------------------
def fibres(dim, tilted=False):
    """unit fibre directions T1 perpendicular to T2; 2D: in the plane, or (tilted) T1 raised 0.2 rad out of the plane."""
    if dim == 2:
        t = rng("c18fibre", 2).uniform(0.2, 1.3)
        p = 0.2 if tilted else 0.0
        return (np.array([np.cos(t) * np.cos(p), np.sin(t) * np.cos(p), np.sin(p)]), np.array([-np.sin(t), np.cos(t), 0.0]))
    r = rng("c18fibre", 3)
    T1 = r.normal(size=3)
    T1 /= np.linalg.norm(T1)
    T2 = r.normal(size=3)
    T2 -= (T2 @ T1) * T1
    T2 /= np.linalg.norm(T2)
    return T1, T2


_JAX_READY = [False]


class _NoJax(Exception):
    pass


def _jax():
    """jax is imported lazily and only inside a worker (never in the parent that forks the pool)."""
    if not _JAX_READY[0]:
        os.environ.setdefault("JAX_PLATFORMS", "cpu")
        os.environ.setdefault("XLA_FLAGS", "--xla_cpu_multi_thread_eigen=false intra_op_parallelism_threads=1")
        try:
            import jax  # noqa: F401
        except ImportError as err:  # optional dependency of EasyFEA: the AutoDiff law is then not available
            raise _NoJax(str(err))
        from EasyFEA.Models._autodiff import Enable_x64

        Enable_x64()
        _JAX_READY[0] = True
    import jax.numpy as jnp

    return jnp


def _user_energy(C, T):
    """A user energy none of the shipped laws has: Fung-type isochoric part, (ln J)^2 volumetric part, a quadratic fibre
    term and a Mooney term; W(I) = 0 and dW/dC(I) = 0."""
    jnp = _jax()
    I1 = jnp.trace(C)
    I2 = (I1 ** 2 - jnp.trace(C @ C)) / 2
    I3 = (C[0, 0] * (C[1, 1] * C[2, 2] - C[1, 2] * C[2, 1]) - C[0, 1] * (C[1, 0] * C[2, 2] - C[1, 2] * C[2, 0])
          + C[0, 2] * (C[1, 0] * C[2, 1] - C[1, 1] * C[2, 0]))
    J = jnp.sqrt(I3)
    I4 = T @ C @ T
    return (0.45 / (2 * 0.8) * (jnp.exp(0.8 * (I1 * J ** (-2 / 3) - 3)) - 1) + 0.5 * 1.7 * jnp.log(J) ** 2
            + 0.25 * 0.6 * (I4 - 1) ** 2 + 0.5 * 0.35 * (I2 * J ** (-4 / 3) - 3))


def make_law(name, dim, tilted=False):
    from EasyFEA import Models

    HE = Models.HyperElastic
    if name == "NeoHookean":
        return HE.NeoHookean(dim, K=1.3, thickness=THICKNESS)
    if name == "MooneyRivlin":
        return HE.MooneyRivlin(dim, K1=0.5, K2=0.3, K=1.1, thickness=THICKNESS)
    if name == "CiarletGeymonat":
        return HE.CiarletGeymonat(dim, K1=0.6, K2=0.25, K=1.4, thickness=THICKNESS)
    if name == "SaintVenantKirchhoff":
        return HE.SaintVenantKirchhoff(dim, lmbda=1.2, mu=0.8, K=0.5, thickness=THICKNESS)
    if name == "HolzapfelOgden":
        T1, T2 = fibres(dim, tilted)
        return HE.HolzapfelOgden(dim, C0=0.6, C1=1.1, C2=0.8, C3=0.9, C4=0.5, C5=0.7, C6=0.3, C7=0.6, K=2.5, Mu1=0.4, Mu2=0.3,
                                 T1=T1, T2=T2, thickness=THICKNESS)
    if name == "AutoDiff":
        _jax()
        T1, _ = fibres(dim)
        return HE.AutoDiff(dim, _user_energy, aux=(T1,), in_axes=(0, None), thickness=THICKNESS)
    raise KeyError(name)


# ------------------------------------------------------------------------------------------------
# element groups: base elements and the stack of disjoint perturbed copies
# ------------------------------------------------------------------------------------------------
def template(et):
    """(coords, connect) of the 1-cell template of the type: 1 QUAD/HEXA (one corner displaced: non-parallelogram), 2 TRI,
    2 PRISM, 6 TETRA."""
    d = Z.dim_of(et)
    if d == 2:
        zm = Z.template_2d(et, 1, distort=Z.topo(et) == "QUAD")
    else:
        zm = Z.template_3d(et, 1, distort=Z.topo(et) == "HEXA")
    return zm.coords, zm.groups[et]


def make_group(et, Xe):
    """group of disjoint elements with node coordinates Xe (Ne, nPe, 3)."""
    from EasyFEA import ElemType
    from EasyFEA.FEM._group_elem import GroupElemFactory

    Ne, nPe = Xe.shape[:2]
    return GroupElemFactory.Create(ElemType[et], np.arange(Ne * nPe).reshape(Ne, nPe), Xe.reshape(-1, 3).copy())


class _Chunk:
    def __init__(self, stack, lo, hi):
        self.stack, self.lo, self.hi = stack, lo, hi
        self.g = make_group(stack.et, np.tile(stack.Xe[None], (hi - lo, 1, 1, 1)).reshape(-1, stack.nPe, 3))

    def tile(self, fe):
        """fe (nel, nPe, dofdim) -> nodal vector of the chunk, every copy carrying the same field."""
        return np.tile(fe[None], (self.hi - self.lo, 1, 1, 1)).reshape(-1)

    def field(self, fe):
        """fe (nel, nPe, dofdim) -> nodal vector of the chunk, copy c displaced by its perturbation."""
        st = self.stack
        f = np.tile(fe[None], (self.hi - self.lo, 1, 1, 1)) + st.P[self.lo:self.hi].reshape(-1, 1, st.nPe, st.dofdim)
        return f.reshape(-1)

    def rep(self, a):
        """per-element array (nel, ...) -> (ncopies*nel, ...)."""
        return np.tile(a, (self.hi - self.lo,) + (1,) * (a.ndim - 1))


class Stack:
    """nel base elements + for every element dof k, level m in LEVELS and sign: one disjoint copy of the elements whose
    nodal field is displaced by sign * m * H0 along dof k (k = node * dofdim + component, the (xi, yi, zi, ...) layout).
    The copies are served to the implementation in chunks (groups of disjoint elements) of bounded size."""

    def __init__(self, et, Xe, dofdim, max_elems=None, h=H0):
        self.et, self.Xe, self.dofdim, self.h = et, Xe, dofdim, h
        self.nel, self.nPe = Xe.shape[:2]
        self.ndof = self.nPe * dofdim
        self.ncopy = 1 + self.ndof * len(LEVELS) * 2
        P = np.zeros((self.ncopy, self.ndof))
        idx = np.zeros((self.ndof, len(LEVELS), 2), dtype=int)
        c = 1
        for k in range(self.ndof):
            for im, m in enumerate(LEVELS):
                for s, sg in enumerate((1.0, -1.0)):
                    P[c, k] = sg * m * h
                    idx[k, im, s] = c
                    c += 1
        self.P, self.idx = P, idx
        self.max_elems = max_elems
        self._chunks = None

    @property
    def chunks(self):
        if self._chunks is None:
            per = self.ncopy if self.max_elems is None else max(1, int(self.max_elems // self.nel))
            self._chunks = [_Chunk(self, lo, min(lo + per, self.ncopy)) for lo in range(0, self.ncopy, per)]
        return self._chunks

    def map(self, fn):
        """fn(chunk) -> array (or tuple of arrays) with leading axis copies*nel; concatenated over the chunks."""
        res = [fn(ch) for ch in self.chunks]
        if isinstance(res[0], tuple):
            return tuple(np.concatenate([np.asarray(r[i]) for r in res], axis=0) for i in range(len(res[0])))
        return np.concatenate([np.asarray(r) for r in res], axis=0)

    def split(self, Y):
        Y = np.asarray(Y)
        return Y.reshape(self.ncopy, self.nel, *Y.shape[1:])

    def richardson(self, Y):
        """Y (ncopy*nel, ...) values on the stack -> (dY/dk extrapolated (ndof, nel, ...), truncation estimate, base Y)."""
        Yr = self.split(Y)
        D = [(Yr[self.idx[:, im, 0]] - Yr[self.idx[:, im, 1]]) / (2 * m * self.h) for im, m in enumerate(LEVELS)]
        R1 = (4 * D[0] - D[1]) / 3
        R2 = (4 * D[1] - D[2]) / 3
        return R1, np.abs(R2 - R1) / 15, Yr[0]


def tangent_stack(et, Xe, dofdim, nPg, h=H0):
    """stack whose chunks keep the implementation's per-Gauss tangent intermediates below ~100 MB."""
    ndof = Xe.shape[1] * dofdim
    return Stack(et, Xe, dofdim, max_elems=max(8, int(1.0e8 / (nPg * ndof * ndof * 8))), h=h)


def km(A, d):
    """Kelvin-Mandel vector of symmetric 3x3 tensors (..., 3, 3)."""
    s2 = np.sqrt(2.0)
    v = np.stack([A[..., 0, 0], A[..., 1, 1], A[..., 2, 2], s2 * A[..., 1, 2], s2 * A[..., 0, 2], s2 * A[..., 0, 1]], axis=-1)
    return v if d == 3 else v[..., [0, 1, 5]]


def harness_grad(g, ue, dim):
    """grad u (Ne, nPg, 3, 3), [i, j] = d u_i / d x_j, from the group's shape-function gradients (FEM layer, checked by C06/C08)."""
    from EasyFEA import MatrixType

    dN = np.asarray(g.Get_dN_e_pg(MatrixType.rigi))  # (Ne, nPg, dim, nPe)
    G = np.zeros((*dN.shape[:2], 3, 3))
    G[..., :dim, :dim] = np.einsum("eai,epja->epij", ue, dN)
    return G, dN


def state_of(g, u):
    from EasyFEA import MatrixType
    from EasyFEA.Models.HyperElastic._state import HyperElasticState

    return HyperElasticState(g, np.ascontiguousarray(u, dtype=float), MatrixType.rigi)


# ------------------------------------------------------------------------------------------------
# cases
# ------------------------------------------------------------------------------------------------
def cases(tier, seed):
    out = []
    thorough = tier == "thorough"
    # --- material level
    for law in LAWS:
        for et in BULK_TYPES:
            default_et = et == DEFAULT_ET[Z.dim_of(et)]
            if not thorough and law == "AutoDiff" and not default_et:
                continue  # quick: the jax law (3 s of compilation per case) on the default element types only
            out.append({"kind": "material", "law": law, "elemType": et, "letters": "full" if (thorough or default_et) else "reduced"})
            if law == "HolzapfelOgden" and Z.dim_of(et) == 2 and (thorough or default_et):
                # plane strain with a fibre that is not in the plane (still T1 perpendicular to T2, unit length)
                out.append({"kind": "material", "law": law, "elemType": et, "letters": "reduced", "fibres": "tilted"})
    # the matrix and right-hand side a dynamic Newton step hands to the linear solver: A = d(-b)/d u_(n+1), for every implicit scheme x
    # stress option x viscosity (Kelvin-Voigt) on a real HyperElastic simulation
    for algo, alpha in (("newmark", 0.5), ("midpoint", 0.5), ("hht", 0.05), ("hht", 0.3), ("hht_newmark", 0.2), ("euler_implicit", 0.5)):
        for stress in ("pointwise", "gonzalez", "quadrature") if algo == "midpoint" else (("pointwise", "quadrature") if algo == "hht" and alpha == 0.3 else ("pointwise",)):
            for eta in (0.0, 0.4):
                for rho_kind in ("scalar", "array"):
                    out.append({"kind": "simtangent", "algo": algo, "alpha": alpha, "stress": stress, "eta": eta, "rho": rho_kind})
    # fibre directions given as a per-Gauss-point FIELD of non-unit vectors (documented: normalised by the law)
    for et in BULK_TYPES:
        if thorough or et == DEFAULT_ET[Z.dim_of(et)] or et in ("TRI6", "TETRA4"):
            out.append({"kind": "ho_field", "law": "HolzapfelOgden", "elemType": et})
    # the integration rule of a live state changed through its setter between two reads (element types whose 'rigi' and 'mass' rules differ)
    for law in LAWS:
        for et in RETYPE_TYPES:
            if thorough or law != "AutoDiff" or et in ("TRI6", "TETRA4"):
                out.append({"kind": "retype", "law": law, "elemType": et})
    # --- operators: level of the state/variant alphabet
    def level(et, default_et, op=""):
        if thorough:
            # the 31 (pair, rule) letters of the path-quadrature operator are element independent: on the four largest
            # element types (>= 45 dofs) they are explored with the reduced alphabet
            heavy = NPE[et] * Z.dim_of(et) >= 45
            return "reduced" if (heavy and op == "TimeQuadratureStressTensor") else "full"
        return "full" if default_et else "reduced"

    for op in BULK_OPS_LAW:
        for law in LAWS:
            for et in BULK_TYPES:
                default_et = et == DEFAULT_ET[Z.dim_of(et)]
                if thorough or default_et or law == DEFAULT_LAW:
                    out.append({"kind": "operator", "op": op, "law": law, "elemType": et, "variants": level(et, default_et, op)})
    for op in BULK_OPS_NOLAW:
        for et in BULK_TYPES:
            out.append({"kind": "operator", "op": op, "law": DEFAULT_LAW, "elemType": et,
                        "variants": level(et, et == DEFAULT_ET[Z.dim_of(et)])})
    for et in SURF_TYPES:
        out.append({"kind": "operator", "op": "FollowingPressure", "law": "-", "elemType": et, "variants": "full"})
    for et in SEG_TYPES + SURF_TYPES:
        out.append({"kind": "operator", "op": "PenaltyContact", "law": "-", "elemType": et, "variants": "full"})
    # --- energy
    combos = []
    if thorough:
        for mesh in ENERGY_MESHES:
            combos.append((DEFAULT_LAW, mesh, ENERGY_V0))
        for law in LAWS:
            if law != DEFAULT_LAW:
                combos.append((law, "Q4x2", ENERGY_V0 if law not in SLOW_LAWS else ["generic"]))
    else:
        combos.append((DEFAULT_LAW, "Q4x2", ENERGY_V0))
        for law in LAWS:
            if law != DEFAULT_LAW:
                combos.append((law, "Q4x2", ["generic"]))
        for mesh in ("T3x2", "H8x2", "TET4x6", "T6x2", "Q8x2"):
            combos.append((DEFAULT_LAW, mesh, ["generic"]))
    for law, mesh, v0s in combos:
        for v0 in v0s:
            for dt in ENERGY_DT:
                for stress in ENERGY_STRESS:
                    out.append({"kind": "energy", "law": law, "mesh": mesh, "v0": v0, "dt": dt, "stress": stress,
                                "nsteps": energy_steps(tier, law, dt, stress)})
                    if law == DEFAULT_LAW and mesh == "Q4x2" and (thorough or v0 == "generic"):
                        # results stored every third step only: a step must not depend on Save_Iter having been called
                        out.append({"kind": "energy", "law": law, "mesh": mesh, "v0": v0, "dt": dt, "stress": stress,
                                    "nsteps": energy_steps(tier, law, dt, stress), "save": "third"})
    return out


def describe(tier, seed):
    thorough = tier == "thorough"
    return {
        "rule": "E1. material: one case per (law, element type); inside it EVERY letter of the deformation alphabet x EVERY element dof "
                "as perturbation direction x every Gauss point is evaluated (perturbed copies of the element are stacked in one group, "
                "so one call of the implementation serves all directions). operator: one case per (operator, law, element type); inside it "
                "every state/variant letter x every element dof. energy: one case per (law, mesh, initial velocity, dt, stress option); "
                "invariant checked after every step. retype: one case per (law, element type whose 'rigi' and 'mass' rules differ); inside it EVERY "
                "history  read X at rule A . state.matrixType = B . read Y  (A != B; X in kinematics/W/dWde/d2Wde/operator, Y in W/dWde/d2Wde/operator) "
                "on one live state, Y compared with a state constructed with rule B. non-trivial = some state of the case carries stress > 1e-3 of the reference stiffness "
                "(operator: non-zero tangent; energy: stored energy exchanged > 1e-3 E0); distinct = fingerprint of W / tangents / energy history",
        "exhaustive": True,
        "bound": ("full product law x element type x deformation alphabet x dof (+ tilted fibres on every 2D type); operators: full product "
                  "operator x law x element type x full state/variant alphabet (path quadrature on the 4 element types with >= 45 dofs: reduced "
                  "alphabet); energy: default law x 4 meshes x 3 velocities x 2 dt x 2 stresses, every other law on Q4x2 (3 velocities; HolzapfelOgden and "
                  "AutoDiff: the generic velocity), 200 steps (HolzapfelOgden/AutoDiff 100; HolzapfelOgden + quadrature + large dt 40)"
                  if thorough else
                  "deviation bound 1 from the default (MooneyRivlin, QUAD4 / HEXA8) over (law, element type), completed by the reduced-alphabet "
                  "product: every law on the default element types with the FULL deformation alphabet (57 letters in 2D, 129 in 3D); every other "
                  "element type x every shipped law with the reduced alphabet (7 letters incl. a rotated one and the inhomogeneous field; the jax law "
                  "only on the default types); operators: every law on the default types with the full state/variant alphabet, every other type with "
                  "the default law and the reduced alphabet; energy: full (velocity x dt x stress) on the default (law, mesh), (dt x stress) for every "
                  "other law and every other mesh, 20 steps"),
        "alphabet": {"laws": len(LAWS), "element_types": len(BULK_TYPES), "surface_types": len(SURF_TYPES) + len(SEG_TYPES),
                     "deformation_letters_2d": len(full_letters(2)), "deformation_letters_3d": len(full_letters(3)),
                     "rotations": len(ROTS), "operators": 7, "fd_levels": len(LEVELS),
                     "retype_element_types": len(RETYPE_TYPES), "retype_histories": 2 * len(RETYPE_FIRST) * len(RETYPE_SECOND),
                     "energy_velocities": len(ENERGY_V0), "energy_dt": len(ENERGY_DT), "energy_stress": len(ENERGY_STRESS)},
        "assumptions": [
            f"finite differences: fixed steps {H0:g}, {2 * H0:g}, {4 * H0:g} (unit-size elements; 10x smaller for the zero-step state of the "
            "Gonzalez operator, whose documented guard alpha = 0 for de.de <= 1e-10 is a kink), Richardson extrapolation of the two finest central "
            "quotients; truncation estimated by |R(2h) - R(h)|/15 and added (x4) to the tolerance; entries whose truncation estimate exceeds the "
            "1e-6 tolerance are counted as inconclusive, never as violations",
            "tolerance 1e-6 relative to (|S| + 1e-3 s0) |F| |grad du| (s0 = |D| at u = 0) for dW, to |D| |F| |grad du| for dS, to max|K_e| for tangents; "
            "1e-10 relative for objectivity; 1e-12 s0 for the reference state",
            f"admissible states: det F > {J_MIN} at every Gauss point of every state involved (u_n, u_t, u_n+1); other states are skipped and counted",
            "HolzapfelOgden: unit T1 perpendicular to unit T2; 2D: fibres in the plane, plus one case per element type with T1 raised 0.2 rad out of "
            "the plane (plane strain, C padded with C33 = 1); AutoDiff: jax float64 enabled (Enable_x64) before the law is built",
            "PenaltyContact: planar obstacle (the operator documents that curvature terms are dropped), gap bounded away from 0; "
            "FollowingPressure / PenaltyContact follow the documented slot convention K -> slot K, R -> slot F, i.e. K = -dR/du",
            "TimeQuadratureStressTensor with a tolerance: the tangent is compared only where all perturbed copies accepted the same rule",
            "energy: Newton tolerances absTol 1e-11, relTol 1e-14, incTol 1e-14, maxIter 25; a run whose Newton iteration does not converge "
            "(or meets det F <= 0) is skipped and counted; quadrature uses energyTol = 1e-10, its documented defect allowance is added, and a run "
            "that drifts after the rule reached its documented cap of 33 points is skipped and counted",
            "path-quadrature rules: exactness for polynomial stress paths is demanded with Saint-Venant-Kirchhoff (K = 0: degree 1, rules 1/2/3; "
            "K > 0: degree <= 5, rules 7/9)",
        ],
        "explanation": "Richardson differences of the implementation's own energy decide stress and tangent; difference quotients of the returned "
                       "residual decide the operator tangents; the discrete energy balance is observed over 20/200 real steps.",
    }


def run_case(case):
    try:
        return globals()["_run_" + case["kind"]](case)
    except _NoJax:
        return {"violations": [], "fingerprint": "nojax", "nontrivial": False, "outcome": "skipped", "transitions": 0,
                "skipped": "jax not installed (AutoDiff law unavailable)"}


def _cap(v, n=10):
    seen, out = set(), []
    for x in v:
        k = str(sorted(x["key"].items()))
        if k not in seen:
            seen.add(k)
            out.append(x)
    return out[:n]


# ------------------------------------------------------------------------------------------------
# material level
# ------------------------------------------------------------------------------------------------
def _np(x):
    return np.asarray(x, dtype=float)


def _eval_state(mat, law, et, dim, g0, stack, Xe, letter, s0, key, out):
    """All material-level checks at one deformation letter. Returns (W0, S0, D0) of the base elements or None (inadmissible)."""
    d = 3 if dim == 2 else 6
    name = letter_name(letter)
    ue, F = letter_field(dim, Xe, letter)
    k = dict(key, state=name)
    st0 = state_of(g0, ue.reshape(-1))
    G, dN = harness_grad(g0, ue, dim)
    Fh = np.eye(3) + G
    Jh = np.linalg.det(Fh)
    out["ops"] += 1
    if Jh.min() <= J_MIN:
        out["inadmissible"] += 1
        return None
    v = out["viol"]
    # ---- kinematics
    Fi = _np(st0.Compute_F())
    if np.abs(Fi - Fh).max() > 1e-12 * np.abs(Fh).max():
        v.append(viol("kinematics_F", f"{et} {name}: Compute_F differs from I + grad u by {np.abs(Fi - Fh).max():.2e}", **k))
    if F is not None and np.abs(Fh[..., :dim, :dim] - F).max() > 1e-11 * max(1.0, np.abs(F).max()):
        v.append(viol("kinematics_F", f"{et} {name}: homogeneous deformation u=(F-I)x not reproduced at the Gauss points "
                                      f"(err {np.abs(Fh[..., :dim, :dim] - F).max():.2e})", **k))
    Ch = np.einsum("epki,epkj->epij", Fh, Fh)
    I1h = np.trace(Ch, axis1=-2, axis2=-1)
    I2h = 0.5 * (I1h ** 2 - np.einsum("epij,epji->ep", Ch, Ch))
    I3h = np.linalg.det(Ch)
    for nm, got, want in (("J", st0.Compute_J(), Jh), ("C", st0.Compute_C(), Ch), ("E", st0.Compute_GreenLagrange(), 0.5 * (Ch - np.eye(3))),
                          ("I1", st0.Compute_I1(), I1h), ("I2", st0.Compute_I2(), I2h), ("I3", st0.Compute_I3(), I3h)):
        got = _np(got)
        if got.shape != want.shape or np.abs(got - want).max() > 1e-12 * max(1.0, np.abs(want).max()):
            v.append(viol("kinematics_" + nm, f"{et} {name}: Compute_{nm} differs from the numpy value by "
                                              f"{np.abs(got - want).max() if got.shape == want.shape else 'shape'}", **k))
    De = _np(st0.Compute_De())
    for i in range(dim):
        for j in range(dim):
            Gij = np.zeros((3, 3))
            Gij[i, j] = 1.0
            M = np.einsum("epki,kj->epij", Fh, Gij)
            want = km(0.5 * (M + M.swapaxes(-1, -2)), dim)
            if np.abs(De[..., :, i * dim + j] - want).max() > 1e-12 * max(1.0, np.abs(Fh).max()):
                v.append(viol("kinematics_De", f"{et} {name}: Compute_De column ({i},{j}) differs from KM(sym(F^T e_i x e_j))", **k))
    out["ops"] += 8
    # ---- constitutive response at the base elements
    W0, S0, D0 = _np(mat.Compute_W(st0)), _np(mat.Compute_dWde(st0)), _np(mat.Compute_d2Wde(st0))
    out["ops"] += 3
    nel, nPg = Jh.shape
    if W0.shape != (nel, nPg) or S0.shape != (nel, nPg, d) or D0.shape[-2:] != (d, d):
        v.append(viol("shape", f"{et} {name}: W {W0.shape} S {S0.shape} D {D0.shape}", **k))
        return None
    D0 = np.broadcast_to(D0, (nel, nPg, d, d))
    if not (np.all(np.isfinite(W0)) and np.all(np.isfinite(S0)) and np.all(np.isfinite(D0))):
        v.append(viol("nonfinite", f"{et} {name}: W, dWde or d2Wde not finite at an admissible state (min J = {Jh.min():.3f})", **k))
        return None
    asym = np.abs(D0 - D0.swapaxes(-1, -2)).max()
    if asym > 1e-10 * max(np.abs(D0).max(), s0):
        v.append(viol("tangent_symmetry", f"{et} {name}: d2Wde not symmetric (max asymmetry {asym:.2e}, |D| {np.abs(D0).max():.2e})", **k))
    # ---- reference state
    if letter[0].startswith("diag:") and set(letter[0][5:].split(",")) == {"1.0"} and letter[1] == "R0":
        if np.abs(W0).max() > 1e-12 * s0:
            v.append(viol("reference_energy", f"{et}: W(u=0) = {np.abs(W0).max():.3e} (stiffness scale {s0:.2e})", **key))
        if np.abs(S0).max() > 1e-12 * s0:
            v.append(viol("reference_stress", f"{et}: |S(u=0)| = {np.abs(S0).max():.3e} (stiffness scale {s0:.2e})", **key))
    # ---- derivatives along every element dof
    def both(ch):
        st = state_of(ch.g, ch.field(ue))
        return _np(mat.Compute_W(st)), _np(mat.Compute_dWde(st))

    Wall, Sall = stack.map(both)
    Wd, Wt, Wb = stack.richardson(Wall)  # (ndof, nel, nPg)
    Sd, St, Sb = stack.richardson(Sall)  # (ndof, nel, nPg, d)
    out["ops"] += 2
    out["entries"] += Wd.size
    if not (np.all(np.isfinite(Wd)) and np.all(np.isfinite(Sd))):
        v.append(viol("nonfinite", f"{et} {name}: W or dWde not finite at a perturbed state", **k))
        return W0, S0, D0
    if np.abs(Wb - W0).max() > 1e-12 * (np.abs(W0).max() + s0) or np.abs(Sb - S0).max() > 1e-12 * (np.abs(S0).max() + s0):
        v.append(viol("elementwise", f"{et} {name}: W/S of an element depend on the other elements of the group", **k))
    # dE = sym(F^T grad(du_k)),  du_k = e_i N_a   (k = a*dim + i)
    nPe = dN.shape[-1]
    dNp = np.zeros((nel, nPg, 3, nPe))
    dNp[:, :, :dim] = dN
    A = np.einsum("epim,epja->epaimj", Fh[..., :dim, :], dNp)  # (nel,nPg,nPe,dim,3,3): F[i,m] dN[j,a]
    dE = km(0.5 * (A + A.swapaxes(-1, -2)), dim)  # (nel,nPg,nPe,dim,d)
    dE = dE.reshape(nel, nPg, nPe * dim, d)
    dW_an = np.einsum("epc,epkc->kep", S0, dE)
    dS_an = np.einsum("epcd,epkd->kepc", D0, dE)
    nF = np.linalg.norm(Fh.reshape(nel, nPg, 9), axis=-1)
    nG = np.repeat(np.maximum(np.linalg.norm(dN, axis=2), 1e-3), dim, axis=-1)  # (nel,nPg,ndof); floor: nodes whose gradient vanishes at a point
    sc = (nF[..., None] * nG).transpose(2, 0, 1)  # (ndof,nel,nPg)
    nS = np.linalg.norm(S0, axis=-1)
    nD = np.abs(D0).reshape(nel, nPg, -1).max(axis=-1)
    tolW0 = TOL_FD * (nS + 1e-3 * s0)[None] * sc
    tolW = tolW0 + 4 * Wt + 16 * EPS / H0 * (np.abs(W0)[None] + s0)
    errW = np.abs(Wd - dW_an)
    out["inconclusive"] += int(np.sum(4 * Wt > tolW - 4 * Wt))  # truncation estimate dominates the tolerance
    out["trunc"] = max(out["trunc"], float(np.max(Wt / (tolW0 / TOL_FD))))
    bad = errW > tolW
    if bad.any():
        i = np.unravel_index(np.argmax(errW / tolW), errW.shape)
        v.append(viol("stress_is_dW", f"{et} {law} {name}: dW along element dof {i[0]} (node {i[0] // dim}, comp {i[0] % dim}) at element {i[1]}, "
                                      f"Gauss point {i[2]}: Richardson difference of Compute_W = {Wd[i]:.9e}, S:dE = {dW_an[i]:.9e} "
                                      f"(tol {tolW[i]:.2e}, truncation est. {Wt[i]:.1e}); {int(bad.sum())} of {bad.size} entries fail", **k))
    tolS0 = TOL_FD * (nD[None] * sc)[..., None]
    tolS = tolS0 + 4 * St + 16 * EPS / H0 * (np.abs(S0)[None] + s0)
    errS = np.abs(Sd - dS_an)
    out["inconclusive"] += int(np.sum(4 * St > tolS - 4 * St))
    out["trunc"] = max(out["trunc"], float(np.max(St / (tolS0 / TOL_FD))))
    bad = errS > tolS
    if bad.any():
        i = np.unravel_index(np.argmax(errS / tolS), errS.shape)
        v.append(viol("tangent_is_dS", f"{et} {law} {name}: dS[{i[3]}] along element dof {i[0]} at element {i[1]}, Gauss point {i[2]}: "
                                       f"Richardson difference of Compute_dWde = {Sd[i]:.9e}, (D:dE) = {dS_an[i]:.9e} "
                                       f"(tol {tolS[i]:.2e}); {int(bad.sum())} of {bad.size} entries fail", **k))
    return W0, S0, D0


def _run_material(case):
    law, et = case["law"], case["elemType"]
    dim = Z.dim_of(et)
    X, con = template(et)
    Xe = X[con]
    g0 = make_group(et, Xe)
    stack = Stack(et, Xe, dim)
    tilted = case.get("fibres") == "tilted"
    mat = make_law(law, dim, tilted)
    key = dict(law=law, elemType=et)
    if tilted:
        key["fibres"] = "tilted"
    out = {"viol": [], "ops": 0, "entries": 0, "inconclusive": 0, "inadmissible": 0, "trunc": 0.0}
    D_ref = _np(mat.Compute_d2Wde(state_of(g0, np.zeros(Xe.shape[0] * Xe.shape[1] * dim))))
    if not np.all(np.isfinite(D_ref)) or np.abs(D_ref).max() <= 0:
        return {"violations": [viol("nonfinite", f"{et} {law}: d2Wde at u = 0 is not finite / zero", **key)], "fingerprint": "nan"}
    s0 = float(np.abs(D_ref).max())
    letters = full_letters(dim) if case["letters"] == "full" else reduced_letters(dim)
    ref = {}
    obs = []
    stressed = False
    for letter in letters:
        res = _eval_state(mat, law, et, dim, g0, stack, Xe, letter, s0, key, out)
        if res is None:
            continue
        W0, S0, D0 = res
        stressed = stressed or np.abs(S0).max() > 1e-3 * s0
        obs.append(float(W0.mean()))
        b, r = letter
        if r == "R0":
            ref[b] = res
        elif b in ref:
            Wr, Sr, Dr = ref[b]
            k = dict(key, state=letter_name(letter))
            for nm, a, c, floor in (("W", W0, Wr, 1e-12 * s0), ("S", S0, Sr, 1e-11 * s0), ("D", D0, Dr, 1e-10 * s0)):
                err = np.abs(a - c).max()
                if err > 1e-10 * np.abs(c).max() + floor:
                    out["viol"].append(viol("objectivity", f"{et} {law}: {nm}(QF) differs from {nm}(F) by {err:.3e} (|{nm}| = {np.abs(c).max():.3e}) "
                                                           f"for F = {b}, Q = {r}", quantity=nm, **k))
    ninc = out["inconclusive"]
    return {"violations": _cap(out["viol"]), "fingerprint": fp(law, et, case["letters"], tilted, np.array(obs)), "nontrivial": stressed,
            "transitions": out["ops"], "states": len(obs),
            "outcome": "violation" if out["viol"] else ("ok" if not ninc else "ok_some_entries_inconclusive"),
            "skipped": None if obs else "no admissible state",
            "info": {"entries": out["entries"], "inconclusive_entries": ninc, "max_truncation_rel": out["trunc"], "inadmissible": out["inadmissible"]}}


def _run_simtangent(case):
    from EasyFEA import AlgoType, Models, Simulations
    from EasyFEA.Simulations.Solvers import ResolType

    key = dict(kind="simtangent", algo=case["algo"], alpha=case["alpha"], stress=case["stress"], eta=case["eta"], rho=case["rho"])
    def build(rho):
        mesh_ = Z.template_2d("QUAD4", k=(2, 1), distort=True).build()
        mat_ = Models.HyperElastic.NeoHookean(2, K=3.0, thickness=1.7)
        mat_.eta = case["eta"]
        s_ = Simulations.HyperElastic(mesh_, mat_, verbosity=False)
        s_.rho = rho
        s_.Solver_Set_Hyperbolic_Algorithm(0.07, algo=AlgoType[case["algo"]], alpha=case["alpha"])
        if case["stress"] == "gonzalez":
            s_.Solver_Set_Stress(s_.StressType.gonzalez)
        elif case["stress"] == "quadrature":
            s_.Solver_Set_Stress(s_.StressType.quadrature, nPoints=3)
        return s_, mesh_

    # density: a scalar, or the same value given as one entry per element (both must describe the same body)
    simu, mesh = build(0.8 if case["rho"] == "scalar" else np.full(2, 0.8))
    setter = getattr(simu, "_Simu__Solver_Set_Newton_Raphson_current_solution", None)
    if setter is None or not hasattr(simu, "_Solver_Apply_Neumann") or not hasattr(simu, "_Solver_Apply_Dirichlet"):
        return {"violations": [], "skipped": "private solver seams not available", "fingerprint": "na", "nontrivial": False, "transitions": 0}
    pt = simu.problemType
    n = mesh.Nn * 2
    r = rng("c18simtangent", case["algo"], case["stress"])
    simu._Set_solutions(pt, r.standard_normal(n) * 0.03, r.standard_normal(n) * 0.3, r.standard_normal(n) * 0.5)
    u = np.asarray(simu._Get_u_n(pt), dtype=float) + r.standard_normal(n) * 0.02

    def system(u_np1):
        simu.Need_Update()
        setter(u_np1.copy())
        b = simu._Solver_Apply_Neumann(pt)
        A, _ = simu._Solver_Apply_Dirichlet(pt, b, ResolType.r1)
        return A.toarray(), np.asarray(b.todense()).ravel()

    A, b0 = system(u)
    v = []
    if case["rho"] == "array":
        twin, _ = build(0.8)
        twin._Set_solutions(pt, *[np.asarray(x, dtype=float).copy() for x in (simu._Get_u_n(pt), simu._Get_v_n(pt), simu._Get_a_n(pt))])
        twin.Need_Update()
        getattr(twin, "_Simu__Solver_Set_Newton_Raphson_current_solution")(u.copy())
        bt = twin._Solver_Apply_Neumann(pt)
        At, _ = twin._Solver_Apply_Dirichlet(pt, bt, ResolType.r1)
        eA = float(np.abs(At.toarray() - A).max()) / float(np.abs(A).max())
        eb = float(np.abs(np.asarray(bt.todense()).ravel() - b0).max()) / max(float(np.abs(b0).max()), 1e-300)
        if eA > 1e-12 or eb > 1e-12:
            v.append(viol("density_form", f"{case['algo']}, stress {case['stress']}, eta {case['eta']}: the step system built with the density given as a uniform per-element "
                                          f"array differs from the one built with the same scalar density (A: {eA:.2e}, b: {eb:.2e})", **key))
    h = 1e-5
    J1, J2 = np.zeros((n, n)), np.zeros((n, n))
    for j in range(n):
        e = np.zeros(n)
        e[j] = 1.0
        J1[:, j] = -(system(u + h * e)[1] - system(u - h * e)[1]) / (2 * h)
        J2[:, j] = -(system(u + 2 * h * e)[1] - system(u - 2 * h * e)[1]) / (4 * h)
    J = (4 * J1 - J2) / 3  # Richardson
    sc = float(np.abs(J).max())
    err = float(np.abs(A - J).max()) / sc
    trunc = float(np.abs(J1 - J2).max()) / sc
    if err > max(1e-6, 10 * trunc ** 2):
        i, j = np.unravel_index(np.argmax(np.abs(A - J)), A.shape)
        v.append(viol("system_tangent", f"{case['algo']} (alpha={case['alpha']}), stress {case['stress']}, eta {case['eta']}, density {case['rho']}: the matrix handed to the linear "
                                        f"solver differs from d(-b)/d u_(n+1) by {err:.2e} (relative; entry [{i},{j}]: {A[i, j]:.8g} vs {J[i, j]:.8g})", **key))
    # the inertia carried by the system: M sums to density x measure x thickness per direction (read through the scheme weight coefM)
    return {"violations": v, "fingerprint": fp("simtangent", case, np.round(A, 8)), "nontrivial": True, "transitions": 4 * n + 1, "outcome": "ok" if not v else "violation"}


def _run_ho_field(case):
    """HolzapfelOgden built with T1, T2 as (Ne, nPg, 3) fields of NON-unit vectors (same directions as the uniform law, lengths varying
    per element and Gauss point): energy and stress vanish in the reference configuration and W, S, D equal those of the uniform law."""
    from EasyFEA import MatrixType, Models
    from EasyFEA.FEM import FeArray

    et = case["elemType"]
    dim = Z.dim_of(et)
    X, con = template(et)
    Xe = X[con]
    g0 = make_group(et, Xe)
    nel = Xe.shape[0]
    nPg = g0.Get_gauss(MatrixType.rigi).nPg
    T1, T2 = fibres(dim)
    r = rng("c18hofield", et)
    f1 = FeArray.asfearray(T1[None, None, :] * r.uniform(0.5, 2.0, size=(nel, nPg, 1)))
    f2 = FeArray.asfearray(T2[None, None, :] * r.uniform(0.5, 2.0, size=(nel, nPg, 1)))
    par = dict(C0=0.6, C1=1.1, C2=0.8, C3=0.9, C4=0.5, C5=0.7, C6=0.3, C7=0.6, K=2.5, Mu1=0.4, Mu2=0.3, thickness=THICKNESS)
    key = dict(law="HolzapfelOgden", elemType=et, fibres="field")
    v, obs, ntr = [], [], 0
    try:
        matF = Models.HyperElastic.HolzapfelOgden(dim, T1=f1, T2=f2, **par)
    except Exception as err:
        return {"violations": [], "skipped": f"fibre fields refused: {type(err).__name__}", "fingerprint": "refused", "nontrivial": False, "transitions": 0}
    matU = make_law("HolzapfelOgden", dim)
    # ... and the same non-unit directions assigned through the public attributes of a law constructed with other (unit) directions
    matS = Models.HyperElastic.HolzapfelOgden(dim, T1=T2.copy(), T2=T1.copy(), **par)
    matS.T1 = 1.2 * T1
    matS.T2 = 0.7 * T2
    S = _bulk_states(dim, Xe)
    s0 = float(np.abs(_np(matU.Compute_d2Wde(state_of(g0, np.zeros(nel * Xe.shape[1] * dim))))).max())
    for name in ("zero", "inhA", "homF1"):
        if name not in S or not _admissible(g0, S[name], dim):
            continue
        u = _vec(S[name])
        for nm, fn in (("W", "Compute_W"), ("S", "Compute_dWde"), ("D", "Compute_d2Wde")):
            b = _np(getattr(matU, fn)(state_of(g0, u)))
            for how, mat in (("field", matF), ("setter", matS)):
                a = _np(getattr(mat, fn)(state_of(g0, u)))
                ntr += 2
                sc = s0 if nm != "W" else s0
                err = float(np.abs(a - b).max()) if a.shape == b.shape else np.inf
                obs.append(float(np.abs(b).max()))
                if err > 1e-10 * sc:
                    what = "fibre fields of non-unit vectors" if how == "field" else "non-unit fibre directions assigned through mat.T1 / mat.T2"
                    v.append(viol("fibre_field", f"HolzapfelOgden {et} at {name}: {nm} with {what} differs from {nm} with the same uniform unit "
                                                 f"directions by {err:.3e} (scale {sc:.3e})" + ("; the reference configuration is not energy/stress free" if name == "zero" else ""),
                                  quantity=nm, state=name, **dict(key, fibres=how)))
    return {"violations": _cap(v), "fingerprint": fp("ho_field", et, np.array(obs)), "nontrivial": True, "transitions": ntr, "outcome": "ok" if not v else "violation"}


RETYPE_TYPES = ["TRI3", "TRI6", "TRI10", "TRI15", "QUAD8", "TETRA4", "TETRA10"]  # 'rigi' and 'mass' rules have different points
RETYPE_FIRST = ["kin", "W", "S", "D", "op"]
RETYPE_SECOND = ["W", "S", "D", "op"]


def _run_retype(case):
    """Every history  read X at rule A . state.matrixType = B . read Y  (A != B in {rigi, mass}; X in kinematics / W / dWde / d2Wde /
    SecondPiolaKirchhoffStressTensor, Y in W / dWde / d2Wde / the operator) on one live state: Y is what a state constructed with rule B gives."""
    from EasyFEA import MatrixType
    from EasyFEA.FEM import Operators
    from EasyFEA.Models.HyperElastic._state import HyperElasticState

    law, et = case["law"], case["elemType"]
    dim = Z.dim_of(et)
    X, con = template(et)
    Xe = X[con]
    g0 = make_group(et, Xe)
    mat = make_law(law, dim)
    key = dict(kind="retype", law=law, elemType=et)
    fe = _bulk_states(dim, Xe)["inhA"]
    if not _admissible(g0, fe, dim):
        return {"violations": [], "fingerprint": "inadmissible", "nontrivial": False, "transitions": 0, "outcome": "skipped", "skipped": "state not admissible"}
    u = _vec(fe)
    s0 = float(np.abs(_np(mat.Compute_d2Wde(state_of(g0, np.zeros_like(u))))).max())

    def read(st, what):
        if what == "kin":
            return [_np(st.Compute_F()), _np(st.Compute_J()), _np(st.Compute_C()), _np(st.Compute_I1()), _np(st.Compute_I2()), _np(st.Compute_I3()), _np(st.Compute_De())]
        if what == "op":
            return [_np(a) for a in Operators.NonLinear.SecondPiolaKirchhoffStressTensor(mat, st)]
        return [_np(getattr(mat, {"W": "Compute_W", "S": "Compute_dWde", "D": "Compute_d2Wde"}[what])(st))]

    rules = {"rigi": MatrixType.rigi, "mass": MatrixType.mass}
    fresh = {(b, y): read(HyperElasticState(g0, u.copy(), rules[b]), y) for b in rules for y in RETYPE_SECOND}
    differ = any(a.shape != b.shape or np.abs(a - b).max() > 1e-6 * s0 for y in RETYPE_SECOND for a, b in zip(fresh[("rigi", y)], fresh[("mass", y)]))
    bad, ntr, obs = [], 2 * len(RETYPE_SECOND), []
    for a, b in (("rigi", "mass"), ("mass", "rigi")):
        for x in RETYPE_FIRST:
            for y in RETYPE_SECOND:
                st = HyperElasticState(g0, u.copy(), rules[a])
                read(st, x)
                st.matrixType = rules[b]
                ntr += 3
                try:
                    got = read(st, y)
                except Exception as err:
                    bad.append(f"{x}@{a} -> {y}@{b}: raised {type(err).__name__}: {str(err)[:80]}")
                    continue
                want = fresh[(b, y)]
                sc = max(max(np.abs(w).max() for w in want), s0 if y != "op" else 0.0)
                for g_, w in zip(got, want):
                    if g_.shape != w.shape:
                        bad.append(f"{x}@{a} -> {y}@{b}: shape {g_.shape}, a state built with '{b}' gives {w.shape}")
                        break
                    e = float(np.abs(g_ - w).max())
                    if e > 1e-12 * sc:
                        bad.append(f"{x}@{a} -> {y}@{b}: differs from a state built with '{b}' by {e:.3e} (scale {sc:.2e})")
                        break
                obs.append(float(np.abs(got[0]).sum()))
    v = []
    if bad:
        v.append(viol("retype_stale", f"{law} {et}: after state.matrixType = <other rule> the live state does not give the values of the new rule in {len(bad)} of "
                                      f"{2 * len(RETYPE_FIRST) * len(RETYPE_SECOND)} histories (read@rule -> read@rule), e.g. {bad[0]}", **key))
    return {"violations": v, "fingerprint": fp("retype", law, et, np.array(obs)), "nontrivial": bool(differ), "transitions": ntr, "states": len(obs),
            "outcome": "violation" if v else "ok"}


# ------------------------------------------------------------------------------------------------
# operators
# ------------------------------------------------------------------------------------------------
def _compare_tangent(stack, K0, R_all, what, key, v, info, sign=1.0, check_base=None):
    """K0 (nel, ndof, ndof) analytic tangent (already scaled to dR/du_step) vs Richardson difference quotient of R over the stack."""
    Kfd, Kt, Rb = stack.richardson(R_all)  # (ndof[k], nel, ndof[row])
    Kfd = sign * Kfd.transpose(1, 2, 0)  # (nel, row, k)
    Kt = Kt.transpose(1, 2, 0)
    K0 = np.asarray(K0, dtype=float)
    if K0.shape != Kfd.shape:
        v.append(viol("tangent_shape", f"{what}: tangent {K0.shape}, expected {Kfd.shape}", **key))
        return
    if not (np.all(np.isfinite(K0)) and np.all(np.isfinite(Kfd))):
        v.append(viol("nonfinite", f"{what}: tangent or residual not finite", **key))
        return
    if check_base is not None and np.abs(Rb - check_base).max() > 1e-11 * (np.abs(check_base).max() + 1e-300):
        v.append(viol("elementwise", f"{what}: residual of an element depends on the other elements of the group", **key))
    sc = np.maximum(np.abs(Kfd).max(axis=(1, 2)), np.abs(K0).max(axis=(1, 2)))[:, None, None]
    rmag = np.abs(Rb).max(axis=1)[:, None, None]
    tol0 = TOL_FD * sc
    tol = tol0 + 4 * Kt + 64 * EPS / stack.h * (rmag + 1e-3 * sc) + 1e-300
    err = np.abs(K0 - Kfd)
    info["entries"] += err.size
    info["inconclusive"] += int(np.sum(4 * Kt > tol - 4 * Kt))  # truncation estimate dominates the tolerance
    if sc.max() > 0:
        info["trunc"] = max(info["trunc"], float(np.max(Kt / np.maximum(sc, 1e-300))))
    info["nonzero"] = info["nonzero"] or bool(sc.max() > 0)
    info["obs"].append(float(np.abs(K0).sum()))
    bad = err > tol
    if bad.any():
        i = np.unravel_index(np.argmax(err / tol), err.shape)
        v.append(viol("tangent_is_dR", f"{what}: element {i[0]} K[{i[1]},{i[2]}] = {K0[i]:.9e} but dR[{i[1]}]/du[{i[2]}] = {Kfd[i]:.9e} "
                                       f"(tol {tol[i]:.2e}, max|K| {sc[i[0], 0, 0]:.3e}, truncation est. {Kt[i]:.1e}); "
                                       f"{int(bad.sum())} of {bad.size} entries fail", **key))


def _bulk_states(dim, Xe):
    """named displacement fields (nel, nPe, dim) used as evaluation states of the bulk operators."""
    F1 = rot_matrix(dim, "Rgen") @ base_matrix(dim, "gen0")
    # a second homogeneous state a finite (not small) step away from the first: (I + 0.3 G) F1, |G| <= 1
    F2 = (np.eye(dim) + 0.3 * rng("c18step", dim).uniform(-1, 1, size=(dim, dim))) @ F1
    return {
        "zero": np.zeros((*Xe.shape[:2], dim)),
        "homF1": homog_field(dim, Xe, F1),
        "homF2": homog_field(dim, Xe, F2),
        "inhA": inhom_field(dim, Xe, "A"),
        "inhB": inhom_field(dim, Xe, "B", amp=1.3),
    }


# state / variant alphabets of the operator checks per level
SPK_STATES = {"full": ["zero", "homF1", "inhA", "inhB"], "reduced": ["homF1", "inhA"]}
PAIRS = {"full": [("zero", "inhB"), ("inhA", "inhB"), ("homF1", "homF2"), ("inhA", "inhA")],
         "reduced": [("inhA", "inhB"), ("homF1", "homF2")]}
# (coefK, nPoints, energyTol); the adaptive rule (energyTol) is paired with coefK != 1/2 too (newmark: 1, hht: 1 - alpha)
TQ_VARIANTS = {"full": [(0.5, 1, None), (0.5, 2, None), (0.5, 3, None), (0.5, 5, None), (1.0, 3, None), (0.7, 3, None), (0.5, 3, 1e-6), (0.5, 3, 1e-10),
                        (1.0, 3, 1e-8), (0.7, 2, 1e-6)],
               "reduced": [(0.5, 3, None), (0.7, 2, None), (0.5, 3, 1e-8), (1.0, 3, 1e-8), (0.7, 2, 1e-6)]}
NOLAW_STATES = {"full": ["zero", "homF1", "inhA"], "reduced": ["homF1", "inhA"]}


def _vec(fe):
    return np.ascontiguousarray(fe.reshape(-1))


def _admissible(g0, fe, dim):
    G, _ = harness_grad(g0, fe, dim)
    return np.linalg.det(np.eye(3) + G).min() > J_MIN


def _dEdE(g, Un, U1, dim):
    """|E(u_n+1) - E(u_n)|^2 at the Gauss points of group g (harness kinematics)."""
    nPe = g.nPe
    Gn, _ = harness_grad(g, Un.reshape(-1, nPe, dim), dim)
    G1, _ = harness_grad(g, U1.reshape(-1, nPe, dim), dim)
    Fn, F1 = np.eye(3) + Gn, np.eye(3) + G1
    dE = 0.5 * (np.einsum("epki,epkj->epij", F1, F1) - np.einsum("epki,epkj->epij", Fn, Fn))
    return np.einsum("epij,epij->ep", dE, dE)


def _new_info():
    return {"entries": 0, "inconclusive": 0, "trunc": 0.0, "nonzero": False, "obs": [], "kinks": 0, "inadmissible": 0}


def _op_result(tag, v, info, ntr, skipped_msg):
    return {"violations": _cap(v), "fingerprint": fp(*tag, np.array(info["obs"])), "nontrivial": info["nonzero"],
            "transitions": ntr, "states": len(info["obs"]),
            "outcome": "violation" if v else ("ok" if not (info["kinks"] or info["inconclusive"] or info["inadmissible"]) else "ok_some_variants_inconclusive"),
            "skipped": None if info["obs"] or v else skipped_msg,
            "info": {k: info[k] for k in ("entries", "inconclusive", "trunc", "kinks", "inadmissible")}}


def _run_operator(case):
    op = case["op"]
    if op in SURF_OPS:
        return globals()["_op_" + op](case)
    from EasyFEA import MatrixType
    from EasyFEA.FEM import FeArray, Operators

    NL = Operators.NonLinear
    law, et, level = case["law"], case["elemType"], case["variants"]
    dim = Z.dim_of(et)
    X, con = template(et)
    Xe = X[con]
    nel = Xe.shape[0]
    g0 = make_group(et, Xe)
    wJ = _np(g0.Get_weightedJacobian_e_pg(MatrixType.rigi))
    stack = tangent_stack(et, Xe, dim, wJ.shape[1])
    mat = make_law(law, dim)
    S = _bulk_states(dim, Xe)
    adm = {n: _admissible(g0, f, dim) for n, f in S.items()}
    v = []
    info = _new_info()
    key = dict(op=op, law=law, elemType=et)
    ntr = 0
    thick = THICKNESS if dim == 2 else 1.0

    _small = []

    def small_stack():
        if not _small:
            _small.append(tangent_stack(et, Xe, dim, wJ.shape[1], h=H0 / 10))
        return _small[0]

    if op == "SecondPiolaKirchhoffStressTensor":
        # E2, depth 3: evaluate, change the node coordinates of the SAME element group (rotation + stretch), evaluate again: the
        # element arrays must be those of a freshly built group with the new coordinates
        name = "inhA" if adm.get("inhA") else next((n for n in S if adm[n] and n != "zero"), None)
        if name is not None:
            u = _vec(S[name])
            gm = make_group(et, Xe)
            NL.SecondPiolaKirchhoffStressTensor(mat, state_of(gm, u))
            Rm = Z.rot3([0.3, -0.5, 1.0] if dim == 3 else [0.0, 0.0, 1.0], 0.9)
            Xn = (Xe.reshape(-1, 3) * np.array([1.0, 1.15, 0.9])) @ Rm.T
            gm.coord = Xn.copy()
            Ka, Ra = NL.SecondPiolaKirchhoffStressTensor(mat, state_of(gm, u))
            Kb, Rb = NL.SecondPiolaKirchhoffStressTensor(mat, state_of(make_group(et, Xn.reshape(Xe.shape)), u))
            ntr += 3
            sck = max(float(np.abs(np.asarray(Kb)).max()), 1e-300)
            scr = max(float(np.abs(np.asarray(Rb)).max()), 1e-300)
            ek, er = float(np.abs(np.asarray(Ka) - np.asarray(Kb)).max()) / sck, float(np.abs(np.asarray(Ra) - np.asarray(Rb)).max()) / scr
            if ek > 1e-11 or er > 1e-11:
                v.append(viol("stale_after_coord_change", f"{op} {law} {et} at {name}: after the coordinates of the group were changed, K_e / R_e differ from those "
                                                          f"of a freshly built group by {ek:.2e} / {er:.2e}", **dict(key, state=name)))
        for name in SPK_STATES[level]:
            if not adm[name]:
                info["inadmissible"] += 1
                continue
            K0, R0 = NL.SecondPiolaKirchhoffStressTensor(mat, state_of(g0, _vec(S[name])))
            R = stack.map(lambda ch: NL.SecondPiolaKirchhoffStressTensor(mat, state_of(ch.g, ch.field(S[name])))[1])
            ntr += 1 + len(stack.chunks)
            _compare_tangent(stack, K0, R, f"{op} {law} {et} at {name}", dict(key, state=name), v, info, check_base=R0)

    elif op in ("GonzalezStressTensor", "TimeQuadratureStressTensor"):
        gonz = op == "GonzalezStressTensor"
        variants = [(0.5, 0, None)] if gonz else TQ_VARIANTS[level]
        for ip, (a, b) in enumerate(PAIRS[level]):
            if not (adm[a] and adm[b]):
                info["inadmissible"] += 1
                continue
            un, un1 = S[a], S[b]
            for iv, (coefK, nPoints, tol) in enumerate(variants):
                if not gonz and level != "full" and ip > 0 and iv > 0:
                    continue  # reduced: all variants on the first pair, the first variant on the others
                if not _admissible(g0, un + coefK * (un1 - un), dim):
                    info["inadmissible"] += 1
                    continue

                def three(g, Un, U1):
                    return state_of(g, Un), state_of(g, Un + coefK * (U1 - Un)), state_of(g, U1)

                k = dict(key, state=f"{a}->{b}")
                if gonz:
                    # the documented guard "alpha = 0 where de.de <= 1e-10" is a kink of R: the difference quotient is formed only if
                    # every copy of the stencil lies on the same side of it at every Gauss point (a zero step uses a 10x smaller h)
                    stk = stack if a != b else small_stack()
                    K0, R0 = NL.GonzalezStressTensor(mat, *three(g0, _vec(un), _vec(un1)), True)
                    Ka, Ra = NL.GonzalezStressTensor(mat, *three(g0, _vec(un), _vec(un1)), False)
                    ntr += 2
                    what = f"{op} {law} {et} {a}->{b}"
                    if not np.array_equal(np.asarray(R0), np.asarray(Ra)):
                        v.append(viol("gonzalez_flag_changes_residual", f"{what}: useConsistentTangent changed the residual", **k))
                    side = stk.split(stk.map(lambda ch: _dEdE(ch.g, ch.tile(un), ch.field(un1), dim)))  # (ncopy, nel, nPg)
                    if np.any((side > 1e-10) != (side[0] > 1e-10)[None]) or np.any(np.abs(side - 1e-10) < 2e-11):
                        info["kinks"] += 1
                    else:
                        R = stk.map(lambda ch: NL.GonzalezStressTensor(mat, *three(ch.g, ch.tile(un), ch.field(un1)), True)[1])
                        ntr += len(stk.chunks)
                        _compare_tangent(stk, 0.5 * np.asarray(K0), R, what, k, v, info, check_base=R0)
                    ok_dir = True
                else:
                    K0, R0, n0 = NL.TimeQuadratureStressTensor(mat, *three(g0, _vec(un), _vec(un1)), coefK, nPoints, tol)
                    R, nS = stack.map(lambda ch: NL.TimeQuadratureStressTensor(mat, *three(ch.g, ch.tile(un), ch.field(un1)), coefK, nPoints, tol)[1:])
                    ntr += 1 + len(stack.chunks)
                    k["variant"] = f"coefK={coefK},nPoints={nPoints},tol={tol}"
                    what = f"{op} {law} {et} {a}->{b} ({k['variant']})"
                    nSr = np.asarray(nS).reshape(stack.ncopy, stack.nel)
                    ok_dir = bool(np.all(np.asarray(n0) < 33))
                    if tol is not None and not np.all(nSr == nSr[0][None]):
                        info["kinks"] += 1  # the accepted rule changes inside the stencil: R is not differentiable there
                    else:
                        _compare_tangent(stack, coefK * np.asarray(K0), R, what, k, v, info, check_base=R0)
                # discrete-gradient property R . du = dW (element level): the mechanism of the energy balance
                if a != b and abs(coefK - 0.5) < 1e-15 and (gonz or tol is not None) and ok_dir:
                    Wn, W1 = _np(mat.Compute_W(state_of(g0, _vec(un)))), _np(mat.Compute_W(state_of(g0, _vec(un1))))
                    dWe = thick * np.sum(wJ * (W1 - Wn), axis=1)
                    work = np.einsum("ei,ei->e", np.asarray(R0), (un1 - un).reshape(nel, -1))
                    allow = 1e-9 * thick * np.sum(wJ * (np.abs(W1) + np.abs(Wn)), axis=1) + 1e-300
                    if tol is not None:
                        allow = allow + tol * thick * np.sum(wJ * np.abs(W1 - Wn), axis=1)
                    if np.any(np.abs(work - dWe) > allow):
                        e = int(np.argmax(np.abs(work - dWe) / allow))
                        v.append(viol("discrete_gradient", f"{what}: element {e}: R.du = {work[e]:.12e} but the stored-energy increment is "
                                                           f"{dWe[e]:.12e} (allowed {allow[e]:.2e})", **k))

        # polynomial exactness of the path quadrature ("a quadratic W is exact at every rule"): along the straight strain path the
        # Saint-Venant-Kirchhoff stress is linear in s when K = 0 (exact for every point count; 1..6 are run, even counts included) and of degree <= 5 with the
        # K (I3 - 1)^2 / 2 term (exact for >= 7 points), so R . du must equal the stored-energy increment to round-off.
        if not gonz and law == "SaintVenantKirchhoff":
            from EasyFEA import Models

            quad_law = Models.HyperElastic.SaintVenantKirchhoff(dim, lmbda=1.2, mu=0.8, K=0.0, thickness=THICKNESS)
            for (a, b) in PAIRS[level]:
                if a == b or not (adm[a] and adm[b] and _admissible(g0, 0.5 * (S[a] + S[b]), dim)):
                    continue
                un, un1 = S[a], S[b]
                for m_, nPoints in [(quad_law, 1), (quad_law, 2), (quad_law, 3), (quad_law, 4), (quad_law, 5), (quad_law, 6), (mat, 7), (mat, 8), (mat, 9)]:
                    sts = state_of(g0, _vec(un)), state_of(g0, _vec(0.5 * (un + un1))), state_of(g0, _vec(un1))
                    _, Rq, _ = NL.TimeQuadratureStressTensor(m_, *sts, 0.5, nPoints, None)
                    ntr += 1
                    Wn, W1 = _np(m_.Compute_W(state_of(g0, _vec(un)))), _np(m_.Compute_W(state_of(g0, _vec(un1))))
                    dWe = thick * np.sum(wJ * (W1 - Wn), axis=1)
                    work = np.einsum("ei,ei->e", np.asarray(Rq), (un1 - un).reshape(nel, -1))
                    allow = 1e-9 * thick * np.sum(wJ * (np.abs(W1) + np.abs(Wn)), axis=1) + 1e-300
                    if np.any(np.abs(work - dWe) > allow):
                        e = int(np.argmax(np.abs(work - dWe) / allow))
                        v.append(viol("quadrature_exactness", f"{op} {et} {a}->{b}: {nPoints}-point rule, polynomial stress of degree "
                                                              f"{'1' if m_ is quad_law else '<= 5'} along the strain path: R.du = {work[e]:.12e} but the "
                                                              f"stored-energy increment is {dWe[e]:.12e} (allowed {allow[e]:.2e})",
                                      **dict(key, state=f"{a}->{b}", variant=f"nPoints={nPoints},K={'0' if m_ is quad_law else '0.5'}")))

    elif op == "ActiveStressTensor":
        nPg = wJ.shape[1]
        r = rng("c18active", et)
        T = r.normal(size=(nel, nPg, 3))
        tau_f = r.uniform(0.3, 1.2, size=(nel, nPg))

        def active(g, u, variant, rep):
            mat.Set_active_stress_vec(FeArray.asfearray(rep(T).copy()))
            mat.active_stress = 0.8 if variant == "scalar" else rep(tau_f).copy()
            return NL.ActiveStressTensor(mat, state_of(g, u))

        for variant in ("scalar", "field"):
            for name in NOLAW_STATES[level]:
                if not adm[name]:
                    info["inadmissible"] += 1
                    continue
                k = dict(key, state=name, variant=variant)
                K0, R0 = active(g0, _vec(S[name]), variant, lambda a: a)
                R = stack.map(lambda ch: active(ch.g, ch.field(S[name]), variant, ch.rep)[1])
                ntr += 1 + len(stack.chunks)
                _compare_tangent(stack, K0, R, f"{op} {et} at {name} ({variant} magnitude)", k, v, info, check_base=R0)
        # it must stay out of the constitutive stress
        mat.Set_active_stress_vec(FeArray.asfearray(T.copy()))
        mat.active_stress = 0.8
        Sa = _np(mat.Compute_dWde(state_of(g0, _vec(S["inhA"]))))
        mat.active_stress = 0.0
        if not np.array_equal(Sa, _np(mat.Compute_dWde(state_of(g0, _vec(S["inhA"]))))):
            v.append(viol("active_stress_in_dWde", f"{et}: Compute_dWde changes with active_stress", **key))

    elif op == "KelvinVoigtDamping":
        mat.eta = 0.7
        vel = inhom_field(dim, Xe, "velocity", amp=4.0)
        for name in NOLAW_STATES[level]:
            if not adm[name]:
                info["inadmissible"] += 1
                continue
            k = dict(key, state=name)
            Kg0, R0, C0 = NL.KelvinVoigtDamping(mat, state_of(g0, _vec(S[name])), _vec(vel))
            # d/du at fixed v
            R = stack.map(lambda ch: NL.KelvinVoigtDamping(mat, state_of(ch.g, ch.field(S[name])), ch.tile(vel))[1])
            _compare_tangent(stack, Kg0, R, f"{op} {et} at {name}: Kgeo vs dR/du at fixed v", dict(k, wrt="u"), v, info, check_base=R0)
            # d/dv at fixed u
            Rv = stack.map(lambda ch: NL.KelvinVoigtDamping(mat, state_of(ch.g, ch.tile(S[name])), ch.field(vel))[1])
            _compare_tangent(stack, C0, Rv, f"{op} {et} at {name}: C vs dR/dv at fixed u", dict(k, wrt="v"), v, info, check_base=R0)
            ntr += 1 + 2 * len(stack.chunks)
            Cv = np.einsum("eij,ej->ei", np.asarray(C0), vel.reshape(nel, -1))
            if np.abs(Cv - np.asarray(R0)).max() > 1e-11 * (np.abs(Cv).max() + 1e-300):
                v.append(viol("viscous_residual", f"{op} {et} at {name}: R_e differs from C_e v_e by {np.abs(Cv - np.asarray(R0)).max():.2e}", **k))
    else:
        raise KeyError(op)
    return _op_result((op, law, et, level), v, info, ntr, "no admissible / differentiable state")


def _surface_elements(et):
    """(nel, nPe, 3) node coordinates of surface / edge elements: edges = boundary of a 2D template (in-plane, 2 dofs per node),
    faces = 2D template warped and rotated out of the coordinate planes (3 dofs per node)."""
    if et.startswith("SEG"):
        order = {"SEG2": "QUAD4", "SEG3": "QUAD8", "SEG4": "TRI10", "SEG5": "TRI15"}[et]
        zm = Z.template_2d(order, 1, distort=Z.topo(order) == "QUAD")
        return zm.coords[zm.boundary[et]], 2
    zm = Z.template_2d(et, 1, distort=Z.topo(et) == "QUAD")
    A = Z.rot3([1.0, 0.4, -0.3], 0.7)
    co = zm.coords.copy()
    co[:, 2] = 0.15 * co[:, 0] * co[:, 1]
    return (co @ A.T)[zm.groups[et]], 3


def _op_FollowingPressure(case):
    from EasyFEA import MatrixType
    from EasyFEA.FEM import Operators

    FP = Operators.NonLinear.FollowingPressure
    et = case["elemType"]
    Xe, _ = _surface_elements(et)
    g0 = make_group(et, Xe)
    stack = Stack(et, Xe, 3, max_elems=256)
    v = []
    info = _new_info()
    ntr = 0
    for name, ue in (("zero", np.zeros_like(Xe)), ("inhA", inhom_field(3, Xe, "A", amp=2.0))):
        for mt in (MatrixType.rigi, MatrixType.mass):
            for pressure in (1.7, -0.6):
                k = dict(op="FollowingPressure", elemType=et, state=name, variant=f"{getattr(mt, 'name', mt)},p={pressure}")
                K0, R0 = FP(g0, _vec(ue), pressure, None, mt)
                R = stack.map(lambda ch: FP(ch.g, ch.field(ue), pressure, None, mt)[1])
                ntr += 1 + len(stack.chunks)
                # documented slot convention: K_e -> slot K, R_e -> slot F, Newton residual = -F  =>  K_e = -dR_e/du
                _compare_tangent(stack, K0, R, f"FollowingPressure {et} at {name} ({k['variant']})", k, v, info, sign=-1.0, check_base=R0)
    # the same elements as a group of a larger mesh: node ids that are not 0..n-1 (other nodes come first, shuffled ids), the
    # displacement being the GLOBAL dof vector: element arrays must be the same
    from EasyFEA import ElemType
    from EasyFEA.FEM._group_elem import GroupElemFactory

    ue = inhom_field(3, Xe, "A", amp=2.0)
    nel, nPe = Xe.shape[:2]
    r = rng("c18fp_ids", et)
    off = 5
    ids = off + r.permutation(nel * nPe)
    co = r.normal(size=(off + nel * nPe, 3))
    co[ids] = Xe.reshape(-1, 3)
    ug = r.normal(size=(off + nel * nPe, 3)) * 0.3
    ug[ids] = ue.reshape(-1, 3)
    g1 = GroupElemFactory.Create(ElemType[et], ids.reshape(nel, nPe), co)
    for mt in (MatrixType.rigi, MatrixType.mass):
        Ka, Ra = FP(g0, _vec(ue), 1.7, None, mt)
        Kb, Rb = FP(g1, np.ascontiguousarray(ug.reshape(-1)), 1.7, None, mt)
        ntr += 2
        sc = max(float(np.abs(np.asarray(Ka)).max()), 1e-300)
        if np.asarray(Kb).shape != np.asarray(Ka).shape or np.abs(np.asarray(Kb) - np.asarray(Ka)).max() > 1e-12 * sc \
                or np.abs(np.asarray(Rb) - np.asarray(Ra)).max() > 1e-12 * max(float(np.abs(np.asarray(Ra)).max()), 1e-300):
            v.append(viol("global_numbering", f"FollowingPressure {et} ({getattr(mt, 'name', mt)}): the element arrays change when the same elements carry other "
                                              f"global node ids (group of a larger mesh): max|dK| = {np.abs(np.asarray(Kb) - np.asarray(Ka)).max():.3e}, "
                                              f"max|dR| = {np.abs(np.asarray(Rb) - np.asarray(Ra)).max():.3e}", op="FollowingPressure", elemType=et))
    # element subset: exact zeros outside, same values inside
    Kf, Rf = FP(g0, _vec(ue), 1.7, None, MatrixType.mass)
    Ks, Rs = FP(g0, _vec(ue), 1.7, np.array([0]), MatrixType.mass)
    ntr += 2
    if not (np.allclose(Ks[0], Kf[0], rtol=1e-13, atol=1e-15) and np.allclose(Rs[0], Rf[0], rtol=1e-13, atol=1e-15)
            and not np.any(Ks[1:]) and not np.any(Rs[1:])):
        v.append(viol("element_subset", f"FollowingPressure {et}: elements=[0] does not give the full result on element 0 and zeros elsewhere",
                      op="FollowingPressure", elemType=et))
    return _op_result(("FP", et), v, info, ntr, "no state")


def _op_PenaltyContact(case):
    from EasyFEA import MatrixType
    from EasyFEA.FEM import FeArray, Operators

    PC = Operators.NonLinear.PenaltyContact
    et = case["elemType"]
    Xe, dofdim = _surface_elements(et)
    g0 = make_group(et, Xe)
    stack = Stack(et, Xe, dofdim, max_elems=256)
    v = []
    info = _new_info()
    ntr = 0
    penalty = 37.0
    r = rng("c18contact", et)
    n = np.zeros(3)
    n[:dofdim] = r.normal(size=dofdim)
    n /= np.linalg.norm(n)

    def gap_normal(g, U, mt, p0):
        """signed gap to the plane (p0, n) of the deformed Gauss points x = N (X + u) -- computed by the harness."""
        N = _np(g.Get_N_pg(mt))[:, 0, :]
        nodes = np.asarray(g.connect)
        x = np.asarray(g.coord)[np.asarray(g._global_to_local_nodes)[nodes]].copy()
        x[..., :dofdim] += U.reshape(-1, dofdim)[nodes]
        xg = np.einsum("pn,enc->epc", N, x)
        gap = np.einsum("epc,c->ep", xg - p0, n)
        return FeArray.asfearray(gap), FeArray.asfearray(np.tile(n, (*gap.shape, 1)))

    for name, ue in (("zero", np.zeros((*Xe.shape[:2], dofdim))), ("inhA", inhom_field(dofdim, Xe, "A", amp=2.0))):
        for mt in (MatrixType.mass, MatrixType.rigi):
            k = dict(op="PenaltyContact", elemType=et, state=name, variant=str(getattr(mt, "name", mt)))
            # plane through the median deformed Gauss point, shifted until no Gauss point sits within 1e-3 of the kink
            g_ = _np(gap_normal(g0, _vec(ue), mt, np.zeros(3))[0])
            off = float(np.median(g_))
            for it in range(50):
                if np.min(np.abs(g_ - off)) > 1e-3:
                    break
                off += 2.3e-3
            p0 = off * n
            gap0, nrm0 = gap_normal(g0, _vec(ue), mt, p0)
            if np.min(np.abs(_np(gap0))) <= 1e-3:
                info["kinks"] += 1
                continue
            K0, R0 = PC(g0, penalty, gap0, nrm0, None, mt)
            R = stack.map(lambda ch: PC(ch.g, penalty, *gap_normal(ch.g, ch.field(ue), mt, p0), None, mt)[1])
            ntr += 1 + len(stack.chunks)
            nact = int((_np(gap0) < 0).sum())
            _compare_tangent(stack, K0, R, f"PenaltyContact {et} at {name} ({k['variant']}; {nact} of {_np(gap0).size} Gauss points in contact)",
                             k, v, info, sign=-1.0, check_base=R0)
            if name == "inhA" and mt == MatrixType.mass and Xe.shape[0] > 1:
                Ks, Rs = PC(g0, penalty, FeArray.asfearray(_np(gap0)[[0]]), FeArray.asfearray(_np(nrm0)[[0]]), np.array([0]), mt)
                ntr += 1
                if not (np.allclose(Ks[0], K0[0], rtol=1e-13, atol=0) and np.allclose(Rs[0], R0[0], rtol=1e-13, atol=0)
                        and not np.any(Ks[1:]) and not np.any(Rs[1:])):
                    v.append(viol("element_subset", f"PenaltyContact {et}: elements=[0] does not give the full result on element 0 and zeros elsewhere",
                                  op="PenaltyContact", elemType=et))
    return _op_result(("PC", et), v, info, ntr, "gap too close to the kink")


# ------------------------------------------------------------------------------------------------
# energy
# ------------------------------------------------------------------------------------------------
def _initial_velocity(kind, dim, X):
    x = X[:, :dim]
    c = x.mean(axis=0)
    r = rng("c18v0", kind, dim)
    if kind == "stretch":
        A = r.uniform(-0.5, 0.5, size=(dim, dim))
        A = (A + A.T) / 2
        return (x - c) @ A.T
    if kind == "spin":
        Wm = r.uniform(0.6, 1.0, size=(dim, dim))
        Wm = Wm - Wm.T
        A = r.uniform(-0.15, 0.15, size=(dim, dim))
        return (x - c) @ (Wm + (A + A.T) / 2).T
    return r.normal(size=x.shape) * 0.25


def _run_energy(case):
    from EasyFEA import AlgoType, Simulations

    law, dt, nsteps = case["law"], case["dt"], case["nsteps"]
    et, k = ENERGY_MESHES[case["mesh"]]
    dim = Z.dim_of(et)
    zm = Z.template_2d(et, k) if dim == 2 else Z.template_3d(et, k)
    mesh = zm.build()
    mat = make_law(law, dim)
    key = dict(law=law, mesh=case["mesh"], v0=case["v0"], dt=str(dt), stress=case["stress"])
    sparse = case.get("save") == "third"
    if sparse:
        key["save"] = "third"
    Es, Wsum = [], 0.0
    skipped = None
    buf = io.StringIO()
    with contextlib.redirect_stdout(buf):
        simu = Simulations.HyperElastic(mesh, mat, absTol=1e-11, relTol=1e-14, incTol=1e-14, maxIter=25, verbosity=False)
        simu.rho = 1.3
        if case["v0"] == "spin":
            # the midpoint rule has no parameter (AlgoType.midpoint docstring: fixed formulas): left-over Newmark coefficients must not matter
            simu.Solver_Set_Hyperbolic_Algorithm(dt, algo=AlgoType.midpoint, beta=0.3025, gamma=0.6)
        else:
            simu.Solver_Set_Hyperbolic_Algorithm(dt, algo=AlgoType.midpoint)
        if case["stress"] == "gonzalez":
            simu.Solver_Set_Stress(simu.StressType.gonzalez)
        else:
            simu.Solver_Set_Stress(simu.StressType.quadrature, energyTol=QUAD_ENERGY_TOL)
        pt = simu.problemType
        n = mesh.Nn * dim
        v0 = _initial_velocity(case["v0"], dim, np.asarray(mesh.coord)).reshape(-1)
        simu._Set_solutions(pt, np.zeros(n), v0.copy(), np.zeros(n))
        M = None
        We_prev = np.asarray(simu._Calc_W(False), dtype=float)
        W0 = float(We_prev.sum())
        capped = False
        for step in range(nsteps):
            try:
                simu.Solve()
            except AssertionError as err:
                msg = str(err)
                if "did not converged" in msg:
                    skipped = "newton did not converge"
                elif "det(F)" in msg:
                    skipped = "det(F) <= 0 met during the Newton iteration"
                else:
                    raise
                break
            saved = not sparse or step % 3 == 2
            if saved:
                simu.Save_Iter()
            if M is None:
                M = simu.Get_K_C_M_F(pt)[2]
                Es.append(0.5 * float(v0 @ (M @ v0)) + W0)
            vel = np.asarray(simu._Get_v_n(pt), dtype=float)
            We = np.asarray(simu._Calc_W(False), dtype=float)
            Wsum += float(np.abs(We - We_prev).sum())
            We_prev = We
            Es.append(0.5 * float(vel @ (M @ vel)) + float(We.sum()))
            if case["stress"] == "quadrature" and saved:
                nP = simu.Get_results(-1).get("nPts_e", None)  # saved per-element rule of the last assembly
                if nP is not None and np.max(nP) >= 33:
                    capped = True
    v = []
    Es = np.array(Es)
    exchanged = 0.0
    if Es.size >= 2:
        E0 = Es[0]
        if not np.all(np.isfinite(Es)):
            v.append(viol("energy_nonfinite", f"{law} {case['mesh']} {case['stress']} dt={dt}: energy not finite", **key))
        else:
            allow = ENERGY_TOL * abs(E0) + (QUAD_ENERGY_TOL * Wsum * 4 if case["stress"] == "quadrature" else 0.0)
            drift = np.abs(Es - E0)
            exchanged = Wsum / abs(E0)
            if drift.max() > allow and not capped:
                i = int(np.argmax(drift > allow))
                v.append(viol("energy_conservation", f"{law} {case['mesh']} v0={case['v0']} {case['stress']} dt={dt}: |KE+W-E0|/E0 = {drift[i] / abs(E0):.3e} "
                                                     f"at step {i} (max {drift.max() / abs(E0):.3e} over {Es.size - 1} steps, E0 = {E0:.6e}, allowed {allow / abs(E0):.1e})", **key))
            if capped and drift.max() > allow:
                skipped = "quadrature reached its documented cap of 33 points"
    done = Es.size - 1 if Es.size else 0
    # steps completed before a Newton failure are still checked above; the case is then reported as skipped
    return {"violations": v, "fingerprint": fp("energy", law, case["mesh"], case["v0"], dt, case["stress"], case.get("save", "every"), Es[-1] if Es.size else 0.0, done),
            "nontrivial": exchanged > 1e-3, "transitions": done, "states": done,
            "outcome": "violation" if v else ("skipped" if skipped else "ok"), "skipped": skipped,
            "info": {"steps_done": done, "energy_exchanged_rel": exchanged}}
