"""C12 — FeArray computes the per-element, per-Gauss-point tensor operation.

Bounded exhaustive enumeration of TERMS of a small expression grammar (E2 over programs, DESIGN §4 C12):
every operator of the grammar applied to every admissible operand combination (depth 1), and every operator
applied to every verified depth-1 result (depth 2; results merged by kind / shape / dtype / layout / producing
family, which is all the implementation's dispatch reads), for every shape (Ne, nPg, d) of the alphabet — all
collisions Ne == nPg == d and all size-1 axes included.  Field objects (whose value is a (1, nPg, 1) array) are
enumerated with their own operators and as right operands of FeArray operators.

Violation keys: check in {value, shape, type, raises}; fam (operator family), fn (function, without arguments),
sig (kinds of the operands of the outermost operator: F<rank>[c|e|p] field (c: (1,1), e: (Ne,1), p: (1,nPg)),
P<rank> plain array, PQ plain (Ne,nPg)-shaped array, N0 numpy scalar, S/Si Python float/int, U Field),
coinc (pattern of equalities between Ne, nPg and d).

Oracle (reference model, plain numpy, never calls FeArray): explicit Python loops over (e, p); the tensor slice
of a field at (e, p) and the WHOLE plain array (a constant tensor) go through the plain numpy operation; a
reduction that consumes an element / Gauss-point axis is the plain numpy reduction of the raw array.  The result
must be a FeArray exactly when the model says the (Ne, nPg) axes survive.

Tensor ranks 0-4 (rank 3 and 4 for d <= 3).  Two-output ufuncs (np.divmod / builtin divmod, np.modf) are compared output by
output.  The inherited ndarray methods that move or drop axes (flatten, squeeze, swapaxes; family tensor_method, next to
trace / transpose) are enumerated for the typing rule.

Outside the statement (not enumerated): elementwise operations between operands of different NON-ZERO tensor
rank (alignment is a convention), matrix products (@) involving rank 0 / rank > 2 operands, indexing.
A raised exception is `undefined` (counted) unless the term
belongs to a family the property names (arithmetic, matrix product, contractions, tensor product, transpose, reductions,
det/inv/trace, typing of reshape/ravel/integrate, accepted broadcast forms) AND the model defines its result.
"""
from __future__ import annotations

import hashlib
import itertools
import operator
import warnings

import numpy as np

from mc.util import rng, viol

PROPERTY = "C12"
TOL = 1e-12
COND_MAX = 1e6
MAX_VIOL_PER_CASE = 24


# =================================================================================================
# model values
# =================================================================================================
class Undefined(Exception):
    """The statement does not define this operation for these operands (model side)."""


class Skip(Exception):
    """Assumption guard (conditioning)."""


class MV:
    """Model value. kind: 'fe' (a has shape (Ne, nPg) + tensor shape), 'plain' (ndarray / numpy scalar, a constant
    tensor), 'scalar' (Python number).  `floor`: lower bound of the comparison scale; `tol`: relative tolerance."""

    __slots__ = ("kind", "a", "floor", "tol")

    def __init__(self, kind, a, floor=0.0, tol=TOL):
        self.kind = kind
        self.a = a if kind == "scalar" else np.asarray(a)
        self.floor = floor
        self.tol = tol

    @property
    def rank(self):
        if self.kind == "fe":
            return self.a.ndim - 2
        if self.kind == "plain":
            return self.a.ndim
        return 0

    @property
    def mag(self):
        a = np.asarray(self.a)
        if a.size == 0 or a.dtype.kind not in "fiub":
            return 1.0
        with np.errstate(all="ignore"):
            m = np.nanmax(np.abs(a.astype(float)))
        return float(m) if np.isfinite(m) else 1.0


def _sl(M, e, p):
    if M.kind == "fe":
        n0, n1 = M.a.shape[:2]
        return M.a[e if n0 > 1 else 0, p if n1 > 1 else 0]
    return M.a


def _feshape(*Ms):
    shapes = [M.a.shape[:2] for M in Ms if M.kind == "fe"]
    if not shapes:
        raise Undefined("no field operand")
    return np.broadcast_shapes(*shapes)


def _loop(fn, *Ms, floor=0.0, tol=TOL):
    """THE oracle: the plain numpy operation at each (e, p), plain arrays held constant."""
    Ne, nPg = _feshape(*Ms)
    out = [[fn(*[_sl(M, e, p) for M in Ms]) for p in range(nPg)] for e in range(Ne)]
    return MV("fe", np.array(out), floor=floor, tol=tol)


def m_elementwise(fn, A, B, additive=False):
    ra, rb = A.rank, B.rank
    if ra != rb and min(ra, rb) != 0:
        raise Undefined("elementwise operation between different non-zero tensor ranks")
    floor = max(A.mag, B.mag) if additive else 0.0
    return _loop(fn, A, B, floor=floor)


def m_matmul(A, B):
    if A.rank not in (1, 2) or B.rank not in (1, 2) or "scalar" in (A.kind, B.kind):
        raise Undefined("matrix product is defined for vectors and matrices")
    return _loop(np.matmul, A, B, floor=A.mag * B.mag)


def m_dot(A, B):
    if A.rank not in (1, 2, 3, 4) or B.rank not in (1, 2, 3, 4) or "scalar" in (A.kind, B.kind):
        raise Undefined("single contraction needs tensors of rank 1 to 4")
    return _loop(lambda a, b: np.tensordot(a, b, axes=1), A, B, floor=A.mag * B.mag)


def m_ddot(A, B):
    if A.rank not in (2, 3, 4) or B.rank not in (2, 3, 4) or "scalar" in (A.kind, B.kind):
        raise Undefined("double contraction needs tensors of rank 2 to 4")
    return _loop(lambda a, b: np.tensordot(a, b, axes=2), A, B, floor=A.mag * B.mag)


def _norm_axes(axis, ndim):
    axes = axis if isinstance(axis, tuple) else (axis,)
    out = tuple(a + ndim if a < 0 else a for a in axes)
    if any(a < 0 or a >= ndim for a in out) or len(set(out)) != len(out):
        raise Undefined("invalid axis")
    return out


_NPRED = {
    "sum": np.sum, "mean": np.mean, "prod": np.prod, "max": np.max, "min": np.min, "std": np.std, "var": np.var,
    "any": np.any, "all": np.all, "argmax": np.argmax, "argmin": np.argmin, "median": np.median,
    "average": np.average, "ptp": np.ptp, "nansum": np.nansum, "amax": np.amax, "amin": np.amin,
    "add.reduce": np.add.reduce, "multiply.reduce": np.multiply.reduce, "maximum.reduce": np.maximum.reduce,
    "logical_or.reduce": np.logical_or.reduce,
}
_ADDITIVE = {"sum", "mean", "std", "var", "median", "average", "nansum", "add.reduce", "ptp"}


def m_reduce(name, A, axis):
    """Reduction of a field. Tensor axes only -> per-(e,p) reduction of the slice, still a field;
    an element / Gauss-point axis (or axis=None) consumed -> plain numpy reduction of the raw array."""
    if A.kind != "fe":
        raise Undefined("reduction of a non-field")
    fn = _NPRED[name]
    a = A.a
    eff = axis
    floor = (A.mag ** 2 if name == "var" else A.mag) if name in _ADDITIVE else 0.0
    if eff is None:
        return MV("plain", fn(a, axis=None), floor=floor)
    axes = _norm_axes(eff, a.ndim)
    if min(axes) < 2:
        return MV("plain", fn(a, axis=eff), floor=floor)
    sub = tuple(x - 2 for x in axes)
    sub = sub[0] if not isinstance(eff, tuple) else sub
    return _loop(lambda s: fn(s, axis=sub), A, floor=floor)


def m_unary(fn, A, ranks=None, floor_fn=None, tol=TOL):
    if A.kind != "fe":
        raise Undefined("not a field")
    if ranks is not None and A.rank not in ranks:
        raise Undefined("rank")
    return _loop(fn, A, floor=floor_fn(A) if floor_fn else 0.0, tol=tol)


def _square(A):
    if A.rank != 2 or A.a.shape[-1] != A.a.shape[-2]:
        raise Undefined("square matrix field needed")


def m_det(A):
    _square(A)
    d = A.a.shape[-1]
    return m_unary(np.linalg.det, A, floor_fn=lambda M: M.mag ** d)


def m_inv(A):
    _square(A)
    with np.errstate(all="ignore"):
        cond = float(np.max(np.linalg.cond(A.a.astype(float))))
    if not np.isfinite(cond) or cond > COND_MAX:
        raise Skip("cond")
    return m_unary(np.linalg.inv, A, tol=TOL * max(1.0, cond) * 10)


def m_reduce_keepdims(name, A, axis):
    """reduction with keepdims=True: the value of the plain reduction with the reduced axes kept as size 1; still a field only when
    no element / Gauss-point axis was consumed"""
    base = m_reduce(name, A, axis)
    full = _NPRED[name](A.a, axis=axis, keepdims=True)
    return MV(base.kind, full, floor=base.floor, tol=base.tol)


def m_accumulate(fn, A, axis):
    """ufunc.accumulate / cumsum: same shape as the operand; a field when it runs along a tensor axis (per-(e,p) operation); along an
    element / Gauss-point axis the axes are preserved as well"""
    ax = axis if axis >= 0 else A.a.ndim + axis
    return MV("fe", fn(A.a, axis=axis), floor=A.mag)  # every axis is preserved (also the element / Gauss-point ones): still a field


def m_reshape(A, shape, order="C"):
    if A.kind != "fe":
        raise Undefined("not a field")
    res = np.reshape(A.a, shape, order=order)
    keeps = res.ndim >= 2 and res.shape[:2] == A.a.shape[:2]
    return MV("fe" if keeps else "plain", res)


def m_squeeze(A):
    """every size-1 axis removed: still a field exactly when neither the element nor the Gauss-point axis is one of them"""
    if A.kind != "fe":
        raise Undefined("not a field")
    Ne, nPg = A.a.shape[:2]
    return MV("fe" if Ne > 1 and nPg > 1 else "plain", np.squeeze(A.a))


def m_permute(A, perm):
    res = np.transpose(A.a, perm)
    if tuple(perm[:2]) == (0, 1):
        return MV("fe", res)
    Ne, nPg = A.a.shape[:2]
    if res.shape[:2] == (Ne, nPg) and (Ne == 1 or perm[0] == 0) and (nPg == 1 or perm[1] == 1):
        raise Undefined("only size-1 finite element axes are moved: indistinguishable from keeping (Ne, nPg)")
    return MV("plain", res)


def m_norm(A, axis):
    if A.kind != "fe":
        raise Undefined("not a field")
    if axis is None:
        raise Undefined("Norm without axis: global norm or per-point norm is not stated")
    axes = _norm_axes(axis, A.a.ndim)
    if min(axes) < 2:
        return MV("plain", np.linalg.norm(A.a, axis=axis), floor=A.mag)
    sub = tuple(x - 2 for x in axes)
    sub = sub[0] if not isinstance(axis, tuple) else sub
    return _loop(lambda s: np.linalg.norm(s, axis=sub), A, floor=A.mag)


def m_normalize(A, axis):
    if A.kind != "fe" or A.rank < 1:
        raise Undefined("vector field needed")
    ax = _norm_axes(axis, A.a.ndim)[0]
    if ax < 2:
        raise Undefined("normalisation along a finite element axis")

    def f(s):
        n = np.linalg.norm(s, axis=ax - 2, keepdims=True)
        return s / np.where(n == 0, 1.0, n)

    return _loop(f, A)


def m_tensorprod(A, B, symmetric=False):
    if A.rank != B.rank or A.rank not in (1, 2) or "scalar" in (A.kind, B.kind):
        raise Undefined("tensor product of two vectors or two matrices")
    if A.rank == 1:
        return _loop(lambda a, b: np.multiply.outer(a, b), A, B)
    if symmetric:
        return _loop(lambda a, b: 0.5 * (np.einsum("ik,jl->ijkl", a, b) + np.einsum("il,jk->ijkl", a, b)), A, B,
                     floor=A.mag * B.mag)
    return _loop(lambda a, b: np.multiply.outer(a, b), A, B)


def m_broadcast(value, Ne, nPg, tensor_ndim):
    """From the docstring of FeArray.broadcast (tensor_ndim=0: by shape, in the documented order;
    tensor_ndim>0: leading axes must be (), (Ne,) or (Ne, nPg) exactly)."""
    if isinstance(value, (int, float, np.floating, np.integer)):
        return MV("scalar", float(value))
    arr = np.asarray(value)
    if tensor_ndim > 0:
        if arr.ndim < tensor_ndim:
            raise Undefined("fewer axes than tensor_ndim")
        lead, tail = arr.shape[:-tensor_ndim], arr.shape[-tensor_ndim:]
        if lead == (Ne, nPg):
            return MV("fe", arr)
        if lead == (Ne,):
            return MV("fe", np.array([[arr[e] for p in range(nPg)] for e in range(Ne)]).reshape((Ne, nPg) + tail))
        if lead == ():
            return MV("fe", np.array([[arr for p in range(nPg)] for e in range(Ne)]).reshape((Ne, nPg) + tail))
        raise Undefined("ValueError documented: leading axes must be (), (Ne,), or (Ne, nPg)")
    if arr.shape[:2] == (Ne, nPg):
        return MV("fe", arr)
    if arr.ndim == 1 and arr.shape[0] == Ne:
        return MV("fe", np.array([[arr[e] for p in range(nPg)] for e in range(Ne)]))
    if arr.ndim == 1 and arr.shape[0] == nPg:
        return MV("fe", np.array([[arr[p] for p in range(nPg)] for e in range(Ne)]))
    return MV("fe", np.array([[arr for p in range(nPg)] for e in range(Ne)]).reshape((Ne, nPg) + arr.shape))


# =================================================================================================
# operands and terms
# =================================================================================================
class Opd:
    """An operand: a leaf or a (verified) depth-1 result. `obj` is the real object handed to the implementation."""

    __slots__ = ("name", "sig", "obj", "mv", "isfield")

    def __init__(self, name, sig, obj, mv, isfield=False):
        self.name, self.sig, self.obj, self.mv, self.isfield = name, sig, obj, mv, isfield


class Term:
    """name: the full expression; op: its outermost operator with placeholders A, B (spelling and arguments included);
    sig: kinds of the operands of the outermost operator; fam: operator family; promised: an exception is a violation."""

    __slots__ = ("name", "op", "sig", "fam", "promised", "impl", "model")

    def __init__(self, name, op, sig, fam, promised, impl, model):
        self.name, self.op, self.sig, self.fam, self.promised, self.impl, self.model = name, op, sig, fam, promised, impl, model


# families in which the property does not promise a result (an exception is `undefined`, a returned value is compared)
# "arith_list": a constant tensor written as a Python list is an array-like, not a plain array: a refusal (exception) is not judged,
# a returned value is
# TensorProd (documented operands: FeArray or ndarray, both vectors or both matrices) is promised: a plain array is a constant tensor
UNPROMISED = {"Norm", "Normalize", "np_function", "np_axes", "arith_list"}


def _t1(fam, tpl, X, impl, model):
    return Term(tpl.format(a=X.name), tpl.format(a="A"), X.sig, fam, fam not in UNPROMISED, lambda: impl(X.obj), lambda: model(X.mv))


def _t2(fam, tpl, X, Y, impl, model):
    return Term(tpl.format(a=X.name, b=Y.name), tpl.format(a="A", b="B"), X.sig + "," + Y.sig, fam, fam not in UNPROMISED,
                lambda: impl(X.obj, Y.obj), lambda: model(X.mv, Y.mv))


def _gen(r, shape, zeros=False):
    a = r.uniform(0.5, 1.5, size=shape) * r.choice([-1.0, 1.0], size=shape)
    if zeros:
        a = a * (r.uniform(size=shape) > 0.4)
        if a.ndim > 2 and a.shape[0] * a.shape[1] > 1:
            a[-1, -1] = 0.0  # a whole zero tensor (Normalize leaves it unchanged)
    return a


def _FeArray():
    from EasyFEA.FEM._linalg import FeArray

    return FeArray


def fe_leaf(name, sig, arr):
    FeArray = _FeArray()
    return Opd(name, sig, FeArray.asfearray(arr.copy()), MV("fe", arr.copy()))


def plain_leaf(name, sig, arr):
    arr = np.asarray(arr)
    return Opd(name, sig, arr.copy(), MV("plain", arr.copy()))


def scalar_leaf(name, sig, val):
    if isinstance(val, np.generic):
        return Opd(name, sig, val, MV("plain", np.asarray(val)))
    return Opd(name, sig, val, MV("scalar", val))


def ranks_for(d):
    return (0, 1, 2, 3, 4) if d <= 3 else (0, 1, 2)


def make_leaves(Ne, nPg, d):
    """All operand leaves of a shape. FeArray leaves: rank r in ranks_for(d), finite element shapes
    full (Ne,nPg), c=(1,1) constant, e=(Ne,1) per element, p=(1,nPg) per point (dropped when equal to the full
    shape); G* second independent full field; Z* fields with exact zeros."""
    L = {}
    for r_ in ranks_for(d):
        t = (d,) * r_
        for suf, fs in (("", (Ne, nPg)), ("c", (1, 1)), ("e", (Ne, 1)), ("p", (1, nPg))):
            if suf and fs == (Ne, nPg):
                continue
            if suf == "e" and fs == (1, 1) or suf == "p" and fs == (1, 1):
                continue
            nm = f"F{r_}{suf}"
            L[nm] = fe_leaf(nm, nm, _gen(rng("c12", nm, Ne, nPg, d), fs + t))
        nm = f"G{r_}"
        L[nm] = fe_leaf(nm, f"F{r_}", _gen(rng("c12", nm, Ne, nPg, d), (Ne, nPg) + t))
    for r_ in (1, 2):
        nm = f"Z{r_}"
        L[nm] = fe_leaf(nm, f"F{r_}", _gen(rng("c12", nm, Ne, nPg, d), (Ne, nPg) + (d,) * r_, zeros=True))
    for r_ in ranks_for(d):
        nm = f"P{r_}"
        L[nm] = plain_leaf(nm, nm, _gen(rng("c12", nm, d), (d,) * r_))
    L["PQ"] = plain_leaf("PQ", "PQ", _gen(rng("c12", "PQ", Ne, nPg), (Ne, nPg)))  # a plain array shaped like the mesh
    L["N0"] = scalar_leaf("N0", "N0", np.float64(1.0 + rng("c12", "N0").uniform(0.2, 0.9)))
    L["S"] = scalar_leaf("S", "S", float(1.0 + rng("c12", "S").uniform(0.2, 0.9)))
    L["Si"] = scalar_leaf("Si", "Si", 3)
    return L


FE_PRIMARIES = ["F0", "F1", "F2", "F3", "F4", "F0c", "F1c", "F2c", "F3c", "F4c", "F0e", "F1e", "F2e", "F3e", "F4e", "F0p", "F1p", "F2p",
                "F3p", "F4p", "Z1", "Z2"]


# -------------------------------------------------------------------------------------------------
# term generators
# -------------------------------------------------------------------------------------------------
_ARITH = [("+", operator.add, True), ("-", operator.sub, True), ("*", operator.mul, False), ("/", operator.truediv, False)]
_UFUNC2 = [("np.maximum", np.maximum), ("np.hypot", np.hypot), ("np.greater", np.greater), ("np.subtract", np.subtract),
           ("np.divide", np.divide)]


def _is_fe(X):
    return X.mv.kind == "fe"


def _multiply_out(a, b):
    """np.multiply(a, b, out=...) with a preallocated plain array of the aligned result shape."""
    FeArray = _FeArray()
    fa = np.shape(a)[:2]
    fb = np.shape(b)[:2] if isinstance(b, FeArray) else ()
    ta = np.shape(a)[2:]
    tb = np.shape(b)[2:] if isinstance(b, FeArray) else np.shape(b)
    out = np.zeros(np.broadcast_shapes(fa, fb) + np.broadcast_shapes(ta, tb))
    got = np.multiply(a, b, out=out)
    if got is not out:
        raise AssertionError("out= not returned")
    return FeArray.asfearray(out)


def binary_terms(X, Y, lvl=2):
    """Terms `X op Y` (this operand order). At least one of X, Y is a field."""
    if not (_is_fe(X) or _is_fe(Y)):
        return
    rx, ry = X.mv.rank, Y.mv.rank
    anyfield = X.isfield or Y.isfield
    if rx == ry or min(rx, ry) == 0:
        for sym, fn, additive in _ARITH:
            yield _t2("arith", "{a} " + sym + " {b}", X, Y, fn, lambda A, B, fn=fn, ad=additive: m_elementwise(fn, A, B, ad))
        if not anyfield and lvl >= 1:
            for nm, uf in (_UFUNC2 if lvl >= 2 else _UFUNC2[:1]):
                yield _t2("ufunc2", nm + "({a},{b})", X, Y, uf, lambda A, B, uf=uf: m_elementwise(uf, A, B, True))
            # ufuncs with TWO outputs (quotient and remainder), each output compared with the plain numpy operation at each (e, p);
            # the builtin divmod(a, b) is the operator spelling of the same ufunc
            if lvl >= 2:
                for k in (0, 1):
                    yield _t2("ufunc2", "np.divmod({a},{b})" + f"[{k}]", X, Y, lambda a, b, k=k: np.divmod(a, b)[k],
                              lambda A, B, k=k: m_elementwise(lambda a, b: np.divmod(a, b)[k], A, B, True))
                    yield _t2("ufunc2", "divmod({a},{b})" + f"[{k}]", X, Y, lambda a, b, k=k: divmod(a, b)[k],
                              lambda A, B, k=k: m_elementwise(lambda a, b: np.divmod(a, b)[k], A, B, True))
            if _is_fe(X) and rx >= ry and (_is_fe(Y) or (Y.sig[0] == "P" and Y.sig != "PQ")):
                yield _t2("ufunc2", "np.multiply({a},{b},out=)", X, Y, _multiply_out, lambda A, B: m_elementwise(np.multiply, A, B))
        # the same constant tensor written as a (nested) Python list, and the ufunc spelling with a Field operand
        if _is_fe(X) and not X.isfield and Y.sig in ("P1", "P2") and isinstance(Y.obj, np.ndarray) and lvl >= 2:
            for sym, fn, additive in _ARITH:
                yield _t2("arith_list", "{a} " + sym + " {b}.tolist()", X, Y, lambda a, b, fn=fn: fn(a, b.tolist()),
                          lambda A, B, fn=fn, ad=additive: m_elementwise(fn, A, B, ad))
                yield _t2("arith_list", "{b}.tolist() " + sym + " {a}", X, Y, lambda a, b, fn=fn: fn(b.tolist(), a),
                          lambda A, B, fn=fn, ad=additive: m_elementwise(fn, B, A, ad))
        if _is_fe(X) and not X.isfield and Y.isfield and lvl >= 2:
            for nm, uf in (("np.multiply", np.multiply), ("np.add", np.add)):
                yield _t2("ufunc2", nm + "({a},{b})", X, Y, uf, lambda A, B, uf=uf: m_elementwise(uf, A, B, True))
                yield _t2("ufunc2", nm + "({b},{a})", X, Y, lambda a, b, uf=uf: uf(b, a), lambda A, B, uf=uf: m_elementwise(uf, B, A, True))
    # power with Python scalars only (both orders)
    if Y.sig in ("S", "Si") and _is_fe(X) and not X.isfield:
        yield _t2("pow", "{a} ** {b}", X, Y, operator.pow, lambda A, B: m_elementwise(np.power, A, B))
        if Y.sig == "Si":
            yield Term(f"{X.name} ** -1.0", "A ** -1.0", X.sig, "pow", True, lambda: X.obj ** -1.0,
                       lambda: m_elementwise(np.power, X.mv, MV("scalar", -1.0)))
    if X.sig in ("S", "Si") and _is_fe(Y) and not Y.isfield:
        yield _t2("pow", "{a} ** {b}", X, Y, operator.pow, lambda A, B: m_elementwise(np.power, A, B))
    # matrix product (both spellings), contractions, tensor product
    if "scalar" not in (X.mv.kind, Y.mv.kind) and X.sig != "N0" and Y.sig != "N0":
        if rx in (1, 2) and ry in (1, 2):
            yield _t2("matmul", "{a} @ {b}", X, Y, operator.matmul, m_matmul)
            if not anyfield:
                yield _t2("matmul", "np.matmul({a},{b})", X, Y, np.matmul, m_matmul)
        if _is_fe(X):
            if rx in (1, 2, 3, 4) and ry in (1, 2, 3, 4):
                yield _t2("dot", "{a}.dot({b})", X, Y, lambda a, b: a.dot(b), m_dot)
            if rx in (2, 3, 4) and ry in (2, 3, 4):
                yield _t2("ddot", "{a}.ddot({b})", X, Y, lambda a, b: a.ddot(b), m_ddot)
        if not anyfield and rx == ry and rx in (1, 2):
            from EasyFEA.FEM._linalg import TensorProd

            yield _t2("TensorProd", "TensorProd({a},{b})", X, Y, TensorProd, m_tensorprod)
            if rx == 2:
                yield _t2("TensorProd", "TensorProd({a},{b},symmetric=True)", X, Y, lambda a, b: TensorProd(a, b, symmetric=True),
                          lambda A, B: m_tensorprod(A, B, True))
            if rx == 1 and _is_fe(X) and _is_fe(Y):
                yield _t2("np_function", "np.einsum('...i,...i->...',{a},{b})", X, Y, lambda a, b: np.einsum("...i,...i->...", a, b),
                          lambda A, B: _loop(np.dot, A, B, floor=A.mag * B.mag))
    elif _is_fe(X) and not X.isfield and Y.sig == "S" and rx >= 1 and lvl >= 2:
        # documented refusal: `other` must be a FeArray, an ndarray or a Field
        yield _t2("matmul", "{a} @ {b}", X, Y, operator.matmul, m_matmul)
        yield _t2("dot", "{a}.dot({b})", X, Y, lambda a, b: a.dot(b), m_dot)


def axis_args(n, arg_only=False, lvl=2):
    """Every axis argument of an n-dimensional array: None, every int (both signs), every pair, (-2,-1), all tensor axes.
    lvl < 2 (depth-2 terms): for n > 3 only the pairs (0,1), (1,2), (2,3), (n-2,n-1); lvl 0: non-negative ints only."""
    out = [None] + (list(range(-n, n)) if lvl >= 1 else list(range(n)))
    if arg_only:
        return out
    pairs = list(itertools.combinations(range(n), 2))
    if lvl < 2 and n > 3:
        pairs = [p for p in pairs if p in ((0, 1), (1, 2), (2, 3), (n - 2, n - 1))]
    if lvl < 1:
        pairs = [p for p in pairs if p in ((0, 1), (1, 2), (n - 2, n - 1))]
    out += pairs
    if n >= 2:
        out.append((-2, -1))
    if n >= 5:
        out.append(tuple(range(2, n)))
    return out


_METHOD_REDUCERS = ["sum", "mean", "prod", "max", "min", "std", "var", "any", "all", "argmax", "argmin"]
_METHOD_REDUCERS_Q = ["sum", "max", "std", "any", "argmax"]
_NP_ONLY_REDUCERS = ["median", "average", "ptp", "nansum", "amax", "amin"]  # amax / amin: distinct function objects from np.max / np.min in numpy 2
_UFUNC_REDUCE = ["add.reduce", "multiply.reduce", "maximum.reduce", "logical_or.reduce"]


def _ax(a):
    return str(a).replace(" ", "")


def reducer_terms(X, lvl=2):
    n = X.mv.a.ndim
    for name in (_METHOD_REDUCERS if lvl >= 1 else _METHOD_REDUCERS_Q):
        arg_only = name in ("argmax", "argmin")
        npf = _NPRED[name]
        for ax in axis_args(n, arg_only, lvl):
            yield _t1("reducer_method", "{a}." + name + f"(axis={_ax(ax)})", X, lambda x, name=name, ax=ax: getattr(x, name)(axis=ax),
                      lambda A, name=name, ax=ax: m_reduce(name, A, ax))
            yield _t1("reducer_np", "np." + name + "({a}," + f"axis={_ax(ax)})", X, lambda x, npf=npf, ax=ax: npf(x, axis=ax),
                      lambda A, name=name, ax=ax: m_reduce(name, A, ax))
            if isinstance(ax, int) and lvl >= 2:
                yield _t1("reducer_method", "{a}." + name + f"({ax})", X, lambda x, name=name, ax=ax: getattr(x, name)(ax),
                          lambda A, name=name, ax=ax: m_reduce(name, A, ax))
                yield _t1("reducer_np", "np." + name + "({a}," + f"{ax})", X, lambda x, npf=npf, ax=ax: npf(x, ax),
                          lambda A, name=name, ax=ax: m_reduce(name, A, ax))
        # keepdims=True keeps the NUMBER of axes, not the element / Gauss-point axes: the typing rule is the same
        if lvl >= 1 and not arg_only:
            for ax in [a for a in axis_args(n, False, 0) if not isinstance(a, tuple)]:
                yield _t1("reducer_method", "{a}." + name + f"(axis={_ax(ax)},keepdims=True)", X, lambda x, name=name, ax=ax: getattr(x, name)(axis=ax, keepdims=True),
                          lambda A, name=name, ax=ax: m_reduce_keepdims(name, A, ax))
        yield _t1("reducer_method", "{a}." + name + "()", X, lambda x, name=name: getattr(x, name)(), lambda A, name=name: m_reduce(name, A, None))
        yield _t1("reducer_np", "np." + name + "({a})", X, lambda x, npf=npf: npf(x), lambda A, name=name: m_reduce(name, A, None))
    for name in (_NP_ONLY_REDUCERS if lvl >= 1 else _NP_ONLY_REDUCERS[2:3]):
        npf = _NPRED[name]
        for ax in axis_args(n, False, lvl):
            yield _t1("reducer_np_other", "np." + name + "({a}," + f"axis={_ax(ax)})", X, lambda x, npf=npf, ax=ax: npf(x, axis=ax),
                      lambda A, name=name, ax=ax: m_reduce(name, A, ax))
    if lvl >= 1:
        for ax in range(0, n):
            yield _t1("ufunc_accumulate", "np.add.accumulate({a}," + f"axis={ax})", X, lambda x, ax=ax: np.add.accumulate(x, axis=ax),
                      lambda A, ax=ax: m_accumulate(np.add.accumulate, A, ax))
            yield _t1("ufunc_accumulate", "{a}.cumsum(" + f"axis={ax})", X, lambda x, ax=ax: x.cumsum(axis=ax),
                      lambda A, ax=ax: m_accumulate(np.cumsum, A, ax))
    for name in (_UFUNC_REDUCE if lvl >= 1 else _UFUNC_REDUCE[:1]):
        uf = _NPRED[name]
        for ax in axis_args(n, False, min(lvl, 1)):
            yield _t1("ufunc_reduce", "np." + name + "({a}," + f"axis={_ax(ax)})", X, lambda x, uf=uf, ax=ax: uf(x, axis=ax),
                      lambda A, name=name, ax=ax: m_reduce(name, A, ax))
        # a ufunc's reduce runs over axis 0 when none is given
        yield _t1("ufunc_reduce", "np." + name + "({a})", X, lambda x, uf=uf: uf(x), lambda A, name=name: m_reduce(name, A, 0))


def reshape_targets(shape):
    Ne, nPg = shape[:2]
    t = tuple(shape[2:])
    T = int(np.prod(t)) if t else 1
    n = Ne * nPg * T
    c = [(Ne, nPg, T), (Ne, nPg) + t[::-1], (Ne * nPg,) + t, (n,), (Ne, nPg * T), (nPg, Ne) + t, (Ne, nPg) + t + (1,),
         (1,) + tuple(shape), (Ne, nPg, -1), (-1,) + t, (Ne, -1), (-1, nPg) + t, (nPg * Ne, T), (T, Ne, nPg), (nPg, Ne * T)]
    if T == 1:
        c.append((Ne, nPg))
    if len(t) == 4:
        c.append((Ne, nPg, t[0] * t[1], t[2] * t[3]))
    out = []
    for s in c:
        if s not in out:
            out.append(s)
    return out


def _m_integrate(A):
    a = A.a
    return MV("plain", np.array([sum(a[e, p] for p in range(a.shape[1])) for e in range(a.shape[0])]), floor=A.mag)


def unary_terms(X, lvl=2):
    """Single-operand terms on a field X."""
    from EasyFEA.FEM import _linalg as LA

    if not _is_fe(X) or X.isfield:
        return
    r_ = X.mv.rank
    shape = X.mv.a.shape
    n = len(shape)
    yield _t1("arith", "-{a}", X, operator.neg, lambda A: m_unary(np.negative, A))
    yield _t1("arith", "abs({a})", X, abs, lambda A: m_unary(np.abs, A))
    yield _t1("ufunc1", "np.exp({a})", X, np.exp, lambda A: m_unary(np.exp, A))
    yield _t1("ufunc1", "np.sign({a})", X, np.sign, lambda A: m_unary(np.sign, A))
    for k in (0, 1):  # a ufunc with two outputs (fractional and integral part)
        yield _t1("ufunc1", "np.modf({a})" + f"[{k}]", X, lambda x, k=k: np.modf(x)[k], lambda A, k=k: m_unary(lambda s_: np.modf(s_)[k], A))
    yield _t1("ufunc1", "({a} > 0)", X, lambda x: x > 0, lambda A: m_unary(lambda s: s > 0, A))
    yield _t1("np_function", "np.where({a}>0,{a},0.0)", X, lambda x: np.where(x > 0, x, 0.0),
              lambda A: m_unary(lambda s: np.where(s > 0, s, 0.0), A))
    if lvl >= 2:
        # the other ndarray methods the array type inherits that move or drop axes (typing rule of the statement: still a field exactly
        # when the (Ne, nPg) axes are kept): flatten (the copying twin of ravel), squeeze, swapaxes
        yield _t1("tensor_method", "{a}.flatten()", X, lambda x: x.flatten(), lambda A: m_reshape(A, (-1,)))
        yield _t1("tensor_method", "{a}.squeeze()", X, lambda x: x.squeeze(), m_squeeze)
        for i, j in itertools.combinations(range(n), 2):
            perm = list(range(n))
            perm[i], perm[j] = perm[j], perm[i]
            yield _t1("tensor_method", "{a}.swapaxes(" + f"{i},{j})", X, lambda x, i=i, j=j: x.swapaxes(i, j),
                      lambda A, perm=tuple(perm): m_permute(A, perm))
    yield _t1("T", "{a}.T", X, lambda x: x.T, lambda A: m_unary(np.transpose, A))
    if r_ == 2:
        yield _t1("tensor_method", "{a}.transpose()", X, lambda x: x.transpose(), lambda A: m_unary(np.transpose, A, ranks=(2,)))
        yield _t1("linalg", "Transpose({a})", X, LA.Transpose, lambda A: m_unary(np.transpose, A, ranks=(2,)))
        if shape[-1] == shape[-2]:
            yield _t1("linalg", "Trace({a})", X, LA.Trace, lambda A: m_unary(np.trace, A, floor_fn=lambda M: M.mag))
            # the method spelling of the same operation (an ndarray method the array type inherits)
            yield _t1("tensor_method", "{a}.trace()", X, lambda x: x.trace(), lambda A: m_unary(np.trace, A, floor_fn=lambda M: M.mag))
            yield _t1("linalg", "Det({a})", X, LA.Det, m_det)
            yield _t1("linalg", "Inv({a})", X, LA.Inv, m_inv)
            # the same matrices in other units (entries ~ 1e-7 and ~ 1e6: determinants ~ 1e-14 .. 1e-21 and ~ 1e12 .. 1e18): inverse and
            # determinant are homogeneous functions, no absolute threshold may enter
            for sc_ in (1e-7, 1e6):
                yield _t1("linalg", f"Inv({sc_:g}*" + "{a})", X, lambda x, sc_=sc_: LA.Inv(sc_ * x), lambda A, sc_=sc_: m_inv(MV(A.kind, A.a * sc_)))
                yield _t1("linalg", f"Det({sc_:g}*" + "{a})", X, lambda x, sc_=sc_: LA.Det(sc_ * x), lambda A, sc_=sc_: m_det(MV(A.kind, A.a * sc_)))
            yield _t1("np_function", "np.linalg.det({a})", X, np.linalg.det, m_det)
            yield _t1("np_function", "np.linalg.inv({a})", X, np.linalg.inv, m_inv)
            yield _t1("np_function", "np.einsum('...ii->...',{a})", X, lambda x: np.einsum("...ii->...", x),
                      lambda A: m_unary(np.trace, A, floor_fn=lambda M: M.mag))
    # Norm / Normalize
    for ax in [None] + (list(range(-n, n)) if lvl >= 1 else list(range(n))) + ([(-2, -1), (2, 3)] if r_ >= 2 else []) + ([(0, 1)] if lvl >= 2 else []):
        kw = {} if ax is None else {"axis": ax}
        yield _t1("Norm", "Norm({a}" + ("" if ax is None else f",axis={_ax(ax)}") + ")", X, lambda x, kw=kw: LA.Norm(x, **kw),
                  lambda A, ax=ax: m_norm(A, ax))
    # the documented `ord` argument: 2 = euclidean norm of a vector, spectral norm of a matrix
    if lvl >= 1:
        if r_ >= 1:
            yield _t1("Norm", "Norm({a},axis=-1,ord=2)", X, lambda x: LA.Norm(x, axis=-1, ord=2),
                      lambda A: _loop(lambda s_: np.linalg.norm(s_, axis=-1, ord=2), A, floor=A.mag))
        if r_ >= 2:
            yield _t1("Norm", "Norm({a},axis=(-2,-1),ord=2)", X, lambda x: LA.Norm(x, axis=(-2, -1), ord=2),
                      lambda A: _loop(lambda s_: np.linalg.norm(s_, axis=(-2, -1), ord=2), A, floor=A.mag))
            yield _t1("Norm", "Norm({a},axis=(-2,-1),ord='fro')", X, lambda x: LA.Norm(x, axis=(-2, -1), ord="fro"),
                      lambda A: _loop(lambda s_: np.linalg.norm(s_, axis=(-2, -1), ord="fro"), A, floor=A.mag))
    if r_ >= 1:
        yield _t1("Normalize", "Normalize({a})", X, LA.Normalize, lambda A: m_normalize(A, -1))
        for ax in range(2, n):
            yield _t1("Normalize", "Normalize({a}," + f"axis={ax})", X, lambda x, ax=ax: LA.Normalize(x, axis=ax),
                      lambda A, ax=ax: m_normalize(A, ax))
    # numpy functions outside the library's table of reducers that CONSUME the element / Gauss-point axes: the result is a plain tensor
    if r_ >= 1:
        yield _t1("np_consumer", "np.linalg.norm({a},axis=0)", X, lambda x: np.linalg.norm(x, axis=0),
                  lambda A: MV("plain", np.linalg.norm(A.a, axis=0), floor=A.mag))
        yield _t1("np_consumer", "np.einsum('ep...->...',{a})", X, lambda x: np.einsum("ep...->...", x),
                  lambda A: MV("plain", np.einsum("ep...->...", np.asarray(A.a)), floor=A.mag))
        yield _t1("np_consumer", "np.percentile({a},50,axis=0)", X, lambda x: np.percentile(x, 50, axis=0),
                  lambda A: MV("plain", np.percentile(A.a, 50, axis=0), floor=A.mag))
    yield from reducer_terms(X, lvl)
    # reshape / ravel / integrate
    for s in (reshape_targets(shape) if lvl >= 1 else reshape_targets(shape)[:6]):
        yield _t1("reshape", "{a}.reshape(" + _ax(s) + ")", X, lambda x, s=s: x.reshape(s), lambda A, s=s: m_reshape(A, s))
        yield _t1("reshape", "np.reshape({a}," + _ax(s) + ")", X, lambda x, s=s: np.reshape(x, s), lambda A, s=s: m_reshape(A, s))
        if lvl >= 2:
            yield _t1("reshape", "{a}.reshape(*" + _ax(s) + ")", X, lambda x, s=s: x.reshape(*s), lambda A, s=s: m_reshape(A, s))
    yield _t1("reshape", "{a}.reshape(" + _ax(shape) + ",order='F')", X, lambda x: x.reshape(shape, order="F"),
              lambda A: m_reshape(A, shape, order="F"))
    yield _t1("ravel", "{a}.ravel()", X, lambda x: x.ravel(), lambda A: m_reshape(A, (-1,)))
    yield _t1("ravel", "{a}.ravel(order='F')", X, lambda x: x.ravel(order="F"), lambda A: m_reshape(A, (-1,), order="F"))
    yield _t1("ravel", "{a}.ravel('F')", X, lambda x: x.ravel("F"), lambda A: m_reshape(A, (-1,), order="F"))
    yield _t1("ravel", "np.ravel({a})", X, np.ravel, lambda A: m_reshape(A, (-1,)))
    yield _t1("integrate", "{a}.integrate()", X, lambda x: x.integrate(), _m_integrate)
    # axis permutations / stacking through the function protocol (typing: a moved (e,p) pair is not a field)
    if lvl >= 2:
        for i, j in itertools.combinations(range(n), 2):
            perm = list(range(n))
            perm[i], perm[j] = perm[j], perm[i]
            yield _t1("np_axes", "np.swapaxes({a}," + f"{i},{j})", X, lambda x, i=i, j=j: np.swapaxes(x, i, j),
                      lambda A, perm=tuple(perm): m_permute(A, perm))
        if n <= 4:
            for perm in itertools.permutations(range(n)):
                yield _t1("np_axes", "np.transpose({a}," + _ax(perm) + ")", X, lambda x, perm=perm: np.transpose(x, perm),
                          lambda A, perm=perm: m_permute(A, perm))
        if r_ >= 1:
            for ax in range(-n, n):
                yield _t1("np_function", "np.concatenate([{a},{a}]," + f"axis={ax})", X, lambda x, ax=ax: np.concatenate([x, x], axis=ax),
                          lambda A, ax=ax: MV("fe" if _norm_axes(ax, A.a.ndim)[0] >= 2 else "plain", np.concatenate([A.a, A.a], axis=ax)))
        for ax in (0, 1, 2, -1):
            yield _t1("np_axes", "np.stack([{a},{a}]," + f"axis={ax})", X, lambda x, ax=ax: np.stack([x, x], axis=ax),
                      lambda A, ax=ax: MV("fe" if ax in (2, -1) else "plain", np.stack([A.a, A.a], axis=ax)))


def broadcast_terms(Ne, nPg, d):
    """FeArray.broadcast for every coefficient form and tensor_ndim (operands are fresh generic values)."""
    FeArray = _FeArray()
    out = []
    forms = {"int": 3, "float": 1.7, "np.float64": np.float64(1.3), "np.int64": np.int64(2)}
    r0 = lambda *s: rng("c12", "bc", Ne, nPg, d, *s)  # noqa: E731
    forms["0d"] = np.asarray(_gen(r0("0d"), ()))
    for k in ranks_for(d):
        tail = (d,) * k
        forms[f"const{k}"] = _gen(r0("const", k), tail)
        forms[f"elem{k}"] = _gen(r0("elem", k), (Ne,) + tail)
        forms[f"point{k}"] = _gen(r0("point", k), (nPg,) + tail)
        forms[f"full{k}"] = _gen(r0("full", k), (Ne, nPg) + tail)
        forms[f"fullFe{k}"] = FeArray.asfearray(_gen(r0("fullFe", k), (Ne, nPg) + tail))
        forms[f"pointfull{k}"] = _gen(r0("pf", k), (1, nPg) + tail)
        forms[f"elemfull{k}"] = _gen(r0("ef", k), (Ne, 1) + tail)
    forms["list"] = [1.5, -0.5, 2.5][: min(d, 3)]
    for fname, val in forms.items():
        for tn in (0, 1, 2, 4):
            kw_forms = [("kw", lambda v=val, tn=tn: FeArray.broadcast(v, Ne, nPg, tensor_ndim=tn))]
            if tn == 0:
                kw_forms.append(("default", lambda v=val: FeArray.broadcast(v, Ne, nPg)))
            for kf, impl in kw_forms:
                tns = tn if kf == "kw" else "default"
                mval = val if isinstance(val, (int, float, np.generic)) else np.array(np.asarray(val), copy=True)
                out.append(Term(f"broadcast({fname},tensor_ndim={tns})", f"broadcast(tensor_ndim={tns})", fname, "broadcast", True, impl,
                                lambda mval=mval, tn=tn: m_broadcast(mval, Ne, nPg, tn)))
    return out


# =================================================================================================
# evaluation and comparison
# =================================================================================================
def _kind_of(res):
    FeArray = _FeArray()
    if isinstance(res, FeArray):
        return "fe"
    if isinstance(res, (np.ndarray, np.generic)):
        return "plain"
    if isinstance(res, (int, float, bool)):
        return "scalar"
    return "other:" + type(res).__name__


def compare(res, mv):
    """-> (check, detail) or None."""
    k = _kind_of(res)
    if mv.kind == "fe" and k != "fe":
        return "type", f"the (Ne, nPg) axes survive (model shape {mv.a.shape}) but the result is {type(res).__name__} of shape {np.shape(res)}"
    if mv.kind != "fe" and k == "fe":
        return "type", (f"the (Ne, nPg) axes do not survive (model: plain array of shape {np.shape(mv.a)}) but the result is a "
                        f"FeArray of shape {np.shape(res)}")
    if mv.kind == "scalar" and k != "scalar":
        return "type", f"documented result is a Python float, got {type(res).__name__}"
    if k.startswith("other"):
        return "type", f"result is {type(res).__name__}"
    a = np.asarray(res)
    ref = np.asarray(mv.a)
    if a.dtype == object:
        return "type", f"result is an object array of shape {a.shape}"
    if a.shape != ref.shape:
        return "shape", f"result shape {a.shape}, per-(e,p) model shape {ref.shape}"
    if ref.dtype.kind in "biu" or a.dtype.kind in "biu":
        if ref.dtype.kind != a.dtype.kind and not (ref.dtype.kind in "iu" and a.dtype.kind in "iu"):
            if not (a.dtype.kind in "fiu" and ref.dtype.kind in "fiu"):
                return "value", f"result dtype {a.dtype}, model dtype {ref.dtype}"
        if a.dtype.kind in "biu" and ref.dtype.kind in "biu":
            if not np.array_equal(a, ref):
                return "value", f"integer/boolean result differs from the model at {int(np.sum(a != ref))} of {a.size} entries"
            return None
    a = a.astype(complex if a.dtype.kind == "c" else float)
    ref = ref.astype(complex if ref.dtype.kind == "c" else float)
    fa, fr = np.isfinite(a), np.isfinite(ref)
    if not np.array_equal(fa, fr):
        return "value", "non-finite entries at different places than in the model"
    if not fa.all():
        same = np.array_equal(np.isnan(a), np.isnan(ref)) and np.array_equal(a[~fa & ~np.isnan(a)], ref[~fr & ~np.isnan(ref)])
        if not same:
            return "value", "non-finite entries differ from the model"
        a, ref = a[fa], ref[fr]
    if a.size == 0:
        return None
    scale = max(float(np.max(np.abs(ref))), float(mv.floor), 1e-300)
    err = float(np.max(np.abs(a - ref))) / scale
    if err > mv.tol:
        i = int(np.argmax(np.abs(a - ref)))
        return "value", f"differs from the per-(e,p) model: max rel. error {err:.3e} (got {a.ravel()[i]!r}, model {ref.ravel()[i]!r})"
    return None


def coinc(Ne, nPg, d):
    """Pattern of coincidences between the number of elements, of Gauss points and the tensor dimension."""
    if Ne == nPg == d:
        return "Ne=nPg=d"
    if Ne == nPg:
        return "Ne=nPg"
    if Ne == d:
        return "Ne=d"
    if nPg == d:
        return "nPg=d"
    return "none"


def fn_of(op: str) -> str:
    """Function of an operator template without its arguments: 'A.std(axis=0)' -> 'A.std', 'np.matmul(A,B)' -> 'np.matmul'."""
    if op.startswith("(") or "(" not in op:
        return op
    return op[: op.index("(")]


class Tally:
    def __init__(self, ctx):
        self.ctx = ctx
        self.viol = []
        self.seen = set()
        self.out = {}
        self.n = 0
        self.compared = 0
        self.h = hashlib.sha1()

    def count(self, o):
        self.out[o] = self.out.get(o, 0) + 1

    def add_viol(self, check, term, detail):
        """One report per (check, family, function, operand kinds) and case: the first failing term stands for the
        others of the same function in that case (other axis arguments, other inner terms at depth 2)."""
        fn = fn_of(term.op)
        k = (check, term.fam, fn, term.sig)
        if k in self.seen or len(self.viol) >= MAX_VIOL_PER_CASE:
            return
        self.seen.add(k)
        self.viol.append(viol(check, f"{term.name}  [{self.ctx['shape']}]: {detail}", fam=term.fam, fn=fn, sig=term.sig, **self.ctx["key"]))


def evaluate(term, tally):
    """Runs one term on the implementation and on the model. Returns (result object, MV) when both agree, else None."""
    tally.n += 1
    model_err = None
    mv = None
    try:
        mv = term.model()
    except Undefined as e:
        model_err = "undefined"
    except Skip:
        tally.count("skipped_cond")
        return None
    except Exception as e:  # plain numpy refused the per-slice operation: not defined for these tensor shapes
        model_err = "numpy_refuses:" + type(e).__name__
    try:
        res = term.impl()
        impl_err = None
    except Exception as e:
        res = None
        impl_err = type(e).__name__ + ": " + str(e).split("\n")[0][:160]
    tally.h.update(term.name.encode())
    if model_err is not None:
        tally.count("undefined(raises)" if impl_err else "undefined(returns)")
        tally.h.update(b"U1" if impl_err else b"U0")
        return None
    if impl_err is not None:
        if term.promised:
            tally.count("violation")
            tally.add_viol("raises", term, f"the per-(e,p) operation is defined (model: {mv.kind} of shape {np.shape(mv.a)}) "
                                           f"but the implementation raised {impl_err}")
        else:
            tally.count("undefined(raises)")
        tally.h.update(b"R")
        return None
    tally.compared += 1
    bad = compare(res, mv)
    if bad is not None and bad[0] == "type" and term.fam == "np_axes":
        # numpy axis permutations / stacking that displace the (element, Gauss point) axes are not per-(e,p) tensor
        # operations: the property does not say how their result is typed; only the values and the shape are compared
        bad = None
        a_, r_ = np.asarray(res), np.asarray(mv.a)
        if a_.shape != r_.shape:
            bad = ("shape", f"result shape {a_.shape}, model shape {r_.shape}")
        elif a_.dtype.kind in "fc" and r_.size and np.max(np.abs(a_ - r_)) > 1e-12 * max(np.max(np.abs(r_)), 1e-300):
            bad = ("value", "values differ from the permuted / stacked model array")
        if bad is None:
            tally.count("ok_typing_not_specified")
            tally.h.update(b"T" + str(a_.shape).encode())
            return None  # not expanded to depth 2: model and implementation disagree on a typing the property leaves open
    if bad is not None:
        tally.count("violation")
        tally.add_viol(bad[0], term, bad[1])
        tally.h.update(b"V" + bad[0].encode())
        return None
    tally.count("ok_fe" if mv.kind == "fe" else "ok_plain")
    a = np.asarray(res)
    tally.h.update(str((mv.kind, a.shape)).encode())
    if a.dtype.kind in "fc":
        sc = max(mv.mag, 1e-300)
        tally.h.update(np.ascontiguousarray(np.round(a / sc, 7) + 0.0).tobytes())
    else:
        tally.h.update(np.ascontiguousarray(a).tobytes())
    return res, mv


def state_class(res, mv, fam):
    """Merge key of a depth-1 result (E2, merged): model kind, shape, dtype kind, memory layout flags and the family of
    the operator that produced it.  The implementation's dispatch (fast paths, alignment, typing) reads type, shape,
    dtype and layout only; the values are generic, so two results of one class have the same futures."""
    a = np.asarray(res)
    return (mv.kind, a.shape, a.dtype.kind, bool(a.flags.c_contiguous), bool(a.flags.f_contiguous), bool(a.flags.writeable), fam)


def result_operand(name, res, mv):
    """A verified depth-1 result as operand of a depth-2 term: the implementation's object on one side, its own
    values (copied, so that no round-off accumulates) with the MODEL's kind on the other."""
    if mv.kind == "scalar":
        return Opd(name, "S", res, MV("scalar", res))
    a = np.array(np.asarray(res), copy=True)
    sig = f"F{a.ndim - 2}" if mv.kind == "fe" else f"P{a.ndim}"
    return Opd(name, sig, res, MV(mv.kind, a))


# =================================================================================================
# cases
# =================================================================================================
def shapes(tier):
    out = [(Ne, nPg, d) for Ne in (1, 2, 3) for nPg in (1, 2, 3) for d in (1, 2, 3)]
    out += [(Ne, nPg, 6) for Ne in (1, 2, 3) for nPg in (1, 2, 3)]
    out += [(6, 6, 6), (2, 6, 6), (6, 2, 6), (6, 6, 2)]
    return out


# quick tier, depth 2: one shape per pattern of coincidences between Ne, nPg and d (+ the all-ones and a Kelvin-Mandel shape)
DEPTH2_QUICK = [(1, 1, 1), (2, 2, 2), (3, 3, 3), (2, 3, 3), (1, 3, 3), (3, 2, 3), (3, 3, 2), (1, 2, 3), (2, 3, 6)]
DEPTH2_QUICK_PRIMARIES = ["F0", "F1", "F2", "F4", "F2c", "F1e", "F0p"]

FIELD_CONFIGS = [("SEG2", "rigi"), ("SEG2", "mass"), ("SEG3", "mass"), ("TRI3", "rigi"), ("TRI3", "mass"), ("TRI6", "rigi"),
                 ("QUAD4", "mass"), ("TETRA4", "rigi"), ("TETRA4", "mass")]


def _leaf_names(Ne, nPg, d):
    names = []
    for r_ in ranks_for(d):
        for suf, fs in (("", (Ne, nPg)), ("c", (1, 1)), ("e", (Ne, 1)), ("p", (1, nPg))):
            if suf and (fs == (Ne, nPg) or (suf in "ep" and fs == (1, 1))):
                continue
            names.append(f"F{r_}{suf}")
    return names + ["Z1", "Z2"]


def cases(tier, seed):
    out = []
    for (Ne, nPg, d) in shapes(tier):
        names = [p for p in FE_PRIMARIES if p in _leaf_names(Ne, nPg, d)]
        for p in names:
            out.append({"kind": "terms", "Ne": Ne, "nPg": nPg, "d": d, "depth": 1, "primary": p})
        out.append({"kind": "broadcast", "Ne": Ne, "nPg": nPg, "d": d, "depth": 1})
        if tier == "thorough" or (Ne, nPg, d) in DEPTH2_QUICK:
            for p in names:
                if p.startswith("Z") or (tier != "thorough" and p not in DEPTH2_QUICK_PRIMARIES):
                    continue
                out.append({"kind": "terms", "Ne": Ne, "nPg": nPg, "d": d, "depth": 2, "primary": p})
            out.append({"kind": "broadcast", "Ne": Ne, "nPg": nPg, "d": d, "depth": 2})
    for et, mt in FIELD_CONFIGS:
        for Ne in (1, 2, 3):
            for depth in (1, 2):
                out.append({"kind": "field", "elemType": et, "matrixType": mt, "Ne": Ne, "depth": depth})
    return out


def describe(tier, seed):
    return {
        "rule": "one case = (shape (Ne,nPg,d), depth, primary operand); inside, EVERY term of the grammar in which the primary "
                "operand occurs (as left and as right operand, with every partner leaf) is executed on FeArray and on the "
                "per-(e,p) loop model; depth 2 = every operator of the depth-2 alphabet applied to every verified depth-1 result of "
                "that primary, results merged by (model kind, shape, dtype kind, layout flags, producing operator family) - the "
                "implementation's dispatch reads nothing else and values are generic. non-trivial = at least one term whose model "
                "is defined was compared; distinct = fingerprint of all outcomes of the case; states = merged depth-1 results",
        "exhaustive": True,
        "bound": "depth 1: all shapes {1,2,3}^3 + d=6 with (Ne,nPg) in {1,2,3}^2 + (6,6,6),(2,6,6),(6,2,6),(6,6,2); tensor ranks 0,1,2,3,4 "
                 "(ranks 3 and 4 for d<=3; d=6 = Kelvin-Mandel vectors/matrices); every operand kind, order, spelling and axis argument. depth 2: "
                 + ("all shapes, all primaries, every reducer and every int axis / listed pairs, 23 partner leaves"
                    if tier == "thorough" else
                    f"{len(DEPTH2_QUICK)} shapes (one per coincidence pattern), primaries {DEPTH2_QUICK_PRIMARIES}, reducers "
                    f"{_METHOD_REDUCERS_Q}+ptp+add.reduce with non-negative axes, 14 partner leaves")
                 + "; Field objects: 9 (element type, rule) pairs x Ne in {1,2,3}, depth 1-2",
        "alphabet": {"shapes": len(shapes(tier)), "fe_leaf_forms": "rank{0,1,2,3,4} x {full,(1,1),(Ne,1),(1,nPg)} + second full + zero-sprinkled",
                     "plain_leaves": "0-d, (d,), (d,d), (d,d,d), (d,d,d,d), (Ne,nPg)-shaped, np.float64, float, int",
                     "operators": "+ - * / ** unary-, abs, @, np.matmul, dot, ddot, T, 11 reducers (method/np, every axis), np.median/average/ptp/"
                                  "nansum, ufunc.reduce, reshape, ravel, integrate, Det, Inv, Trace, Transpose, TensorProd, Norm, Normalize, "
                                  "broadcast, np.maximum/hypot/greater/subtract/divide, two-output ufuncs np.divmod / divmod() / np.modf, out=, where, "
                                  "einsum, concatenate, stack, swapaxes, transpose, inherited methods trace/transpose/flatten/squeeze/swapaxes",
                     "field_configs": len(FIELD_CONFIGS)},
        "assumptions": [
            "values are seeded generic arrays (|x| in [0.5,1.5], random signs; Z* leaves hold exact zeros): the enumeration is over shapes, "
            "operators, operand kinds and operand orders",
            "elementwise operations between different non-zero tensor ranks, matrix products (@) with rank 0 or rank > 2 operands, and "
            "indexing are outside the statement and not enumerated; the inherited ndarray methods flatten / squeeze / swapaxes are "
            "enumerated for the typing rule only (family tensor_method)",
            "a raised exception counts as `undefined` unless the term is one of the operations the property names and the model defines it "
            "(then check='raises'; TensorProd with its documented operands - FeArray or ndarray, two vectors or two matrices - is one of "
            "them); families Norm, Normalize, np_function (where, einsum, concatenate, linalg.det/inv) and "
            "np_axes (swapaxes, transpose, stack) are compared when they return and never reported for raising",
            "FeArray.broadcast with tensor_ndim=0 is specified by shape in the order of its docstring ((Ne,nPg,...) first, then 1-D (Ne,), "
            "then 1-D (nPg,), else constant): a 1-D coefficient with Ne == nPg is per-element",
            f"tolerance {TOL:g} relative to max(|reference|, natural scale of the operands); Inv: {TOL:g} x 10 x cond, skipped when cond > {COND_MAX:g}",
            "depth 2 applies the model to the implementation's verified depth-1 values (copied), so round-off does not accumulate; boolean / "
            "integer depth-1 results only receive reductions, reshapes and transposes; non-finite results are not expanded",
            "scalar Fields (dof_n = 1): the documented value is the shape function of the active node at the Gauss points as a (1, nPg, 1) array (taken from Get_N_pg)",
        ],
        "explanation": "the implementation's fast paths, rank alignment and result typing depend on (rank, shape, operand order, spelling); "
                       "the product of these small alphabets is enumerated completely",
    }


def run_case(case):
    warnings.simplefilter("ignore")
    with np.errstate(all="ignore"):
        return globals()["_run_" + case["kind"]](case)


def _tier():
    import os

    return os.environ.get("VERIF_TIER", "quick")


def _finish(tally, states=0):
    nv = len(tally.viol)
    oc = "violation" if nv else ("ok" if tally.compared else "vacuous")
    return {"violations": tally.viol, "fingerprint": tally.h.hexdigest()[:20], "nontrivial": tally.compared > 0,
            "outcome": oc, "transitions": tally.n, "states": states, "skipped": None, "detail_outcomes": tally.out}


def _ctx(Ne, nPg, d, depth, extra=None):
    key = {"coinc": coinc(Ne, nPg, d)}
    if extra:
        key.update(extra)
    return {"shape": f"Ne={Ne},nPg={nPg},d={d}", "key": key}


def partner_names(L, depth, tier):
    if depth == 1:
        return [k for k in L if not k.startswith("Z")]
    keep = ["S", "P0", "P1", "P2", "PQ", "F0", "F1", "F2", "G1", "G2", "F0c", "F2c", "F1e", "F0p"]
    if tier == "thorough":
        keep += ["Si", "N0", "P4", "F4", "F1c", "F2e", "F1p", "F2p", "F0e"]
    return [k for k in keep if k in L]


_NUMERIC_ONLY = {"arith", "pow", "ufunc1", "ufunc2", "matmul", "dot", "ddot", "linalg", "TensorProd", "Norm", "Normalize", "np_function"}


def terms_for(X, L, partners, lvl):
    seen = set()
    for t in unary_terms(X, lvl):
        if t.name not in seen:
            seen.add(t.name)
            yield t
    for nm in partners:
        Y = L[nm]
        if Y is X:
            continue
        for t in itertools.chain(binary_terms(X, Y, lvl), binary_terms(Y, X, lvl)):
            if t.name not in seen:
                seen.add(t.name)
                yield t


def _first_layer(terms):
    """Runs the (separately reported) depth-1 layer silently and returns its verified results [(term, res, mv)]."""
    quiet = Tally(_ctx(0, 0, 0, 1))
    firsts = []
    for t in terms:
        got = evaluate(t, quiet)
        if got is not None:
            firsts.append((t, got[0], got[1]))
    return firsts


def _expand_depth2(firsts, L, partners, tally, lvl, extra_partners=()):
    """Merge the verified depth-1 results by class, then apply every operator of the depth-2 alphabet to each class."""
    states = {}
    for t, res, mv in firsts:
        if mv.kind == "scalar":
            continue
        a = np.asarray(res)
        if a.dtype.kind in "fc" and not np.all(np.isfinite(a)):
            continue
        states.setdefault(state_class(res, mv, t.fam), (t.name, res, mv))
    for name, res, mv in states.values():
        R = result_operand("(" + name + ")", res, mv)
        numeric = R.mv.a.dtype.kind in "fc"
        if mv.kind == "fe":
            gen = terms_for(R, L, partners, lvl)
        else:
            if R.mv.a.ndim > 4 or R.mv.a.size > 4096 or not numeric:
                continue
            gen = itertools.chain.from_iterable(
                itertools.chain(binary_terms(R, L[nm], 0), binary_terms(L[nm], R, 0)) for nm in partners if _is_fe(L[nm]))
        for t in gen:
            if not numeric and t.fam in _NUMERIC_ONLY:
                continue
            evaluate(t, tally)
    return len(states)


def _run_terms(case):
    Ne, nPg, d, depth, prim = case["Ne"], case["nPg"], case["d"], case["depth"], case["primary"]
    tier = _tier()
    L = make_leaves(Ne, nPg, d)
    X = L[prim]
    tally = Tally(_ctx(Ne, nPg, d, depth))
    first = terms_for(X, L, partner_names(L, 1, tier), 2)
    if depth == 1:
        for t in first:
            evaluate(t, tally)
        return _finish(tally)
    ns = _expand_depth2(_first_layer(first), L, partner_names(L, 2, tier), tally, 1 if tier == "thorough" else 0)
    return _finish(tally, states=ns)


def _run_broadcast(case):
    Ne, nPg, d, depth = case["Ne"], case["nPg"], case["d"], case["depth"]
    tier = _tier()
    tally = Tally(_ctx(Ne, nPg, d, depth))
    terms = broadcast_terms(Ne, nPg, d)
    if depth == 1:
        for t in terms:
            evaluate(t, tally)
        return _finish(tally)
    L = make_leaves(Ne, nPg, d)
    # the producing `family` of a broadcast result is its coefficient form: every accepted form is expanded
    firsts = [(Term(t.name, t.op, t.sig, t.sig, True, None, None), r, mv) for t, r, mv in _first_layer(terms)]
    ns = _expand_depth2(firsts, L, partner_names(L, 2, tier), tally, 1 if tier == "thorough" else 0)
    return _finish(tally, states=ns)


# -------------------------------------------------------------------------------------------------
# Field objects
# -------------------------------------------------------------------------------------------------
def _make_group(et, Ne):
    from EasyFEA import ElemType
    from EasyFEA.FEM._group_elem import GroupElemFactory
    from zoo import meshes as Z

    loc = Z.local_coords(et)
    nPe, dim = loc.shape
    r = rng("c12", "grp", et, Ne)
    coords = np.zeros((Ne * nPe, 3))
    for e in range(Ne):
        A = np.eye(dim) + 0.2 * r.uniform(-1, 1, size=(dim, dim))
        coords[e * nPe:(e + 1) * nPe, :dim] = loc @ A.T + 3.0 * e
    connect = np.arange(Ne * nPe).reshape(Ne, nPe)
    return GroupElemFactory.Create(ElemType[et], connect, coords), dim, nPe


def _run_field(case):
    from EasyFEA.FEM import Field, MatrixType

    et, mtn, Ne, depth = case["elemType"], case["matrixType"], case["Ne"], case["depth"]
    g, dim, nPe = _make_group(et, Ne)
    mt = MatrixType[mtn]
    N_pg = np.asarray(g.Get_N_pg(mt))
    nPg = N_pg.shape[0]
    tally = Tally(_ctx(Ne, nPg, dim, depth, {"elemType": et, "matrixType": mtn}))

    def field(name, node):
        f = Field(g, 1, mt)
        f._Set_current_active_node(node)
        # documented value of a Field: its shape function at the Gauss points, a (1, nPg, 1) finite element array
        return Opd(name, "U", f, MV("fe", N_pg[:, 0, node].reshape(1, nPg, 1).copy()), isfield=True)

    U = field("U", min(1, nPe - 1))
    W = field("W", 0)

    def vfield(name, node, dof):
        # a vector-valued Field (dof_n = dim): the shape function in the active component, zero in the others, a (1, nPg, dim) array
        f = Field(g, dim, mt)
        f._Set_current_active_node(node)
        f._Set_current_active_dof(dof)
        val = np.zeros((1, nPg, dim))
        val[0, :, dof] = N_pg[:, 0, node]
        return Opd(name, "U", f, MV("fe", val), isfield=True)
    # the finite element array a Field evaluates to belongs to the caller: an in-place edit of it (w *= rho inside an integrand) must
    # not reach any later use of the same Field (every term below is evaluated after this edit)
    for F_ in (U, W):
        w_ = F_.obj()
        w_ *= 3.0
        w_ += 1.0
    L = {"U": U, "W": W}
    for nm, sig, shp in (("F0", "F0", (Ne, nPg)), ("F1", "F1", (Ne, nPg, 1)), ("F1d", "F1", (Ne, nPg, dim)),
                         ("F2", "F2", (Ne, nPg, 1, 1)), ("F2d", "F2", (Ne, nPg, dim, dim)), ("F0c", "F0c", (1, 1)), ("F1p", "F1p", (1, nPg, 1))):
        L[nm] = fe_leaf(nm, sig, _gen(rng("c12", "fld", nm, et, mtn, Ne), shp))
    grad = U.obj.grad
    L["GU"] = Opd("U.grad", "F1", grad, MV("fe", np.array(np.asarray(grad), copy=True)))
    for nm, sig, shp in (("P0", "P0", ()), ("P1", "P1", (1,)), ("P1d", "P1", (dim,)), ("P2", "P2", (1, 1)), ("P2d", "P2", (dim, dim))):
        L[nm] = plain_leaf(nm, sig, _gen(rng("c12", "fld", nm, et), shp))
    L["N0"] = scalar_leaf("N0", "N0", np.float64(1.6))
    L["S"] = scalar_leaf("S", "S", 1.7)
    L["Si"] = scalar_leaf("Si", "Si", 3)

    def field_terms(X, partners):
        seen = set()
        for nm in partners:
            Y = L[nm]
            for A, B in ((X, Y), (Y, X)):
                if not (A.isfield or B.isfield):
                    continue
                for t in binary_terms(A, B, 0):
                    if t.name not in seen:
                        seen.add(t.name)
                        yield t

    first = field_terms(U, [k for k in L if k != "U"] + ["U"])
    if depth == 1:
        for t in first:
            evaluate(t, tally)
        if dim >= 2:
            # the vector-valued Field against every constant and field operand whose trailing sizes are dim (a full, non-symmetric matrix on
            # either side of it, vectors, scalars)
            V = vfield("V", min(1, nPe - 1), dim - 1)
            L["V"] = V
            for t in field_terms(V, ["P0", "P1d", "P2d", "F0", "F1d", "F2d", "N0", "S", "Si", "V"]):
                evaluate(t, tally)
        return _finish(tally)
    states = {}
    for t, res, mv in _first_layer(first):
        a = np.asarray(res)
        if a.dtype.kind in "fc" and np.all(np.isfinite(a)):
            states.setdefault(state_class(res, mv, t.fam) + (fn_of(t.op),), (t.name, res, mv))
    for name, res, mv in states.values():
        R = result_operand("(" + name + ")", res, mv)
        for Y in (U, W):
            for A, B in ((R, Y), (Y, R)):
                for t in binary_terms(A, B, 0):
                    evaluate(t, tally)
        for t in unary_terms(R, 0):
            evaluate(t, tally)
    return _finish(tally, states=len(states))
