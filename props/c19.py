"""C19 — history-dependent material integration is admissible, dissipative and consistent; Integrate is pure;
only Save_Iter advances the committed history.

Material level (E2, merged): states = (total strain, packed internal variables z) of ONE material point, merged by
fingerprint; letters = 20 strain increments; BFS over ALL letter paths up to the depth bound.  All successors of a
BFS level are integrated by the real `Behavior.Integrate` in batches (one Gauss point per transition: the code path
assembly uses).  Reference model = the documented constitutive definitions written in plain numpy
(yield functions, hardening forces, back-stress, sigma = C:(eps-eps_p) - sum g_i C:eps_v_i).

Simulation level (E2, unmerged): every sequence of depth 3 over {Solve(load a), Solve(load b), Solve again, Save_Iter,
Set_Iter(i)} on a fresh `Simulations.InElastic`; reference model = a Python list of snapshots; the committed state is
observed where the implementation consumes it (the `zOld` handed to `Behavior.Integrate`)."""
from __future__ import annotations

import contextlib
import io
import itertools

import numpy as np

from mc.util import deviations, fp, rng, viol

PROPERTY = "C19"

# ------------------------------------------------------------------------------------------------
# material constants of the alphabets
# ------------------------------------------------------------------------------------------------
E_MOD, NU, SIGMA_Y = 210e3, 0.3, 250.0
EPS_Y = SIGMA_Y / E_MOD
LAM = E_MOD * NU / ((1 + NU) * (1 - 2 * NU))
MU = E_MOD / (2 * (1 + NU))
DT = 0.5  # time increment of every step of a rate-dependent / viscoelastic behaviour (not 1: dt must not drop out)

YIELDS = {
    "VonMises": ("VonMises", {}),
    "none": None,
    "HillIso": ("Hill", {}),
    "HillAniso": ("Hill", dict(F=0.7, G=0.4, H=0.6, L=1.8, M=1.2, N=1.4)),
    "DruckerPrager": ("DruckerPrager", dict(eta=0.2)),
}
HARDENINGS = {
    "none": None,
    "Linear": ("Linear", dict(H=2000.0)),
    "Voce": ("Voce", dict(Q=150.0, b=30.0)),
    "Swift": ("Swift", dict(K=600.0, n=0.2, eps0=1e-4)),
}
KINEMATICS = {
    "none": None,
    "Prager": [(20000.0, 0.0)],
    "ArmstrongFrederick": [(60000.0, 500.0)],
    "Chaboche2": [(60000.0, 500.0), (2000.0, 0.0)],
}
RATES = {
    "none": None,
    "Norton": ("Norton", dict(A=2.5e-2, n=2.0, sigma_0=SIGMA_Y)),
    "Perzyna": ("Perzyna", dict(eta=50.0, n=1.0, sigma_0=SIGMA_Y)),
    # exponent below 1 (legal: the factory asks n > 0): the scalar residual of the local solve is not convex in the multiplier
    "NortonRoot": ("Norton", dict(A=3e-4, n=0.5, sigma_0=SIGMA_Y)),
    # a steep law (metals at high temperature: n = 5 .. 10)
    "Norton8": ("Norton", dict(A=1e-3, n=8.0, sigma_0=SIGMA_Y)),
}
BRANCHES = {"none": [], "one": [(0.3, 2.0)], "two": [(0.2, 0.5), (0.3, 5.0)]}
DIMS = ["3D", "PlaneStrain", "PlaneStress"]
FACTORS = {
    "yield": list(YIELDS),
    "hardening": list(HARDENINGS),
    "kinematic": list(KINEMATICS),
    "rate": list(RATES),
    "branches": list(BRANCHES),
    "dim": DIMS,
}

AMPS = [0.5 * EPS_Y, 3.0 * EPS_Y]
DIRS = ["xx", "yy", "xy", "hyd", "xx-yy"]
# magnitude of the whole path (case factor `amp`): every letter is multiplied by it.  A material without internal variables has
# no scale of its own -- 'exactly linear elastic' is a statement about every decade of strain
AMP_SCALES = {"unit": 1.0, "milli": 1e-3, "micro": 1e-6, "nano": 1e-9}
# pre-strain (case flag `pre`): the FIRST step of every path is one of the 10 large increments +/- PRE_AMP e ('X' letters: a monotonic
# load far into the plastic range, 4.8 % strain: the back-stress has carried the surface away from the origin), then the 20 letters
PRE_AMP = 40.0 * EPS_Y


def pre_letters(dimname):
    """the 10 pre-strain increments +/- PRE_AMP e of the 5 directions (names +Xxx, -Xxx, ...)"""
    L, names = letters(dimname)
    pick = [i for i, nm in enumerate(names) if nm[1] == "L"]
    return L[pick] * (PRE_AMP / AMPS[1]), [names[i][0] + "X" + names[i][2:] for i in pick]


def letters(dimname):
    """20 strain increments (Kelvin-Mandel vectors of the model dimension): +/- a*e."""
    n = 6 if dimname == "3D" else 3
    ixy = 5 if n == 6 else 2
    base = {}
    for d in DIRS:
        e = np.zeros(n)
        if d == "xx":
            e[0] = 1
        elif d == "yy":
            e[1] = 1
        elif d == "xy":
            e[ixy] = 1
        elif d == "hyd":
            e[: (3 if n == 6 else 2)] = 1
        else:
            e[0], e[1] = 1, -1
        base[d] = e
    out, names = [], []
    for d in DIRS:
        for ia, a in enumerate(AMPS):
            for s in (+1, -1):
                out.append(s * a * base[d])
                names.append(("+" if s > 0 else "-") + ("s" if ia == 0 else "L") + d)
    return np.array(out), names


# ------------------------------------------------------------------------------------------------
# construction of the real behaviours
# ------------------------------------------------------------------------------------------------
def build_behavior(cfg, solver="auto", unit=1.0, E=None, v=None):
    """Returns the real Behavior of a factor configuration (raises what the constructor raises).
    unit: every stress-like constant is multiplied by it (the same material written in another unit of stress).
    E, v: other elastic constants than the module's (kind relaw)."""
    from EasyFEA import Models
    from EasyFEA.Models.Elastic._laws import Isotropic

    I = Models.InElastic
    el = Isotropic(3, E=(E_MOD if E is None else E) * unit, v=NU if v is None else v)
    y = YIELDS[cfg["yield"]]
    ys = None if y is None else getattr(I.Yield, y[0])(SIGMA_Y * unit, **y[1])
    h = HARDENINGS[cfg["hardening"]]
    hp = None if h is None else {k_: (v_ * unit if k_ in ("H", "Q", "K") else v_) for k_, v_ in h[1].items()}
    hd = None if h is None else getattr(I.IsotropicHardening, h[0])(**hp)
    k = KINEMATICS[cfg["kinematic"]]
    if k is not None:
        k = [(c_ * unit, g_) for c_, g_ in k]
    if k is None:
        kin = None
    elif cfg["kinematic"] == "Prager":
        kin = I.KinematicHardening.Prager(k[0][0])
    elif cfg["kinematic"] == "ArmstrongFrederick":
        kin = I.KinematicHardening.ArmstrongFrederick(*k[0])
    else:
        kin = I.KinematicHardening.Chaboche(*k)
    r = RATES[cfg["rate"]]
    rp = None if r is None else {k_: (v_ * unit if k_ == "sigma_0" else v_) for k_, v_ in r[1].items()}
    rate = None if r is None else getattr(I.ViscoPlastic, r[0])(**rp)
    br = tuple(I.ViscoElastic.Maxwell(g, tau) for g, tau in BRANCHES[cfg["branches"]])
    dim = 3 if cfg["dim"] == "3D" else 2
    return I.Behavior(dim, el, yieldSurface=ys, hardening=hd, kinematic=kin, rate=rate, branches=br,
                      planeStress=(cfg["dim"] == "PlaneStress"), solver=solver)


_ACCEPT_CACHE: dict = {}


def accepted(cfg) -> bool:
    """Acceptance is decided by trying the real constructor (both local solvers)."""
    key = tuple(cfg[k] for k in FACTORS)
    if key not in _ACCEPT_CACHE:
        try:
            build_behavior(cfg, "auto")
            build_behavior(cfg, "newton")
            _ACCEPT_CACHE[key] = True
        except AssertionError:
            _ACCEPT_CACHE[key] = False
    return _ACCEPT_CACHE[key]


# ------------------------------------------------------------------------------------------------
# reference model (documented definitions, plain numpy, vectorised over points)
# ------------------------------------------------------------------------------------------------
M6 = np.array([1.0, 1.0, 1.0, 0.0, 0.0, 0.0])
C6 = LAM * np.outer(M6, M6) + 2 * MU * np.eye(6)  # isotropic stiffness, Kelvin-Mandel
IDX2 = [0, 1, 5]


def ref_dev(s):
    return s - np.sum(s[..., :3], axis=-1, keepdims=True) / 3.0 * M6


def ref_svm(s):
    d = ref_dev(s)
    return np.sqrt(1.5 * np.sum(d * d, axis=-1))


def ref_phi(yname, xi):
    """equivalent stress phi(xi) of the documented yield functions f = phi - sigma_y - R."""
    kind, par = YIELDS[yname]
    if kind == "VonMises":
        return ref_svm(xi)
    if kind == "DruckerPrager":
        return ref_svm(xi) + par["eta"] * np.sum(xi[..., :3], axis=-1)
    F, G, H = par.get("F", 0.5), par.get("G", 0.5), par.get("H", 0.5)
    L, M, N = par.get("L", 1.5), par.get("M", 1.5), par.get("N", 1.5)
    # Hill 1948: F(syy-szz)^2 + G(szz-sxx)^2 + H(sxx-syy)^2 + 2L syz^2 + 2M sxz^2 + 2N sxy^2, Kelvin shear = sqrt2 * shear
    q = (F * (xi[..., 1] - xi[..., 2]) ** 2 + G * (xi[..., 2] - xi[..., 0]) ** 2 + H * (xi[..., 0] - xi[..., 1]) ** 2
         + L * xi[..., 3] ** 2 + M * xi[..., 4] ** 2 + N * xi[..., 5] ** 2)
    return np.sqrt(np.maximum(q, 0.0))


def ref_R(hname, p):
    h = HARDENINGS[hname]
    if h is None:
        return 0.0 * p
    kind, par = h
    if kind == "Linear":
        return par["H"] * p
    if kind == "Voce":
        return par["Q"] * (1 - np.exp(-par["b"] * p))
    return par["K"] * ((par["eps0"] + p) ** par["n"] - par["eps0"] ** par["n"])


def ref_rate_inverse(rname, gdot):
    """overstress that sustains the plastic rate gdot: gdot = A (f/sigma_0)^n"""
    kind, par = RATES[rname]
    A = par["A"] if kind == "Norton" else 1.0 / par["eta"]
    return par["sigma_0"] * (np.maximum(gdot, 0.0) / A) ** (1.0 / par["n"])


class Layout:
    """documented packing order: eps_p(6), p(1), alpha_i(6 each), eps_v_i(6 each)"""

    def __init__(self, cfg):
        self.slots, n = {}, 0
        if cfg["yield"] != "none":
            self.slots["eps_p"] = slice(0, 6)
            self.slots["p"] = slice(6, 7)
            n = 7
        self.kin = KINEMATICS[cfg["kinematic"]] or []
        for i in range(len(self.kin)):
            self.slots[f"alpha{i}"] = slice(n, n + 6)
            n += 6
        self.br = BRANCHES[cfg["branches"]]
        for i in range(len(self.br)):
            self.slots[f"eps_v{i}"] = slice(n, n + 6)
            n += 6
        self.n = n

    def eps_p(self, z):
        return z[..., self.slots["eps_p"]] if "eps_p" in self.slots else np.zeros(z.shape[:-1] + (6,))

    def p(self, z):
        return z[..., 6] if "p" in self.slots else np.zeros(z.shape[:-1])

    def X(self, z):
        X = np.zeros(z.shape[:-1] + (6,))
        for i, (Ck, _) in enumerate(self.kin):
            X = X + (2.0 / 3.0) * Ck * z[..., self.slots[f"alpha{i}"]]
        return X

    def visc(self, z):
        """sum_i g_i eps_v_i"""
        v = np.zeros(z.shape[:-1] + (6,))
        for i, (g, _) in enumerate(self.br):
            v = v + g * z[..., self.slots[f"eps_v{i}"]]
        return v


def ref_sigma6(cfg, lay, eps, z, sig_ret):
    """6D stress of the documented law sigma = C:(eps - eps_p) - sum g_i C:eps_v_i at the returned state.
    3D / plane strain: the 6D strain is known.  Plane stress: eps_zz is the one unknown; it is recovered from the
    returned in-plane stress (least squares), so that sigma_zz of the result is what the implementation left behind."""
    N = eps.shape[0]
    eps6 = np.zeros((N, 6))
    if cfg["dim"] == "3D":
        eps6[:] = eps
    else:
        eps6[:, IDX2] = eps
    inel = lay.eps_p(z) + lay.visc(z)
    if cfg["dim"] == "PlaneStress":
        s0 = (eps6 - inel) @ C6.T  # with eps_zz = 0
        c = C6[IDX2, 2]  # d sigma_inplane / d eps_zz
        ezz = ((sig_ret - s0[:, IDX2]) @ c) / (c @ c)
        eps6[:, 2] = ezz
    return (eps6 - inel) @ C6.T, eps6


# ------------------------------------------------------------------------------------------------
# batched calls of the implementation
# ------------------------------------------------------------------------------------------------
CHUNK = 4096
_CHUNK = [None]  # per-case override: number of steps (difference stencils) per Integrate call


def _fe(a):
    from EasyFEA.FEM._linalg import FeArray

    return FeArray.asfearray(np.ascontiguousarray(a)[:, None, :])


def _call(beh, eps, zold, dt):
    """One Integrate call on N points (N elements x 1 Gauss point). Returns plain arrays + purity flags."""
    e, z0 = _fe(eps), _fe(zold)
    eb, zb = e.tobytes(), z0.tobytes()
    sig, C, z, ok = beh.Integrate(e, z0, dt)
    pure = (e.tobytes() == eb) and (z0.tobytes() == zb)
    return (np.array(sig)[:, 0], None if C is None else np.array(C)[:, 0], np.array(z)[:, 0].reshape(len(eps), -1),
            np.array(ok)[:, 0].astype(bool), pure)


def integrate(beh, eps, zold, dt, stats, atom=1):
    """Integrate on every point, chunked.  A batch that raises (plane-stress iteration: the property only speaks of
    steps that converge) is split down to blocks of `atom` points (one difference stencil, or one step), which are
    flagged `raised` as a whole."""
    N, n = eps.shape
    sig = np.full((N, n), np.nan)
    C = np.full((N, n, n), np.nan)
    z = np.full((N, zold.shape[1]), np.nan)
    ok = np.zeros(N, dtype=bool)
    raised = np.zeros(N, dtype=bool)
    pure = True
    chunk = max(atom, CHUNK - CHUNK % atom) if _CHUNK[0] is None else atom * _CHUNK[0]
    stack = [np.arange(i, min(i + chunk, N)) for i in range(0, N, chunk)][::-1]
    while stack:
        idx = stack.pop()
        try:
            s, c, zz, o, pu = _call(beh, eps[idx], zold[idx], dt)
            stats["calls"] += 1
            stats["points"] += len(idx)
        except AssertionError as err:
            stats["calls"] += 1
            if "did not converge" not in str(err):
                raise
            nb = len(idx) // atom  # blocks
            if nb <= 1:
                raised[idx] = True
            else:
                cuts = sorted(set(int(round(k * nb / min(8, nb))) * atom for k in range(1, min(8, nb))))
                stack.extend(part for part in np.split(idx, cuts) if len(part))
            continue
        sig[idx], C[idx], z[idx], ok[idx] = s, c, zz, o
        pure = pure and pu
    return sig, C, z, ok, raised, pure


# ------------------------------------------------------------------------------------------------
# per-level oracle
# ------------------------------------------------------------------------------------------------
TOL_F = 1e-8 * SIGMA_Y          # yield admissibility
TOL_SIG = 1e-9 * SIGMA_Y        # returned stress == documented stress of the returned state
TOL_DISS = 1e-12 * SIGMA_Y      # dissipation per step (stress x strain units; sigma_y*eps_y = 0.3)
TOL_TRACE = 1e-10 * EPS_Y
TOL_TANGENT = 1e-6              # relative to |C_elastic d|
TOL_SOLVERS = 1e-8              # auto vs newton, relative
FD_H = 1e-3 * EPS_Y             # finite-difference step (Richardson uses h and h/2)
DEVIATORIC = {"VonMises", "HillIso", "HillAniso"}


def cfg_key(cfg):
    key = {k: cfg[k] for k in FACTORS}
    for k in ("amp", "pre"):  # path variants (absent from the key of the standard paths)
        if cfg.get(k):
            key[k] = cfg[k]
    return key


def is_reducible(cfg):
    """documented dispatch of solver='auto': quadratic surface and nothing else evolves -> scalar spectral return"""
    return cfg["yield"] in DEVIATORIC and cfg["kinematic"] == "none" and cfg["branches"] == "none"


def time_step(cfg):
    if cfg.get("dt0"):
        return 0.0  # an instantaneous step of a viscoelastic behaviour (dashpots rigid: glassy response; the yield surface still bounds the stress)
    return DT if (cfg["rate"] != "none" or cfg["branches"] != "none") else 0.0


def ps_tolerance(cfg):
    """documented plane-stress tolerance: max(planeStress_tol * max(scale, 1), 10 * tol * C_zz) with the documented
    settings planeStress_tol = 1e-8 (relative to the yield scale) and tol = 1e-10"""
    scale = SIGMA_Y if cfg["yield"] != "none" else 1.0
    return max(1e-8 * max(scale, 1.0), 10.0 * 1e-10 * C6[2, 2])


def fd_directions(cfg, full):
    """directions of the tangent check: the whole Kelvin basis (full) + one seeded generic direction"""
    n = 6 if cfg["dim"] == "3D" else 3
    g = rng("c19dir", n).normal(size=n)
    g = g / np.linalg.norm(g)
    # generic: every component is present
    g = np.where(np.abs(g) < 0.15, np.sign(g + 1e-300) * 0.15, g)
    g = g / np.linalg.norm(g)
    dirs = [g]
    if full:
        dirs += list(np.eye(n))
    return np.array(dirs)


def check_level(cfg, lay, behs, eps, zold, names, depth, full_fd, stats, out):
    """Integrates every transition (eps, zold) of one BFS level with the real code and evaluates the oracle.
    Returns (sig, z, good) of the 'auto' behaviour; violations are appended to `out`."""
    key = cfg_key(cfg)
    dt = time_step(cfg)
    N, n = eps.shape
    beh, behN, behT = behs
    stats["transitions"] += N

    def where(i):
        return f"path {'>'.join(names[i])}"

    def add(check, i, msg, **kw):
        if len(out) < 40:
            out.append(viol(check, f"{msg} [{where(i)}; depth {depth}]", **dict(key, **kw)))

    # --- scout: which steps converge (the property speaks of those) ------------------------------------------
    eps_b, z_b = eps.tobytes(), zold.tobytes()
    _, _, _, ok0, raised0, pure0 = integrate(beh, eps, zold, dt, stats)
    stats["raised"] += int(raised0.sum())
    stats["nonconverged"] += int((~ok0 & ~raised0).sum())
    sel = np.nonzero(ok0 & ~raised0)[0]
    sig = np.full((N, n), np.nan)
    z = np.full((N, lay.n), np.nan)
    C = np.full((N, n, n), np.nan)
    good = np.zeros(N, dtype=bool)
    if len(sel) == 0:
        return sig, z, good
    # --- the step itself (batch of the converging steps) + purity -----------------------------------------
    eS, zS = np.ascontiguousarray(eps[sel]), np.ascontiguousarray(zold[sel])
    eS_b, zS_b = eS.tobytes(), zS.tobytes()
    sig1, C1, z1, ok1, raised1, pure = integrate(beh, eS, zS, dt, stats)
    sig2, C2, z2, ok2, raised2, pure2 = integrate(beh, eS, zS, dt, stats)
    if not (pure0 and pure and pure2) or eps.tobytes() != eps_b or zold.tobytes() != z_b or eS.tobytes() != eS_b or zS.tobytes() != zS_b:
        add("purity_inputs", int(sel[0]), "Integrate(eps, zOld, dt) changed the bytes of its eps / zOld arguments")
    same = (np.array_equal(sig1, sig2, equal_nan=True) and np.array_equal(C1, C2, equal_nan=True)
            and np.array_equal(z1, z2, equal_nan=True) and np.array_equal(ok1, ok2) and np.array_equal(raised1, raised2))
    if not same:
        bad = np.nonzero(~(np.all((sig1 == sig2) | np.isnan(sig1), axis=1) & np.all((z1 == z2) | np.isnan(z1), axis=1)))[0]
        add("purity_repeat", int(sel[bad[0]]) if len(bad) else int(sel[0]),
            "a second identical Integrate call returned a different output (hidden state)")
    sig[sel], C[sel], z[sel] = sig1, C1, z1
    good[sel] = ok1 & ~raised1
    fin = np.all(np.isfinite(sig), axis=1) & np.all(np.isfinite(z), axis=1) & np.all(np.isfinite(C.reshape(N, -1)), axis=1)
    if np.any(good & ~fin):
        add("nonfinite", int(np.nonzero(good & ~fin)[0][0]), "converged step returned non-finite stress / state / tangent")
        good = good & fin
    gi = np.nonzero(good)[0]
    if len(gi) == 0:
        return sig, z, good

    # --- documented stress of the returned state ------------------------------------------------------
    sg, zg, z0g, eg = sig[gi], z[gi], zold[gi], eps[gi]
    sig6, eps6 = ref_sigma6(cfg, lay, eg, zg, sg)
    idx = list(range(6)) if cfg["dim"] == "3D" else IDX2
    err = np.max(np.abs(sig6[:, idx] - sg), axis=1)
    for j in np.nonzero(err > TOL_SIG)[0][:1]:
        add("stress_state", gi[j], f"returned stress differs from C:(eps-eps_p)-sum g_i C:eps_v_i of the returned state by {err[j]:.3e}")
    if cfg["dim"] == "PlaneStress":
        tps = ps_tolerance(cfg)
        szz = np.abs(sig6[:, 2])
        stats["max_szz_over_tol"] = max(stats["max_szz_over_tol"], float(szz.max() / tps))
        for j in np.nonzero(szz > tps)[0][:1]:
            add("plane_stress_szz", gi[j], f"|sigma_zz| = {szz[j]:.3e} > documented tolerance {tps:.3e}")

    # --- no internal variables: exactly linear elastic ---------------------------------------------------
    if lay.n == 0:
        from EasyFEA.Models.Elastic._laws import Isotropic

        if cfg["dim"] == "3D":
            Cref, law = C6, Isotropic(3, E=E_MOD, v=NU)
        elif cfg["dim"] == "PlaneStrain":
            Cref, law = C6[np.ix_(IDX2, IDX2)], Isotropic(2, E=E_MOD, v=NU, planeStress=False)
        else:
            Cin = C6[np.ix_(IDX2, IDX2)]
            Cref, law = Cin - np.outer(C6[IDX2, 2], C6[2, IDX2]) / C6[2, 2], Isotropic(2, E=E_MOD, v=NU, planeStress=True)
        sc = np.max(np.abs(eg @ Cref.T), axis=1) + 1e-300
        for nm, Cm in (("reference C:eps", Cref), ("Models.Elastic.Isotropic", np.asarray(law.C))):
            e1 = np.max(np.abs(sg - eg @ Cm.T), axis=1) / sc
            for j in np.nonzero(e1 > 1e-13)[0][:1]:
                add("elastic_limit", gi[j], f"no internal variables: sigma differs from {nm} by rel {e1[j]:.2e}")
            e2 = np.max(np.abs(C[gi] - Cm).reshape(len(gi), -1), axis=1) / np.max(np.abs(Cm))
            for j in np.nonzero(e2 > 1e-13)[0][:1]:
                add("elastic_limit", gi[j], f"no internal variables: tangent differs from {nm} by rel {e2[j]:.2e}")

    # --- admissibility, monotonicity, trace, dissipation -------------------------------------------------
    flowed = np.zeros(len(gi), dtype=bool)
    if cfg["yield"] != "none":
        p0, p1 = lay.p(z0g), lay.p(zg)
        dp = p1 - p0
        dep = lay.eps_p(zg) - lay.eps_p(z0g)
        xi = sig6 - lay.X(zg)
        R = ref_R(cfg["hardening"], p1)
        f = ref_phi(cfg["yield"], xi) - SIGMA_Y - R
        flowed = dp > 1e-9 * EPS_Y
        stats["flowed"] += int(flowed.sum())
        for j in np.nonzero(dp < -1e-15)[0][:1]:
            add("dp_negative", gi[j], f"accumulated plastic strain decreased by {dp[j]:.3e}")
        if cfg["rate"] == "none":
            for j in np.nonzero(f > TOL_F)[0][:1]:
                add("yield_admissibility", gi[j], f"f(sigma-X, R(p)) = {f[j]:.3e} > 1e-8 sigma_y after a converged step")
            # consistency (loading/unloading): a point that flowed lies ON the surface
            for j in np.nonzero(flowed & (f < -TOL_F))[0][:1]:
                add("consistency", gi[j], f"plastic multiplier {dp[j]:.3e} > 0 but f = {f[j]:.3e} < 0 (not on the surface)")
        else:
            # documented: f = phi^-1(gamma_dot) >= 0 when flowing
            over = ref_rate_inverse(cfg["rate"], dp / dt)
            bad = flowed & (np.abs(f - over) > TOL_F)
            for j in np.nonzero(bad)[0][:1]:
                add("overstress", gi[j], f"flowing point: f = {f[j]:.6e} but the rate law needs overstress {over[j]:.6e} for dp/dt = {dp[j] / dt:.3e}")
            for j in np.nonzero(~flowed & (f > TOL_F) & (dp <= 0))[0][:1]:
                add("overstress", gi[j], f"f = {f[j]:.3e} > 0 but no viscoplastic flow")
        if cfg["yield"] in DEVIATORIC:
            tr = np.abs(np.sum(lay.eps_p(zg)[:, :3], axis=1))
            for j in np.nonzero(tr > TOL_TRACE)[0][:1]:
                add("plastic_trace", gi[j], f"|tr eps_p| = {tr[j]:.3e} for a deviatoric yield surface")
        diss = np.sum(xi * dep, axis=1) - R * dp
        for j in np.nonzero(diss < -TOL_DISS)[0][:1]:
            add("dissipation", gi[j], f"(sigma-X):d eps_p - R dp = {diss[j]:.3e} < 0")
    if lay.br:
        eel = eps6 - lay.eps_p(zg)
        relaxed = np.zeros(len(gi), dtype=bool)
        for i, (g, tau) in enumerate(lay.br):
            sl = lay.slots[f"eps_v{i}"]
            dev_ = zg[:, sl] - z0g[:, sl]
            dv = g * np.sum(((eel - zg[:, sl]) @ C6.T) * dev_, axis=1)
            relaxed |= np.max(np.abs(dev_), axis=1) > 1e-9 * EPS_Y
            for j in np.nonzero(dv < -TOL_DISS)[0][:1]:
                add("dissipation_viscous", gi[j], f"branch {i}: g (eps_e-eps_v):C:d eps_v = {dv[j]:.3e} < 0")
        stats["relaxed"] += int(relaxed.sum())
        flowed = flowed | relaxed

    # --- both local solvers ---------------------------------------------------------------------------
    sigN, CN, zN = np.full_like(sig, np.nan), np.full_like(C, np.nan), np.full_like(z, np.nan)
    okN = np.zeros(N, dtype=bool)
    sigN[gi], CN[gi], zN[gi], okN[gi], raisedN, pureN = integrate(behN, eg, z0g, dt, stats)
    okN[gi] &= ~raisedN
    if not pureN:
        add("purity_inputs", int(gi[0]), "Integrate (solver='newton') changed the bytes of its arguments", solver="newton")
    stats["newton_nonconverged"] += int((~okN[gi]).sum())
    both = good & okN
    bi = np.nonzero(both)[0]
    stats["solver_pairs"] += len(bi) if is_reducible(cfg) else 0
    if len(bi):
        ssc = np.maximum(np.max(np.abs(sig[bi]), axis=1), SIGMA_Y)
        es = np.max(np.abs(sig[bi] - sigN[bi]), axis=1) / ssc
        # plane stress: each solver may stop with an out-of-plane stress of ps_tolerance (documented setting), so two converged
        # answers differ by a few times that; one-point batches do stop there (large batches iterate until the last point converged)
        tol_s = TOL_SOLVERS if cfg["dim"] != "PlaneStress" else max(TOL_SOLVERS, 4.0 * ps_tolerance(cfg) / SIGMA_Y)
        for j in np.nonzero(es > tol_s)[0][:1]:
            add("solvers_sigma", bi[j], f"solver 'auto' and 'newton' disagree on sigma by rel {es[j]:.2e}")
        if lay.n:
            ez = np.max(np.abs(z[bi] - zN[bi]), axis=1) / np.maximum(np.max(np.abs(z[bi]), axis=1), EPS_Y)
            for j in np.nonzero(ez > tol_s)[0][:1]:
                add("solvers_state", bi[j], f"solver 'auto' and 'newton' disagree on z by rel {ez[j]:.2e}")

    # --- tangent: Richardson central differences along the chosen directions -------------------------------
    dirs = fd_directions(cfg, full_fd)
    m = len(dirs)
    h = FD_H
    G = len(gi)
    offs = np.array([+h, -h, +h / 2, -h / 2])
    pe = (eg[:, None, None, :] + offs[None, None, :, None] * dirs[None, :, None, :]).reshape(-1, n)
    pz = np.repeat(z0g, m * 4, axis=0)
    # sigma(eps) is evaluated by the twin with tightened local tolerances: with the default ones the returned stress
    # is a k-iteration map whose derivative is not the derivative of the converged map (plane stress: 4e-5 off)
    psig, _, pzo, pok, praised, ppure = integrate(behT, pe, pz, dt, stats, atom=4)
    tsig, _, tzo, tok, traised, _ = integrate(behT, eg, z0g, dt, stats)
    if not ppure:
        add("purity_inputs", 0, "Integrate changed the bytes of its arguments (perturbed points)")
    psig = psig.reshape(G, m, 4, n)
    pgood = (pok & ~praised).reshape(G, m, 4).all(axis=2) & (tok & ~traised)[:, None]
    s0 = tsig[:, None, :]
    # guard: the twin must describe the same step as the default settings (else its derivative is not a reference)
    tsc = np.maximum(np.max(np.abs(sg), axis=1), SIGMA_Y)
    et = np.max(np.abs(tsig - sg), axis=1) / tsc
    tol_t = 1e-7 + (10 * ps_tolerance(cfg) / SIGMA_Y if cfg["dim"] == "PlaneStress" else 0.0)
    pgood &= (et <= tol_t)[:, None]
    stats["twin_differs"] += int((et > tol_t).sum())
    D1 = (psig[:, :, 0] - psig[:, :, 1]) / (2 * h)
    D2 = (psig[:, :, 2] - psig[:, :, 3]) / h
    # one-sided derivatives, extrapolated to first order (2 F(h/2) - F(h)): they differ by exactly the jump of a kink
    # at the base point however small it is, and by O(h^2) where sigma(eps) is smooth
    Fw = 2 * (psig[:, :, 2] - s0) / (h / 2) - (psig[:, :, 0] - s0) / h
    Bw = 2 * (s0 - psig[:, :, 3]) / (h / 2) - (s0 - psig[:, :, 1]) / h
    Rich = (4 * D2 - D1) / 3
    Cel = C6 if cfg["dim"] == "3D" else C6[np.ix_(IDX2, IDX2)]
    S = np.max(np.abs(dirs @ Cel.T), axis=1)[None, :]  # natural scale per direction
    err_est = np.max(np.abs(D2 - D1), axis=2) / 3
    onesided = np.max(np.abs(Fw - Bw), axis=2)
    smooth = pgood & (err_est <= TOL_TANGENT * S) & (onesided <= 2 * TOL_TANGENT * S)
    if cfg["yield"] != "none":
        # same regime on the whole stencil: a direction that grazes the (curved) yield surface at a point lying ON it
        # flows on both sides beyond 1e-7 while the base step is elastic -- a kink no difference quotient can see
        fl0 = (lay.p(tzo) - lay.p(z0g)) > 0
        flp = ((lay.p(pzo) - lay.p(pz)) > 0).reshape(G, m, 4)
        fl_def = (lay.p(zg) - lay.p(z0g)) > 0
        smooth &= (flp == fl0[:, None, None]).all(axis=2) & (fl0 == fl_def)[:, None]
    Cd = np.einsum("gij,mj->gmi", C[gi], dirs)
    terr = np.max(np.abs(Cd - Rich), axis=2)
    stats["fd_checked"] += int(smooth.sum())
    stats["fd_checked_plastic"] += int((smooth & flowed[:, None]).sum())
    stats["fd_skipped"] += int((~smooth).sum())
    bad = smooth & (terr > 2 * TOL_TANGENT * S)
    for j, k in zip(*np.nonzero(bad)):
        add("tangent", gi[j], f"C_alg.d differs from the Richardson derivative of sigma along direction {k} "
            f"({'generic' if k == 0 else 'basis ' + str(k - 1)}) by {terr[j, k] / S[0, k]:.3e} (relative; FD error estimate {err_est[j, k] / S[0, k]:.1e})")
        break
    if len(bi) and is_reducible(cfg):
        # where the derivative exists, the two solvers must return the same tangent
        sm = np.zeros(N, dtype=bool)
        sm[gi] = smooth.all(axis=1)
        # a neutral step (trial stress on the surface to round-off) is a kink: the solvers may sit on different sides of it
        sm[gi] &= ((lay.p(zN[gi]) - lay.p(z0g)) > 0) == ((lay.p(zg) - lay.p(z0g)) > 0)
        bj = bi[sm[bi]]
        if len(bj):
            ec = np.max(np.abs(C[bj] - CN[bj]).reshape(len(bj), -1), axis=1) / np.max(np.abs(Cel))
            for j in np.nonzero(ec > 2 * TOL_TANGENT)[0][:1]:
                add("solvers_tangent", bj[j], f"solver 'auto' and 'newton' disagree on C_alg by rel {ec[j]:.2e}")
    return sig, z, good


def new_stats():
    return {k: 0 for k in ("calls", "points", "transitions", "raised", "nonconverged", "flowed", "relaxed", "solver_pairs",
                           "fd_checked", "fd_checked_plastic", "fd_skipped", "max_szz_over_tol", "states", "newton_nonconverged", "twin_differs")}


def run_material(case):
    _CHUNK[0] = case.get("chunk")
    try:
        return _run_material(case)
    finally:
        _CHUNK[0] = None


def _run_material(case):
    cfg = {k: case[k] for k in FACTORS}
    if case.get("dt0"):
        cfg["dt0"] = True
    amp = AMP_SCALES[case.get("amp", "unit")]
    if amp != 1.0:
        cfg["amp"] = case["amp"]
    if case.get("pre"):
        cfg["pre"] = True
    lay = Layout(cfg)
    behT = build_behavior(cfg, "auto")
    behT._tol, behT._planeStress_tol = 1e-13, 1e-12  # documented local solver settings
    behs = (build_behavior(cfg, "auto"), build_behavior(cfg, "newton"), behT)
    out = []
    if behs[0].layout.n != lay.n or [str(k) for k in behs[0].layout.slots] != list(lay.slots):
        out.append(viol("layout", f"packed layout {dict(behs[0].layout.slots)} differs from the documented order {lay.slots}", **cfg_key(cfg)))
        return {"violations": out, "fingerprint": fp("layout", cfg), "nontrivial": False, "transitions": 0}
    L, lnames = letters(cfg["dim"])
    L = L * amp
    n = L.shape[1]
    depth, full_depth = case["depth"], case.get("full_fd_depth", 2)
    stats = new_stats()
    f_eps, f_z, f_names = np.zeros((1, n)), np.zeros((1, lay.n)), [[]]
    first = case.get("first")
    n_states, obs = 0, []
    for d in range(1, depth + 1):
        if d == 1 and first is not None:
            Ls, ln = L[first:first + 1], lnames[first:first + 1]
        elif d == 1 and case.get("pre"):
            Ls, ln = pre_letters(cfg["dim"])
        else:
            Ls, ln = L, lnames
        eps = (f_eps[:, None, :] + Ls[None]).reshape(-1, n)
        zold = np.repeat(f_z, len(Ls), axis=0)
        names = [p + [x] for p in f_names for x in ln]
        sig, z, good = check_level(cfg, lay, behs, eps, zold, names, d, d <= full_depth, stats, out)
        gidx = np.nonzero(good)[0]
        if len(gidx) == 0:
            break
        # fingerprints = observables rounded on their natural scales (strain-like: eps_y, stress: sigma_y)
        rows = np.round(np.hstack([eps[gidx] / (EPS_Y * amp), z[gidx] / (EPS_Y * amp), sig[gidx] / (SIGMA_Y * amp)]), 7) + 0.0
        uniq = np.unique(rows, axis=0)
        n_states += len(uniq)
        obs.append(fp(uniq, digits=7))
        if d < depth:
            # merged states: same total strain and same internal variables (hence the same futures)
            _, first_idx = np.unique(rows[:, : n + lay.n], axis=0, return_index=True)
            keep = gidx[np.sort(first_idx)]
            f_eps, f_z, f_names = eps[keep], z[keep], [names[i] for i in keep]
    stats["states"] = n_states
    flags = []
    if stats["nonconverged"] or stats["raised"]:
        flags.append("nonconverged-steps")
    if stats["fd_skipped"]:
        flags.append("fd-skips")
    nontrivial = (stats["flowed"] + stats["relaxed"] > 0) if lay.n else True
    return {"violations": _dedupe(out), "fingerprint": fp(cfg, depth, first, case.get("chunk"), obs), "nontrivial": nontrivial,
            "outcome": ("violation" if out else "ok") + ("(" + ",".join(flags) + ")" if flags else ""),
            "transitions": stats["transitions"], "states": n_states, "stats": stats}


def _dedupe(v, cap=8):
    seen, out = set(), []
    for x in v:
        k = str(sorted(x["key"].items()))
        if k in seen:
            continue
        seen.add(k)
        out.append(x)
    return out[:cap]


# ================================================================================================
# simulation level: Simulations.InElastic, E2 unmerged
# ================================================================================================
SIM_CFGS = {
    "J2lin-PE-QUAD4": dict(cfg=("VonMises", "Linear", "none", "none", "none", "PlaneStrain"), mesh=("2d", "QUAD4")),
    "J2voceAF-PS-mixed": dict(cfg=("VonMises", "Voce", "ArmstrongFrederick", "none", "none", "PlaneStress"), mesh=("2d", ("TRI3", "QUAD4"))),
    "J2lin-Norton-PE-TRI3": dict(cfg=("VonMises", "Linear", "none", "Norton", "none", "PlaneStrain"), mesh=("2d", "TRI3")),
    "Maxwell2-PE-QUAD4": dict(cfg=("none", "none", "none", "none", "two", "PlaneStrain"), mesh=("2d", "QUAD4")),
    "J2lin-3D-HEXA8": dict(cfg=("VonMises", "Linear", "none", "none", "none", "3D"), mesh=("3d", "HEXA8")),
}
# prescribed displacement of the face x = 1 (unit cube/square clamped at x = 0); '0' is the initial load
LOADS = {"0": (0.0, 0.0), "a": (3.0 * EPS_Y, 0.0), "b": (-1.0 * EPS_Y, 2.5 * EPS_Y), "e": (0.3 * EPS_Y, 0.0)}
SIM_OPS = ["A", "B", "R", "S", "T0", "T1"]  # Solve(load a), Solve(load b), Solve again, Save_Iter, Set_Iter(0), Set_Iter(1)


def sim_sequences(depth):
    """all operation sequences of exactly `depth` operations in which every Set_Iter(i) names an existing iteration
    (every shorter valid sequence is a prefix of one of them; the invariants are evaluated after every operation)"""
    out = []
    for seq in itertools.product(SIM_OPS, repeat=depth):
        saves, okseq = 0, True
        for op in seq:
            if op == "S":
                saves += 1
            elif op[0] == "T" and int(op[1]) >= saves:
                okseq = False
                break
        if okseq:
            out.append(list(seq))
    return out


def _quiet():
    return contextlib.redirect_stdout(io.StringIO())


def build_sim(simname):
    from EasyFEA import Simulations
    from zoo import meshes as Z

    sc = SIM_CFGS[simname]
    cfg = dict(zip(FACTORS, sc["cfg"]))
    beh = build_behavior(cfg)
    kind, et = sc["mesh"]
    mesh = (Z.template_2d(et, 2) if kind == "2d" else Z.template_3d(et, 1)).build()
    with _quiet():
        simu = Simulations.InElastic(mesh, beh)
    simu.dt = time_step(cfg)
    return simu, beh, mesh, cfg


def apply_load(simu, mesh, load):
    ux, uy = LOADS[load]
    unk = simu.Get_unknowns()
    n0 = mesh.Nodes_Conditions(lambda x, y, z: x == 0)
    n1 = mesh.Nodes_Conditions(lambda x, y, z: x == 1)
    simu.Bc_Init()
    simu.add_dirichlet(n0, [0.0] * len(unk), unk)
    simu.add_dirichlet(n1, [ux, uy], ["x", "y"])


_CANON: dict = {}


def canonical_solution(simname, chain, load):
    """displacement of Solve(load) from the committed state reached by the canonical history
    Solve(l1), Save_Iter, Solve(l2), Save_Iter, ... on a FRESH simulation.  None when that history does not converge."""
    key = (simname, tuple(chain), load)
    if key not in _CANON:
        try:
            simu, beh, mesh, cfg = build_sim(simname)
            with _quiet():
                for l in chain:
                    apply_load(simu, mesh, l)
                    simu.Solve()
                    simu.Save_Iter()
                apply_load(simu, mesh, load)
                simu.Solve()
            _CANON[key] = np.array(simu.displacement, dtype=float)
        except AssertionError:
            _CANON[key] = None
    return _CANON[key]


def run_simulation(case):
    from EasyFEA import MatrixType

    simname, seq = case["sim"], case["seq"]
    simu, beh, mesh, cfg = build_sim(simname)
    lay = Layout(cfg)
    key = dict(sim=simname)
    out = []
    groups = [g for g in mesh.Get_list_groupElem()]
    shape_of = {(g.Ne, g.Get_gauss(MatrixType.rigi).nPg): str(g.elemType) for g in groups}
    assert len(shape_of) == len(groups), "groups must be distinguishable by (Ne, nPg)"

    # ---- observation point: what the material is handed, and what it returns -------------------------------
    calls = []
    real_integrate = beh.Integrate

    def spy(eps, zOld=None, dt=0.0, epsOld=None, *a, **k):
        zin = None if zOld is None else np.array(zOld)
        before = None if zOld is None else np.asarray(zOld).tobytes()
        res = real_integrate(eps, zOld, dt, epsOld, *a, **k)
        after = None if zOld is None else np.asarray(zOld).tobytes()
        calls.append({"et": shape_of[tuple(np.shape(eps)[:2])], "zin": zin, "mutated": before != after,
                      "zout": np.array(res[2]), "dt": dt})
        return res

    beh.Integrate = spy

    # ---- reference model: a list of snapshots ----------------------------------------------------------------
    committed, trial, saved = {}, {}, []          # dict elemType -> array ; {} = virgin
    chain_c, chain_t, chains = (), (), []          # provenance (loads committed so far) of committed / trial / saved
    load = "0"
    apply_load(simu, mesh, load)
    u_model = np.zeros(mesh.Nn * simu.Get_dof_n())
    ntr, fps, solved_plastic = 0, [], False
    trial_base = None  # committed state the trial state was integrated from (None: no Solve since the last restore)

    def add(check, i, msg):
        if len(out) < 12:
            out.append(viol(check, f"{msg} [after op {i + 1} of {'>'.join(seq)}]", **dict(key, op=seq[i])))

    def zeros_like_group(et):
        for (Ne, nPg), name in shape_of.items():
            if name == et:
                return np.zeros((Ne, nPg, lay.n))

    undefined = None
    for i, op in enumerate(seq):
        calls.clear()
        try:
            with _quiet():
                if op in ("A", "B", "R"):
                    if op != "R":
                        load = op.lower()
                        apply_load(simu, mesh, load)
                    simu.Solve()
                elif op == "S":
                    simu.Save_Iter()
                else:
                    simu.Set_Iter(int(op[1]))
        except AssertionError as err:
            # a step that does not converge: the property promises nothing
            if "did not converge" in str(err) or "not converged" in str(err):
                undefined = f"op {i + 1} ({op}) did not converge"
                break
            raise
        ntr += 1
        if op in ("A", "B", "R"):
            if not calls:
                add("solve_without_integration", i, "Solve did not call Behavior.Integrate")
            for ic, c in enumerate(calls):
                want = committed.get(c["et"])
                want = zeros_like_group(c["et"]) if want is None else want
                got = zeros_like_group(c["et"]) if c["zin"] is None else c["zin"]
                if got.shape != want.shape or got.tobytes() != want.tobytes():
                    d = float(np.max(np.abs(got - want))) if got.shape == want.shape else float("inf")
                    add("committed_changed_by_solve", i, f"Integrate received a zOld that is not the committed state ({c['et']}, max diff {d:.3e}, "
                        f"call {ic + 1} of {len(calls)})")
                    break
            if any(c["mutated"] for c in calls):
                add("zold_mutated", i, "the committed-state array handed to Integrate was modified during the call")
            if any(c["dt"] != simu.dt for c in calls):
                add("dt_not_passed", i, "Integrate did not receive simu.dt")
            for c in calls:
                trial[c["et"]] = c["zout"]  # the last call of each group wins
            trial_base = {et: a.copy() for et, a in committed.items()}
            chain_t = chain_c + (load,)
            u_model = np.array(simu.displacement, dtype=float)
            # two Solves from the same committed state agree: compare with the canonical history on a fresh simulation
            ref = canonical_solution(simname, chain_c, load)
            if ref is None:
                undefined = f"canonical history {chain_c}+{load} did not converge"
                break
            sc = max(np.max(np.abs(ref)), EPS_Y)
            e = float(np.max(np.abs(u_model - ref))) / sc
            if e > 1e-6:
                add("solve_depends_on_more_than_committed_state", i,
                    f"Solve(load {load}) from committed state {chain_c} gives a displacement differing by rel {e:.2e} from the same solve on a fresh simulation")
            if lay.n and "p" in lay.slots:
                solved_plastic = solved_plastic or any(float(np.max(t[..., 6])) > 1e-9 * EPS_Y for t in trial.values())
        elif op == "S":
            committed = {et: a.copy() for et, a in trial.items()}
            chain_c = chain_t
            saved.append(({et: a.copy() for et, a in committed.items()}, u_model.copy()))
            chains.append(chain_c)
            # the committed step is the converged one: z == Integrate(eps(u), previous committed state)
            for g in groups:
                et = str(g.elemType)
                if et not in committed or lay.n == 0 or trial_base is None:
                    continue
                eps_g = simu._Calc_Epsilon_e_pg(simu.displacement, g, MatrixType.rigi)
                z0 = trial_base.get(et)
                z0 = zeros_like_group(et) if z0 is None else z0
                from EasyFEA.FEM._linalg import FeArray

                zc = np.array(real_integrate(eps_g, FeArray.asfearray(z0), simu.dt)[2])
                d = float(np.max(np.abs(zc - committed[et])))
                if d > 1e-6 * EPS_Y:
                    add("committed_not_converged_step", i, f"the state committed by Save_Iter differs from the state of the converged displacement by {d:.3e} ({et})")
        else:
            k = int(op[1])
            committed = {et: a.copy() for et, a in saved[k][0].items()}
            trial = {et: a.copy() for et, a in committed.items()}
            trial_base = None  # the trial state is a restored one, not the outcome of a Solve
            chain_c = chain_t = chains[k]
            u_model = saved[k][1].copy()
            if np.array(simu.displacement).tobytes() != u_model.tobytes():
                add("set_iter_displacement", i, f"Set_Iter({k}) did not restore the saved displacement")
        # ---- observables after every operation ----------------------------------------------------------------
        if simu.Niter != len(saved):
            add("niter", i, f"Niter = {simu.Niter}, {len(saved)} Save_Iter calls")
        for k, (zs, us) in enumerate(saved):
            res = simu.Get_results(k)
            st = {str(et): np.array(a) for et, a in res.get("state", {}).items()}
            ets = set(st) | set(zs)  # a group without an entry is virgin (zeros)
            if any(st.get(et, zeros_like_group(et)).tobytes() != zs.get(et, zeros_like_group(et)).tobytes() for et in ets):
                add("saved_state_changed", i, f"the state stored for iteration {k} is not the state committed by that Save_Iter")
            if np.array(res["displacement"]).tobytes() != us.tobytes():
                add("saved_displacement_changed", i, f"the displacement stored for iteration {k} changed")
        if lay.n and "p" in lay.slots:
            # public read-out of the committed state: element means of p
            got = np.asarray(simu.Result("p", nodeValues=False), dtype=float).ravel()
            want = np.concatenate([(committed[str(g.elemType)][..., 6] if str(g.elemType) in committed
                                    else zeros_like_group(str(g.elemType))[..., 6]).mean(axis=1)
                                   for g in groups if g.dim == mesh.dim])
            if got.shape != want.shape or np.max(np.abs(got - want)) > 1e-14:
                add("committed_readout", i, "Result('p') is not the accumulated plastic strain of the committed state")
        fps.append(fp(op, u_model, *[committed[et] for et in sorted(committed)]))
    nontrivial = (solved_plastic or lay.n == 0 or "p" not in lay.slots) and any(op in "ABR" for op in seq)
    return {"violations": _dedupe(out), "fingerprint": fp(simname, seq, fps), "nontrivial": bool(nontrivial) and undefined is None,
            "outcome": "undefined" if undefined else ("violation" if out else "ok"), "transitions": ntr,
            "skipped": undefined}


# ================================================================================================
# module contract
# ================================================================================================
def _material_cfgs(bound):
    return [c for c in deviations(FACTORS, bound) if accepted(c)]


def _ndev(c):
    return sum(c[k] != FACTORS[k][0] for k in FACTORS)


def cases(tier, seed):
    out = []
    if tier == "quick":
        # depth 3 for every behaviour within one deviation of the default, depth 2 within two deviations
        for c in _material_cfgs(2):
            out.append({"kind": "mat", **c, "depth": 3 if _ndev(c) <= 1 else 2})
        sims = {"J2lin-PE-QUAD4": 4, "J2voceAF-PS-mixed": 3, "J2lin-Norton-PE-TRI3": 2, "Maxwell2-PE-QUAD4": 2, "J2lin-3D-HEXA8": 3}
    else:
        for c in _material_cfgs(None):
            nd = _ndev(c)
            if nd <= 1 and c["branches"] == "none":
                for i in range(20):
                    out.append({"kind": "mat", **c, "depth": 4, "first": i})
            else:
                d = 3 if nd <= 2 else (2 if nd == 3 else 1)
                if c["yield"] != "none" and c["branches"] != "none" and c["dim"] == "PlaneStress":
                    # the plane-stress iteration raises on the non-converging steps of these behaviours (20 x 20 local
                    # iterations per raise): depth 3 costs > 100 CPU-s per behaviour
                    d = min(d, 2)
                out.append({"kind": "mat", **c, "depth": d})
        sims = {k: 4 for k in SIM_CFGS}
        sims["J2lin-PE-QUAD4"] = sims["J2voceAF-PS-mixed"] = 5
    # instantaneous steps (dt = 0 exactly) of the behaviours that combine a yield surface with Maxwell branches
    for c in _material_cfgs(2 if tier == "quick" else 3):
        if c["branches"] != "none" and c["yield"] != "none" and c["rate"] == "none":  # (a rate law documents that it needs dt > 0)
            out.append({"kind": "mat", **c, "depth": 2, "dt0": True})
    # the plane-stress condition is enforced by an iteration over the WHOLE batch handed to Integrate: the same paths integrated
    # one point per call (what a uniformly strained mesh, or a single material point, gives), depth 2; the oracle is unchanged
    seen_ps = set()
    for c in list(out):
        if c["kind"] == "mat" and c["dim"] == "PlaneStress" and c["yield"] != "none":
            k = tuple(c[f] for f in FACTORS)
            if k not in seen_ps and (tier == "thorough" or _ndev(c) <= 2):
                seen_ps.add(k)
                out.append({"kind": "mat", **{f: c[f] for f in FACTORS}, "depth": 2, "chunk": 1})
    # pre-strained paths: a large monotonic first step (10 'X' letters), then ALL 20-letter paths of length 2, for the behaviours whose
    # surface translates (kinematic hardening), alone and with Maxwell branches (the stress relaxes while the surface stays where it is)
    for c in _material_cfgs(2 if tier == "quick" else 3):
        if c["kinematic"] != "none" and c["yield"] == "VonMises" and c["rate"] == "none" and (
                (c["hardening"] == "none" and c["dim"] == "3D") if tier == "quick" else c["hardening"] in ("none", "Voce")):
            out.append({"kind": "mat", **c, "depth": 3, "pre": True, "full_fd_depth": 1})
    out.sort(key=lambda c: -c["depth"])  # the expensive cases first (load balance)
    # the runner hands out blocks of 8 consecutive cases: one single-point case (the longest ones) at the head of each of the first blocks
    heavy = [c for c in out if c.get("chunk")]
    out = [c for c in out if not c.get("chunk")]
    for i, c in enumerate(heavy):
        out.insert(min(i * 8, len(out)), c)
    # the material without internal variables at other magnitudes of strain (all paths x 1e-3, 1e-6, 1e-9): linear means every decade
    for c in _material_cfgs(2):
        if c["yield"] == "none" and c["branches"] == "none":
            for a in AMP_SCALES:
                if a != "unit":
                    out.append({"kind": "mat", **c, "depth": 3, "amp": a})
    # MaterialPoint.Run (stress-controlled components are solved by an inner Newton on the strain): purity of the integration
    # inside that loop.  behaviours x control modes x strain programs
    mp_cfgs = [dict(_DEFAULT_MP, **d) for d in (
        {}, {"kinematic": "Prager"}, {"kinematic": "ArmstrongFrederick"}, {"hardening": "Voce"}, {"rate": "Norton"},
        {"kinematic": "ArmstrongFrederick", "hardening": "Voce"}, {"branches": "one", "yield": "none", "hardening": "none"})]
    for c in mp_cfgs:
        for mode in ("uniaxial_stress", "shear_plus_axial", "plane_stress_like"):
            for prog in ("load_unload_reload", "non_proportional"):
                out.append({"kind": "mp", **c, "mode": mode, "program": prog})
    for name, depth in sims.items():
        for seq in sim_sequences(depth):
            out.append({"kind": "sim", "sim": name, "seq": seq})
    # the library's free energy is the potential of its stress: sigma = d psi / d eps at fixed internal variables, at every state reached
    # by the letter paths of depth 2 (3D behaviours; one per combination of the mechanisms that store energy)
    psi_cfgs = [dict(_DEFAULT_MP, **d) for d in (
        {}, {"kinematic": "Chaboche2"}, {"hardening": "Voce"}, {"branches": "one"}, {"branches": "two", "kinematic": "Prager"},
        {"branches": "two", "rate": "Norton"}, {"branches": "one", "yield": "none", "hardening": "none"}, {"yield": "HillAniso", "branches": "one"})]
    for c in psi_cfgs:
        if accepted(c):
            out.append({"kind": "psi", **c})
    # the same material written in another unit of stress (MPa -> GPa: yield stress 0.25): stresses and tangents scale, strains do not
    unit_cfgs = [dict(_DEFAULT_MP, **d) for d in (
        {}, {"hardening": "Voce"}, {"yield": "HillAniso"}, {"yield": "DruckerPrager"}, {"kinematic": "Prager"}, {"rate": "Norton"},
        {"dim": "PlaneStress"}, {"dim": "PlaneStrain", "hardening": "Swift"}, {"branches": "one"})]
    for c in unit_cfgs:
        if accepted(c):
            out.append({"kind": "units", **c})
    # the mesh of a simulation holding a committed plastic state is replaced by a virgin part
    for name in ("J2lin-PE-QUAD4", "J2lin-3D-HEXA8"):
        for other in ("same_size", "other_size"):
            out.append({"kind": "remesh", "sim": name, "other": other})
    # the elastic law of a live behaviour changed through its setters: same steps as a behaviour constructed with the new law
    for c in unit_cfgs + [dict(_DEFAULT_MP, **d) for d in ({"yield": "none", "hardening": "none"}, {"branches": "two", "kinematic": "Prager"}, {"dim": "PlaneStress", "rate": "Norton"})]:
        if accepted(c):
            for solver in ("auto", "newton"):
                out.append({"kind": "relaw", **c, "solver": solver})
    return out


_DEFAULT_MP = {"yield": "VonMises", "hardening": "Linear", "kinematic": "none", "rate": "none", "branches": "none", "dim": "3D"}


def run_materialpoint(case):
    """Drives MaterialPoint.Run with a spy on Behavior.Integrate.  Invariants: (purity) inside one step every call of Integrate is
    handed the SAME committed state (the one recorded at the end of the previous step), bytes unchanged; (reproducibility) the recorded
    stress/state of step k equals Integrate(recorded strain k, recorded state k-1)."""
    from EasyFEA.FEM._linalg import FeArray
    from EasyFEA.Models.InElastic._materialpoint import MaterialPoint

    cfg = {k: case[k] for k in FACTORS}
    beh = build_behavior(cfg)
    calls = []
    real = beh.Integrate

    def spy(eps, zOld, dt, *a, **k):
        calls.append((np.array(eps, dtype=float).ravel().copy(), None if zOld is None else np.array(zOld, dtype=float).copy()))
        return real(eps, zOld, dt, *a, **k)

    beh.Integrate = spy
    n = 12
    up = np.linspace(0.0, 3.0 * EPS_Y, n)
    if case["program"] == "load_unload_reload":
        xx = np.concatenate([up, np.linspace(3.0 * EPS_Y, -2.0 * EPS_Y, n)[1:], np.linspace(-2.0 * EPS_Y, 2.5 * EPS_Y, n)[1:]])
        sh = 0.6 * xx[::-1].copy()
    else:
        t = np.linspace(0.0, 2.0 * np.pi, 3 * n - 2)
        xx = 3.0 * EPS_Y * np.sin(t) + 1e-3 * EPS_Y * np.arange(t.size)
        sh = 2.5 * EPS_Y * (1.0 - np.cos(t)) + 2e-3 * EPS_Y * np.arange(t.size)
    if case["mode"] == "uniaxial_stress":
        strain = {"xx": xx}
    elif case["mode"] == "shear_plus_axial":
        strain = {"xx": xx, "xy": sh}
    else:
        strain = {"xx": xx, "yy": 0.3 * xx, "xy": sh}
    dt = 0.5 if case["rate"] != "none" or case["branches"] != "none" else 0.0
    key = {k: case[k] for k in ("yield", "hardening", "kinematic", "rate", "branches", "mode", "program")}
    try:
        out = MaterialPoint(beh).Run(strain=strain, dt=dt)
    except AssertionError as err:
        if "did not converge" in str(err):
            return {"violations": [], "fingerprint": fp("mp-nonconv", case), "nontrivial": False, "skipped": "local iteration reported non-convergence",
                    "transitions": len(calls)}
        raise
    v = []
    E, S, Zs = out["strain"], out["stress"], out["state"]
    driven = sorted({"xx": 0, "yy": 1, "xy": 5}[k] for k in strain)
    # group the spied calls by step: the driven components identify the step
    step_of = []
    k = 0
    for eps, z in calls:
        while k < len(E) - 1 and not np.allclose(eps[driven], E[k][driven], rtol=0, atol=1e-300):
            k += 1
        step_of.append(k)
    ncalls = len(calls)
    for idx, ((eps, z), st) in enumerate(zip(calls, step_of)):
        want = None if st == 0 else Zs[st - 1]
        if want is None:
            if z is not None and np.abs(z).max() > 0:
                v.append(viol("mp_purity", f"step 0, call {idx}: Integrate was handed a non-virgin state", **key))
                break
        else:
            if z is None or np.abs(np.asarray(z).ravel() - want).max() > 0:
                v.append(viol("mp_purity", f"step {st}: Integrate (call {idx} of {ncalls}) was handed a state that is not the one committed at the end of step {st - 1} "
                                           f"(max difference {0 if z is None else np.abs(np.asarray(z).ravel() - want).max():.3e}): the history advanced inside the stress-control iterations",
                              **key))
                break
    # reproducibility from the recorded committed states
    zprev = None
    for st in range(len(E)):
        sig, _, znew, ok = real(FeArray.asfearray(E[st][None, None]), zprev, dt)
        if np.abs(np.asarray(sig)[0, 0] - S[st]).max() > 1e-9 * SIGMA_Y or np.abs(np.asarray(znew)[0, 0] - Zs[st]).max() > 1e-9 * max(EPS_Y, 1e-300) * 10:
            v.append(viol("mp_reproducible", f"step {st}: integrating the recorded strain from the recorded previous state does not give the recorded stress/state "
                                             f"(stress diff {np.abs(np.asarray(sig)[0, 0] - S[st]).max():.3e})", **key))
            break
        zprev = FeArray.asfearray(Zs[st][None, None]) if Zs[st].size else znew
    plastic = bool(np.abs(Zs).max() > 0) if Zs.size else False
    return {"violations": v, "fingerprint": fp(case["mode"], case["program"], key, S), "nontrivial": plastic or case["yield"] == "none",
            "transitions": ncalls, "states": len(E)}


def run_psi(case):
    cfg = {k: case[k] for k in FACTORS}
    lay = Layout(cfg)
    beh = build_behavior(cfg, "auto")
    L, lnames = letters("3D")
    stats = new_stats()
    dt = time_step(cfg)
    v, obs = [], []
    f_eps, f_z, f_names = np.zeros((1, 6)), np.zeros((1, lay.n)), [[]]
    h = 1e-4 * EPS_Y
    ntr = 0
    flowed = False
    for depth in (1, 2):
        eps = (f_eps[:, None, :] + L[None]).reshape(-1, 6)
        zold = np.repeat(f_z, len(L), axis=0)
        names = [p + [x] for p in f_names for x in lnames]
        sig, _, z, ok, raised, _ = integrate(beh, eps, zold, dt, stats)
        good = ok & ~raised
        ntr += len(eps)
        gi = np.nonzero(good)[0]
        if not len(gi):
            break
        e, zz = eps[gi], z[gi]
        flowed = flowed or bool(lay.n and np.abs(zz).max() > 0)
        # central differences of Compute_psi in the 6 Kelvin directions, internal variables held fixed
        dpsi = np.zeros((len(gi), 6))
        for i in range(6):
            d = np.zeros(6)
            d[i] = h
            pp = np.array(beh.Compute_psi(_fe(e + d), _fe(zz)))[:, 0]
            pm = np.array(beh.Compute_psi(_fe(e - d), _fe(zz)))[:, 0]
            dpsi[:, i] = (pp - pm) / (2 * h)
        s_lib = np.array(beh.Compute_sigma(_fe(e), _fe(zz)))[:, 0]
        ntr += 13
        sc = np.maximum(np.abs(s_lib).max(axis=1), SIGMA_Y)
        err = np.abs(dpsi - s_lib).max(axis=1) / sc
        obs.append(np.round(s_lib / SIGMA_Y, 6))
        j = int(np.argmax(err))
        if err[j] > 1e-6:
            v.append(viol("stress_potential", f"sigma differs from d psi / d eps (library's own Compute_psi, internal variables fixed) by {err[j]:.3e} (relative to "
                                              f"max(|sigma|, sigma_y)) [path {'>'.join(names[gi[j]])}; depth {depth}]", **cfg_key(cfg)))
            break
        # returned stress of the step == Compute_sigma of the returned state
        e2 = np.abs(sig[gi] - s_lib).max(axis=1) / sc
        if e2.max() > 1e-9:
            j = int(np.argmax(e2))
            v.append(viol("stress_of_state", f"stress returned by Integrate differs from Compute_sigma(eps, z_returned) by {e2[j]:.3e} [path {'>'.join(names[gi[j]])}]", **cfg_key(cfg)))
            break
        rows = np.round(np.hstack([e / EPS_Y, zz / EPS_Y]), 7) + 0.0
        _, first_idx = np.unique(rows, axis=0, return_index=True)
        keep = np.sort(first_idx)
        f_eps, f_z, f_names = e[keep], zz[keep], [names[gi[i]] for i in keep]
    return {"violations": v, "fingerprint": fp("psi", cfg, *obs), "nontrivial": flowed or not lay.n, "transitions": ntr, "outcome": "ok" if not v else "violation"}


def run_units(case):
    cfg = {k: case[k] for k in FACTORS}
    lay = Layout(cfg)
    U = 1e-3
    behA, behB = build_behavior(cfg, "auto"), build_behavior(cfg, "auto", unit=U)
    L, lnames = letters(cfg["dim"])
    n = L.shape[1]
    stats = new_stats()
    dt = time_step(cfg)
    v, obs, ntr = [], [], 0
    f_eps, f_z, f_names = np.zeros((1, n)), np.zeros((1, lay.n)), [[]]
    flowed = False
    for depth in (1, 2):
        eps = (f_eps[:, None, :] + L[None]).reshape(-1, n)
        zold = np.repeat(f_z, len(L), axis=0)
        names = [p + [x] for p in f_names for x in lnames]
        sA, CA, zA, okA, rA, _ = integrate(behA, eps, zold, dt, stats)
        sB, CB, zB, okB, rB, _ = integrate(behB, eps, zold, dt, stats)
        ntr += 2 * len(eps)
        both = okA & ~rA & okB & ~rB
        only = (okA & ~rA) != (okB & ~rB)
        gi = np.nonzero(both)[0]
        if not len(gi):
            break
        flowed = flowed or bool(lay.n and np.abs(zA[gi]).max() > 0)
        sc = np.maximum(np.abs(sA[gi]).max(axis=1), SIGMA_Y)
        es = np.abs(sB[gi] / U - sA[gi]).max(axis=1) / sc
        ez = (np.abs(zB[gi] - zA[gi]).max(axis=1) / np.maximum(np.abs(zA[gi]).max(axis=1), EPS_Y)) if lay.n else np.zeros(len(gi))
        ec = np.abs(CB[gi] / U - CA[gi]).reshape(len(gi), -1).max(axis=1) / E_MOD
        if lay.n:
            # the tangent is compared where the step clearly flowed in both unit systems, or from a virgin state: a neutral step that ends ON the
            # surface without flow sits on the kink between the elastic and the elasto-plastic tangent (either is right)
            dzA = np.abs(zA[gi] - zold[gi]).max(axis=1)
            dzB = np.abs(zB[gi] - zold[gi]).max(axis=1)
            clear = ((dzA > 1e-6 * EPS_Y) & (dzB > 1e-6 * EPS_Y)) | (np.abs(zold[gi]).max(axis=1) == 0.0) & (dzA == 0.0) & (dzB == 0.0)
            ec = np.where(clear, ec, 0.0)
        obs.append(np.round(sA[gi] / SIGMA_Y, 6))
        for nm, e, tol in (("stress", es, 1e-7), ("state", ez, 1e-7), ("tangent", ec, 1e-5)):
            j = int(np.argmax(e))
            if e[j] > tol:
                v.append(viol("unit_system", f"{nm} of the same step computed in another unit of stress (all stress-like constants x {U:g}) differs by {e[j]:.3e} after rescaling "
                                             f"[path {'>'.join(names[gi[j]])}; depth {depth}]", quantity=nm, **cfg_key(cfg)))
        if v:
            break
        rows = np.round(np.hstack([eps[gi] / EPS_Y, zA[gi] / EPS_Y]), 7) + 0.0
        _, first_idx = np.unique(rows, axis=0, return_index=True)
        keep = np.sort(first_idx)
        f_eps, f_z, f_names = eps[gi][keep], zA[gi][keep], [names[gi[i]] for i in keep]
    return {"violations": _dedupe(v), "fingerprint": fp("units", cfg, *obs), "nontrivial": flowed or not lay.n, "transitions": ntr, "outcome": "ok" if not v else "violation"}


def run_relaw(case):
    """The elastic law held by a live behaviour is changed through its public setters (after the behaviour has been used once): every later
    step equals the step of a behaviour constructed with the new law."""
    cfg = {k: case[k] for k in FACTORS}
    lay = Layout(cfg)
    E2, v2 = 1.6 * E_MOD, 0.2
    solver = case["solver"]
    behA, behB = build_behavior(cfg, solver), build_behavior(cfg, solver, E=E2, v=v2)
    L, lnames = letters(cfg["dim"])
    n = L.shape[1]
    stats = new_stats()
    dt = time_step(cfg)
    v, obs, ntr = [], [], 0
    # first use with the law of the constructor (fills whatever the behaviour keeps), then the change on the live object
    integrate(behA, L.copy(), np.zeros((len(L), lay.n)), dt, stats)  # same batch shape as the first level below
    behA.elastic.E = E2
    behA.elastic.v = v2
    f_eps, f_z, f_names = np.zeros((1, n)), np.zeros((1, lay.n)), [[]]
    flowed = False
    for depth in (1, 2):
        eps = (f_eps[:, None, :] + L[None]).reshape(-1, n)
        zold = np.repeat(f_z, len(L), axis=0)
        names = [p + [x] for p in f_names for x in lnames]
        sA, CA, zA, okA, rA, _ = integrate(behA, eps, zold, dt, stats)
        sB, CB, zB, okB, rB, _ = integrate(behB, eps, zold, dt, stats)
        ntr += 2 * len(eps)
        both = okA & ~rA & okB & ~rB
        gi = np.nonzero(both)[0]
        if not len(gi):
            break
        flowed = flowed or bool(lay.n and np.abs(zB[gi] - zold[gi]).max() > 0)
        sc = np.maximum(np.abs(sB[gi]).max(axis=1), SIGMA_Y)
        es = np.abs(sB[gi] - sA[gi]).max(axis=1) / sc
        ez = (np.abs(zB[gi] - zA[gi]).max(axis=1) / np.maximum(np.abs(zB[gi]).max(axis=1), EPS_Y)) if lay.n else np.zeros(len(gi))
        ec = np.abs(CB[gi] - CA[gi]).reshape(len(gi), -1).max(axis=1) / E2
        obs.append(np.round(sB[gi] / SIGMA_Y, 6))
        for nm, e, tol in (("stress", es, 1e-9), ("state", ez, 1e-9), ("tangent", ec, 1e-9)):
            j = int(np.argmax(e))
            if e[j] > tol:
                v.append(viol("law_changed", f"{nm} of a step integrated by a behaviour whose elastic law was changed after construction (E x 1.6, v 0.3 -> 0.2) differs by {e[j]:.3e} "
                                             f"from a behaviour constructed with the new law [path {'>'.join(names[gi[j]])}; depth {depth}; solver {solver}]", quantity=nm, solver=solver, **cfg_key(cfg)))
        if v:
            break
        rows = np.round(np.hstack([eps[gi] / EPS_Y, zB[gi] / EPS_Y]), 7) + 0.0
        _, first_idx = np.unique(rows, axis=0, return_index=True)
        keep = np.sort(first_idx)
        f_eps, f_z, f_names = eps[gi][keep], zB[gi][keep], [names[gi[i]] for i in keep]
    return {"violations": _dedupe(v), "fingerprint": fp("relaw", cfg, solver, *obs), "nontrivial": flowed or not lay.n, "transitions": ntr, "outcome": "ok" if not v else "violation"}


def run_remesh(case):
    """a plastic step is solved and committed, then `simu.mesh = a virgin part` (same number of elements, or another one): the next step equals
    the step of a freshly built simulation on that part (no internal variable of the previous elements survives)"""
    from EasyFEA import Simulations
    from zoo import meshes as Z

    simname, other = case["sim"], case["other"]
    simu, beh, mesh, cfg = build_sim(simname)
    sc = SIM_CFGS[simname]
    kind, et = sc["mesh"]
    key = dict(kind="remesh", sim=simname, other=other)
    v = []

    def new_mesh():
        k = 2 if other == "same_size" else 3
        return (Z.template_2d(et, k, distort=True) if kind == "2d" else Z.template_3d(et, 1 if other == "same_size" else [2, 1, 1], distort=(other == "same_size"))).build()

    try:
        with _quiet():
            apply_load(simu, mesh, "a")
            simu.Solve()
            simu.Save_Iter()
            pmax = float(np.max(np.asarray(simu.Result("p", nodeValues=False)))) if "p" in simu.Results_Available() else 0.0
            m2 = new_mesh()
            simu.mesh = m2
            apply_load(simu, m2, "e")
            u = np.array(simu.Solve(), dtype=float)
            fresh = Simulations.InElastic(new_mesh(), build_behavior(cfg))
            fresh.dt = time_step(cfg)
            apply_load(fresh, fresh.mesh, "e")
            uref = np.array(fresh.Solve(), dtype=float)
    except Exception as err:
        return {"violations": [viol("remesh_raises", f"{simname}: solving after the mesh was replaced ({other}) raised {type(err).__name__}: {str(err)[:160]}", **key)],
                "fingerprint": fp("remesh", simname, other), "nontrivial": True, "transitions": 4, "outcome": "violation"}
    e = np.abs(u - uref).max() / max(np.abs(uref).max(), 1e-300)
    if e > 1e-8:
        v.append(viol("remesh_state", f"{simname}: after a committed plastic step (max p = {pmax:.3e}) and `simu.mesh = virgin part` ({other}), the next step differs from the one of a "
                                      f"fresh simulation on that part by {e:.3e}", **key))
    return {"violations": v, "fingerprint": fp("remesh", simname, other, uref), "nontrivial": pmax > 0, "transitions": 5, "outcome": "ok" if not v else "violation"}


def run_case(case):
    if case["kind"] == "remesh":
        import warnings

        with warnings.catch_warnings(), np.errstate(all="ignore"):
            warnings.simplefilter("ignore", RuntimeWarning)
            return run_remesh(case)
    if case["kind"] == "relaw":
        import warnings

        with warnings.catch_warnings(), np.errstate(all="ignore"):
            warnings.simplefilter("ignore", RuntimeWarning)
            return run_relaw(case)
    if case["kind"] == "units":
        return run_units(case)
    if case["kind"] == "psi":
        return run_psi(case)
    if case["kind"] == "mp":
        import warnings

        with warnings.catch_warnings(), np.errstate(all="ignore"):
            warnings.simplefilter("ignore", RuntimeWarning)
            return run_materialpoint(case)
    import warnings

    with warnings.catch_warnings(), np.errstate(all="ignore"):
        # RuntimeWarnings of the implementation's own iterations (0/0 residual ratio of a zero load, power of a
        # negative trial value) are not observables of the property
        warnings.simplefilter("ignore", RuntimeWarning)
        return run_material(case) if case["kind"] == "mat" else run_simulation(case)


def describe(tier, seed):
    if tier == "quick":
        bound = ("material: behaviours within 2 deviations of (VonMises, no hardening, no kinematic, no rate, no branch, 3D) that the constructor accepts (114); "
                 "ALL 20-letter strain paths of length <= 3 within 1 deviation, <= 2 within 2 deviations; both local solvers on every step. "
                 "magnitude letter `amp`: the behaviours without internal variables (3D / plane strain / plane stress) also with every letter x 1e-3, 1e-6, 1e-9 (length <= 3). "
                 "pre-strain letter `pre`: von Mises + {Prager, Armstrong-Frederick, Chaboche} x {no, one, two} Maxwell branches, 3D: ALL paths 'one of the 10 increments +/- 40 eps_y e, then any 2 of the 20 letters'. "
                 "simulation: ALL valid operation sequences of depth 4 (J2 plane strain QUAD4), 3 (J2+Voce+AF plane stress TRI3+QUAD4; J2 3D HEXA8), 2 (Norton TRI3; Maxwell QUAD4)")
    else:
        bound = ("material: the FULL product of behaviour factors the constructor accepts (1737 = 579 x 3 dimensions, x 2 solvers inside each case); ALL strain paths of length "
                 "<= 4 for the default and its single deviations in yield / hardening / kinematic / rate / dimension, <= 3 within 2 deviations (<= 2 for yield x Maxwell branch x plane stress), <= 2 at 3 deviations, 1 for the rest. "
                 "magnitude letter `amp` as in the quick tier; pre-strain letter `pre`: von Mises + kinematic hardening x branches x dimension x {no, Voce} isotropic hardening within 3 deviations. "
                 "simulation: ALL valid operation sequences of depth 5 (J2 plane strain QUAD4; J2+Voce+AF plane stress TRI3+QUAD4) and 4 (3 other material x mesh pairs)")
    return {
        "rule": "E2. material level: state = (total strain, packed z) of one material point, merged by fingerprint (rounded at 1e-7 eps_y); letter = one of 20 strain increments "
                "+/- a e, e in {xx, yy, xy, hydrostatic, xx-yy}, a in {eps_y/2, 3 eps_y}; path variants: `amp` = all letters of the path scaled by 1e-3 / 1e-6 / 1e-9 (materials without "
                "internal variables: linear in every decade of strain), `pre` = the first step is one of 10 large increments +/- 40 eps_y e (letters X: the yield surface has translated "
                "far from the origin before the 20 letters act); BFS over all paths; every transition is one Behavior.Integrate step (batched: one Gauss "
                "point per transition) checked against the documented constitutive definitions written in numpy; "
                "tangent = Richardson difference (h = 1e-3 eps_y and h/2) along the full Kelvin basis (transitions of depth <= 2) and along one seeded generic direction (every "
                "transition), used only where D(h), D(h/2) and the extrapolated one-sided differences agree and the whole stencil is in the same flow regime (kinks are skipped; "
                "outcome class 'fd-skips'). simulation level: unmerged operation sequences {Solve(load a), Solve(load b), Solve again, Save_Iter, Set_Iter(0), Set_Iter(1)} on a fresh "
                "Simulations.InElastic; reference model = list of snapshots; the committed state is observed as the zOld handed to Behavior.Integrate and through Result('p'). "
                "non-trivial = at least one step flowed / relaxed (material), a plastic solve happened (simulation)",
        "exhaustive": True,
        "bound": bound,
        "alphabet": {"yield": len(YIELDS), "hardening": len(HARDENINGS), "kinematic": len(KINEMATICS), "rate": len(RATES), "branches": len(BRANCHES),
                     "dimension": 3, "solver": 2, "letters": 20, "amp": len(AMP_SCALES), "pre_letters": 10, "sim_ops": len(SIM_OPS), "sim_configs": len(SIM_CFGS)},
        "assumptions": [
            "steps whose local solve reports converged=False or whose plane-stress iteration raises are outside the property ('step sizes that converge'): counted (outcome class 'nonconverged-steps'), not expanded",
            "one elastic law (isotropic E=210e3, nu=0.3), one parameter set per hardening / kinematic / rate / branch letter, dt = 0.5 for rate-dependent and viscoelastic behaviours",
            "sigma(eps) for the difference quotients is evaluated with the documented local solver settings tightened (_tol=1e-13, _planeStress_tol=1e-12) and only where that agrees with the default-settings stress; the tangent under test is the one returned with the default settings",
            "tolerances: f <= 1e-8 sigma_y; dp >= -1e-15; |tr eps_p| <= 1e-10 eps_y; dissipation >= -1e-12 sigma_y; tangent 2e-6 |C d|; solvers 1e-8; no internal variables 1e-13; plane stress: documented max(1e-8*max(sigma_y,1), 10*1e-10*C_zz)",
            "rate-dependent behaviours: instead of f <= 0 the documented overstress relation f = phi^-1(dp/dt) is demanded of flowing points",
            "simulation level: two Solves 'agree' = displacement within 1e-6 (relative) of the same Solve on a fresh simulation brought to the same committed state by Solve/Save_Iter",
            "kind relaw: the elastic law held by a live, already used behaviour is changed through its public setters (E x 1.6, nu 0.3 -> 0.2); all letter paths of depth 2, both local solvers, must equal (1e-9) those of a behaviour constructed with the new law",
        ],
        "explanation": "VERIF_SEED only picks the generic direction of the directional tangent check.",
    }
