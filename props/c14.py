"""C14 — after any sequence of changes a simulation behaves like a freshly built one.

E2, unmerged (cache and notification bookkeeping is what is under test, so two paths to the same observable
configuration do not share futures): every sequence of public mutating operations up to depth 2 (quick) / 3 (thorough),
caches primed by an observation before the first operation and after every operation ("observe after every op"), plus
the "observe only at the end" regime.  Oracle = differential: a NEW mesh from the current coordinates and connectivity,
a NEW model with the current parameter values, a NEW simulation with the same conditions, algorithm and state; the
matrices, solution and results of the live object must equal those of the fresh one."""
from __future__ import annotations

import contextlib
import io
import itertools
import shutil
import tempfile

import numpy as np

from mc.util import fp, rng, viol
from zoo import meshes as Z

PROPERTY = "C14"

MESHES = {
    "A2": lambda: Z.template_2d("TRI3", 2, distort=True),
    "A2m": lambda: Z.template_2d("TRI3", 2, distort=False),  # same connectivity and sizes as A2, other coordinates
    "A3m": lambda: Z.template_3d("TETRA4", 1, size=(1.3, 0.8, 1.1)),
    "S1m": lambda: Z.template_1d("SEG2", 3, graded=True, L=1.2),
    "B2": lambda: Z.template_2d("QUAD4", 2, distort=True),
    "A3": lambda: Z.template_3d("TETRA4", 1),
    "B3": lambda: Z.template_3d("HEXA8", [2, 1, 1]),
    "S1": lambda: Z.template_1d("SEG2", 3, L=1.2),
    "S2": lambda: Z.template_1d("SEG3", 2, L=1.2),
}


def _mesh(key, coords=None):
    zm = MESHES[key]()
    if coords is not None:
        zm = Z.ZooMesh(coords, zm.groups, {}, zm.name, zm.boundary)
    return zm.build()


def _quiet():
    return contextlib.redirect_stdout(io.StringIO())


# ------------------------------------------------------------------------------------------------
# scenarios
# ------------------------------------------------------------------------------------------------
class Scenario:
    name = ""
    mesh0, mesh1 = "A2", "B2"
    params0: dict = {}
    alt: dict = {}
    model_ops: list = []
    extra_ops: list = []
    dynamic = True

    # -- configuration record
    def new_cfg(self):
        return {"mesh": self.mesh0, "coords": None, "params": dict(self.params0), "rho": 1.3, "rayleigh": (0.0, 0.0),
                "bc": 0, "algo": ("elliptic",), "meshkeys": [self.mesh0], "saved": []}

    def make_model(self, cfg):
        raise NotImplementedError

    def make_simu(self, mesh, model, cfg):
        raise NotImplementedError

    def build(self, cfg, model=None):
        mesh = _mesh(cfg["mesh"], cfg["coords"])
        model = model if model is not None else self.make_model(cfg)
        simu = self.make_simu(mesh, model, cfg)
        simu.rho = cfg["rho"]
        self.set_rayleigh(simu, cfg)
        self.apply_bc(simu, cfg)
        self.set_algo(simu, cfg)
        return simu

    def set_rayleigh(self, simu, cfg):
        if hasattr(simu, "Set_Rayleigh_Damping_Coefs"):
            simu.Set_Rayleigh_Damping_Coefs(*cfg["rayleigh"])

    def set_algo(self, simu, cfg):
        from EasyFEA.Simulations.Solvers import AlgoType

        a = cfg["algo"]
        f = 0.5 if cfg.get("dt_alt") else 1.0  # op "dt": the same scheme defined again with another step
        if a[0] == "elliptic":
            simu.Solver_Set_Elliptic_Algorithm()
        elif a[0] == "parabolic":
            simu.Solver_Set_Parabolic_Algorithm(a[1] * f, a[2])
        else:
            simu.Solver_Set_Hyperbolic_Algorithm(a[1] * f, AlgoType[a[0]])

    def sides(self, mesh):
        x = mesh.coord
        c = x - x.mean(axis=0)
        # principal direction of the node cloud: numbering- and motion-independent selection of two opposite sides
        w, V = np.linalg.eigh(c.T @ c)
        s = c @ V[:, -1]
        if abs(s.min()) > abs(s.max()) or (abs(abs(s.min()) - abs(s.max())) < 1e-9 and V[np.argmax(np.abs(V[:, -1])), -1] < 0):
            s = -s
        lo = np.where(s < s.min() + 1e-6 * (s.max() - s.min()) + 1e-9)[0]
        hi = np.where(s > s.max() - 1e-6 * (s.max() - s.min()) - 1e-9)[0]
        return lo, hi

    def apply_bc(self, simu, cfg):
        simu.Bc_Init()
        if cfg["bc"] is None:
            return
        lo, hi = self.sides_by_index(simu.mesh, cfg)
        unk = simu.Get_unknowns()
        if cfg["bc"] == 3:
            # variant 3 ("freebc"): the load alone, NO Dirichlet condition (well posed under a time scheme only)
            self.load(simu, hi, unk, self.k(cfg))
            return
        simu.add_dirichlet(lo, [0.0] * len(unk), unk)
        if cfg["bc"] == 0:
            self.load(simu, hi, unk, self.k(cfg))
        elif cfg["bc"] == 1:
            simu.add_dirichlet(hi, [0.05 * self.k(cfg)], [unk[0]])
        else:
            # same number of conditions and of constrained dof entries as variant 1, on other dofs
            simu.add_dirichlet(hi, [0.03 * self.k(cfg)], [unk[-1]])

    @staticmethod
    def k(cfg):
        """load level: 1, or 1.7 once a dynamic observation has been made (so that a time step does not start from equilibrium: mass, damping
        and step size then matter to the observed solution)"""
        return 1.7 if cfg.get("kick") else 1.0

    def load(self, simu, hi, unk, f=1.0):
        # a DISTRIBUTED load on the boundary elements of the side (integrated over the boundary group: its geometric factors are part of the state)
        if simu.mesh.dim == 3:
            simu.add_surfLoad(hi, [0.4 * f], [unk[-1]])
        elif simu.mesh.dim == 2:
            simu.add_lineLoad(hi, [0.4 * f], [unk[-1]])
        else:
            simu.add_neumann(hi, [0.4 * f], [unk[-1]])

    def sides_by_index(self, mesh, cfg):
        # node sets are fixed by NODE INDEX of the template (independent of later motions of the coordinates)
        zm = MESHES[cfg["mesh"]]()
        x = zm.coords[:, 0]
        lo = np.where(np.abs(x - x.min()) < 1e-9)[0]
        hi = np.where(np.abs(x - x.max()) < 1e-9)[0]
        return lo, hi

    # -- state
    def get_state(self, simu):
        out = {}
        for pt in simu.Get_problemTypes():
            out[str(pt)] = (np.array(simu._Get_u_n(pt)), np.array(simu._Get_v_n(pt)), np.array(simu._Get_a_n(pt)))
        return out

    def set_state(self, simu, st):
        for pt in simu.Get_problemTypes():
            u, v, a = st[str(pt)]
            simu._Set_solutions(pt, u.copy(), v.copy(), a.copy())

    # -- observation
    def matrices(self, simu):
        out = {}
        for pt in simu.Get_problemTypes():
            try:
                mats = simu.Get_K_C_M_F(pt) if len(simu.Get_problemTypes()) > 1 else simu.Get_K_C_M_F()
            except TypeError:
                mats = simu.Get_K_C_M_F()
            for nm, A in zip("KCMF", mats):
                out[f"{pt}.{nm}"] = A.toarray()
                # the returned matrices belong to the caller: scribbling on them must not reach the simulation
                if A.nnz:
                    A.data[:] = -7.0
        return out

    result_names: list = []

    def kick(self, simu, cfg):
        if cfg["algo"][0] != "elliptic" and cfg["bc"] is not None and not cfg.get("kick"):
            cfg["kick"] = True
            self.apply_bc(simu, cfg)

    def observe(self, simu, cfg, solve=True):
        if solve:
            self.kick(simu, cfg)
        obs = self.matrices(simu)
        if solve and cfg["bc"] is not None:
            with _quiet():
                u = simu.Solve()
            obs["solve.u"] = np.array(u, dtype=float)
            for pt in simu.Get_problemTypes():
                obs[f"{pt}.v"] = np.array(simu._Get_v_n(pt), dtype=float)
            for nm in self.result_names:
                r = simu.Result(nm, nodeValues=False)
                obs["result." + nm] = np.atleast_1d(np.asarray(r, dtype=float))
        return obs

    # -- operations: each mutates the LIVE simulation through its public API and the record cfg
    def ops(self):
        return self.model_ops + ["rho", "rayleighM", "rayleighK", "translate", "rotate", "symmetry", "setcoord", "nudge", "query", "replacemesh", "rebc",
                                 "algo", "dt", "solve_save", "setiter0"] + self.extra_ops

    def apply(self, simu, cfg, op, live):
        """live: dict with 'model' (the live model) etc."""
        mesh = simu.mesh
        if op.endswith("_field"):
            # a per-element parameter field owned by the caller: first assignment of a fresh array, afterwards the SAME
            # array object is edited in place and assigned again (a legal way of updating a heterogeneous parameter)
            name = op[:-6]
            arr = live.get(op)
            Ne = simu.mesh.Ne
            if arr is None or arr.shape[0] != Ne:
                arr = np.linspace(1.0, 1.6, Ne) * float(np.mean(self.params0[name]))
                live[op] = arr
            else:
                arr *= 1.25
            cfg["params"][name] = arr.copy()
            self.set_param(live["model"], name, arr)
        elif op in self.alt:
            cur = cfg["params"][op]
            if isinstance(cur, np.ndarray):
                cur = self.alt[op]
            new = self.alt[op] if cur == self.params0[op] else self.params0[op]
            cfg["params"][op] = new
            self.set_param(live["model"], op, new)
        elif op == "rho":
            cfg["rho"] = 2.1 if cfg["rho"] == 1.3 else 1.3
            simu.rho = cfg["rho"]
        elif op in ("rayleighM", "rayleighK"):
            # the two coefficients are toggled separately: mass-proportional only, stiffness-proportional only, both, none
            a, b = cfg["rayleigh"]
            cfg["rayleigh"] = ((0.13 if a == 0.0 else 0.0), b) if op == "rayleighM" else (a, (0.07 if b == 0.0 else 0.0))
            self.set_rayleigh(simu, cfg)
        elif op == "translate":
            mesh.Translate(0.3, -0.2, 0.0 if mesh.inDim < 3 else 0.1)
        elif op == "rotate":
            mesh.Rotate(35.0, (0.1, 0.2, 0.0), (0, 0, 1))
        elif op == "symmetry":
            mesh.Symmetry((0.2, 0.0, 0.0), (1.0, 0.3, 0.0))
        elif op == "setcoord":
            x = mesh.coord
            y = x.copy()
            y[:, 0] = 1.4 * x[:, 0] + 0.2 * x[:, 1]
            y[:, 1] = 0.8 * x[:, 1]
            mesh.coord = y
        elif op == "query":
            # read-only use of the mesh between two assemblies: point location / evaluation at coordinates, boundary normals,
            # Gauss coordinates (these fill the same per-group caches the matrices are built from)
            from EasyFEA.FEM._utils import MatrixType

            g0 = mesh.Get_list_groupElem()[0]
            pts = np.asarray(mesh.coord)[np.asarray(g0.connect)[: min(3, g0.Ne)]].mean(axis=1)
            vals = np.arange(mesh.Nn, dtype=float)
            try:
                mesh.Evaluate_dofsValues_at_coordinates(pts, vals)
            except Exception:
                pass  # point location has its own property (C08); here only its side effects matter
            for g in mesh.Get_list_groupElem():
                g.Get_GaussCoordinates_e_pg(MatrixType.mass)
                g.Get_jacobian_e_pg(MatrixType.mass, absoluteValues=False)
        elif op == "nudge":
            # a very small, non-uniform move of the nodes (shape-sensitivity / finite-difference use): far above round-off
            # (2e-6 relative) but below the default tolerances of np.allclose
            x = mesh.coord
            y = x.copy()
            y[:, 0] = x[:, 0] * (1 + 2e-6)
            mesh.coord = y
        elif op == "replacemesh":
            # cycle: mesh0 -> same-size morph of mesh0 (same Nn, Ne, connectivity; other coordinates) -> mesh1 (other sizes) -> mesh0
            cyc = [self.mesh0] + ([self.mesh0 + "m"] if self.mesh0 + "m" in MESHES else []) + [self.mesh1]
            key = cyc[(cyc.index(cfg["mesh"]) + 1) % len(cyc)] if cfg["mesh"] in cyc else self.mesh0
            cfg["mesh"] = key
            cfg["coords"] = None
            cfg["meshkeys"].append(key)
            for pname, pval in list(cfg["params"].items()):
                if isinstance(pval, np.ndarray):
                    cfg["params"][pname] = self.params0[pname]
                    self.set_param(live["model"], pname, self.params0[pname])
            simu.mesh = self.replacement_mesh(key, live)
            # the mesh setter re-initialises conditions and solutions (documented in the setter): re-enter the conditions
            self.apply_bc(simu, cfg)
        elif op == "copymesh":
            # the simulation continues on a COPY of its current mesh (Mesh.copy(), taken after the assemblies already made on the original)
            simu.mesh = simu.mesh.copy()
            cfg["meshkeys"].append(cfg["mesh"])
            self.apply_bc(simu, cfg)
        elif op == "rebc":
            cfg["bc"] = {0: 1, 1: 2, 2: 0}.get(cfg["bc"], 0)
            self.apply_bc(simu, cfg)
        elif op == "freebc":
            # the conditions are cleared and only the load is entered again: nothing is prescribed any more. Admissible under a time
            # scheme (the mass / capacity matrix regularises the step); under the elliptic algorithm the operation selects variant 0
            cfg["bc"] = 3 if cfg["algo"][0] != "elliptic" else 0
            self.apply_bc(simu, cfg)
        elif op == "algo":
            if cfg["algo"][0] == "elliptic":
                cfg["algo"] = self.dyn_algo
            else:
                cfg["algo"] = ("elliptic",)
                if cfg["bc"] == 3:
                    cfg["bc"] = 0  # a static problem needs its supports back
                    self.apply_bc(simu, cfg)
            self.set_algo(simu, cfg)
        elif op == "dt":
            cfg["dt_alt"] = not cfg.get("dt_alt", False)
            self.set_algo(simu, cfg)
        elif op == "solve_save":
            with _quiet():
                simu.Solve()
            simu.Save_Iter()
            cfg["saved"].append(len(cfg["meshkeys"]) - 1)
        elif op == "solve_savedisk":
            # the same as "solve_save", the history then being written to disk (Save(folder), as a long computation does after a step):
            # from there on the meshes of the history are files, read back when an iteration saved on another mesh is restored
            with _quiet():
                simu.Solve()
            simu.Save_Iter()
            cfg["saved"].append(len(cfg["meshkeys"]) - 1)
            if "folder" not in live:
                live["folder"] = tempfile.mkdtemp(prefix="c14_")
            with _quiet():
                simu.Save(live["folder"])
        elif op == "setiter0":
            if not cfg["saved"]:
                return
            idx = cfg["saved"][0]
            if cfg["meshkeys"][idx] != cfg["mesh"]:
                # per-element parameter fields belong to the current mesh: back to scalars before switching mesh
                for pname, pval in list(cfg["params"].items()):
                    if isinstance(pval, np.ndarray):
                        cfg["params"][pname] = self.params0[pname]
                        self.set_param(live["model"], pname, self.params0[pname])
            simu.Set_Iter(0)
            cfg["mesh"] = cfg["meshkeys"][idx]
            # conditions refer to node indices of the mesh they were entered on: re-enter them for the restored mesh
            self.apply_bc(simu, cfg)
        else:
            self.apply_extra(simu, cfg, op, live)
        if op in ("translate", "rotate", "symmetry", "setcoord", "nudge"):
            # a distributed load is integrated when it is entered: the user enters the conditions again on the moved geometry
            self.apply_bc(simu, cfg)
        # the record follows the live coordinates (the oracle is differential: C08 owns the correctness of motions)
        cfg["coords"] = np.array(simu.mesh.coord, dtype=float)

    dyn_algo = ("newmark", 0.1)

    def replacement_mesh(self, key, live):
        return _mesh(key)

    def set_param(self, model, name, value):
        setattr(model, name, value)

    def apply_extra(self, simu, cfg, op, live):
        raise KeyError(op)


class ElasticScn(Scenario):
    name = "elastic"
    params0 = {"E": 2.0, "v": 0.3, "thickness": 0.7, "planeStress": True}
    alt = {"E": 3.5, "v": 0.1, "thickness": 1.2, "planeStress": False}
    model_ops = ["E", "v", "thickness", "planeStress", "E_field"]
    extra_ops = ["freebc"]
    result_names = ["Wdef", "Svm", "Exx"]

    def make_model(self, cfg):
        from EasyFEA import Models

        p = cfg["params"]
        return Models.Elastic.Isotropic(2, E=p["E"], v=p["v"], planeStress=p["planeStress"], thickness=p["thickness"])

    def make_simu(self, mesh, model, cfg):
        from EasyFEA import Simulations

        return Simulations.Elastic(mesh, model)


class Elastic3DScn(ElasticScn):
    name = "elastic3d"
    mesh0, mesh1 = "A3", "B3"
    params0 = {"E": 2.0, "v": 0.3}
    alt = {"E": 3.5, "v": 0.1}
    model_ops = ["E", "v"]

    def make_model(self, cfg):
        from EasyFEA import Models

        p = cfg["params"]
        return Models.Elastic.Isotropic(3, E=p["E"], v=p["v"])


class AnisoScn(ElasticScn):
    """Transversely isotropic law with material axes: parameter AND axis changes."""
    name = "elastic_trisot"
    params0 = {"El": 3.0, "Et": 1.2, "Gl": 0.7, "vl": 0.25, "vt": 0.3, "thickness": 0.7, "planeStress": True}
    alt = {"El": 4.5, "Et": 0.9, "Gl": 1.1, "vl": 0.1, "vt": 0.2, "thickness": 1.2, "planeStress": False}
    model_ops = ["El", "Et", "Gl", "vl", "vt", "thickness", "planeStress"]

    def make_model(self, cfg):
        from EasyFEA import Models

        p = cfg["params"]
        return Models.Elastic.TransverselyIsotropic(2, El=p["El"], Et=p["Et"], Gl=p["Gl"], vl=p["vl"], vt=p["vt"],
                                                    axis_l=np.array([np.cos(0.4), np.sin(0.4), 0.0]),
                                                    axis_t=np.array([-np.sin(0.4), np.cos(0.4), 0.0]),
                                                    planeStress=p["planeStress"], thickness=p["thickness"])


class ThermalScn(Scenario):
    name = "thermal"
    params0 = {"k": 1.5, "c": 0.8, "thickness": 0.7}
    alt = {"k": 2.5, "c": 1.6, "thickness": 1.2}
    model_ops = ["k", "c", "thickness"]
    extra_ops = ["freebc"]
    dyn_algo = ("parabolic", 0.1, 0.5)
    result_names = ["thermal"]

    def make_model(self, cfg):
        from EasyFEA import Models

        p = cfg["params"]
        return Models.Thermal(k=p["k"], c=p["c"], thickness=p["thickness"])

    def make_simu(self, mesh, model, cfg):
        from EasyFEA import Simulations

        return Simulations.Thermal(mesh, model)

    def ops(self):
        return [o for o in super().ops() if not o.startswith("rayleigh")]


class HyperScn(Scenario):
    name = "hyperelastic"
    params0 = {"K": 3.0, "thickness": 0.7}
    alt = {"K": 5.0, "thickness": 1.2}
    model_ops = ["K", "thickness"]
    dyn_algo = ("midpoint", 0.05)
    result_names = []

    def make_model(self, cfg):
        from EasyFEA import Models

        p = cfg["params"]
        return Models.HyperElastic.NeoHookean(2, K=p["K"], thickness=p["thickness"])

    def make_simu(self, mesh, model, cfg):
        from EasyFEA import Simulations

        return Simulations.HyperElastic(mesh, model)

    def ops(self):
        return [o for o in super().ops() if not o.startswith("rayleigh")]

    def apply_bc(self, simu, cfg):
        simu.Bc_Init()
        if cfg["bc"] is None:
            return
        lo, hi = self.sides_by_index(simu.mesh, cfg)
        unk = simu.Get_unknowns()
        simu.add_dirichlet(lo, [0.0] * len(unk), unk)
        if cfg["bc"] == 0:
            simu.add_neumann(hi, [0.02 * self.k(cfg)], [unk[-1]])
        else:
            simu.add_dirichlet(hi, [0.01 * self.k(cfg)], [unk[0]])

    def matrices(self, simu):
        # the tangent system only exists inside a Newton iteration: the observation is the solve (and the state it leaves)
        return {}

    def observe(self, simu, cfg, solve=True):
        obs = {}
        if cfg["bc"] is None:
            return obs
        self.kick(simu, cfg)
        try:
            with _quiet():
                u = simu.Solve()
        except AssertionError as err:
            if "did not converged" in str(err) or "det(F)" in str(err):
                return {"solve.nonconverged": np.array([1.0])}
            raise
        obs["solve.u"] = np.array(u, dtype=float)
        pt = simu.problemType
        obs[f"{pt}.v"] = np.array(simu._Get_v_n(pt), dtype=float)
        obs[f"{pt}.a"] = np.array(simu._Get_a_n(pt), dtype=float)
        return obs


class BeamScn(Scenario):
    name = "beam"
    mesh0, mesh1 = "S1", "S2"
    params0 = {"E": 200.0, "v": 0.3}
    alt = {"E": 320.0, "v": 0.2}
    model_ops = ["E", "v"]
    dyn_algo = ("newmark", 0.1)
    result_names = []

    def make_model(self, cfg):
        from EasyFEA import Models
        from EasyFEA.Geoms import Domain, Line, Point

        p = cfg["params"]
        with _quiet():
            sec = Domain(Point(-0.05, -0.08), Point(0.05, 0.08)).Mesh_2D()
        line = Line(Point(0, 0), Point(1.2, 0))
        self._beam = Models.Beam.Isotropic(2, line, sec, p["E"], p["v"])
        return Models.Beam.BeamStructure([self._beam])

    def set_param(self, model, name, value):
        setattr(model.beams[0], name, value)

    def make_simu(self, mesh, model, cfg):
        from EasyFEA import Simulations

        # beam elements are tagged per beam: every element belongs to the single beam
        for g in mesh.Get_list_groupElem():
            g.Set_Tag(g.nodes, model.beams[0].name) if hasattr(g, "Set_Tag") else None
        return Simulations.Beam(mesh, model)

    def ops(self):
        return [o for o in super().ops() if o not in ("rotate", "symmetry", "rayleighM", "rayleighK")]

    def replacement_mesh(self, key, live):
        # a plain line mesh, tagged with the name of the beam, as the constructor takes it (the public setter converts it to beam elements)
        mesh = _mesh(key)
        for g in mesh.Get_list_groupElem():
            g.Set_Tag(g.nodes, live["model"].beams[0].name)
        return mesh

    def apply(self, simu, cfg, op, live):
        if op == "setcoord":
            x = simu.mesh.coord
            y = x.copy()
            y[:, 0] = 1.4 * x[:, 0]
            simu.mesh.coord = y
            cfg["coords"] = np.array(simu.mesh.coord, dtype=float)
            return
        if op == "translate":
            simu.mesh.Translate(0.3, 0.0, 0.0)
            cfg["coords"] = np.array(simu.mesh.coord, dtype=float)
            return
        super().apply(simu, cfg, op, live)


class Beam3DScn(BeamScn):
    """3D beam with Iy != Iz: the section axis (yAxis) is a model parameter that turns the member's stiffness."""
    name = "beam3d"
    params0 = {"E": 200.0, "v": 0.3, "yAxis": (0.0, 1.0, 0.0)}
    alt = {"E": 320.0, "v": 0.2, "yAxis": (0.0, 0.6, 0.8)}
    model_ops = ["E", "v", "yAxis"]

    def make_model(self, cfg):
        from EasyFEA import Models
        from EasyFEA.Geoms import Domain, Line, Point

        p = cfg["params"]
        with _quiet():
            sec = Domain(Point(-0.05, -0.08), Point(0.05, 0.08)).Mesh_2D()
        line = Line(Point(0, 0), Point(1.2, 0))
        with _quiet():
            self._beam = Models.Beam.Isotropic(3, line, sec, p["E"], p["v"], yAxis=tuple(p["yAxis"]))
        return Models.Beam.BeamStructure([self._beam])

    def set_param(self, model, name, value):
        setattr(model.beams[0], name, tuple(value) if name == "yAxis" else value)

    # "yAxis_auto": the section axis is re-assigned with a vector collinear with the member (legal: the library then picks the axis itself)
    extra_ops = ["yAxis_auto"]

    def apply(self, simu, cfg, op, live):
        if op == "yAxis_auto":
            cfg["params"]["yAxis"] = (1.0, 0.0, 0.0)
            with _quiet():
                self.set_param(live["model"], "yAxis", (1.0, 0.0, 0.0))
            return
        return super().apply(simu, cfg, op, live)

    def apply_bc(self, simu, cfg):
        simu.Bc_Init()
        if cfg["bc"] is None:
            return
        lo, hi = self.sides_by_index(simu.mesh, cfg)
        unk = simu.Get_unknowns()
        simu.add_dirichlet(lo, [0.0] * len(unk), unk)
        if cfg["bc"] == 0:
            simu.add_neumann(hi, [0.4 * self.k(cfg), 0.25 * self.k(cfg)], ["y", "z"])
        else:
            simu.add_dirichlet(hi, [0.05 * self.k(cfg), 0.02 * self.k(cfg)], ["y", "z"])


class PhaseFieldScn(Scenario):
    """Two-field simulation: only the displacement problem's system (which depends on (u, d) and the parameters) is
    compared; the damage system depends on the private history field which a fresh simulation cannot be given."""
    name = "phasefield"
    params0 = {"Gc": 1.0, "l0": 0.3, "E": 2.0}
    alt = {"Gc": 1.7, "l0": 0.45, "E": 3.5}
    model_ops = ["Gc", "l0", "E"]
    dynamic = False
    result_names = ["Wdef"] if False else []

    def make_model(self, cfg):
        from EasyFEA import Models

        p = cfg["params"]
        self._mat = Models.Elastic.Isotropic(2, E=p["E"], v=0.3, planeStress=False, thickness=0.7)
        # Bourdin split: the displacement system depends on the damage only (with a strain-sign dependent split the matrix kept after a solve is
        # the one of the PREVIOUS displacement by design, which a fresh twin given the new displacement cannot reproduce)
        return Models.PhaseField(self._mat, Models.PhaseField.SplitType.Bourdin, Models.PhaseField.ReguType.AT2, Gc=p["Gc"], l0=p["l0"])

    def set_param(self, model, name, value):
        if name == "E":
            model.material.E = value
        else:
            setattr(model, name, value)

    def make_simu(self, mesh, model, cfg):
        from EasyFEA import Simulations

        return Simulations.PhaseField(mesh, model)

    def ops(self):
        return [o for o in super().ops() if o not in ("rayleighM", "rayleighK", "algo", "dt", "rho")]

    def apply_bc(self, simu, cfg):
        simu.Bc_Init()
        if cfg["bc"] is None:
            return
        lo, hi = self.sides_by_index(simu.mesh, cfg)
        simu.add_dirichlet(lo, [0.0, 0.0], ["x", "y"])
        simu.add_dirichlet(hi, [0.02 if cfg["bc"] == 0 else 0.035], ["x"])

    def matrices(self, simu):
        from EasyFEA.Simulations._problem_type import ProblemType

        out = {}
        pts = simu.Get_problemTypes()
        pt = [p for p in pts if "isplacement" in str(p) or "elastic" in str(p).lower()]
        pt = pt[0] if pt else pts[0]
        mats = simu.Get_K_C_M_F(pt)
        for nm, A in zip("KCMF", mats):
            out[f"{pt}.{nm}"] = A.toarray()
        return out

    def observe(self, simu, cfg, solve=True):
        # solving advances the private history field: the observation is the displacement system only
        return self.matrices(simu)


class PhaseFieldHDScn(PhaseFieldScn):
    """damage-based irreversibility (solver HistoryDamage: the damage kept is max(previous, newly solved)), Bourdin split (K(d) only),
    loads ordered so that the FIRST boundary-condition variant is the highest one: solve, re-enter lower loads, solve = an unloading
    step in which the stored damage is not the one the last displacement system was assembled with."""
    name = "phasefield_hd"

    def make_model(self, cfg):
        from EasyFEA import Models

        p = cfg["params"]
        PF = Models.PhaseField
        self._mat = Models.Elastic.Isotropic(2, E=p["E"], v=0.3, planeStress=False, thickness=0.7)
        return PF(self._mat, PF.SplitType.Bourdin, PF.ReguType.AT2, Gc=p["Gc"], l0=p["l0"], solver=PF.SolverType.HistoryDamage)

    def apply_bc(self, simu, cfg):
        simu.Bc_Init()
        if cfg["bc"] is None:
            return
        lo, hi = self.sides_by_index(simu.mesh, cfg)
        simu.add_dirichlet(lo, [0.0, 0.0], ["x", "y"])
        simu.add_dirichlet(hi, [{0: 0.6, 1: 0.15, 2: 0.3}[cfg["bc"]]], ["x"])

    def matrices(self, simu):
        # with the damage-based solver the damage system is a function of (u, d) and the parameters only (no private history field):
        # both systems are compared
        return Scenario.matrices(self, simu)

    def observe(self, simu, cfg, solve=True):
        out = self.matrices(simu)
        out["Wdef"] = np.atleast_1d(np.asarray(simu.Result("Wdef"), dtype=float))
        return out


class InElasticScn(HyperScn):
    """History-dependent material below its yield stress (no internal variable ever becomes non-zero, so a fresh simulation given the live
    displacement is in the same state): the Newton path of `Simulations.InElastic` over the same geometric caches and parameter observers.
    Parameters: the elastic law held by the behaviour (E), thickness, plane stress / plane strain."""
    name = "inelastic"
    params0 = {"E": 2.0, "thickness": 0.7, "planeStress": False}
    alt = {"E": 3.5, "thickness": 1.2, "planeStress": True}
    model_ops = ["E", "thickness", "planeStress"]
    dynamic = False

    def make_model(self, cfg):
        from EasyFEA import Models

        p = cfg["params"]
        el = Models.Elastic.Isotropic(3, E=p["E"], v=0.3)
        return Models.InElastic.Behavior(2, el, yieldSurface=Models.InElastic.Yield.VonMises(50.0),
                                         hardening=Models.InElastic.IsotropicHardening.Linear(0.2),
                                         planeStress=p["planeStress"], thickness=p["thickness"])

    def set_param(self, model, name, value):
        if name == "E":
            model.elastic.E = value
        else:
            setattr(model, name, value)

    def make_simu(self, mesh, model, cfg):
        from EasyFEA import Simulations

        return Simulations.InElastic(mesh, model)

    def ops(self):
        return [o for o in Scenario.ops(self) if o not in ("rayleighM", "rayleighK", "algo", "dt", "rho")]

    def observe(self, simu, cfg, solve=True):
        obs = {}
        if cfg["bc"] is None:
            return obs
        with _quiet():
            u = simu.Solve()
        obs["solve.u"] = np.array(u, dtype=float)
        obs["result.Svm"] = np.atleast_1d(np.asarray(simu.Result("Svm", nodeValues=False), dtype=float))
        return obs


class WeakFormsScn(Scenario):
    """User-written forms (reaction-diffusion with capacity and mass terms and a source): the model owns a `Field` bound to the element group, the
    forms close over a coefficient the user may change (followed by the documented `Need_Update()`), `thickness` is the model's own parameter.
    No mesh replacement (a Field is bound to the element group of the mesh it was created on)."""
    name = "weakforms"
    params0 = {"k": 1.5, "thickness": 0.7}
    alt = {"k": 2.5, "thickness": 1.2}
    model_ops = ["k", "thickness"]
    dyn_algo = ("newmark", 0.1)
    result_names = ["u"]

    def make_model(self, cfg):
        return None  # needs the mesh: built in build()

    def build(self, cfg, model=None):
        from EasyFEA import Models, Simulations
        from EasyFEA.FEM import BiLinearForm, Field, LinearForm

        mesh = _mesh(cfg["mesh"], cfg["coords"])
        coef = {"k": cfg["params"]["k"]}
        field = Field(mesh.groupElem, 1)
        wf = Models.WeakForms(field,
                              computeK=BiLinearForm(lambda u, v: coef["k"] * u.grad.dot(v.grad) + 0.3 * u.dot(v)),
                              computeC=BiLinearForm(lambda u, v: 0.5 * coef["k"] * u.dot(v)),
                              computeM=BiLinearForm(lambda u, v: (0.8 + 0.1 * coef["k"]) * u.dot(v)),
                              computeF=LinearForm(lambda v: 0.4 * v),
                              thickness=cfg["params"]["thickness"])
        simu = Simulations.WeakForms(mesh, wf)
        self.__dict__.setdefault('_coef_of', {})[id(simu)] = (simu, coef)  # keeps simu alive: ids stay unique
        self.apply_bc(simu, cfg)
        self.set_algo(simu, cfg)
        return simu

    def ops(self):
        return [o for o in super().ops() if o not in ("rayleighM", "rayleighK", "rho", "replacemesh")]

    def apply(self, simu, cfg, op, live):
        if op == "k":
            new = self.alt["k"] if cfg["params"]["k"] == self.params0["k"] else self.params0["k"]
            cfg["params"]["k"] = new
            self._coef_of[id(simu)][1]["k"] = new
            simu.Need_Update()  # the documented way of telling a simulation that something its forms read has changed
            cfg["coords"] = np.array(simu.mesh.coord, dtype=float)
            return
        if op == "thickness":
            new = self.alt[op] if cfg["params"][op] == self.params0[op] else self.params0[op]
            cfg["params"][op] = new
            simu.model.thickness = new
            cfg["coords"] = np.array(simu.mesh.coord, dtype=float)
            return
        super().apply(simu, cfg, op, live)

    def apply_bc(self, simu, cfg):
        simu.Bc_Init()
        if cfg["bc"] is None:
            return
        lo, hi = self.sides_by_index(simu.mesh, cfg)
        unk = simu.Get_unknowns()
        simu.add_dirichlet(lo, [0.0], unk)
        if cfg["bc"] == 0:
            simu.add_neumann(hi, [0.4 * self.k(cfg)], unk)
        else:
            simu.add_dirichlet(hi, [(0.05 if cfg["bc"] == 1 else 0.03) * self.k(cfg)], unk)


SCENARIOS = {s.name: s for s in (ElasticScn, Elastic3DScn, AnisoScn, ThermalScn, HyperScn, BeamScn, Beam3DScn, PhaseFieldScn, PhaseFieldHDScn, InElasticScn, WeakFormsScn)}
QUICK_SCN = ["elastic", "thermal", "hyperelastic", "beam", "beam3d", "phasefield", "elastic_trisot", "elastic3d", "phasefield_hd", "inelastic", "weakforms"]


def cases(tier, seed):
    out = []
    depth = 2 if tier == "quick" else 3
    for name in QUICK_SCN:
        ops = SCENARIOS[name]().ops()
        for seq in itertools.product(ops, repeat=depth):
            out.append({"kind": "history", "scn": name, "ops": list(seq), "regime": "each"})
        # observe only at the end (no cache priming in between); one more step of depth
        d2 = depth + 1 if tier == "quick" else depth
        if name in ("elastic", "thermal", "beam") or tier == "thorough":
            for seq in itertools.product(ops, repeat=d2):
                out.append({"kind": "history", "scn": name, "ops": list(seq), "regime": "end"})
    if tier == "quick":
        # mesh-history interplay at depth 3 with an observation after every operation (reduced alphabet)
        sub = ["solve_save", "replacemesh", "setiter0", "rotate", "rebc"]
        for name in ("elastic", "thermal", "beam", "phasefield_hd"):
            ops = [o for o in sub if o in SCENARIOS[name]().ops()]
            for seq in itertools.product(ops, repeat=3):
                out.append({"kind": "history", "scn": name, "ops": list(seq), "regime": "each"})
    if tier == "quick":
        # a restored earlier mesh of the history that is then changed in place: depth 4 over {solve+save, replace mesh, restore iteration 0, re-coordinate}
        # the same histories with the history kept in memory (solve_save) and written to disk after every saved step (solve_savedisk)
        for save in ("solve_save", "solve_savedisk"):
            sub = [save, "replacemesh", "copymesh", "setiter0", "setcoord"]
            for name in ("elastic", "thermal", "beam"):
                for seq in itertools.product(sub, repeat=4):
                    if seq[0] == save and (seq[1] in ("replacemesh", "copymesh") or seq[2] in ("replacemesh", "copymesh")) and "setiter0" in seq[2:]:
                        out.append({"kind": "history", "scn": name, "ops": list(seq), "regime": "each"})
    for what in ("replace_mesh", "useTimoshenko"):
        out.append({"kind": "public", "what": what})
    # the cross-section of a beam (a Mesh the beam hands out by reference): replaced through the public setter, moved in place
    for dim in (2, 3):
        for theory in ("euler", "timoshenko"):
            for seq in itertools.product(SECTION_OPS, repeat=2):
                out.append({"kind": "public", "what": "section_ops", "ops": list(seq), "dim": dim, "theory": theory})
    # one model shared by two simulations
    for name in ("elastic", "thermal", "elastic_trisot"):
        mops = [o for o in SCENARIOS[name]().model_ops if not o.endswith("_field")]
        for seq in itertools.product(mops, repeat=2):
            for pattern in ("AB", "BA", "A", "B"):
                out.append({"kind": "shared", "scn": name, "ops": list(seq), "pattern": pattern})
    return out


def describe(tier, seed):
    depth = 2 if tier == "quick" else 3
    return {
        "rule": f"E2 unmerged: for each of {len(QUICK_SCN)} simulation scenarios (elastic 2D/3D, transversely isotropic with axes, thermal, hyperelastic, beam 2D, beam 3D with a section axis, phase-field with history / damage-based irreversibility, history-dependent material (InElastic) below yield, user weak forms (WeakForms) with a coefficient its forms close over) every sequence of its public mutating operations "
                f"(11-19 per scenario: each model parameter, rho, each Rayleigh coefficient toggled separately, Translate, Rotate, Symmetry, coordinate assignment, mesh replacement, "
                f"re-entered conditions, algorithm switch, solve+save, restore iteration 0) of length {depth} with an observation (matrices, solve, results) "
                f"after every operation, and of length {depth + 1 if tier == 'quick' else depth} with one observation at the end; caches are primed by an observation before the first operation. "
                "Shared-model regime: all ordered pairs of parameter assignments on a model observed by two simulations, four observation patterns. "
                f"Public beam operations: mesh replacement and theory switch through the public setters; every ordered pair of the {len(SECTION_OPS)} operations on the cross-section of a beam "
                "(section = another section mesh assigned, section_translate / section_rotate / section_scale = the section mesh handed out by beam.section moved in place by Translate, Rotate(90), coordinate assignment) "
                "x {Euler-Bernoulli, Timoshenko} x {2D, 3D}, stiffness matrix and solution compared with a new beam on a new section mesh after every operation. "
                "non-trivial = the observed matrices changed along the history; distinct = fingerprint of all observations",
        "exhaustive": True,
        "bound": f"depth {depth} (observe after each op) / {depth + 1 if tier == 'quick' else depth} (observe at the end)" + ("; depth 3 over 5 mesh / restore operations; depth 4 over {solve+save, replace mesh, copy mesh, restore, re-coordinate} for histories that save, replace the mesh and restore, "
                                                                                                                   "each with the history kept in memory (solve_save) and written to disk by Save(folder) after every saved step (letter solve_savedisk: the meshes of the history are then files)"
                                                                                                                   "; depth 2 over the 4 cross-section operations of a beam" if tier == "quick" else "; depth 2 over the 4 cross-section operations of a beam"),
        "alphabet": dict({name: len(SCENARIOS[name]().ops()) for name in QUICK_SCN}, beam_section_ops=len(SECTION_OPS)),
        "assumptions": ["differential oracle: the fresh simulation is given the live coordinates, the live state (u, v, a through the public getters) and the harness's record of parameters/conditions",
                        "conditions are re-entered after mesh replacement / iteration restore (the mesh setter documents that it re-initialises them) and after every motion of the nodes (distributed loads are integrated when entered)",
                        "phase-field: only the displacement system is compared (the damage system depends on a private history field)",
                        "inelastic: loads stay below the yield stress (a fresh simulation cannot be handed internal variables); observed through Solve() and Svm",
                        "weakforms: no mesh replacement (the model owns a Field bound to the element group); a changed closure coefficient is followed by the documented Need_Update()",
                        "cross-section of a beam: the fresh beam is given a new section mesh with the live section's shape and coordinates; only motions that keep the section legal for the constructor (principal axes along x, y) are applied",
                        "solve_savedisk writes to a temporary folder removed at the end of the case; an exception of the live simulation during an operation or an observation is a violation (check `exception`, keyed by the history)",
                        "tolerance 1e-11 relative on matrices, 1e-8 on solutions and results"],
    }


def _compare(obs_live, obs_fresh, key, where, tolM=1e-11, tolS=1e-8):
    v = []
    for k in sorted(obs_fresh):
        a, b = obs_live.get(k), obs_fresh[k]
        if a is None or a.shape != b.shape:
            v.append(viol("stale_shape", f"{where}: {k} has shape {None if a is None else a.shape}, a fresh simulation gives {b.shape}", what=k.split('.')[-1], **key))
            continue
        sc = max(np.abs(b).max(), np.abs(a).max(), 1e-300) if b.size else 1.0
        tol = tolM if k.split(".")[-1] in "KCMF" else tolS
        if k.split(".")[-1] not in "KCMF":
            sc = max(sc, 1e-5)  # solutions and results of these scenarios are O(1e-2 .. 10): a field of pure round-off (a = 1e-14 at equilibrium) is not compared digit by digit
        if not (np.all(np.isfinite(a)) and np.all(np.isfinite(b))):
            if np.array_equal(np.isfinite(a), np.isfinite(b)):
                continue
            v.append(viol("stale", f"{where}: {k} non-finite pattern differs from a fresh simulation", what=k.split('.')[-1], **key))
            continue
        err = np.abs(a - b).max() if b.size else 0.0
        if err > tol * sc:
            v.append(viol("stale", f"{where}: {k} differs from a freshly built simulation by {err:.3e} (scale {sc:.2e})", what=k.split('.')[-1], **key))
    return v


def _raised(err, key, where):
    """the property promises matrices, a solution and results after every history: an exception of the LIVE simulation is a violation
    (same check name and `type` factor as the runner gives an escaping exception, plus the history that names the failing input)"""
    import traceback

    tb = traceback.extract_tb(err.__traceback__)
    at = f"{tb[-1].filename.split('/')[-1]}:{tb[-1].lineno} in {tb[-1].name}" if tb else "?"
    return viol("exception", f"{where}: {type(err).__name__}: {str(err)[:160] or '(no message)'} [{at}]", type=type(err).__name__, **key)


def _fresh_obs(scn, cfg, state, solve=True):
    import copy

    c2 = {k: (v.copy() if isinstance(v, np.ndarray) else copy.deepcopy(v)) for k, v in cfg.items()}
    s2 = scn.build(c2)
    scn.set_state(s2, state)
    return scn.observe(s2, c2, solve)


def _run_history(case):
    scn = SCENARIOS[case["scn"]]()
    cfg = scn.new_cfg()
    model = scn.make_model(cfg)
    simu = scn.build(cfg, model=model)
    live = {"model": model}
    key = dict(scn=case["scn"], regime=case["regime"])
    v, fps, ntr = [], [], 0
    # prime every cache
    first = scn.observe(simu, cfg)
    fps.append(fp(*[first[k] for k in sorted(first)]))
    done = []
    try:
        for i, op in enumerate(case["ops"]):
            done.append(op)
            try:
                scn.apply(simu, cfg, op, live)
            except Exception as err:
                v.append(_raised(err, dict(key, ops="+".join(done)), f"operation {op} after {done[:-1]}"))
                break
            ntr += 1
            last = i == len(case["ops"]) - 1
            if case["regime"] == "each" or last:
                state = scn.get_state(simu)
                fresh = _fresh_obs(scn, cfg, state)
                try:
                    obs = scn.observe(simu, cfg)
                except Exception as err:
                    v.append(_raised(err, dict(key, ops="+".join(done)), f"observation (matrices, solve, results) after {done}"))
                    break
                ntr += 1
                fps.append(fp(*[obs[k] for k in sorted(obs)]))
                vv = _compare(obs, fresh, dict(key, ops="+".join(done)), f"after {done}")
                if vv:
                    v += vv
                    break
    finally:
        if "folder" in live:
            shutil.rmtree(live["folder"], ignore_errors=True)
    return {"violations": v[:4], "fingerprint": fp(case["scn"], case["regime"], fps), "nontrivial": len(set(fps)) > 1, "transitions": ntr}


def _run_shared(case):
    scn = SCENARIOS[case["scn"]]()
    cfgA = scn.new_cfg()
    cfgB = scn.new_cfg()
    cfgB["mesh"] = scn.mesh1
    cfgB["meshkeys"] = [scn.mesh1]
    cfgB["bc"] = 1
    model = scn.make_model(cfgA)
    A = scn.build(cfgA, model=model)
    B = scn.build(cfgB, model=model)
    live = {"model": model}
    key = dict(scn=case["scn"], regime="shared", pattern=case["pattern"])
    v, fps, ntr = [], [], 0
    scn.observe(A, cfgA)
    scn.observe(B, cfgB)
    done = []
    sims = {"A": (A, cfgA), "B": (B, cfgB)}
    for i, op in enumerate(case["ops"]):
        done.append(op)
        # parameter change on the SHARED model (record kept in both configurations)
        cur = cfgA["params"][op]
        new = scn.alt[op] if cur == scn.params0[op] else scn.params0[op]
        cfgA["params"][op] = new
        cfgB["params"][op] = new
        scn.set_param(model, op, new)
        ntr += 1
        last = i == len(case["ops"]) - 1
        which = "AB" if last and len(case["pattern"]) == 1 else case["pattern"]
        if last and len(case["pattern"]) == 1:
            which = ("B" if case["pattern"] == "A" else "A") + case["pattern"]
        for w in which:
            s, c = sims[w]
            fresh = _fresh_obs(scn, c, scn.get_state(s))
            obs = scn.observe(s, c)
            ntr += 1
            fps.append(fp(*[obs[k] for k in sorted(obs)]))
            vv = _compare(obs, fresh, dict(key, ops="+".join(done), sim=w), f"shared model, simulation {w} after {done}")
            v += vv
        if v:
            break
    return {"violations": v[:4], "fingerprint": fp(case["scn"], case["pattern"], fps), "nontrivial": len(set(fps)) > 1, "transitions": ntr}


SECTION_OPS = ["section", "section_translate", "section_rotate", "section_scale"]


def _section_zoo(shape):
    """cross-sections as template meshes (no gmsh), centred on their centre of gravity, symmetric about both axes: a b x h rectangle and an
    I (flanges over the whole width, web of a third of it) whose shear correction factors are far from the rectangle's"""
    if shape == "rect":
        zm = Z.template_2d("QUAD4", (2, 3), size=(0.10, 0.16))
        coords, groups = zm.coords.copy(), dict(zm.groups)
    else:
        zm = Z.template_2d("QUAD4", (6, 6), size=(0.12, 0.18))
        con = zm.groups["QUAD4"]
        c = zm.coords[con].mean(axis=1)
        flange = (c[:, 1] < 0.03) | (c[:, 1] > 0.15)
        web = np.abs(c[:, 0] - 0.06) < 0.02
        con = con[flange | web]
        used = np.unique(con)
        renum = -np.ones(zm.coords.shape[0], dtype=int)
        renum[used] = np.arange(used.size)
        coords, groups = zm.coords[used].copy(), {"QUAD4": renum[con]}
    coords[:, :2] -= 0.5 * (coords[:, :2].min(axis=0) + coords[:, :2].max(axis=0))
    return Z.ZooMesh(coords, groups, {}, "section_" + shape, Z.compute_boundary(coords, groups))


def _run_public_section(case):
    """E2 over the public operations on the cross-section of a beam, observation (stiffness matrix, solution) after every operation:
    `section` = another section assigned through the setter (rectangle <-> I), `section_translate` = beam.section.Translate(...) (a beam
    centres its section on its centre of gravity), `section_rotate` = beam.section.Rotate(90) (the section laid flat),
    `section_scale` = beam.section.coord = stretched coordinates.  Oracle: a new beam built on a new section mesh with the
    live section's shape and coordinates, in a new simulation of the same theory."""
    from EasyFEA import Models, Simulations
    from EasyFEA.Geoms import Line, Point

    dim, theory = case["dim"], case["theory"]
    key = dict(scn="beam", regime="public", theory=theory, dim=dim)

    def build(shape, coords=None):
        zm = _section_zoo(shape)
        if coords is not None:
            zm = Z.ZooMesh(coords, zm.groups, {}, zm.name, zm.boundary)
        beam = Models.Beam.Isotropic(dim, Line(Point(0, 0), Point(1.2, 0)), zm.build(), 200.0, 0.3)
        mesh = _mesh("S2")
        for g in mesh.Get_list_groupElem():
            g.Set_Tag(g.nodes, beam.name)
        with _quiet():
            simu = Simulations.Beam(mesh, Models.Beam.BeamStructure([beam]), useTimoshenko=(theory == "timoshenko"))
        return simu, beam

    def observe(simu):
        x = np.asarray(simu.mesh.coord)[:, 0]
        lo, hi = np.where(np.abs(x - x.min()) < 1e-9)[0], np.where(np.abs(x - x.max()) < 1e-9)[0]
        unk = simu.Get_unknowns()
        simu.Bc_Init()
        simu.add_dirichlet(lo, [0.0] * len(unk), unk)
        if dim == 2:
            simu.add_neumann(hi, [0.1, 0.4], ["x", "y"])
        else:
            simu.add_neumann(hi, [0.1, 0.4, 0.25, 0.05], ["x", "y", "z", "rx"])
        obs = {"beam.K": simu.Get_K_C_M_F()[0].toarray()}
        with _quiet():
            obs["solve.u"] = np.array(simu.Solve(), dtype=float)
        return obs

    simu, beam = build("rect")
    shape = "rect"
    first = observe(simu)
    fps, v, ntr, done = [fp(*[first[k] for k in sorted(first)])], [], 0, []
    for op in case["ops"]:
        done.append(op)
        k = dict(key, ops="+".join(done))
        try:
            with _quiet():
                if op == "section":
                    shape = "I" if shape == "rect" else "rect"
                    beam.section = _section_zoo(shape).build()
                elif op == "section_translate":
                    beam.section.Translate(0.02, -0.03)
                elif op == "section_rotate":
                    beam.section.Rotate(90.0)
                else:
                    sec = beam.section
                    sec.coord = sec.coord * np.array([1.3, 0.8, 1.0])
            ntr += 1
            fresh = observe(build(shape, np.array(beam.section.coord, dtype=float))[0])
            obs = observe(simu)
            ntr += 1
        except Exception as err:
            v.append(_raised(err, k, f"beam ({dim}D, {theory}): {op} after {done[:-1]}"))
            break
        fps.append(fp(*[obs[kk] for kk in sorted(obs)]))
        v += _compare(obs, fresh, k, f"beam ({dim}D, {theory}) after {done} on its cross-section")
        if v:
            break
    return {"violations": v[:4], "fingerprint": fp("public_section", dim, theory, fps), "nontrivial": len(set(fps)) > 1, "transitions": ntr}


def _run_public(case):
    """operations of the beam simulation that the history scenarios can only carry out with a private helper: replacing the mesh through the
    public setter (a plain line mesh, as a user has it), and switching the beam theory through its public parameter; operations on the
    cross-section of a beam (`section_ops`)"""
    from EasyFEA import Models, Simulations
    from EasyFEA.Geoms import Domain, Line, Point

    if case["what"] == "section_ops":
        return _run_public_section(case)
    what = case["what"]
    key = dict(scn="beam", regime="public", what=what)
    v = []

    def build(meshkey, timo):
        with _quiet():
            sec = Domain(Point(-0.05, -0.08), Point(0.05, 0.08)).Mesh_2D()
        beam = Models.Beam.Isotropic(2, Line(Point(0, 0), Point(1.2, 0)), sec, 200.0, 0.3)
        mesh = _mesh(meshkey)
        for g in mesh.Get_list_groupElem():
            g.Set_Tag(g.nodes, beam.name)
        simu = Simulations.Beam(mesh, Models.Beam.BeamStructure([beam]), useTimoshenko=timo)
        return simu, beam

    def load_and_solve(simu):
        x = np.asarray(simu.mesh.coord)[:, 0]
        lo, hi = np.where(np.abs(x - x.min()) < 1e-9)[0], np.where(np.abs(x - x.max()) < 1e-9)[0]
        simu.Bc_Init()
        simu.add_dirichlet(lo, [0.0, 0.0, 0.0], ["x", "y", "rz"])
        simu.add_neumann(hi, [0.4], ["y"])
        with _quiet():
            return np.array(simu.Solve(), dtype=float)

    simu, beam = build("S1", False)
    load_and_solve(simu)
    try:
        if what == "replace_mesh":
            new = _mesh("S2")
            for g in new.Get_list_groupElem():
                g.Set_Tag(g.nodes, beam.name)
            simu.mesh = new
            fresh, _ = build("S2", False)
        else:
            simu.useTimoshenko = True
            fresh, _ = build("S1", True)
        u = load_and_solve(simu)
    except Exception as err:
        return {"violations": [viol("public_operation_raises", f"beam: {what} through the public API, then Solve: {type(err).__name__}: {str(err)[:120] or '(no message)'}", **key)],
                "fingerprint": fp("public", what), "nontrivial": True, "transitions": 3}
    uref = load_and_solve(fresh)
    if u.shape != uref.shape or np.abs(u - uref).max() > 1e-8 * np.abs(uref).max():
        v.append(viol("stale", f"beam: after {what} through the public API the solution differs from a freshly built simulation by "
                               f"{(np.abs(u - uref).max() / np.abs(uref).max()) if u.shape == uref.shape else float('inf'):.3e}", **key))
    return {"violations": v, "fingerprint": fp("public", what, uref), "nontrivial": True, "transitions": 4}


def run_case(case):
    return globals()["_run_" + case["kind"]](case)
